/*
 * iotrace: LD_PRELOAD recorder / fault injector / write pauser for one directory.
 *
 * Records, for paths under $IOTRACE_DIR, every call that can change the directory or a file
 * in it:  create/open-for-write, write (with the bytes), fsync/fdatasync, unlink, and any
 * call of a kind the store is never supposed to make (rename, truncate, pwrite, writable
 * mmap, open for writing without O_CREAT|O_EXCL|O_APPEND ...), which is logged as `illegal`.
 *
 * The log is an in-memory buffer the harness drains through iotrace_drain(); the harness
 * finds the control functions with dlsym(RTLD_DEFAULT, ...). One line per call:
 *   open <seq> <name> <flags-hex> <result>
 *   write <seq> <name> <requested> <written|-errno> <hex of the bytes written>
 *   fsync <seq> <name> <result>
 *   unlink <seq> <name> <result>
 *   illegal <seq> <what> <name>
 * <seq> counts recorded mutating calls since the last iotrace_reset(); a fault armed with
 * iotrace_fail_at(seq, errno) makes exactly that call fail without touching the file.
 */
#define _GNU_SOURCE
#include <dlfcn.h>
#include <errno.h>
#include <fcntl.h>
#include <pthread.h>
#include <stdarg.h>
#include <stdio.h>
#include <stdlib.h>
#include <string.h>
#include <sys/mman.h>
#include <sys/prctl.h>
#include <sys/stat.h>
#include <sys/types.h>
#include <sys/uio.h>
#include <sys/socket.h>
#include <time.h>
#include <unistd.h>

#define MAXFD 4096
static char *fdname[MAXFD];     /* tracked fds opened for writing */
static char dirpfx[4096];
static size_t dirlen = 0;
static int enabled = 0;
static pthread_mutex_t mu = PTHREAD_MUTEX_INITIALIZER;

static char *logbuf = NULL;
static size_t loglen = 0, logcap = 0;
static long seq = 0;
static long fail_seq = -1;
static int fail_errno = 0;
static long fail_partial = -1;   /* for a write: write this many bytes, then fail the NEXT write */
static void (*write_hook)(const char *name, size_t len) = NULL;
/* tracked calls by the store's own background threads (its worker thread and the blocking pool of the
   worker's runtime) and by everybody else, since the last iotrace_take_counts() */
static long n_bg = 0, n_fg = 0;

static int (*real_open64)(const char *, int, ...);
static int (*real_open)(const char *, int, ...);
static int (*real_openat)(int, const char *, int, ...);
static ssize_t (*real_write)(int, const void *, size_t);
static ssize_t (*real_writev)(int, const struct iovec *, int);
static ssize_t (*real_pwrite64)(int, const void *, size_t, off_t);
static int (*real_fsync)(int);
static int (*real_fdatasync)(int);
static int (*real_unlink)(const char *);
static int (*real_unlinkat)(int, const char *, int);
static int (*real_close)(int);
static int (*real_rename)(const char *, const char *);
static int (*real_renameat)(int, const char *, int, const char *);
static int (*real_truncate64)(const char *, off_t);
static int (*real_ftruncate64)(int, off_t);
static void *(*real_mmap)(void *, size_t, int, int, int, off_t);
static void *(*real_mmap64)(void *, size_t, int, int, int, off_t);

/* transient failures of accept(2): the next `fail_accepts` calls fail with `fail_accept_errno` */
static int (*real_accept4)(int, struct sockaddr *, socklen_t *, int);
static int (*real_accept)(int, struct sockaddr *, socklen_t *);
static volatile long fail_accepts = 0, failed_accepts = 0;
static volatile int fail_accept_errno = 0;
/* a stepped wall clock: CLOCK_REALTIME readings are shifted by this many nanoseconds */
static int (*real_clock_gettime)(clockid_t, struct timespec *);
static volatile long long clock_shift_ns = 0;
/* a wall clock that stands still (a coarse clock, or writes faster than its resolution): every reading is the same */
static volatile int clock_frozen = 0;
static struct timespec frozen_ts;

static void init(void) __attribute__((constructor));
static void init(void) {
    real_open64 = dlsym(RTLD_NEXT, "open64");
    real_accept4 = dlsym(RTLD_NEXT, "accept4");
    real_accept = dlsym(RTLD_NEXT, "accept");
    real_clock_gettime = dlsym(RTLD_NEXT, "clock_gettime");
    real_open = dlsym(RTLD_NEXT, "open");
    real_openat = dlsym(RTLD_NEXT, "openat");
    real_write = dlsym(RTLD_NEXT, "write");
    real_writev = dlsym(RTLD_NEXT, "writev");
    real_pwrite64 = dlsym(RTLD_NEXT, "pwrite64");
    real_fsync = dlsym(RTLD_NEXT, "fsync");
    real_fdatasync = dlsym(RTLD_NEXT, "fdatasync");
    real_unlink = dlsym(RTLD_NEXT, "unlink");
    real_unlinkat = dlsym(RTLD_NEXT, "unlinkat");
    real_close = dlsym(RTLD_NEXT, "close");
    real_rename = dlsym(RTLD_NEXT, "rename");
    real_renameat = dlsym(RTLD_NEXT, "renameat");
    real_truncate64 = dlsym(RTLD_NEXT, "truncate64");
    real_ftruncate64 = dlsym(RTLD_NEXT, "ftruncate64");
    real_mmap = dlsym(RTLD_NEXT, "mmap");
    real_mmap64 = dlsym(RTLD_NEXT, "mmap64");
}

static void logf_(const char *fmt, ...) {
    char tmp[8300];
    va_list ap;
    va_start(ap, fmt);
    int n = vsnprintf(tmp, sizeof tmp, fmt, ap);
    va_end(ap);
    if (n < 0) return;
    if ((size_t)n >= sizeof tmp) n = sizeof tmp - 1;
    if (loglen + n + 1 > logcap) {
        size_t nc = logcap ? logcap * 2 : 1 << 16;
        while (nc < loglen + n + 1) nc *= 2;
        logbuf = realloc(logbuf, nc);
        logcap = nc;
    }
    memcpy(logbuf + loglen, tmp, n);
    loglen += n;
}

static void loghex(const unsigned char *p, size_t n) {
    static const char hx[] = "0123456789abcdef";
    if (loglen + 2 * n + 2 > logcap) {
        size_t nc = logcap ? logcap * 2 : 1 << 16;
        while (nc < loglen + 2 * n + 2) nc *= 2;
        logbuf = realloc(logbuf, nc);
        logcap = nc;
    }
    for (size_t i = 0; i < n; i++) {
        logbuf[loglen++] = hx[p[i] >> 4];
        logbuf[loglen++] = hx[p[i] & 15];
    }
}

static void note_thread(void) {
    char nm[32] = {0};
    prctl(PR_GET_NAME, nm, 0, 0, 0);
    if (strncmp(nm, "bitcask-backgro", 15) == 0 || strncmp(nm, "tokio-runtime-w", 15) == 0) __sync_fetch_and_add(&n_bg, 1);
    else __sync_fetch_and_add(&n_fg, 1);
}

static const char *tracked(const char *path) {
    if (!enabled || !path) return NULL;
    if (strncmp(path, dirpfx, dirlen) == 0 && path[dirlen] == '/') return path + dirlen + 1;
    return NULL;
}

/* ---- control API (found by the harness with dlsym) ---- */
void iotrace_set_dir(const char *dir) {
    pthread_mutex_lock(&mu);
    strncpy(dirpfx, dir, sizeof dirpfx - 1);
    dirlen = strlen(dirpfx);
    enabled = dirlen > 0;
    pthread_mutex_unlock(&mu);
}
void iotrace_reset(void) {
    pthread_mutex_lock(&mu);
    loglen = 0; seq = 0; fail_seq = -1; fail_partial = -1;
    pthread_mutex_unlock(&mu);
}
/* copy and clear the log; returns the number of bytes copied (truncated to cap) */
size_t iotrace_drain(char *out, size_t cap) {
    pthread_mutex_lock(&mu);
    size_t n = loglen < cap ? loglen : cap;
    memcpy(out, logbuf, n);
    memmove(logbuf, logbuf + n, loglen - n);
    loglen -= n;
    pthread_mutex_unlock(&mu);
    return n;
}
size_t iotrace_pending(void) { return loglen; }
long iotrace_seq(void) { return seq; }
void iotrace_fail_at(long s, int err) {
    pthread_mutex_lock(&mu);
    fail_seq = s; fail_errno = err;
    pthread_mutex_unlock(&mu);
}
void iotrace_set_write_hook(void (*h)(const char *, size_t)) { write_hook = h; }
void iotrace_take_counts(long *bg, long *fg) {
    *bg = __sync_lock_test_and_set(&n_bg, 0);
    *fg = __sync_lock_test_and_set(&n_fg, 0);
}

/* returns 1 if this call must fail */
static int take_fault(long s) {
    if (fail_seq >= 0 && s == fail_seq) { fail_seq = -1; return 1; }
    return 0;
}

static int do_open(const char *path, int flags, mode_t mode, int which, int dirfd) {
    const char *name = (dirfd == AT_FDCWD || which != 2) ? tracked(path) : NULL;
    int wr = (flags & O_ACCMODE) != O_RDONLY || (flags & (O_CREAT | O_TRUNC));
    if (name && wr) {
        pthread_mutex_lock(&mu);
        long s = seq++; note_thread();
        int need = O_CREAT | O_EXCL | O_APPEND;
        if ((flags & need) != need || (flags & O_TRUNC))
            logf_("illegal %ld open-flags-%x %s\n", s, flags, name);
        if (take_fault(s)) {
            logf_("open %ld %s %x -%d\n", s, name, flags, fail_errno);
            pthread_mutex_unlock(&mu);
            errno = fail_errno;
            return -1;
        }
        int fd = which == 0 ? real_open64(path, flags, mode)
               : which == 1 ? real_open(path, flags, mode)
                            : real_openat(dirfd, path, flags, mode);
        int e = errno;
        logf_("open %ld %s %x %d\n", s, name, flags, fd >= 0 ? 0 : -e);
        if (fd >= 0 && fd < MAXFD) { free(fdname[fd]); fdname[fd] = strdup(name); }
        pthread_mutex_unlock(&mu);
        errno = e;
        return fd;
    }
    {
        int fd = which == 0 ? real_open64(path, flags, mode)
               : which == 1 ? real_open(path, flags, mode)
                            : real_openat(dirfd, path, flags, mode);
        int e = errno;
        if (fd >= 0 && fd < MAXFD && fdname[fd]) {   /* a reused number must not inherit a store file's name */
            pthread_mutex_lock(&mu);
            free(fdname[fd]); fdname[fd] = NULL;
            pthread_mutex_unlock(&mu);
        }
        errno = e;
        return fd;
    }
}

int open64(const char *path, int flags, ...) {
    mode_t mode = 0;
    if (flags & (O_CREAT | O_TMPFILE)) { va_list ap; va_start(ap, flags); mode = va_arg(ap, mode_t); va_end(ap); }
    return do_open(path, flags, mode, 0, AT_FDCWD);
}
int open(const char *path, int flags, ...) {
    mode_t mode = 0;
    if (flags & (O_CREAT | O_TMPFILE)) { va_list ap; va_start(ap, flags); mode = va_arg(ap, mode_t); va_end(ap); }
    return do_open(path, flags, mode, 1, AT_FDCWD);
}
int openat(int dirfd, const char *path, int flags, ...) {
    mode_t mode = 0;
    if (flags & (O_CREAT | O_TMPFILE)) { va_list ap; va_start(ap, flags); mode = va_arg(ap, mode_t); va_end(ap); }
    return do_open(path, flags, mode, 2, dirfd);
}
int openat64(int dirfd, const char *path, int flags, ...) {
    mode_t mode = 0;
    if (flags & (O_CREAT | O_TMPFILE)) { va_list ap; va_start(ap, flags); mode = va_arg(ap, mode_t); va_end(ap); }
    return do_open(path, flags, mode, 2, dirfd);
}

static const char *name_of(int fd) { return (enabled && fd >= 0 && fd < MAXFD) ? fdname[fd] : NULL; }

ssize_t write(int fd, const void *buf, size_t n) {
    const char *name = name_of(fd);
    if (!name) return real_write(fd, buf, n);
    if (write_hook) write_hook(name, n);
    pthread_mutex_lock(&mu);
    long s = seq++; note_thread();
    if (take_fault(s)) {
        logf_("write %ld %s %zu -%d \n", s, name, n, fail_errno);
        pthread_mutex_unlock(&mu);
        errno = fail_errno;
        return -1;
    }
    ssize_t r = real_write(fd, buf, n);
    int e = errno;
    if (r >= 0) { logf_("write %ld %s %zu %zd ", s, name, n, r); loghex(buf, (size_t)r); logf_("\n"); }
    else logf_("write %ld %s %zu -%d \n", s, name, n, e);
    pthread_mutex_unlock(&mu);
    errno = e;
    return r;
}

ssize_t writev(int fd, const struct iovec *iov, int cnt) {
    const char *name = name_of(fd);
    if (!name) return real_writev(fd, iov, cnt);
    /* serve a vectored write as a plain write of its first non-empty buffer (a short write) */
    for (int i = 0; i < cnt; i++)
        if (iov[i].iov_len) return write(fd, iov[i].iov_base, iov[i].iov_len);
    return 0;
}

ssize_t pwrite64(int fd, const void *buf, size_t n, off_t off) {
    const char *name = name_of(fd);
    if (name) { pthread_mutex_lock(&mu); logf_("illegal %ld pwrite %s\n", seq++, name); pthread_mutex_unlock(&mu); }
    return real_pwrite64(fd, buf, n, off);
}

static int do_sync(int fd, int data) {
    const char *name = name_of(fd);
    if (!name) return data ? real_fdatasync(fd) : real_fsync(fd);
    pthread_mutex_lock(&mu);
    long s = seq++; note_thread();
    if (take_fault(s)) {
        logf_("fsync %ld %s -%d\n", s, name, fail_errno);
        pthread_mutex_unlock(&mu);
        errno = fail_errno;
        return -1;
    }
    int r = data ? real_fdatasync(fd) : real_fsync(fd);
    int e = errno;
    logf_("fsync %ld %s %d\n", s, name, r == 0 ? 0 : -e);
    pthread_mutex_unlock(&mu);
    errno = e;
    return r;
}
int fsync(int fd) { return do_sync(fd, 0); }
int fdatasync(int fd) { return do_sync(fd, 1); }

static int do_unlink(const char *path, int at, int dirfd, int flags) {
    const char *name = (!at || dirfd == AT_FDCWD) ? tracked(path) : NULL;
    if (!name) return at ? real_unlinkat(dirfd, path, flags) : real_unlink(path);
    pthread_mutex_lock(&mu);
    /* removing a file that does not exist is not a mutating call: not numbered, not faultable */
    struct stat st;
    if (stat(path, &st) != 0) {
        pthread_mutex_unlock(&mu);
        return at ? real_unlinkat(dirfd, path, flags) : real_unlink(path);
    }
    long s = seq++; note_thread();
    if (take_fault(s)) {
        logf_("unlink %ld %s -%d\n", s, name, fail_errno);
        pthread_mutex_unlock(&mu);
        errno = fail_errno;
        return -1;
    }
    int r = at ? real_unlinkat(dirfd, path, flags) : real_unlink(path);
    int e = errno;
    logf_("unlink %ld %s %d\n", s, name, r == 0 ? 0 : -e);
    pthread_mutex_unlock(&mu);
    errno = e;
    return r;
}
int unlink(const char *path) { return do_unlink(path, 0, 0, 0); }
int unlinkat(int dirfd, const char *path, int flags) { return do_unlink(path, 1, dirfd, flags); }

int close(int fd) {
    /* always forget the name, also while recording is switched off: descriptor numbers are reused */
    if (fd >= 0 && fd < MAXFD && fdname[fd]) {
        pthread_mutex_lock(&mu);
        free(fdname[fd]); fdname[fd] = NULL;
        pthread_mutex_unlock(&mu);
    }
    return real_close(fd);
}

int rename(const char *a, const char *b) {
    const char *n = tracked(a); if (!n) n = tracked(b);
    if (n) { pthread_mutex_lock(&mu); logf_("illegal %ld rename %s\n", seq++, n); pthread_mutex_unlock(&mu); }
    return real_rename(a, b);
}
int renameat(int ad, const char *a, int bd, const char *b) {
    const char *n = tracked(a); if (!n) n = tracked(b);
    if (n) { pthread_mutex_lock(&mu); logf_("illegal %ld rename %s\n", seq++, n); pthread_mutex_unlock(&mu); }
    return real_renameat(ad, a, bd, b);
}
int truncate64(const char *p, off_t l) {
    const char *n = tracked(p);
    if (n) { pthread_mutex_lock(&mu); logf_("illegal %ld truncate %s\n", seq++, n); pthread_mutex_unlock(&mu); }
    return real_truncate64(p, l);
}
int truncate(const char *p, off_t l) { return truncate64(p, l); }
int ftruncate64(int fd, off_t l) {
    const char *n = name_of(fd);
    if (n) { pthread_mutex_lock(&mu); logf_("illegal %ld ftruncate %s\n", seq++, n); pthread_mutex_unlock(&mu); }
    return real_ftruncate64(fd, l);
}
int ftruncate(int fd, off_t l) { return ftruncate64(fd, l); }

static void note_mmap(int prot, int flags, int fd) {
    const char *n = name_of(fd);
    if (n && (prot & PROT_WRITE) && (flags & MAP_SHARED)) {
        pthread_mutex_lock(&mu); logf_("illegal %ld mmap-write %s\n", seq++, n); pthread_mutex_unlock(&mu);
    }
}
void *mmap(void *a, size_t l, int prot, int flags, int fd, off_t off) {
    note_mmap(prot, flags, fd);
    return real_mmap(a, l, prot, flags, fd, off);
}
void *mmap64(void *a, size_t l, int prot, int flags, int fd, off_t off) {
    note_mmap(prot, flags, fd);
    return (real_mmap64 ? real_mmap64 : real_mmap)(a, l, prot, flags, fd, off);
}

/* ---- accept(2) and the wall clock ---- */
void iotrace_fail_accepts(long n, int err) { fail_accept_errno = err; failed_accepts = 0; fail_accepts = n; }
long iotrace_failed_accepts(void) { return failed_accepts; }
void iotrace_clock_shift(long long ns) { clock_shift_ns = ns; }
void iotrace_clock_freeze(int on) {
    if (on) { clock_frozen = 0; clock_gettime(CLOCK_REALTIME, &frozen_ts); clock_frozen = 1; }
    else clock_frozen = 0;
}

static int accept_fault(void) {
    if (fail_accepts > 0 && __sync_fetch_and_sub(&fail_accepts, 1) > 0) {
        __sync_fetch_and_add(&failed_accepts, 1);
        errno = fail_accept_errno;
        return 1;
    }
    return 0;
}
int accept4(int fd, struct sockaddr *a, socklen_t *l, int flags) {
    if (!real_accept4) real_accept4 = dlsym(RTLD_NEXT, "accept4");
    if (accept_fault()) return -1;
    return real_accept4(fd, a, l, flags);
}
int accept(int fd, struct sockaddr *a, socklen_t *l) {
    if (!real_accept) real_accept = dlsym(RTLD_NEXT, "accept");
    if (accept_fault()) return -1;
    return real_accept(fd, a, l);
}
int clock_gettime(clockid_t id, struct timespec *ts) {
    if (!real_clock_gettime) real_clock_gettime = dlsym(RTLD_NEXT, "clock_gettime");
    int r = real_clock_gettime(id, ts);
    if (r == 0 && id == CLOCK_REALTIME && clock_frozen) { *ts = frozen_ts; return 0; }
    if (r == 0 && id == CLOCK_REALTIME && clock_shift_ns != 0) {
        long long t = (long long)ts->tv_sec * 1000000000LL + ts->tv_nsec + clock_shift_ns;
        ts->tv_sec = t / 1000000000LL;
        ts->tv_nsec = t % 1000000000LL;
    }
    return r;
}
