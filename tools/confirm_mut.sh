#!/bin/sh
# confirm_mut.sh <worktree> : confirm a seeded change independently in its scratch worktree:
#  (a) existing suite passes with the patch, (b) demo fails with it, (c) demo passes without it.
W="$1"; cd "$W" || exit 2
export CARGO_NET_OFFLINE=true CARGO_TARGET_DIR="$W/target"
DEMO=$(python3 -c "import json;print(json.load(open('mutation/meta.json')).get('demo_cmd',''))")
git checkout -q -- src 2>/dev/null
git apply mutation/patch.diff || { echo "PATCH-FAILS-TO-APPLY"; exit 1; }
echo "--- suite with patch"; cargo test --offline --lib 2>&1 | grep -E "^test result" | head -3
echo "--- demo with patch (expect failure): $DEMO"; (eval "$DEMO") > /tmp/demo_with.$$ 2>&1; echo "rc=$?"; grep -E "test result|panicked|FAILED|assert" /tmp/demo_with.$$ | head -5
git apply -R mutation/patch.diff
echo "--- demo without patch (expect pass)"; (eval "$DEMO") > /tmp/demo_without.$$ 2>&1; echo "rc=$?"; grep -E "test result" /tmp/demo_without.$$ | head -3
rm -f /tmp/demo_with.$$ /tmp/demo_without.$$
git status --short | head -5
