"""C07 (parser totality / exactness) and C08 (encode/decode round trip, chunking independence)."""
import itertools
import random

from vlib import *

ALPHABET = [b"+", b"-", b":", b"$", b"*", b"\r", b"\n", b"0", b"1", b"9", b"a"]
I64MIN, I64MAX = -2**63, 2**63 - 1


def hx(b):
    return b.hex() if b else "-"


# ---------------------------------------------------------------------------------------------
# python reference (independent oracle): frames as tuples

def enc_py(f):
    t = f[0]
    if t == "S":
        return b"+" + f[1] + b"\r\n"
    if t == "E":
        return b"-" + f[1] + b"\r\n"
    if t == "I":
        return b":" + str(f[1]).encode() + b"\r\n"
    if t == "B":
        return b"$" + str(len(f[1])).encode() + b"\r\n" + f[1] + b"\r\n"
    if t == "N":
        return b"$-1\r\n"
    if t == "A":
        return b"*" + str(len(f[1])).encode() + b"\r\n" + b"".join(enc_py(x) for x in f[1])
    raise ValueError(t)


def frame_text(f):
    t = f[0]
    if t in "SEB":
        return f"{t}:{f[1].hex()}"
    if t == "I":
        return f"I:{f[1]}"
    if t == "N":
        return "N"
    return "A[" + ",".join(frame_text(x) for x in f[1]) + "]"


UTF8_SAMPLES = ["", "OK", "héllo", "日本", "😀x", "a b\tc", "\x00\x7f"]


def gen_text(rng):
    if rng.random() < 0.5:
        return rng.choice(UTF8_SAMPLES).encode()
    n = rng.choice([0, 1, 2, 5, 17, 60])
    s = "".join(rng.choice("abcXYZ09 -+:$*é日😀\t\x00") for _ in range(n))
    return s.encode()


def gen_bulk(rng, big=True):
    r = rng.random()
    if r < 0.15:
        return b""
    if r < 0.5:
        return bytes(rng.choice([13, 10, 0, 255, 36, 42, 45, 58, 48, 97]) for _ in range(rng.randint(1, 12)))
    if r < 0.9 or not big:
        return bytes(rng.getrandbits(8) for _ in range(rng.randint(1, 80)))
    n = rng.choice([8191, 8192, 8193, 20000, 70000])
    return bytes([rng.getrandbits(8)]) * n


def gen_int(rng):
    r = rng.random()
    if r < 0.4:
        return rng.choice([0, 1, -1, 9, 10, -10, I64MAX, I64MIN, I64MAX - 1, I64MIN + 1, 10**17, 10**18, -10**18,
                           10**18 - 1, 999999999999999999, -999999999999999999, 1000000000000000000])
    d = rng.randint(1, 19)
    v = rng.randint(0, 10**d - 1)
    v = min(v, I64MAX)
    return -v if rng.random() < 0.4 else v


def gen_single(rng, big=True):
    k = rng.choice("SEIBBNI")
    if k in "SE":
        return (k, gen_text(rng))
    if k == "I":
        return ("I", gen_int(rng))
    if k == "B":
        return ("B", gen_bulk(rng, big))
    return ("N",)


def gen_wf(rng, big=True):
    """a frame `write_frame` can emit: non-array, or array of non-arrays"""
    if rng.random() < 0.35:
        n = rng.choice([0, 1, 2, 3, 5, 20])
        return ("A", [gen_single(rng, big and n < 4) for _ in range(n)])
    return gen_single(rng, big)


def segmentations(rng, data, k=4):
    """ways of cutting `data` into non-empty segments"""
    out = []
    if not data:
        return [[]]
    out.append([data])
    if len(data) <= 64:
        out.append([data[i:i + 1] for i in range(len(data))])
    for _ in range(k):
        cuts = sorted(set(rng.randint(1, len(data) - 1) for _ in range(rng.randint(1, 6)))) if len(data) > 1 else []
        segs, last = [], 0
        for c in cuts + [len(data)]:
            if c > last:
                segs.append(data[last:c])
                last = c
        out.append(segs)
    return out


def every_single_cut(data):
    return [[data[:i], data[i:]] for i in range(1, len(data))]


# ---------------------------------------------------------------------------------------------

def both(lines, stack=None):
    """run the request lines through the real code and the model; returns (impl, model, died)"""
    args = ["resp"] + (["--stack", str(stack)] if stack else [])
    died = None
    try:
        impl = run_harness(args, lines, timeout=1200)
    except Died as d:
        impl, died = d.answered, d
    model = run_driver(lines, timeout=1200)
    return impl, model, died


def shrink_bytes(data, fails):
    """greedy chunk removal; `fails(list of candidates) -> index of first failing or None`"""
    n = max(1, len(data) // 2)
    while n >= 1 and len(data) > 1:
        cands = [data[:i] + data[i + n:] for i in range(0, len(data), n)]
        cands = [c for c in cands if c]
        idx = fails(cands) if cands else None
        if idx is not None:
            data = cands[idx]
            n = max(1, min(n, len(data) // 2))
        else:
            if n == 1:
                break
            n //= 2
    return data


def c07_cases(rng, tier):
    cases = []   # (tag, bytes)
    L = 5 if tier == "quick" else 6       # thorough additionally streams all length-7 strings in chunks (run_c07)
    for n in range(0, L + 1):
        for t in itertools.product(ALPHABET, repeat=n):
            cases.append(("alpha", b"".join(t)))
    # numbers at every offset / digit count
    nums = []
    for d in range(1, 23):
        nums += ["9" * d, "1" + "0" * (d - 1), "0" * d, "1" * d]
    nums += [str(v) for v in (I64MAX, I64MAX + 1, I64MIN, I64MIN - 1, 10**18, 10**19, -10**19, 2**64, 2**64 + 5)]
    nums += ["+" + str(I64MAX), "+" + str(I64MAX + 1), "-0", "+0", "-", "+", "", "00000000000000000000001", "-00000000000000000009223372036854775808"]
    nums += [str(I64MAX)[:-1] + c for c in "6789"] + [str(I64MIN)[:-1] + c for c in "789"]
    # random long numbers (19..24 digits): wrap-around values that happen to land inside i64 must still be rejected
    for _ in range(1500 if tier == "quick" else 20000):
        d = rng.randint(19, 24)
        num = str(rng.randint(10 ** (d - 1), 10 ** d - 1))
        if rng.random() < 0.3:
            num = "-" + num
        cases.append(("num", b":" + num.encode() + b"\r\n"))
        if rng.random() < 0.2:
            cases.append(("len", b"$" + num.encode() + b"\r\nhello\r\n"))
    # a run of d digits (d = 1..70, with and without a sign) that is ended by a byte which is not a digit: ASCII, control and
    # non-ASCII bytes (the error path echoes what it read: every length of the echoed text and every kind of last byte)
    enders = [b"x", b" ", b"\n", b"\r", b"\x00", b"\x7f", b"\x80", b"\xbf", b"\xc3", b"\xc3\xa9", b"\xe2\x82", b"\xf0\x9f\x98", b"\xff", b".", b"-", b"+"]
    for d in range(1, 71):
        for sign in (b"", b"-", b"+"):
            digits = sign + (b"1" + b"0" * (d - 1) if d % 2 else b"9" * d)
            for e in (enders if (d < 40 or tier != "quick") else enders[:8]):
                for kind in (b":", b"$", b"*"):
                    cases.append(("num-ender", kind + digits + e + b"\r\n"))
                    if d in (29, 30, 31, 32, 33):
                        cases.append(("num-ender", b"*2\r\n:1\r\n" + kind + digits + e + b"\r\n"))
    # a byte that is not a decimal digit at every position of a short number line: every byte value 0..255 (the neighbours of
    # '0'..'9' in the code table, their high-bit and low-nibble look-alikes, letters, controls), as integer, bulk length (with
    # a payload that fits the length a lenient reading would give) and array length
    for c in range(256):
        if 48 <= c <= 57:
            continue
        cb = bytes([c])
        for txt in (cb, b"1" + cb, cb + b"1", b"1" + cb + b"2", b"12" + cb):
            if txt[:1] in b"+-" and txt[1:].isdigit():
                continue
            if cb in b"\r\n" and tier == "quick" and len(txt) > 2:
                continue
            cases.append(("num-foreign", b":" + txt + b"\r\n"))
            if len(txt) <= 2 or tier != "quick":
                cases.append(("num-foreign", b"$" + txt + b"\r\n" + b"x" * ((c & 15) + (10 if len(txt) > 1 and txt[:1] == b"1" else 0)) + b"\r\n"))
                cases.append(("num-foreign", b"*" + txt + b"\r\n" + b":1\r\n" * (c & 15)))
    for k in range(1, 40):
        cases.append(("num", b":" + str(2**64 * k + rng.randint(0, 9)).encode() + b"\r\n"))
        cases.append(("num", b":-" + str(2**64 * k + rng.randint(0, 9)).encode() + b"\r\n"))
    offs = list(range(0, 49)) if tier == "thorough" else [0, 1, 5, 9, 13, 14, 15, 16, 17, 18, 19, 20, 21, 30, 48]
    for num in nums:
        for pad in offs:
            body = b":" + num.encode() + b"\r\n"
            if pad == 0:
                cases.append(("num", body))
            else:
                p = bytes([97]) * pad
                cases.append(("num", b"*2\r\n$" + str(pad).encode() + b"\r\n" + p + b"\r\n" + body))
        # as bulk / array lengths
        cases.append(("len", b"$" + num.encode() + b"\r\nabc\r\n"))
        cases.append(("len", b"*" + num.encode() + b"\r\n:1\r\n"))
    # valid messages, all truncations, mutations
    msgs = []
    for _ in range(300 if tier == "quick" else 3000):
        f = gen_wf(rng, big=False)
        msgs.append(enc_py(f))
    for m in msgs:
        cases.append(("valid", m))
        if len(m) <= 200:
            for i in range(len(m)):
                cases.append(("trunc", m[:i]))
        for _ in range(3):
            if m:
                b = bytearray(m)
                i = rng.randrange(len(b))
                b[i] = rng.choice([13, 10, 36, 42, 43, 45, 58, 48, 57, 0, 255, rng.getrandbits(8)])
                cases.append(("mut", bytes(b)))
    # null variants / negative lengths / non-utf8 simple strings / odd line endings
    for s in [b"$-1\r\n", b"$-1\rX", b"$-1\r", b"$-2\r\n", b"$-10\r\n", b"$-abc", b"$-\r\n\r\n", b"*-1\r\n", b"*0\r\n",
              b"+\xff\xfe\r\n", b"-\xc0\x80\r\n", b"+ok\rX", b"+ok\n", b"+a\rb\r\n", b":1\rX", b"$3\r\nabcXY", b"$3\r\nab",
              b"$0\r\n\r\n", b"*1\r\n*1\r\n*1\r\n:5\r\n", b":" + b"9" * 400 + b"\r\n", b"$9223372036854775807\r\n",
              b"*9223372036854775807\r\n", b"$9223372036854775806\r\nab", b"*3\r\n:1\r\n"]:
        cases.append(("special", s))
    # nesting depths (deep ones are answered on a small stack too)
    for depth in [1, 2, 31, 32, 33, 34, 100, 10**4] + ([2 * 10**5] if True else []):
        cases.append(("nest", b"*1\r\n" * depth + b":1\r\n"))
        cases.append(("nest", b"*1\r\n" * depth))
    return cases


def run_c07(rep, tier, seed):
    rng = random.Random(seed)
    cases = c07_cases(rng, tier)
    seen = set()
    uniq = []
    for tag, b in cases:
        if b not in seen:
            seen.add(b)
            uniq.append((tag, b))
    lines = []
    for tag, b in uniq:
        lines.append("check " + hx(b))
        lines.append("parse " + hx(b))
    impl, model, died = both(lines)
    rep.cov["evaluations"] += len(lines)
    nviol = 0

    kind_count = {}

    def report(kind, b, what, exp, got):
        nonlocal nviol
        nviol += 1
        kind_count[kind] = kind_count.get(kind, 0) + 1
        if kind_count[kind] > (4 if kind == "oracle" else 2):
            return

        def fails(cands):
            ls = []
            for c in cands:
                ls += ["check " + hx(c), "parse " + hx(c)]
            i2, m2, d2 = both(ls)
            for j in range(len(cands)):
                a = i2[2 * j:2 * j + 2]
                if len(a) < 2 or "panic" in a or a != m2[2 * j:2 * j + 2]:
                    return j
            return None
        small = shrink_bytes(b, fails) if len(b) <= 4000 else b
        rep.violation(kind, dict(what=what, input_hex=small.hex(), original_hex=b.hex() if len(b) < 400 else f"{len(b)} bytes",
                                 expected=exp, observed=got, replay_line="check " + hx(small)))

    if died is not None:
        k = len(impl)
        tag, b = uniq[k // 2]
        report("oracle", b, f"harness process died / hung ({died.why}) while answering `{lines[k][:80]}`: the RESP code aborted the process",
               model[k] if k < len(model) else "?", "process death")
    for i, (tag, b) in enumerate(uniq):
        if 2 * i + 1 >= len(impl):
            break
        ic, ip = impl[2 * i], impl[2 * i + 1]
        mc, mp = model[2 * i], model[2 * i + 1]
        rep.count("tag:" + tag)
        rep.count("check:" + ic.split(" ")[0] + ("-" + ic.split(" ")[1] if ic.startswith("err") else ""))
        if ic.startswith("ok") or ic.startswith("err"):
            rep.nontrivial(["c07", b.hex()])
        # direct oracles on the real code
        if "panic" in (ic, ip):
            report("oracle", b, "RESP check/parse panicked", f"check: {mc}; parse: {mp}", f"check: {ic}; parse: {ip}")
            continue
        if ic.startswith("ok") and ip.startswith("ok") and ic.split(" ")[1] != ip.split(" ")[1]:
            report("oracle", b, "check accepted n bytes but parse succeeded with a different length", mc, f"{ic} / {ip}")
            continue
        # correspondence
        if ic != mc or ip != mp:
            report("correspondence", b, "model and implementation disagree on check/parse", f"check: {mc}; parse: {mp}",
                   f"check: {ic}; parse: {ip}")
    # integer exactness oracle (independent bignum parse): EVERY input whose first frame is `:<sign?><digits>\r...`
    import re as _re
    for i, (tag, b) in enumerate(uniq):
        if 2 * i + 1 >= len(impl):
            break
        mnum = _re.match(rb":([+-]?[0-9]+)\r", b)
        ip = impl[2 * i + 1]
        if mnum and ip.startswith("ok ") and " I:" in ip:
            v = int(mnum.group(1))
            got = int(ip.split(" I:")[1])
            if got != v or not (I64MIN <= v <= I64MAX):
                report("oracle", b, "an accepted integer does not have the value written (or is outside i64)", f"I:{v}" if I64MIN <= v <= I64MAX else "err notinteger", ip)
        # whatever is accepted as a number was written as one: the line after `:`, `$` or `*` is an optional sign and decimal digits
        if ip.startswith("ok ") and b[:1] in b":$*" and b"\r" in b:
            txt = b[1:b.index(b"\r")]
            if not _re.fullmatch(rb"[+-]?[0-9]+", txt):
                report("oracle", b, "a line that is not a decimal number was read as a number (" + {58: "integer", 36: "bulk length", 42: "array length"}[b[0]] + ")", "err", ip[:80])
        mlen = _re.match(rb"\$([+]?[0-9]+)\r\n", b)
        if mlen and ip.startswith("ok ") and " B:" in ip:
            n = int(mlen.group(1))
            blen = len(ip.split(" B:")[1]) // 2
            if blen != n:
                report("oracle", b, "a bulk string was accepted with a length different from the one written", f"length {n}", ip[:80])
    for i, (tag, b) in enumerate(uniq):
        if tag == "num" and b.startswith(b":") and 2 * i + 1 < len(impl):
            txt = b[1:-2].decode()
            ip = impl[2 * i + 1]
            body = txt[1:] if txt[:1] in "+-" else txt
            if body.isdigit():
                v = int(txt)
                if I64MIN <= v <= I64MAX:
                    if ip != f"ok {len(b)} I:{v}":
                        report("oracle", b, "accepted integer does not have the value written", f"ok {len(b)} I:{v}", ip)
                else:
                    if not ip.startswith("err"):
                        report("oracle", b, "out-of-range integer not rejected", "err notinteger", ip)
    if tier == "thorough":
        # all 11^7 strings of length 7, streamed in 121 chunks (prefix = first two symbols)
        n7 = 0
        for a in ALPHABET:
            for b2 in ALPHABET:
                chunk = [a + b2 + b"".join(t) for t in itertools.product(ALPHABET, repeat=5)]
                cl = []
                for x in chunk:
                    cl += ["check " + x.hex(), "parse " + x.hex()]
                i7, m7, d7 = both(cl)
                n7 += len(cl)
                if d7 is not None:
                    k = len(i7)
                    report("oracle", chunk[k // 2], f"harness process died ({d7.why})", m7[k] if k < len(m7) else "?", "process death")
                    break
                if i7 != m7 or any("panic" in x for x in i7):
                    for j in range(len(chunk)):
                        ic, ip, mc, mp = i7[2 * j], i7[2 * j + 1], m7[2 * j], m7[2 * j + 1]
                        if "panic" in (ic, ip):
                            report("oracle", chunk[j], "RESP check/parse panicked", f"check: {mc}; parse: {mp}", f"check: {ic}; parse: {ip}")
                        elif ic.startswith("ok") and ip.startswith("ok") and ic.split(" ")[1] != ip.split(" ")[1]:
                            report("oracle", chunk[j], "check accepted n bytes but parse succeeded with a different length", mc, f"{ic} / {ip}")
                        elif (ic, ip) != (mc, mp):
                            report("correspondence", chunk[j], "model and implementation disagree on check/parse", f"check: {mc}; parse: {mp}", f"check: {ic}; parse: {ip}")
                        if nviol > 5:
                            break
                for j in range(0, len(chunk), 997):
                    if i7[2 * j].startswith(("ok", "err")):
                        rep.nontrivial(["c07", chunk[j].hex()])
            if nviol > 5:
                break
        rep.cov["evaluations"] += n7
        rep.cov["exhaustive_length7"] = n7 // 2
    # small-stack run of the deep-nesting cases (child process with a 256 KiB stack)
    deep = [b for tag, b in uniq if tag == "nest"]
    dl = []
    for b in deep:
        dl += ["check " + hx(b), "parse " + hx(b)]
    i2, m2, d2 = both(dl, stack=256 * 1024)
    rep.cov["evaluations"] += len(dl)
    if d2 is not None:
        k = len(i2)
        report("oracle", deep[k // 2], f"process died on a 256 KiB stack ({d2.why}): nested arrays exhaust the stack",
               m2[k] if k < len(m2) else "?", "process death")
    elif i2 != m2:
        for j, (a, b_) in enumerate(zip(i2, m2)):
            if a != b_:
                report("correspondence", deep[j // 2], "model and implementation disagree (small stack)", b_, a)
                break
    # utf-8 validator tie (model's validUtf8 vs std::str::from_utf8)
    ul = []
    for _ in range(2000 if tier == "quick" else 20000):
        n = rng.randint(0, 6)
        ul.append("utf8 " + hx(bytes(rng.choice([0x00, 0x41, 0x7f, 0x80, 0xbf, 0xc0, 0xc1, 0xc2, 0xdf, 0xe0, 0xa0, 0x9f, 0xed, 0xee, 0xef,
                                                 0xf0, 0x90, 0x8f, 0xf4, 0xf5, 0xff, rng.getrandbits(8)]) for _ in range(n))))
    for s in UTF8_SAMPLES:
        ul.append("utf8 " + hx(s.encode()))
    i3, m3, d3 = both(ul)
    rep.cov["evaluations"] += len(ul)
    for a, b_, l in zip(i3, m3, ul):
        if a != b_:
            rep.violation("correspondence", dict(what="validUtf8 (model) differs from std::str::from_utf8", replay_line=l, expected=b_, observed=a), no_input=False)
            break
    rep.cov["rule"] = ("exhaustive strings over the alphabet + - : $ * CR LF 0 1 9 a up to length %d; decimal numbers of 1..22 digits and boundary values at "
                       "buffer offsets 0..48 (behind a padding bulk string) and as bulk/array lengths; every truncation and random byte mutations of generated valid "
                       "messages; digit runs of 1..70 digits ended by 16 kinds of non-digit bytes; each of the 246 non-digit byte values at every position of a short number line (integer, bulk length, array length: "
                       "whatever is read as a number must have been written as an optional sign and decimal digits, with that value); null/negative-length/non-UTF-8/odd-line-ending specials; nesting depths up to 2*10^5 (also on a 256 KiB stack); "
                       "non-trivial = distinct input on which check returns ok or a hard error (not merely incomplete)") % (5 if tier == "quick" else 6)
    rep.cov["exhaustive_part"] = "all %d alphabet strings up to length %d" % (sum(11**n for n in range(0, (5 if tier == 'quick' else 6) + 1)), 5 if tier == "quick" else 6)
    rep.cov["traces_validated_against_impl"] = len(lines) + len(dl) + len(ul)
    for tag, b in uniq[200000:200003] + [u for u in uniq if u[0] == "num"][:2]:
        rep.sample({"input_hex": b.hex()[:120], "tag": tag})
    rep.sample({"check_line": lines[-1][:100], "impl": impl[-1] if impl else None, "model": model[-1]})


# ---------------------------------------------------------------------------------------------

def run_c08(rep, tier, seed):
    rng = random.Random(seed)
    nframes = 400 if tier == "quick" else 4000
    frames = [gen_wf(rng) for _ in range(nframes)]
    # boundary frames always present
    frames += [("I", I64MIN), ("I", I64MAX), ("I", 0), ("I", -5), ("B", b""), ("B", b"\r\n"), ("B", b"\r\n\x00$-1\r\n"), ("N",), ("A", []),
               ("S", b""), ("E", b"ERR x"), ("A", [("N",), ("I", -1), ("B", b"\r"), ("S", "é".encode())]),
               ("B", b"x" * 8192), ("B", b"y" * 70000)]
    lines = []
    idx = []
    for f in frames:
        e = enc_py(f)
        idx.append((len(lines), f, e))
        lines.append("encode " + frame_text(f))
        lines.append("parse " + hx(e))
        lines.append("check " + hx(e))
        lines.append("parse " + hx(e + b"+trailing\r\n"))
    impl, model, died = both(lines)
    rep.cov["evaluations"] += len(lines)
    nviol = 0

    def report(kind, what, line, exp, got, extra=None):
        nonlocal nviol
        nviol += 1
        if nviol <= 5:
            rep.violation(kind, dict(what=what, replay_line=line[:2000], expected=exp[:2000], observed=got[:2000], **(extra or {})))

    if died is not None:
        k = len(impl)
        report("oracle", f"harness died ({died.why})", lines[k], model[k], "process death")
    for (i, f, e) in idx:
        if i + 3 >= len(impl):
            break
        rep.nontrivial(["c08", frame_text(f)[:200], len(e)])
        rep.count("frame:" + f[0])
        ft = frame_text(f)
        # oracle: bytes written = reference encoding; decode(encode f) = f with full length; prefix independence of trailing data
        if impl[i] != hx(e):
            report("oracle", "write_frame output differs from the RESP encoding", lines[i], hx(e), impl[i])
        if impl[i + 1] != f"ok {len(e)} {ft}":
            report("oracle", "decode(encode f) != f", lines[i + 1], f"ok {len(e)} {ft}", impl[i + 1])
        if impl[i + 2] != f"ok {len(e)}":
            report("oracle", "check(encode f) does not accept exactly the encoding", lines[i + 2], f"ok {len(e)}", impl[i + 2])
        if impl[i + 3] != f"ok {len(e)} {ft}":
            report("oracle", "decode(encode f ++ rest) != f", lines[i + 3], f"ok {len(e)} {ft}", impl[i + 3])
        for j in range(4):
            if impl[i + j] != model[i + j]:
                report("correspondence", "model and implementation disagree", lines[i + j], model[i + j], impl[i + j])
    # strict prefixes are incomplete
    plines, pmeta = [], []
    for (i, f, e) in idx:
        cuts = range(len(e)) if len(e) <= 120 else sorted(set([0, 1, 2, 3, len(e) - 1, len(e) - 2, len(e) - 3] + [rng.randrange(len(e)) for _ in range(8)]))
        for c in cuts:
            plines.append("check " + hx(e[:c]))
            pmeta.append((f, c))
    impl2, model2, died2 = both(plines)
    rep.cov["evaluations"] += len(plines)
    rep.count("prefix_checks", len(plines))
    if died2 is not None:
        k = len(impl2)
        report("oracle", f"harness died ({died2.why}) on a strict prefix of a valid encoding", plines[k], "incomplete", "process death")
    for l, a, m in zip(plines, impl2, model2):
        if a != "incomplete":
            report("oracle", "a strict prefix of a valid encoding is not reported as incomplete", l, "incomplete", a)
        elif a != m:
            report("correspondence", "model and implementation disagree on a prefix", l, m, a)
    # streams: sequences of frames under segmentations; EOF inside a frame
    clines, cmeta = [], []
    nstreams = 150 if tier == "quick" else 1500
    for s in range(nstreams):
        k = rng.choice([0, 1, 1, 2, 3, 5, 8])
        fs = [gen_wf(rng, big=(rng.random() < 0.1)) for _ in range(k)]
        data = b"".join(enc_py(f) for f in fs)
        segsets = segmentations(rng, data)
        if len(data) <= 40:
            segsets += every_single_cut(data)
        for segs in segsets:
            clines.append("conn " + ("|".join(s.hex() for s in segs) if segs else "."))
            cmeta.append((fs, None))
        # end of stream inside the next frame
        nxt = enc_py(gen_wf(rng, big=False))
        if len(nxt) > 1:
            cut = rng.randint(1, len(nxt) - 1)
            d2 = data + nxt[:cut]
            for segs in segmentations(rng, d2, k=2):
                clines.append("conn " + "|".join(s.hex() for s in segs))
                cmeta.append((fs, "reset"))
    # large frames inside streams: the read buffer grows past its initial 8 KiB (and any retention limit a
    # connection might have) while later frames are already buffered behind the large one
    for size in ([8192, 70000] if tier == "quick" else [8191, 8192, 16384, 65535, 65536, 70000, 140000]):
        for shape in range(3):
            small = [gen_wf(rng, big=False) for _ in range(3)]
            bigf = ("B", bytes([rng.getrandbits(8)]) * size) if shape != 2 else ("A", [("B", b"SET"), ("B", b"k"), ("B", bytes([rng.getrandbits(8)]) * size)])
            fs = [bigf] + small if shape == 0 else [small[0], bigf] + small[1:]
            data = b"".join(enc_py(f) for f in fs)
            pre = len(enc_py(fs[0])) if shape == 0 else len(enc_py(fs[0])) + len(enc_py(fs[1]))
            segsets = [[data], [data[i:i + 1000] for i in range(0, len(data), 1000)], [data[i:i + 8192] for i in range(0, len(data), 8192)],
                       [data[:pre + 3], data[pre + 3:]], [data[:pre], data[pre:]], [data[:pre - 1], data[pre - 1:]]]
            for segs in segsets:
                segs = [x for x in segs if x]
                clines.append("conn " + "|".join(x.hex() for x in segs))
                cmeta.append((fs, None))
            nxt = enc_py(gen_wf(rng, big=False))
            if len(nxt) > 1:
                d2 = data + nxt[:max(1, len(nxt) // 2)]
                for segs in ([d2], [d2[i:i + 1000] for i in range(0, len(d2), 1000)]):
                    clines.append("conn " + "|".join(x.hex() for x in segs))
                    cmeta.append((fs, "reset"))
    impl3, model3, died3 = both(clines)
    rep.cov["evaluations"] += len(clines)
    rep.count("stream_cases", len(clines))
    if died3 is not None:
        k = len(impl3)
        report("oracle", f"harness died ({died3.why}) on a stream", clines[k], model3[k], "process death")
    for l, a, m, (fs, end) in zip(clines, impl3, model3, cmeta):
        exp = ";".join(["frame " + frame_text(f) for f in fs] + ["error reset" if end else "end"])
        rep.nontrivial(["c08s", l[:300]])
        if a != exp:
            report("oracle", "stream decoded to a different frame sequence / ending", l, exp, a)
        elif a != m:
            report("correspondence", "model and implementation disagree on a stream", l, m, a)
    rep.cov["traces_validated_against_impl"] = len(lines) + len(plines) + len(clines)
    rep.cov["rule"] = ("type-directed well-formed frames (simple/error strings of UTF-8 text without CR/LF, i64 incl. extremes, bulk strings 0..70000 bytes incl. CR/LF/NUL, "
                       "null, arrays of 0..20 non-array frames): encode, decode, decode with trailing data, check; every strict prefix (all cuts up to 120 bytes, sampled beyond); "
                       "streams of 0..8 frames under all-at-once / byte-at-a-time / every-single-cut / random segmentations, and streams ending inside a frame; "
                       "non-trivial = distinct frame or distinct stream segmentation")
    for (i, f, e) in idx[:3]:
        rep.sample({"frame": frame_text(f)[:100], "encoded_hex": e.hex()[:100], "impl_parse": impl[i + 1][:100] if i + 1 < len(impl) else None})
    if clines:
        rep.sample({"stream": clines[0][:160], "impl": impl3[0][:160] if impl3 else None})
