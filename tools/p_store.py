"""Store properties decided on crash-free sequential histories:
C01 (map refinement), C02 (reopen), C05 (merge transparency), C12 (hints), C13 (space), C19 (accounting)."""
import itertools
import random
import shutil

from vlib import *

KEYS = [b"", b"k", b"key2", b"\x00\xff\r\n", b"a-rather-longer-key-0123456789", b"z"]
PRESETS = {
    # name: (frag p/q, dead, small)   -- what a merge selects
    "all": ("0/1", 0, 1 << 40),          # every file with counters (small_file huge)
    "none": ("1/1", 1 << 40, 0),         # nothing
    "small": ("1/1", 1 << 40, 200),      # only small files
    "frag": ("1/4", 1 << 40, 0),         # only fragmented files
    "dead": ("1/1", 100, 0),             # only files with > 100 dead bytes
    "frag2": ("1/2", 1 << 40, 0),
}


def hx(b):
    return b.hex() if b else "-"


def fnv64(b):
    h = 0xcbf29ce484222325
    for x in b:
        h = ((h ^ x) * 0x100000001b3) & 0xFFFFFFFFFFFFFFFF
    return h


def show_val(v):
    if v is None:
        return "nil"
    if len(v) <= 40:
        return hx(v)
    return "#%d:%016x" % (len(v), fnv64(v))


def gen_val(rng, mfs):
    r = rng.random()
    if r < 0.08:
        return (b"", "-")
    if r < 0.25:
        b = bytes([rng.getrandbits(8)])
        return (b, b.hex())
    if r < 0.75:
        pat = bytes([rng.getrandbits(8)])
        n = rng.randint(2, 60)
        return (pat * n, f"{pat.hex()}*{n}")
    if r < 0.93:
        pat = bytes([rng.getrandbits(8)])
        n = rng.choice([8191 - 30, 8191, 8192, 8193, 9000, 20000])
        return (pat * n, f"{pat.hex()}*{n}")
    pat = bytes([rng.getrandbits(8)])
    n = min(mfs + rng.randint(1, 50), 70000) if mfs < 70000 else 300
    return (pat * n, f"{pat.hex()}*{n}")


class Hist:
    """one generated history: config line + op lines + bookkeeping for oracles"""
    def __init__(self, name, cfg, ops):
        self.name, self.cfg, self.ops = name, cfg, ops


def gen_history(rng, idx, allow, tier, long_files=False):
    """allow: set of op kinds among put del get merge reopen"""
    mfs = rng.choice([0, 1, 60, 60, 300, 300, 9000, 1 << 31])
    preset = rng.choice(list(PRESETS))
    frag, dead, small = PRESETS[preset]
    if rng.random() < 0.25:
        frag = rng.choice(["1/8", "3/8", "1/2", "5/8", "3/4"])
        dead = rng.choice([0, 50, 200, 5000])
        small = rng.choice([0, 30, 100, 400, 10000])
        preset = "random"
    cache = rng.choice([0, 1, 2, 256])
    pool = rng.choice([0, 1, 4])
    cfg = f"cfg mfs={mfs} sync=none frag={frag} dead={dead} small={small} cache={cache} pool={pool}"
    nkeys = rng.randint(1, len(KEYS))
    keys = rng.sample(KEYS, nkeys)
    n = rng.choice([3, 8, 20, 40, 80]) if tier == "quick" else rng.choice([5, 20, 60, 150, 300])
    w = {"put": 5, "del": 2, "get": 3, "merge": 1.2 if "merge" in allow else 0, "reopen": 0.7 if "reopen" in allow else 0}
    kinds = [k for k in w if k in allow and w[k] > 0]
    ops = []
    if long_files:
        # cross >= 12 files with the same key rewritten in files 9,10,11 (kills lexicographic id order)
        mfs = 0
        cfg = f"cfg mfs=0 sync=none frag={frag} dead={dead} small={small} cache={cache} pool={pool}"
        k = keys[0]
        for i in range(13):
            ops.append(("put", k, bytes([65 + i]) * 3, f"{65 + i:02x}*3"))
    for _ in range(n):
        kind = rng.choices(kinds, [w[k] for k in kinds])[0]
        k = rng.choice(keys)
        if kind == "put":
            v, tok = gen_val(rng, mfs)
            ops.append(("put", k, v, tok))
        elif kind in ("del", "get"):
            ops.append((kind, k))
        else:
            ops.append((kind,))
    return Hist(f"h{idx}", cfg, ops), dict(mfs=mfs, preset=preset, keys=keys, cache=cache, pool=pool)


def script_for(h, meta, extras):
    """lines for one history. extras: callable(op_index, op, state) -> extra lines after the op."""
    lines = [h.cfg, f"dir {h.name}", "keys " + " ".join(hx(k) for k in meta["keys"]), "open"]
    tags = [("cfg",), ("dir",), ("keys",), ("open",)]
    for i, op in enumerate(h.ops):
        if op[0] == "put":
            lines.append(f"put {hx(op[1])} {op[3]}")
        elif op[0] in ("del", "get"):
            lines.append(f"{op[0]} {hx(op[1])}")
        elif op[0] == "clock":
            lines.append(f"clock {op[1]}")
        else:
            lines.append(op[0])
        tags.append(("op", i))
        for ex in extras(i, op):
            lines.append(ex)
            tags.append(("extra", i, ex))
    return lines, tags


def run_both(lines, root, preload=False, timeout=1800):
    """impl first; merge lines for the model get the observed iteration order appended"""
    died = None
    shutil.rmtree(root, ignore_errors=True)
    try:
        impl = run_harness(["store", "--root", root], lines, preload=preload, timeout=timeout)
    except Died as d:
        impl, died = d.answered, d
    mlines = []
    for i, l in enumerate(lines):
        if l == "merge" and i < len(impl):
            m = re.search(r"order=(\S+)", impl[i])
            mlines.append("merge order=" + (m.group(1) if m else "-"))
        else:
            mlines.append(l)
    model = run_driver(mlines, timeout=timeout)
    shutil.rmtree(root, ignore_errors=True)
    return impl, model, died


class SpecMap:
    def __init__(self):
        self.m = {}

    def apply(self, op):
        """returns the expected answer of the op per the abstract map, or None"""
        if op[0] == "put":
            self.m[op[1]] = op[2]
            return "ok"
        if op[0] == "del":
            return "true" if self.m.pop(op[1], None) is not None else "false"
        if op[0] == "get":
            return show_val(self.m.get(op[1]))
        return None


def strip_trace(a):
    return a.split(" | T ")[0]


def parse_opened(a):
    """`opened k=v,k=v active=N` -> dict hexkey -> value token"""
    m = re.match(r"opened (\S+) active=(\d+)", a)
    if not m:
        return None
    d = {}
    if m.group(1) != "-":
        for part in m.group(1).split(","):
            k, v = part.split("=", 1)
            d[k] = v
    return d


D3_SIG = "D3:merge-drops-tombstone-while-older-value-survives-in-unselected-file"


def store_oracle(h, meta, lines, tags, impl, model, want):
    """Direct oracles on the real code's answers. `want` selects property-specific checks:
    map (results vs abstract map), restart (reads after reopen/copyopen), hints, sizes, stats.
    The model's answer to the model-only `hazard` query classifies D3 (known finding): keys whose
    tombstone a merge just dropped while an older value survives in a file that was not merged."""
    sm = SpecMap()
    hazard = set()      # hex keys a restart would resurrect right now (per the model)
    tainted = set()     # hex keys already resurrected by an actual reopen in this history
    for li, tag in enumerate(tags):
        if li >= len(impl):
            return
        a = strip_trace(impl[li])
        line = lines[li]
        if a.startswith("panic") or a.startswith("open-panic"):
            yield (f"`{line[:60]}` panicked", li, "no panic", a, None)
            return
        if tag[0] == "op":
            op = h.ops[tag[1]]
            kx = hx(op[1]) if op[0] in ("put", "del", "get") else None
            if op[0] == "put":
                tainted.discard(kx)
                hazard.discard(kx)
            exp = sm.apply(op)
            if op[0] == "reopen" and hazard:
                tainted |= hazard
            if a.startswith("err"):
                yield (f"`{line[:60]}` failed", li, exp or "ok", a, None)
                return
            if exp is not None and a != exp and "map" in want:
                if kx in tainted:
                    yield ("known: deleted key resurrected by merge+restart", li, exp, a, D3_SIG)
                    if op[0] == "del":
                        tainted.discard(kx)
                else:
                    yield (f"`{line[:60]}` answered differently from the key-value map", li, exp, a, None)
                    return
            elif op[0] == "del":
                tainted.discard(kx)
        elif line == "hazard":
            if li < len(model) and model[li].startswith("hazard "):
                t = model[li].split(" ")
                hazard = set(t[2].split(",")) if int(t[1]) > 0 else set()
        elif line.startswith("get ") and tag[0] == "extra" and "restart" in want:
            kx = line[4:]
            k = bytes.fromhex(kx) if kx != "-" else b""
            exp = show_val(sm.m.get(k))
            if a != exp:
                if kx in tainted:
                    yield ("known: deleted key resurrected by merge+restart", li, exp, a, D3_SIG)
                else:
                    yield ("a key does not read as the map says (after merge / close+reopen)", li, exp, a, None)
                    return
        elif line in ("copyopen", "nohints") and "restart" in want:
            got = parse_opened(a)
            if got is None:
                yield (f"`{line}`: the directory could not be opened", li, "opened ...", a, None)
                return
            for k in meta["keys"]:
                exp = show_val(sm.m.get(k))
                if got.get(hx(k)) != exp:
                    if hx(k) in hazard or hx(k) in tainted:
                        yield ("known: deleted key resurrected by merge+restart", li, f"{hx(k)}={exp}", f"{hx(k)}={got.get(hx(k))}", D3_SIG)
                    else:
                        yield (f"`{line}`: a restart does not recover the contents the map holds", li, f"{hx(k)}={exp}", f"{hx(k)}={got.get(hx(k))}", None)
                        return
        if line == "nohints" and "hints" in want and li > 0 and lines[li - 1] == "copyopen":
            if impl[li] != impl[li - 1]:
                yield ("opening the directory without its hint files recovers different contents", li, impl[li - 1], impl[li], None)
                return
        if line == "truth" and "stats" in want and li > 0 and lines[li - 1] == "dump":
            m = re.search(r"stats (\S+) active", impl[li - 1])
            dumped = m.group(1) if m else "?"
            truth = a[len("stats "):]
            if dumped != truth:
                yield ("the per-file counters differ from ground truth recomputed from the data files and the index", li, truth, dumped, None)
                return
        if line == "files" and "sizes" in want and li >= 3 and lines[li - 1] == "hazard" and lines[li - 2] == "merge" and lines[li - 3] == "files":
            after, before = sizes(a), sizes(impl[li - 3])
            if after > before:
                yield ("a merge increased the total size of the data files", li, f"<= {before}", str(after), None)
                return
            sel = re.search(r"sel=(\S+)", impl[li - 2])
            if sel:
                selected = set() if sel.group(1) == "-" else set(int(x) for x in sel.group(1).split(","))
                fsz = {int(m.group(1)): int(m.group(2)) for m in re.finditer(r"d(\d+)=(\d+)", impl[li - 3])}
                nonempty = set(f for f, n in fsz.items() if n > 0)
                # eligibility per the documented thresholds, from ground-truth counters (harness' own scan), not the store's
                if li >= 4 and lines[li - 4] == "truth" and impl[li - 4].startswith("stats "):
                    cm = re.search(r"frag=(\d+)/(\d+) dead=(\d+) small=(\d+)", h.cfg)
                    fn, fd, dth, sth = (int(x) for x in cm.groups())
                    eligible = set()
                    t = impl[li - 4][6:]
                    for part in ([] if t == "-" else t.split(",")):
                        f, v = part.split("=")
                        l, d, b = (int(x) for x in v.split(":"))
                        if b > dth or (d > 0 and d * fd > fn * (d + l)) or fsz.get(int(f), 0) < sth:
                            eligible.add(int(f))
                    if nonempty and nonempty <= eligible and not nonempty <= selected:
                        yield ("every non-empty data file is eligible by the configured thresholds, yet the merge left some unmerged: " + str(sorted(nonempty - selected)), li,
                               "sel >= " + str(sorted(nonempty)), sel.group(1), None)
                        return
                # (a key the known finding D3 has brought back at a reopen of this very history is live to the store and not to the map;
                #  the exact size is then left to the comparison with the Lean model, which reproduces D3)
                if nonempty <= selected and not tainted:
                    live = sum(25 + len(k) + len(v) for k, v in sm.m.items())
                    if after != live:
                        yield ("with every non-empty file merged the store is not exactly as large as the live pairs", li, str(live), str(after), None)
                        return


def sizes(files_line):
    return sum(int(m.group(1)) for m in re.finditer(r"d\d+=(\d+)", files_line))


def minimise(h, meta, fails):
    """delta-debug the op list: `fails(ops) -> bool`"""
    ops = list(h.ops)
    n = max(1, len(ops) // 2)
    while n >= 1 and len(ops) > 1:
        changed = False
        i = 0
        while i < len(ops):
            cand = ops[:i] + ops[i + n:]
            if cand and fails(cand):
                ops = cand
                changed = True
            else:
                i += n
        if not changed:
            if n == 1:
                break
            n //= 2
        else:
            n = max(1, min(n, len(ops) // 2))
    return ops


def generic_store_check(rep, tier, seed, prop, allow, extras_fn, want, nhist, compare_fn=None, share_long=0.1, mutate_hist=None):
    """Runs `nhist` generated histories (after the corpus) through the real store and the Lean model.
    extras_fn(meta)(i, op) -> extra request lines after op i; `want` = oracle groups (see store_oracle);
    compare_fn(tag, line) -> which answer lines are compared model-vs-implementation (default all but `hazard`)."""
    rng = random.Random(seed * 1000 + int(prop[1:]))
    hists = []
    for i in range(nhist):
        h, meta = gen_history(rng, i, allow, tier, long_files=(rng.random() < share_long))
        if mutate_hist:
            mutate_hist(rng, h)
        if rng.random() < 0.12 and h.ops:
            # the wall clock is stepped while the store is in use (an NTP correction, a VM resumed, an operator): back by a
            # second, an hour, a day; forward; back to the true time; or it stands still for a while (a coarse clock: every entry
            # written meanwhile carries the same timestamp). Nothing the store answers may depend on it.
            ops = list(h.ops)
            for _ in range(rng.randint(1, 3)):
                ops.insert(rng.randint(0, len(ops)), ("clock", rng.choice([-1000, -3600000, -86400000, 3600000, 0, -5, "freeze", "freeze", "thaw"])))
            h.ops = ops
            rep.count("histories_with_clock_steps")
        hists.append((h, meta))
    for h, meta in corpus_histories(prop):
        hists.insert(0, (h, meta))
    all_lines, spans = [], []
    for h, meta in hists:
        lines, tags = script_for(h, meta, extras_fn(meta))
        spans.append((len(all_lines), len(lines), h, meta, tags))
        all_lines += lines
    root = os.path.join(RUNS, "run-" + prop)
    impl, model, died = run_both(all_lines + ["clock thaw", "clock 0"], root, preload=True)
    impl, model = impl[:len(all_lines)], model[:len(all_lines)]
    rep.cov["evaluations"] += len(all_lines)
    rep.cov["traces_validated_against_impl"] += len(hists)
    nv = 0
    ncorr = 0

    def problems(h, meta, lines, tags, i2, m2, d2):
        """all problems of one history: known-finding hits first-class, at most one unknown"""
        out = []
        if d2 is not None:
            out.append(("oracle", f"harness died ({d2.why})", len(i2), m2[len(i2)] if len(i2) < len(m2) else "?", "process death", None))
            return out
        for (what, li, exp, got, sig) in store_oracle(h, meta, lines, tags, i2, m2, want):
            out.append(("oracle", what, li, exp, got, sig))
        if any(p[5] is None for p in out):
            return out
        for li, (a, b) in enumerate(zip(i2, m2)):
            if lines[li] == "hazard":
                continue
            if (compare_fn is None or compare_fn(tags[li], lines[li])) and a != b:
                out.append(("correspondence", "model and implementation disagree", li, b, a, None))
                break
        return out

    def unknown(ps):
        for p in ps:
            if p[5] is None:
                return p
        return None

    def rerun(h, meta, ops):
        h2 = Hist(h.name, h.cfg, ops)
        lines, tags = script_for(h2, meta, extras_fn(meta))
        i2, m2, d2 = run_both(lines + ["clock thaw", "clock 0"], root + "-shrink", preload=True)
        i2, m2 = i2[:len(lines)], m2[:len(lines)]
        return h2, lines, tags, i2, m2, problems(h2, meta, lines, tags, i2, m2, d2)

    known_reported = False
    for (start, n, h, meta, tags) in spans:
        lines = all_lines[start:start + n]
        i2 = impl[start:start + n]
        m2 = model[start:start + n]
        if died is not None and len(impl) < start:
            break
        d2 = died if (died is not None and len(impl) < start + n) else None
        rep.count("mfs:%s" % meta["mfs"])
        rep.count("preset:" + meta["preset"])
        rep.count("ops", len(h.ops))
        rep.count("merges", sum(1 for o in h.ops if o[0] == "merge"))
        rep.count("reopens", sum(1 for o in h.ops if o[0] == "reopen"))
        rep.count("histories")
        for l, a in zip(lines, i2):
            if l == "merge":
                m = re.search(r"sel=(\S+)", a)
                if m and m.group(1) != "-":
                    rep.count("merges_selecting_files")
                    if len(m.group(1).split(",")) < len(re.findall(r"\d+=", re.search(r"stats (\S+)", a).group(1))) if re.search(r"stats (\S+)", a) else False:
                        rep.count("merges_partial")
        if len(h.ops) >= 3:
            rep.nontrivial([prop, h.cfg, lines[3:]])
        ps = problems(h, meta, lines, tags, i2, m2, d2)
        for p in ps:
            if p[5] is not None and not known_reported:
                known_reported = True
                small = minimise(h, meta, lambda ops: any(q[5] == p[5] for q in rerun(h, meta, ops)[5]))
                h3, l3, t3, i3, m3, ps3 = rerun(h, meta, small)
                q = next((q for q in ps3 if q[5] == p[5]), p)
                rep.violation("oracle", dict(what=q[1], script=l3, failing_line=q[2], expected=str(q[3])[:500], observed=str(q[4])[:500]), signature=p[5])
        prob = unknown(ps)
        if prob is None:
            continue
        # a disagreement between model and code on an internal observable must not use up the reports: the histories
        # that follow are still searched for an input on which the property itself fails (at most 3 of those and 2
        # correspondence-only disagreements are minimised and reported)
        if prob[0] == "oracle":
            nv += 1
            if nv > 3:
                continue
        else:
            ncorr += 1
            if ncorr > 2:
                continue
        kind = prob[0]
        small = minimise(h, meta, lambda ops: (lambda q: q is not None and q[0] == kind)(unknown(rerun(h, meta, ops)[5])))
        h3, l3, t3, i3, m3, ps3 = rerun(h, meta, small)
        p3 = unknown(ps3) or prob
        rep.violation(p3[0], dict(what=p3[1], script=l3, failing_line=p3[2], failing_request=l3[p3[2]] if p3[2] < len(l3) else None,
                                  expected=str(p3[3])[:1500], observed=str(p3[4])[:1500], impl_answers=i3, model_answers=m3,
                                  shrunk_from_ops=len(h.ops)), signature=None)
    for (start, n, h, meta, tags) in spans[:2]:
        rep.sample({"script": all_lines[start:start + min(n, 14)], "impl": impl[start:start + min(n, 14)]})
    return hists


CORPUS = {}


def corpus_histories(prop):
    out = []
    for i, (cfg, keys, ops) in enumerate(CORPUS.get(prop, [])):
        out.append((Hist(f"c{i}", cfg, ops), dict(mfs=int(re.search(r"mfs=(\d+)", cfg).group(1)), preset="corpus", keys=keys, cache=256, pool=1)))
    return out


def P(k, v):
    return ("put", k, v, hx(v))


# hand-written killers (always run first)
CORPUS["C02"] = [
    ("cfg mfs=1000000 sync=none frag=1/1 dead=1099511627776 small=0 cache=256 pool=1", [b"k"], [P(b"k", b"v1"), ("del", b"k"), ("reopen",), ("get", b"k")]),
    ("cfg mfs=0 sync=none frag=1/1 dead=1099511627776 small=0 cache=256 pool=1", [b"k", b"z"],
     [P(b"k", b"v1"), P(b"z", b"q"), ("del", b"k"), P(b"k", b"v2"), ("del", b"z"), ("reopen",), ("reopen",), ("get", b"k"), ("get", b"z")]),
]
# D3 (known finding) under C02: the store has merged on its own between the delete and the close
CORPUS["C02"].append(("cfg mfs=100 sync=none frag=1/1 dead=1099511627776 small=60 cache=256 pool=1", [b"k"],
                      [("put", b"k", b"x" * 100, "78*100"), ("del", b"k"), ("merge",), ("reopen",), ("get", b"k")]))
CORPUS["C05"] = [
    # D3: value in file 0 (unselected: big), tombstone in file 1 (selected: small)
    ("cfg mfs=100 sync=none frag=1/1 dead=1099511627776 small=60 cache=256 pool=1", [b"k"],
     [("put", b"k", b"x" * 100, "78*100"), ("del", b"k"), ("merge",), ("reopen",), ("get", b"k")]),
]
# the wall clock is stepped back (or stands still) between two writes of one key; then a pass that merges only the newer file,
# and a restart: the older, un-merged file must not win because its entry carries the later (or the same) timestamp
for _c, _v1 in (("-3600000", b"x" * 100), ("freeze", b"x" * 100), ("-1000", b"y" * 100)):
    _h = ("cfg mfs=100 sync=none frag=1/1 dead=1099511627776 small=60 cache=256 pool=1", [b"k"],
          ([("clock", "freeze")] if _c == "freeze" else []) + [("put", b"k", _v1, f"{_v1[0]:02x}*100")] + ([] if _c == "freeze" else [("clock", _c)]) +
          [P(b"k", b"v2"), ("merge",), ("get", b"k"), ("reopen",), ("get", b"k"), ("reopen",), ("get", b"k")])
    CORPUS["C05"].append(_h)
    CORPUS["C02"].append(_h)
    CORPUS.setdefault("C12", []).append(_h)
CORPUS["C19"] = [CORPUS["C02"][0]]
CORPUS["C01"] = [("cfg mfs=0 sync=none frag=0/1 dead=0 small=1099511627776 cache=0 pool=0", [b"k", b""],
                  [P(b"k", b"v1"), P(b"", b""), ("merge",), ("get", b"k"), ("get", b""), ("del", b""), ("merge",), ("get", b""), ("del", b"")])]


# ---------------------------------------------------------------------------------------------
# per-property wiring

def gets(meta):
    return ["get " + hx(k) for k in meta["keys"]]


def run_c01(rep, tier, seed):
    config_stage(rep, random.Random(seed * 77 + 1), 40 if tier == "quick" else 400, os.path.join(RUNS, "run-cfg-" + "run_c01"))
    n = 250 if tier == "quick" else 3000
    generic_store_check(rep, tier, seed, "C01", {"put", "del", "get", "merge"}, lambda meta: (lambda i, op: []), {"map"}, n,
                        compare_fn=lambda tag, line: tag[0] == "op" and not line.startswith("merge"))
    rep.cov["rule"] = ("seeded histories of put/del/get/merge (1-6 keys incl. empty and binary keys; values empty..>max_file_size, 8191/8192/8193, 20000 bytes; "
                       "max_file_size in {0,1,60,300,9000,2^31}; reader cache {0,1,2,256}; pool {0,1,4}; merge presets all/none/small/frag/dead/random); "
                       "compared: every op result vs the Lean model and vs a plain map; non-trivial = distinct history with >=3 ops")


def run_c02(rep, tier, seed):
    n = 250 if tier == "quick" else 3000
    # (the store merges on its own whenever its policy says so: a history of sets and deletes is a history with merge passes at
    #  arbitrary points in it, so a third of the histories contain some)
    def with_merges(rng, h):
        if rng.random() < 0.33:
            ops = list(h.ops)
            for _ in range(rng.randint(1, 3)):
                ops.insert(rng.randint(0, len(ops)), ("merge",))
            h.ops = ops
    generic_store_check(rep, tier, seed, "C02", {"put", "del", "get", "reopen"},
                        lambda meta: (lambda i, op: (gets(meta) + ["dump"]) if op[0] == "reopen" else (["hazard"] if op[0] == "merge" else [])), {"map", "restart"}, n, share_long=0.2,
                        mutate_hist=with_merges)
    # histories need not be sequential: two operations on one key race for the writer, one of them held between its append
    # and its index update; what the store reads once both have returned is what it must read after the restart
    root = os.path.join(RUNS, "run-C02-race")
    for mfs in (1000000, 0):
        for (opa, opb) in (("put 6b 6161", "put 6b 6262"), ("put 6b 6161", "del 6b"), ("del 6b", "put 6b 6262")):
            point = "put.before_publish" if opa.startswith("put") else "del.before_publish"
            script = [f"cfg mfs={mfs} pool=2", "dir race", "open", "put 6b 3030", f"t.park A {point} 1", f"t.spawn A {opa}", "t.wait A 5000",
                      f"t.spawn B {opb}", "sleep 150", "t.release A", "t.join A 5000", "t.join B 5000", "get 6b", "reopen", "get 6b", "reopen", "get 6b"]
            shutil.rmtree(root, ignore_errors=True)
            try:
                ans = run_harness(["store", "--root", root, "--hang-ms", "20000"], script, preload=False, timeout=120)
            except Died as d:
                rep.violation("oracle", dict(what=f"two racing operations on one key: harness died / hung ({d.why})", script=script, answers=d.answered))
                continue
            rep.cov["evaluations"] += len(script)
            rep.count("racing_pairs_then_restart")
            rep.nontrivial(["c02race", mfs, opa, opb])
            i = script.index("get 6b")
            if not ans[6].startswith("parked") or not ans[10].startswith("done") or not ans[11].startswith("done"):
                rep.violation("correspondence", dict(what="the racing pair could not be set up (no thread stopped between append and index update)", script=script, answers=ans, expected="parked / done / done", observed=f"{ans[6]} / {ans[10]} / {ans[11]}"))
            elif not (ans[i] == ans[i + 2] == ans[i + 4]):
                rep.violation("oracle", dict(what=f"`{opa}` (held between its append and its index update) races with `{opb}`: once both have returned the key reads {ans[i]}, after a restart {ans[i + 2]}, after another {ans[i + 4]}",
                                             script=script, answers=ans, failing_line=i + 2, expected=ans[i], observed=ans[i + 2]))
    shutil.rmtree(root, ignore_errors=True)
    rep.cov["rule"] = ("histories of put/del/get with reopen cycles at arbitrary positions (also consecutive), >=12 files in a fixed share of cases; pairs of racing operations on one key (one held between append and index update) followed by two restarts; after every reopen every key "
                       "is read and the index dumped; compared with the Lean model (results, index, counters) and with a plain map; non-trivial = distinct history with >=3 ops")


def run_c05(rep, tier, seed):
    n = 250 if tier == "quick" else 3000

    def extras(meta):
        def f(i, op):
            if op[0] == "merge":
                return ["hazard"] + gets(meta) + ["copyopen"]
            if op[0] == "reopen":
                return gets(meta)
            return []
        return f
    def tails(rng, h):
        # restart cycles after a merge with writes in between: what a merge leaves behind (empty output files, hint
        # files, the id it gave the new active file) must not confuse the restarts that follow
        if rng.random() < 0.5:
            keys = sorted({op[1] for op in h.ops if op[0] in ("put", "del", "get")}) or [KEYS[0]]
            tail = [("merge",), ("reopen",)]
            for _ in range(rng.randint(1, 2)):
                for _ in range(rng.randint(0, 3)):
                    k = rng.choice(keys)
                    if rng.random() < 0.7:
                        v, tok = gen_val(rng, 60)
                        tail.append(("put", k, v, tok))
                    else:
                        tail.append(("del", k))
                tail.append(("reopen",))
            h.ops = h.ops + tail
    generic_store_check(rep, tier, seed, "C05", {"put", "del", "get", "merge", "reopen"}, extras, {"map", "restart"}, n, mutate_hist=tails)
    rep.cov["rule"] = ("histories with merges under all threshold presets (selected sets include ones that exclude an older file holding an overwritten/deleted value); "
                       "after each merge every key is read and a copy of the directory is opened (= restart right after the merge); after reopen every key is read; half of the histories end with merge, restart, 0-3 writes, restart (, 0-3 writes, restart); "
                       "compared with the Lean model and a plain map; non-trivial = distinct history with >=3 ops")


def run_c12(rep, tier, seed):
    n = 200 if tier == "quick" else 2500
    generic_store_check(rep, tier, seed, "C12", {"put", "del", "get", "merge", "reopen"},
                        lambda meta: (lambda i, op: (["hazard"] if op[0] == "merge" else []) + (["copyopen", "nohints", "files"] if op[0] in ("merge", "reopen") else [])),
                        {"hints"}, n)
    rep.cov["rule"] = ("histories with merges (incl. multi-output merges at max_file_size 0/1/60) and reopens; after each merge/reopen a copy of the directory is opened "
                       "with and without its *.hint files and every key read in both; compared with each other and with the Lean model; non-trivial = distinct history with >=3 ops")


def run_c13(rep, tier, seed):
    config_stage(rep, random.Random(seed * 77 + 1), 40 if tier == "quick" else 400, os.path.join(RUNS, "run-cfg-" + "run_c13"))
    n = 250 if tier == "quick" else 3000

    def mutate(rng, h):
        ops = []
        for op in h.ops:
            if op[0] == "merge":
                ops += [("truth",), ("files",), op]
                if rng.random() < 0.4:
                    ops += [("truth",), ("files",), ("merge",)]
            else:
                ops.append(op)
        h.ops = ops
    generic_store_check(rep, tier, seed, "C13", {"put", "del", "get", "merge", "reopen"},
                        lambda meta: (lambda i, op: ["hazard", "files", "dump"] if op[0] == "merge" else []), {"sizes"}, n, mutate_hist=mutate)
    rep.cov["rule"] = ("histories with merges and reopens (counters rebuilt from data and hint files) under all presets (the `all` preset makes every non-empty file eligible), a second merge right after 40% of merges; data file "
                       "sizes before/after each merge from the real directory: never larger; = sum of live pair sizes (25+|k|+|v|) when every non-empty file was selected; "
                       "selected sets, sizes, index and counters compared with the Lean model; non-trivial = distinct history with >=3 ops")


def run_c19(rep, tier, seed):
    n = 250 if tier == "quick" else 3000
    generic_store_check(rep, tier, seed, "C19", {"put", "del", "get", "merge", "reopen"},
                        lambda meta: (lambda i, op: (["hazard"] if op[0] == "merge" else []) + (["dump", "truth"] if op[0] in ("put", "del", "merge", "reopen") else [])),
                        {"stats"}, n, share_long=0.15)
    rep.cov["rule"] = ("histories with overwrites across files, deletes of absent keys, merges of arbitrary subsets, reopens (rebuild from data and from hint files); after every "
                       "mutating op the counters are dumped and compared with ground truth recomputed by the harness' own decoder from the real files, and with the Lean model; "
                       "non-trivial = distinct history with >=3 ops")


RUNNERS = {"C01": run_c01, "C02": run_c02, "C05": run_c05, "C12": run_c12, "C13": run_c13, "C19": run_c19}
