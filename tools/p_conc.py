"""C04: concurrent gets/sets/deletes (with rollovers and merges) are linearizable, never panic or hang.
Forced schedules through the crate's schedule points / the write(2) hook, plus free-running stress
whose timestamped history is checked per key with a Wing-Gong style search."""
import random
import shutil
import sys

from vlib import *

sys.setrecursionlimit(10000)


# ---------------------------------------------------------------------------------------------
# per-key linearizability of a register with put / get / del

def linearizable(ops):
    """ops: list of (inv, resp, kind, arg, result) for ONE key; kinds put(arg=id)->ok, get->id|nil, del->true|false.
    Returns True iff some total order respecting real time explains all results (initial state nil).
    Exact search (Wing-Gong / Lowe style), iterative: operations are sorted by invocation; a search node is
    (index of the first operation not yet linearized, the later ones already linearized, register value). The next
    operation must have been invoked before every still-open operation responded, so the candidates lie in a window
    whose width is bounded by the number of threads, whatever the length of the history."""
    ops = sorted(ops, key=lambda o: (o[0], o[1]))
    n = len(ops)
    inv = [o[0] for o in ops]
    resp = [o[1] for o in ops]

    def apply(state, op):
        _, _, kind, arg, res = op
        if kind == "put":
            return (res == "ok"), arg
        if kind == "get":
            return (res == (state if state is not None else "nil")), state
        return (res == ("true" if state is not None else "false")), None

    seen = set()
    stack = [(0, frozenset(), None)]
    while stack:
        lo, extra, state = stack.pop()
        if lo >= n:
            return True
        key = (lo, extra, state)
        if key in seen:
            continue
        seen.add(key)
        m = resp[lo]
        cands = [lo]
        i = lo + 1
        while i < n and inv[i] <= m:
            if i not in extra:
                cands.append(i)
                if resp[i] < m:
                    m = resp[i]
            i += 1
        nxt = []
        for c in cands:
            if inv[c] > m:
                continue
            ok, st2 = apply(state, ops[c])
            if not ok:
                continue
            if c == lo:
                nl, ex = lo + 1, set(extra)
                while nl in ex:
                    ex.discard(nl)
                    nl += 1
                nxt.append((nl, frozenset(ex), st2))
            else:
                nxt.append((lo, extra | {c}, st2))
        stack.extend(reversed(nxt))
    return False


def check_history(hist):
    """hist: list of event strings `tid kind key arg inv resp result`; returns list of problems"""
    problems = []
    bykey = {}
    for e in hist:
        p = e.split(" ")
        if len(p) != 7:
            continue
        tid, kind, key, arg, inv, resp, res = p
        if res == "panic":
            problems.append(f"{kind} {key} panicked (thread {tid})")
            continue
        if res.startswith("err"):
            problems.append(f"{kind} {key} failed: {res}")
            continue
        if "!corrupt" in res:
            problems.append(f"get {key} returned a torn value {res}")
            continue
        if kind in ("put", "get", "del"):
            bykey.setdefault(key, []).append((int(inv), int(resp), kind, arg, res))
    for key, ops in bykey.items():
        # split into chunks at quiescent points to keep the search small
        ops.sort(key=lambda o: o[0])
        if not linearizable_chunked(ops):
            problems.append(f"history of key {key} ({len(ops)} ops) is not linearizable")
    return problems


def linearizable_chunked(ops):
    # exact check on the whole per-key history (memoised search); histories here are <= ~250 ops per key with
    # bounded overlap, which the bitmask search handles because candidates are limited by real time
    return linearizable(ops)


# ---------------------------------------------------------------------------------------------

SCHEDULES = [
    # name, cfg, setup lines, steps, expectations: list of (line index in steps, predicate description, allowed answers)
    ("reader maps the active file between the two writes of a 9000-byte entry, then reads that entry (D2 window)",
     "cfg mfs=1000000 pool=1",
     ["put 61 3131"],
     ["t.park W io.write 2", "t.spawn W put 62 78*9000", "t.wait W 5000", "get 61", "t.release W", "t.join W 5000", "get 62", "idle", "t.spawn R get 61", "t.join R 5000", "get 62"],
     {2: ["parked io.write"], 3: ["3131"], 5: ["done ok"], 6: ["#9000:"], 7: ["idle 1"], 9: ["done 3131"], 10: ["#9000:"]}),
    ("same window through the merge's own reader: a merge copies an entry whose file it mapped while a large entry was half written",
     "cfg mfs=1000000 pool=1 frag=0/1 dead=0 small=1099511627776",
     ["put 61 3131", "merge"],
     ["put 63 3333", "t.park W io.write 2", "t.spawn W put 62 78*9000", "t.wait W 5000", "get 63", "t.release W", "t.join W 5000", "get 62", "merge", "get 62", "get 63", "idle"],
     {3: ["parked io.write"], 4: ["3333"], 6: ["done ok"], 7: ["#9000:"], 8: ["ok*"], 9: ["#9000:"], 10: ["3333"], 11: ["idle 1"]}),
    ("writer preempted between append and index publish: readers see the old value until the publish, the new one after",
     "cfg mfs=1000000 pool=2",
     ["put 61 3131"],
     ["t.park W put.before_publish 1", "t.spawn W put 61 3232", "t.wait W 5000", "get 61", "t.release W", "t.join W 5000", "get 61"],
     {2: ["parked put.before_publish"], 3: ["3131"], 5: ["done ok"], 6: ["3232"]}),
    ("delete preempted between tombstone append and index removal",
     "cfg mfs=1000000 pool=2",
     ["put 61 3131"],
     ["t.park W del.before_publish 1", "t.spawn W del 61", "t.wait W 5000", "get 61", "t.release W", "t.join W 5000", "get 61"],
     {2: ["parked del.before_publish"], 3: ["3131"], 5: ["done true"], 6: ["nil"]}),
    ("reader preempted between checkout and index lookup while a merge moves its key and removes the old file",
     "cfg mfs=0 pool=2 frag=0/1 dead=0 small=1099511627776",
     ["put 61 3131", "put 62 3232"],
     ["t.park R get.checkout 1", "t.spawn R get 61", "t.wait R 5000", "merge", "put 61 3333", "t.release R", "t.join R 5000", "idle"],
     {2: ["parked get.checkout"], 3: ["ok*"], 4: ["ok"], 6: ["done 3333"], 7: ["idle 2"]}),
    ("reader preempted between index lookup and file read while a merge and a writer wait for its shard; everybody completes",
     "cfg mfs=0 pool=2 frag=0/1 dead=0 small=1099511627776",
     ["put 61 3131"],
     ["t.park R get.lookup 1", "t.spawn R get 61", "t.wait R 5000", "t.spawn M merge", "t.wait M 400", "t.spawn W put 61 3232", "sleep 50", "t.release R", "t.join R 5000", "t.join M 5000", "t.join W 5000", "get 61", "idle"],
     {2: ["parked get.lookup"], 4: ["timeout", "done ok"], 8: ["done 3131"], 9: ["done ok"], 10: ["done ok"], 11: ["3232"], 12: ["idle 2"]}),
    ("the same window with a 32 KiB value and the merge given time to finish inside it",
     "cfg mfs=0 pool=1 frag=0/1 dead=0 small=1099511627776",
     ["put 61 31*32768", "put 62 3232"],
     ["t.park R get.lookup 1", "t.spawn R get 61", "t.wait R 5000", "t.spawn M merge", "t.wait M 400", "t.release R", "t.join R 5000", "t.join M 5000", "get 61", "get 62", "idle"],
     {2: ["parked get.lookup"], 4: ["timeout", "done ok"], 6: ["done #32768:"], 7: ["done ok"], 8: ["#32768:"], 9: ["3232"], 10: ["idle 1"]}),
    ("two deletes of the same key race for the writer lock: exactly one of them finds the key",
     "cfg mfs=1000000 pool=2",
     ["put 61 3131"],
     ["t.park A del.before_publish 1", "t.spawn A del 61", "t.wait A 5000", "t.spawn B del 61", "sleep 150", "t.release A", "t.join A 5000", "t.join B 5000", "get 61"],
     {2: ["parked del.before_publish"], 6: ["done true"], 7: ["done false"], 8: ["nil"]}),
    ("a set and a delete of the same key race: the delete waiting for the lock sees the key the set just published",
     "cfg mfs=1000000 pool=2",
     [],
     ["t.park A put.before_publish 1", "t.spawn A put 61 3131", "t.wait A 5000", "t.spawn B del 61", "sleep 150", "t.release A", "t.join A 5000", "t.join B 5000", "get 61"],
     {2: ["parked put.before_publish"], 6: ["done ok"], 7: ["done true"], 8: ["nil"]}),
    ("merge preempted after copying and hinting eight small entries into one output file: readers of already moved keys are served while the merge is in flight",
     "cfg mfs=1000000 pool=8 frag=0/1 dead=0 small=1099511627776",
     [f"put 6b{i:02x} {0x30 + i:02x}*20" for i in range(8)],
     ["t.park M merge.hinted 8", "t.spawn M merge", "t.wait M 5000"] + [f"t.spawn R{i} get 6b{i:02x}" for i in range(8)] + ["sleep 200", "t.release M", "t.join M 5000"]
     + [f"t.join R{i} 5000" for i in range(8)] + ["idle"],
     dict([(2, ["parked merge.hinted"]), (13, ["done ok"])] + [(14 + i, [f"done {0x30 + i:02x}*"]) for i in range(8)] + [(22, ["idle 8"])])),
    ("rollover between two writes: reader holds a mapping of the old active file, new entries land in the next file",
     "cfg mfs=60 pool=1",
     ["put 61 31*40"],
     ["get 61", "put 62 32*40", "put 61 33*40", "get 62", "get 61", "idle"],
     {0: ["3131*"], 3: ["3232*"], 4: ["3333*"], 5: ["idle 1"]}),
    ("merge preempted after copying an entry, before re-pointing it: a reader of another key is served from the old files",
     "cfg mfs=0 pool=2 frag=0/1 dead=0 small=1099511627776",
     ["put 61 3131", "put 62 3232"],
     ["t.park M merge.before_unlink 1", "t.spawn M merge", "t.wait M 5000", "get 61", "get 62", "t.release M", "t.join M 5000", "get 61", "get 62", "idle"],
     {2: ["parked merge.before_unlink"], 3: ["3131"], 4: ["3232"], 6: ["done ok"], 7: ["3131"], 8: ["3232"], 9: ["idle 2"]}),
]


def run_c04(rep, tier, seed):
    root = os.path.join(RUNS, "run-C04")
    nv = 0

    def viol(kind, what, detail):
        nonlocal nv
        nv += 1
        if nv <= 4:
            rep.violation(kind, dict(what=what, **detail))

    # 1. forced schedules (each in its own process: a wedged reader pool must not poison the next)
    for si, (name, cfg, setup, steps, expect) in enumerate(SCHEDULES):
        lines = [cfg, f"dir s{si}", "open"] + setup + steps
        shutil.rmtree(root, ignore_errors=True)
        died = None
        try:
            ans = run_harness(["store", "--root", root, "--hang-ms", "20000"], lines, preload=True, timeout=120)
        except Died as d:
            ans, died = d.answered, d
        rep.cov["evaluations"] += len(lines)
        rep.count("forced_schedules")
        rep.nontrivial(["c04s", name])
        base = 3 + len(setup)
        bad = None
        for idx, allowed in expect.items():
            li = base + idx
            if li >= len(ans):
                bad = (li, allowed, "no answer (process died / hung)" if died else "missing")
                break
            a = ans[li]
            if not any(a == x or (x.endswith(":") and a.startswith(x)) or (x.endswith("*") and a.startswith(x[:-1])) for x in allowed):
                bad = (li, allowed, a)
                break
        if bad is None and died is not None:
            bad = (len(ans), ["<answer>"], f"process died / hung: {died.why}")
        if bad and any(x.startswith("parked") for x in bad[1]) and str(bad[2]).startswith(("done ", "timeout")) and died is None:
            # the thread did not stop where the schedule wants it: the code no longer passes that point in that way
            # (e.g. an entry that used to take two write(2) calls now takes one). That says nothing about the property;
            # it is a broken tie between this schedule and the code
            viol("correspondence", f"forced schedule `{name}` can no longer be forced: step `{lines[bad[0]]}` answered {bad[2]!r} instead of {bad[1]}",
                 dict(script=lines, answers=ans, failing_line=bad[0], expected=" | ".join(bad[1]), observed=bad[2]))
        elif bad:
            viol("oracle", f"forced schedule `{name}`: step `{lines[bad[0]] if bad[0] < len(lines) else '?'}` answered {bad[2]!r}",
                 dict(script=lines, answers=ans, failing_line=bad[0], expected=" | ".join(bad[1]), observed=bad[2]))
        rep.cov["traces_validated_against_impl"] += 1
        if si < 2:
            rep.sample({"schedule": name, "script": lines, "answers": ans})
    # 1a. many merge passes whose output rolls over after every entry: every pair of consecutive output ids, every shard of the
    # index and of the per-file counters is gone through hundreds of times (a lock taken twice on some pair of ids, or an
    # entry lost on some shard, shows up as a hang or a wrong read)
    lines = ["cfg mfs=0 pool=2 frag=0/1 dead=0 small=1099511627776", "dir marathon", "open"]
    nkeys, rounds = (24, 12) if tier == "quick" else (32, 40)
    for i in range(nkeys):
        lines.append(f"put 6d{i:02x} {0x41 + i % 26:02x}*12")
    checks_at = {}
    for r in range(rounds):
        k = r % nkeys
        lines.append(f"put 6d{k:02x} {0x61 + r % 26:02x}*12")
        lines.append("merge")
        checks_at[len(lines) - 1] = "ok"
        lines.append(f"get 6d{k:02x}")
        checks_at[len(lines) - 1] = f"{0x61 + r % 26:02x}" * 12
    lines.append("idle")
    checks_at[len(lines) - 1] = "idle 2"
    shutil.rmtree(root, ignore_errors=True)
    try:
        ans = run_harness(["store", "--root", root, "--hang-ms", "20000"], lines, preload=False, timeout=300)
    except Died as d:
        ans = d.answered + [f"<process died / hung: {d.why}>"]
    rep.cov["evaluations"] += len(lines)
    rep.count("merge_marathon_passes", rounds)
    for li, want in sorted(checks_at.items()):
        a = ans[li] if li < len(ans) else (ans[-1] if ans and ans[-1].startswith("<") else "no answer")
        if not (a == want or (want == "ok" and a.startswith("ok"))):
            viol("oracle", f"merge pass {li}: `{lines[li]}` answered {a[:80]!r} in a run of {rounds} passes over {nkeys} keys with one output file per entry",
                 dict(script=lines, answers=ans, failing_line=li, expected=want, observed=a[:200]))
            break
    # 1b. the LTS of the theorems against the real store, schedule by schedule (tools/p_lts.py)
    import p_lts
    p_lts.run_lts_tie(rep, tier, seed, viol)
    # 2. free-running stress with linearizability check
    rng = random.Random(seed * 1000 + 4)
    nruns = 12 if tier == "quick" else 120
    for ri in range(nruns):
        mfs = rng.choice([0, 60, 300, 9000, 30000])
        pool = rng.choice([1, 1, 2, 4])
        cache = rng.choice([0, 1, 256])
        writers = rng.choice([1, 2, 3])
        readers = rng.choice([1, 2, 4])
        ops = rng.choice([40, 80]) if tier == "quick" else rng.choice([60, 150])
        keys = rng.choice([1, 2, 4])
        big = rng.choice([0, 30, 60])
        dels, spin, mergers = 25, "", 1
        if ri % 3 == 2:
            # hot key, overwrites only: a get that follows a completed set can never be answered `nil`, so a window in
            # which a published key is momentarily missing from the index cannot hide behind a concurrent delete
            keys, dels, writers, readers, ops, big = 1, 0, 1, 4, 1500, rng.choice([0, 10])
            # readers keep reading until the writer is done (sampled recording; 300 ns between two gets, or the
            # reader-preferring spin lock of the index starves the writer); a preemption injector interrupts the writer
            # about every 300 us at whatever instruction it is executing and makes it sleep there for >= 20 us, so that
            # a window of a few instructions between two steps of a set is held open long enough to be seen
            spin = " spin=1 minms=150 rgap_ns=300 preempt_us=300 pause_us=20"
            mergers = (ri // 3) % 2
        preset = rng.choice(["frag=0/1 dead=0 small=1099511627776", "frag=1/4 dead=1099511627776 small=0", "frag=1/1 dead=1099511627776 small=200"])
        lines = [f"cfg mfs={mfs} pool={pool} cache={cache} {preset}", f"dir st{ri}", "open",
                 f"stress writers={writers} readers={readers} mergers={mergers} ops={ops} keys={keys} seed={rng.randint(1, 10**6)} big={big} dels={dels}{spin}", "idle"]
        shutil.rmtree(root, ignore_errors=True)
        died = None
        try:
            ans = run_harness(["store", "--root", root, "--hang-ms", "60000"], lines, preload=False, timeout=300)
        except Died as d:
            ans, died = d.answered, d
        rep.cov["evaluations"] += (writers + readers) * ops
        rep.count("stress_runs")
        if died is not None or len(ans) < 5:
            viol("oracle", f"stress run died / hung ({died.why if died else '?'})", dict(script=lines, answers=[a[:300] for a in ans]))
            continue
        h = ans[3].split(";")
        if h and h[0].startswith("HANG"):
            viol("oracle", "concurrent operations stopped making progress (hang): " + h[0], dict(script=lines, history_tail=h[-12:]))
            continue
        nm = [e for e in h if e.startswith("m merges")]
        rep.count("merges", int(nm[0].split(" ")[-1]) if nm else 0)
        rep.count("ops", len(h))
        probs = check_history(h)
        rep.nontrivial(["c04r", lines[0], lines[3]])
        if ans[4] != f"idle {max(pool, 1)}":
            probs.append(f"reader pool not restored after the run: {ans[4]} (capacity {max(pool, 1)})")
        if probs:
            viol("oracle", "; ".join(probs[:3]), dict(script=lines, history=h[:400]))
        rep.cov["traces_validated_against_impl"] += 1
        if ri == 0:
            rep.sample({"stress": lines, "history_head": h[:8]})
    shutil.rmtree(root, ignore_errors=True)
    rep.cov["rule"] = ("(0) a run of merge passes whose output rolls over after every entry (hundreds of consecutive output ids); (1) %d hand-written forced schedules using the crate's schedule points and a pause before a chosen write(2) (the two windows named in the property, merge/reader and writer/reader windows); "
                       "(2) free-running stress: 1-3 writers (put with unique values of 8..48 bytes or 8191/8192/9000/20000 bytes, del; every third run: one hot key, one writer that only overwrites for at least 150 ms / 1500 times, 4 readers reading until the writer is done (a get is recorded when its result changes and every 100 us), a preemption injector that interrupts the writer thread every ~300 us and makes it sleep >= 20 us wherever it is), 1-4 readers, one merging thread, max_file_size in {0,60,300,9000,30000}, pool 1/2/4, cache 0/1/256; "
                       "the timestamped history is checked per key for linearizability (exact memoised search), values for tearing, results for panics/errors, the run for hangs, the pool for leaked readers; "
                       "(3) correspondence with the LTS the theorems are about (`CStore.step`): model-guided schedules over 3 file sizes x 2 pool sizes x 6 initial stores x {get, put (3 bytes / 9000 bytes = two write(2) calls), del, merge} parked at each of its schedule points "
                       "(optionally a second, later one) while a second operation runs; for every move the model's prediction (parked at the point / finished with result / blocked) is compared with the real thread, and at the end the index, the active file id, "
                       "the non-empty data files and the pooled readers are compared; "
                       "non-trivial = distinct schedule or stress configuration") % len(SCHEDULES)


RUNNERS = {"C04": run_c04}


# ---------------------------------------------------------------------------------------------
# C17: a closed store rejects all use and stops its background worker

def run_c17(rep, tier, seed):
    from p_crash import calls_of
    rng = random.Random(seed * 1000 + 17)
    root = os.path.join(RUNS, "run-C17")
    nv = 0
    BG = "bitcask-background-tasks"
    scenarios = []
    reps = 1 if tier == "quick" else 6
    for r in range(reps):
        far = rng.choice([3600000, 600000])
        scenarios += [
            ("worker sleeping, next timer far away", f"cfg mfs=1000000 policy=always interval={far} jitter=3/10", [], 3000),
            ("worker about to merge (between the trigger check and the merge call)", "cfg mfs=1000000 policy=always interval=40 jitter=0/1 tfrag=0/1 tdead=0 frag=0/1 dead=0 small=1099511627776", "park-merge", 3000),
            ("worker about to merge, check interval 2.5 s (the rejected merge must not cost another interval)", "cfg mfs=1000000 policy=always interval=2500 jitter=0/1 tfrag=0/1 tdead=0 frag=0/1 dead=0 small=1099511627776", "park-merge", 900),
            ("worker syncing every 20 ms", "cfg mfs=1000000 sync=20 policy=never", [], 3000),
            ("a client's set is in flight, holding the writer lock, when the owner is dropped", f"cfg mfs=1000000 policy=always interval={far} jitter=3/10", "park-put", 3000),
            ("the worker's merge pass is under way, holding the writer lock, when the owner is dropped", "cfg mfs=1000000 policy=always interval=40 jitter=0/1 tfrag=0/1 tdead=0 frag=0/1 dead=0 small=1099511627776", "park-in-merge", 3000),
            ("a merge pass has failed at its last step (its new active file could not be created: a foreign file sits at that id) and the foreign file is gone again", "cfg mfs=1000000 policy=never frag=0/1 dead=0 small=1099511627776", "failed-merge", 3000),
            ("worker merging every 30 ms and syncing every 25 ms", "cfg mfs=60 sync=25 policy=always interval=30 jitter=1/1 tfrag=0/1 tdead=0 frag=0/1 dead=0 small=1099511627776", [], 3000),
        ]
    for si, (name, cfg, special, deadline) in enumerate(scenarios):
        lines = [cfg, f"dir s{si}", "trace on", "keys 61 62 63"]
        if special == "park-merge":
            lines += [f"t.park {BG} bg.before_merge 1"]
        if special == "park-in-merge":
            lines += ["t.park * merge.copied 1"]
        lines += ["open", "put 61 3131", "put 61 3232", "put 62 3333", "del 62"]
        if special == "park-merge":
            lines += [f"t.wait {BG} 8000"]
        elif special == "park-put":
            lines += ["t.park W put.before_publish 1", "t.spawn W put 63 3939", "t.wait W 5000"]
        elif special == "park-in-merge":
            lines += ["t.wait * 8000"]
        elif special == "failed-merge":
            lines += ["mkfile d2", "merge", "rmfile d2"]
        else:
            lines += ["sleep 60"]
        i_drop = len(lines)
        lines += ["drop", "whocalls"]
        if special == "park-merge":
            lines += [f"t.release {BG}"]
        elif special == "park-put":
            lines += ["t.release W", "t.join W 5000"]
        elif special == "park-in-merge":
            lines += ["t.release *", "sleep 300"]
        i_ops = len(lines)
        lines += ["put 61 3434", "get 61", "get 62", "get 63", "del 61", "merge", "sync"]
        i_wait = len(lines)
        lines += [f"waitbg 0 {deadline}", "sleep 80", "tdrain", "whocalls", "close", "reopen", "get 61", "get 62", "close"]
        # `trace-settle` / `calls-after-drop` are evaluated from the per-line traces; keep placeholders out of the script
        script = [l for l in lines if l not in ("trace-settle", "calls-after-drop")]
        shutil.rmtree(root, ignore_errors=True)
        died = None
        try:
            ans = run_harness(["store", "--root", root, "--hang-ms", "20000"], script, preload=True, timeout=120)
        except Died as d:
            ans, died = d.answered, d
        rep.cov["evaluations"] += len(script)
        rep.count("drop_scenarios")
        rep.nontrivial(["c17", name, si])
        rep.cov["traces_validated_against_impl"] += 1
        bad = None
        if died is not None:
            bad = (len(ans), "-", f"harness died / hung: {died.why}")
        else:
            # Who may still touch the directory after the drop: nobody on behalf of the rejected operations (the
            # harness thread), and the store's own worker only to finish the one merge / sync it had already begun
            # when the object was dropped. Where the worker was parked in front of its merge call (park-merge) it
            # had begun nothing, so there nothing at all may happen. Calls are attributed by the thread that made
            # them (`whocalls`: store's background threads vs everybody else, counted since the drop).
            i_who = [k for k, l in enumerate(script) if l == "whocalls"][1]
            who = dict(t.split("=") for t in ans[i_who].split())
            fg_calls, bg_calls = int(who.get("fg", 0)), int(who.get("bg", 0))
            for l in ["put 61 3434", "get 61", "get 62", "get 63", "del 61", "sync"]:
                i = script.index(l, i_drop)
                if not strip(ans[i]).startswith("err closed"):
                    bad = (i, "err closed", ans[i])
                    break
            if special == "failed-merge" and not ans[script.index("merge")].startswith("err io"):
                # the scenario itself did not come about (the pass no longer wants the id the foreign file sits at)
                rep.violation("correspondence", dict(what=f"drop while {name}: the merge pass did not fail as the scenario needs", script=script, answers=[a[:200] for a in ans],
                                                     expected="err io", observed=ans[script.index("merge")][:200]))
                continue
            i = script.index("merge", i_drop)
            if not bad and not ans[i].startswith("err closed"):
                bad = (i, "err closed", ans[i])
            # nothing touches the directory after the drop (the close/reopen lines come later)
            i_close = script.index("close", i_drop)
            if not bad:
                for j in range(i_drop + 1, i_close):
                    if calls_of(ans[j]) and (fg_calls > 0 or special == "park-merge"):
                        bad = (j, "no change on disk after the store object was dropped" + (f" ({fg_calls} call(s) were made by the calling thread, {bg_calls} by the store's worker)" if special != "park-merge" else " (the worker had not begun its merge)"), ans[j])
                        break
            i = next(k for k, l in enumerate(script) if l.startswith("waitbg"))
            if not bad and not ans[i].endswith(" ok"):
                bad = (i, "background worker thread gone within the deadline", ans[i])
            i = script.index("reopen", i_drop)
            if not bad and not ans[i].startswith("ok"):
                bad = (i, "the directory opens again at once", ans[i])
            if not bad and (ans[i + 1] != "3232" or ans[i + 2] != "nil"):
                bad = (i + 1, "61=3232 62=nil (the pre-drop contents, untouched by the rejected operations)", ans[i + 1] + " " + ans[i + 2])
        if bad:
            nv += 1
            if nv <= 3:
                rep.violation("oracle", dict(what=f"drop while {name}: step `{script[bad[0]] if bad[0] < len(script) else '?'}` observed `{bad[2][:200]}`", script=script, answers=[a[:200] for a in ans],
                                             failing_line=bad[0], expected=bad[1], observed=bad[2][:300]))
        if si < 2:
            rep.sample({"state": name, "script": script, "answers": [a[:100] for a in ans]})
    # repeated open/close cycles do not accumulate threads or descriptors
    ncyc = 50
    script = ["cfg mfs=1000000 sync=15 policy=always interval=20 jitter=1/2", "dir cyc", "open", "put 61 31", "close", "sleep 300", "waitbg 0 3000", "procstat"]
    for c in range(ncyc):
        script += ["open", f"put 61 {c:02x}", "get 61", "close"]
        if c in (9, ncyc - 1):
            script += ["waitbg 0 5000", "sleep 300", "procstat"]
    shutil.rmtree(root, ignore_errors=True)
    try:
        ans = run_harness(["store", "--root", root, "--hang-ms", "20000"], script, preload=False, timeout=300)
        stats = [a for l, a in zip(script, ans) if l == "procstat"]
        rep.count("open_close_cycles", ncyc)
        rep.cov["evaluations"] += len(script)
        rep.nontrivial(["c17-cycles"])

        def parse(sx):
            return tuple(int(x) for x in re.findall(r"threads=(\d+) fds=(\d+) bg=(\d+)", sx)[0])
        a10, a50 = parse(stats[1]), parse(stats[2])
        if a50[0] > a10[0] or a50[1] > a10[1] or a50[2] != 0:
            rep.violation("oracle", dict(what=f"open/close cycles accumulate threads or open files: after 10 cycles {stats[1]}, after {ncyc} cycles {stats[2]}", script=script[:20], answers=stats))
        bgw = [a for l, a in zip(script, ans) if l.startswith("waitbg")]
        if any(not b.endswith(" ok") for b in bgw):
            rep.violation("oracle", dict(what="a background worker thread was still alive 5 s after its store was closed: " + str(bgw), script=script[:20], answers=bgw))
        rep.sample({"cycles": ncyc, "procstat": stats})
    except Died as d:
        rep.violation("oracle", dict(what=f"harness died / hung during open/close cycles ({d.why})", script=script[:20], answers=d.answered[-10:]))
    shutil.rmtree(root, ignore_errors=True)
    rep.cov["rule"] = ("the owning store object is dropped (a handle is kept) while the background worker is sleeping with its next timer 10-60 min away, parked between `can_merge()` and the merge call "
                       "(schedule point), syncing every 20 ms, or merging+syncing continuously; then every API is called through the handle: must fail with `closed`, issue no file-system call "
                       "(LD_PRELOAD recorder), the worker thread must be gone within 3 s, the directory must reopen at once with the pre-drop contents; plus 50 open/write/close cycles comparing "
                       "thread and descriptor counts after cycle 10 and 50; non-trivial = distinct scenario")


def strip(a):
    return a.split(" | T ")[0]


# ---------------------------------------------------------------------------------------------
# C18: background merge and sync follow the configured policy

def run_c18(rep, tier, seed):
    config_stage(rep, random.Random(seed * 77 + 1), 40 if tier == "quick" else 400, os.path.join(RUNS, "run-cfg-" + "run_c18"))
    rng = random.Random(seed * 1000 + 18)
    root = os.path.join(RUNS, "run-C18")
    nv = 0
    SLACK = 4000     # ms of scheduling slack granted on top of interval*(1+jitter) for positive expectations
    import datetime
    hour = datetime.datetime.now().hour
    cases = []
    n = 1 if tier == "quick" else 5
    for (jn, jd) in [(0, 1), (3, 10), (1, 1)] * n:
        interval = rng.choice([40, 80, 150])
        # writes: k overwritten 3x -> file 0 has 3 dead of 4 entries (frag 3/4), ~84 dead bytes
        above = "tfrag=1/2 tdead=1099511627776"
        below = "tfrag=7/8 tdead=1099511627776"
        above_bytes = "tfrag=1/1 tdead=50"
        below_bytes = "tfrag=1/1 tdead=5000"
        # the hour is filled in when the case is run (a thorough run lasts longer than what is left of an hour)
        in_window = "window:@IN@"
        out_window = "window:@OUT@"
        base = f"mfs=1000000 interval={interval} jitter={jn}/{jd} frag=0/1 dead=0 small=1099511627776"
        deadline = int(interval * (1 + jn / jd)) + SLACK
        quiet = max(6 * interval * 2, 600)
        if (jn, jd) != (3, 10) and tier == "quick":
            # quick tier: the other jitter settings only re-run the positive case
            cases += [(f"policy=always, fragmentation trigger exceeded, jitter {jn}/{jd}", f"cfg {base} policy=always {above}", "merge", deadline)]
            continue
        cases += [
            (f"policy=always, fragmentation trigger exceeded ({above})", f"cfg {base} policy=always {above}", "merge", deadline),
            (f"policy=always, dead-bytes trigger exceeded ({above_bytes})", f"cfg {base} policy=always {above_bytes}", "merge", deadline),
            (f"policy=always, no trigger exceeded ({below})", f"cfg {base} policy=always {below}", "none", quiet),
            (f"policy=always, dead bytes below the trigger ({below_bytes})", f"cfg {base} policy=always {below_bytes}", "none", quiet),
            (f"policy=never, triggers exceeded", f"cfg {base} policy=never {above}", "none", quiet),
            (f"policy=window containing the current hour, trigger exceeded", f"cfg {base} policy={in_window} {above}", "merge", deadline),
            (f"policy=window not containing the current hour, trigger exceeded", f"cfg {base} policy={out_window} {above}", "none", quiet),
        ]
    # a file in which nothing is live any more (two overwritten values and a tombstone): fragmentation 1, 3 dead entries
    cases.insert(1, ("policy=always, fragmentation trigger exceeded by a file whose entries are all dead", f"cfg {base} policy=always tfrag=1/2 tdead=1099511627776", "merge", deadline, "all-dead"))
    cases.insert(2, ("policy=always, dead-bytes trigger exceeded by a file whose entries are all dead", f"cfg {base} policy=always tfrag=1/1 tdead=50", "merge", deadline, "all-dead"))
    for ci, case in enumerate(cases):
        (name, cfg, expect, wait) = case[:4]
        if len(case) > 4:
            writes, final = ["put 6b 31*10", "put 6b 32*10", "del 6b"], "nil"
        else:
            writes, final = ["put 6b 31*10", "put 6b 32*10", "put 6b 33*10", "put 6b 34*10"], "34343434343434343434"
        mcfg = cfg.replace("policy=" + (re.search(r"policy=(\S+)", cfg).group(1)), "policy=" + ("always" if expect == "merge" or "policy=always" in cfg else "never"))
        mscript = [mcfg, f"dir c{ci}", "open"] + writes + ["canmerge"]
        cfg0 = cfg
        for attempt in range(3):
            hour = datetime.datetime.now().hour
            cfg = cfg0.replace("@IN@", f"{hour}-{hour}").replace("@OUT@", f"{(hour + 2) % 24}-{(hour + 2) % 24}")
            script = [cfg, f"dir c{ci}", "open"] + writes + ["canmerge", f"waitfor hint {wait}", "get 6b", "close"]
            shutil.rmtree(root, ignore_errors=True)
            died = None
            try:
                ans = run_harness(["store", "--root", root, "--hang-ms", "30000"], script, preload=False, timeout=120)
            except Died as d:
                ans, died = d.answered, d
            if "window" not in cfg or datetime.datetime.now().hour == hour:
                break       # (else the hour turned while the case ran: what the window contained is not known; run it again)
        mans = run_driver(mscript)
        rep.cov["evaluations"] += len(script)
        rep.count("policy_cases")
        rep.nontrivial(["c18", name])
        rep.cov["traces_validated_against_impl"] += 1
        bad = None
        if died is not None or len(ans) < len(script):
            bad = (len(ans), "-", f"harness died / hung: {died.why if died else '?'}")
        else:
            i = script.index("canmerge")
            exp_can = "true" if expect == "merge" else "false"
            if ans[i] != exp_can:
                bad = (i, exp_can, ans[i], "oracle")
            elif mans[i] != ans[i]:
                bad = (i, mans[i], ans[i], "correspondence")
            w = ans[i + 1]
            if not bad and expect == "merge" and not w.startswith("seen"):
                bad = (i + 1, f"a merge within {wait} ms without any client action", w, "oracle")
            if not bad and expect == "none" and w != "timeout":
                bad = (i + 1, f"no merge ({wait} ms observed)", w, "oracle")
            if not bad and ans[i + 2] != final:
                bad = (i + 2, final, ans[i + 2], "oracle")
            if w.startswith("seen"):
                rep.count("merge_latency_ms_total", int(w.split(" ")[1]))
        if bad:
            nv += 1
            if nv <= 3:
                rep.violation(bad[3] if len(bad) > 3 else "oracle", dict(what=f"{name}: step `{script[bad[0]] if bad[0] < len(script) else '?'}` observed `{str(bad[2])[:100]}`", script=script, answers=ans,
                                                                          failing_line=bad[0], expected=str(bad[1]), observed=str(bad[2])[:300], model_answers=mans))
        if ci < 3:
            rep.sample({"case": name, "script": script, "answers": ans})
    # a merge that is due must not be skipped because a client happens to hold the writer lock when the check fires: a
    # busy writer issues sets back to back and sits 300 ms inside each (between append and publish, i.e. holding the
    # writer lock); the due merge has to wait its turn and run, within interval + hold + slack
    for interval in ([250] if tier == "quick" else [150, 250, 400]):
        hold = 300
        bound = interval + 2 * hold + SLACK
        script = [f"cfg mfs=1000000 interval={interval} jitter=0/1 frag=0/1 dead=0 small=1099511627776 policy=always tfrag=1/2 tdead=1099511627776",
                  f"dir bw{interval}", "open", "put 6b 31*10", "put 6b 32*10", "put 6b 33*10", "put 6b 34*10", "canmerge", f"bw.start {hold}",
                  f"waitfor hint {bound}", "bw.stop", "get 6b", "close"]
        shutil.rmtree(root, ignore_errors=True)
        try:
            ans = run_harness(["store", "--root", root, "--hang-ms", "30000"], script, preload=False, timeout=120)
        except Died as d:
            rep.violation("oracle", dict(what=f"harness died / hung with a busy writer ({d.why})", script=script, answers=d.answered))
            continue
        rep.cov["evaluations"] += len(script)
        rep.count("busy_writer_cases")
        rep.nontrivial(["c18bw", interval])
        i = script.index("canmerge")
        if ans[i] != "true":
            rep.violation("oracle", dict(what="trigger exceeded but can_merge() is false", script=script, answers=ans, failing_line=i, expected="true", observed=ans[i]))
        elif not ans[i + 2].startswith("seen"):
            rep.violation("oracle", dict(what=f"policy=always, trigger exceeded, a client keeps the writer busy ({ans[i + 3]}): no merge within {bound} ms although the lock is released between any two sets",
                                         script=script, answers=ans, failing_line=i + 2, expected=f"a merge within {bound} ms", observed=ans[i + 2]))
        elif ans[i + 4] != "34343434343434343434":
            rep.violation("oracle", dict(what="wrong value after a merge with a busy writer", script=script, answers=ans, failing_line=i + 4, expected="34343434343434343434", observed=ans[i + 4]))
    # a background pass that fails (a stray file sits where its first output would go) must not be the last one: the next
    # rounds use ids above the stray file and must merge
    for interval in ([200] if tier == "quick" else [100, 200, 400]):
        bound = 3 * interval + SLACK
        script = [f"cfg mfs=1000000 interval={interval} jitter=0/1 frag=0/1 dead=0 small=1099511627776 policy=always tfrag=1/2 tdead=1099511627776",
                  f"dir fb{interval}", "open", "mkfile d1", "put 6b 31*10", "put 6b 32*10", "put 6b 33*10", "put 6b 34*10", "canmerge",
                  f"waitfor hint {bound}", "get 6b", "close"]
        shutil.rmtree(root, ignore_errors=True)
        try:
            ans = run_harness(["store", "--root", root, "--hang-ms", "30000"], script, preload=False, timeout=120)
        except Died as d:
            rep.violation("oracle", dict(what=f"harness died / hung after a failed background pass ({d.why})", script=script, answers=d.answered))
            continue
        rep.cov["evaluations"] += len(script)
        rep.count("failed_background_pass_cases")
        rep.nontrivial(["c18fb", interval])
        i = script.index("canmerge")
        if ans[3] != "ok" or ans[i] != "true":
            rep.violation("oracle", dict(what="set-up of the failed-pass case did not work", script=script, answers=ans, failing_line=i, expected="ok / true", observed=f"{ans[3]} / {ans[i]}"))
        elif not ans[i + 1].startswith("seen"):
            rep.violation("oracle", dict(what=f"policy=always, trigger exceeded: the first background pass fails (a stray file has the id of its first output); no later round merged within {bound} ms",
                                         script=script, answers=ans, failing_line=i + 1, expected=f"a merge within {bound} ms", observed=ans[i + 1]))
        elif ans[i + 2] != "34343434343434343434":
            rep.violation("oracle", dict(what="wrong value after the merge that followed a failed background pass", script=script, answers=ans, failing_line=i + 2, expected="34343434343434343434", observed=ans[i + 2]))
    # interval sync: the active file is fsynced at least once per interval while the store is open
    for interval in ([50] if tier == "quick" else [30, 50, 120]):
        script = [f"cfg mfs=1000000 sync={interval} policy=never", "dir sy", "trace on", "open", "put 61 31"] + [f"waitfor fsync {interval + SLACK}"] * 5 + ["close"]
        shutil.rmtree(root, ignore_errors=True)
        try:
            ans = run_harness(["store", "--root", root, "--hang-ms", "30000"], script, preload=True, timeout=120)
            ws = [a for l, a in zip(script, ans) if l.startswith("waitfor")]
            rep.count("sync_cases")
            rep.cov["evaluations"] += len(script)
            rep.nontrivial(["c18-sync", interval])
            if any(not w.startswith("seen") for w in ws):
                rep.violation("oracle", dict(what=f"sync interval {interval} ms: no fsync of the active file observed within {interval + SLACK} ms: {ws}", script=script, answers=ans))
            rep.sample({"sync_interval_ms": interval, "waits": ws})
        except Died as d:
            rep.violation("oracle", dict(what=f"harness died ({d.why}) in the interval-sync case", script=script, answers=d.answered))
    # sync=none / always issue no background fsync
    script = ["cfg mfs=1000000 sync=none policy=never", "dir sn", "trace on", "open", "put 61 31", "waitfor fsync 400", "close"]
    try:
        ans = run_harness(["store", "--root", root, "--hang-ms", "30000"], script, preload=True, timeout=60)
        rep.cov["evaluations"] += len(script)
        if ans[5] != "timeout":
            rep.violation("oracle", dict(what="sync=none: a background fsync was observed", script=script, answers=ans))
    except Died as d:
        rep.violation("oracle", dict(what=f"harness died ({d.why})", script=script, answers=d.answered))
    shutil.rmtree(root, ignore_errors=True)
    rep.cov["rule"] = ("configurations x write patterns: policy always/never/window (containing or not the current hour), fragmentation and dead-bytes triggers just above and just below the written pattern "
                       "(3 of 4 entries dead, ~84 dead bytes; and a file whose entries are all dead: two overwritten values and a tombstone), check intervals 40-150 ms, jitter 0 / 0.3 / 1; the store is left alone and the directory polled: a merge (a hint file) must appear within "
                       "interval*(1+jitter)+4 s when expected and must not appear during >= 12 intervals when not; `can_merge()` is compared with the Lean decision model; interval sync: five consecutive "
                       "waits each see an fsync of the active file within interval+4 s; a busy writer (sets back to back, each holding the writer lock 300 ms) must not make a due merge be skipped; sync=none: none in 400 ms; non-trivial = distinct case")


RUNNERS.update({"C17": run_c17, "C18": run_c18})
