"""C04: concurrent gets/sets/deletes (with rollovers and merges) are linearizable, never panic or hang.
Forced schedules through the crate's schedule points / the write(2) hook, plus free-running stress
whose timestamped history is checked per key with a Wing-Gong style search."""
import random
import shutil
import sys

from vlib import *

sys.setrecursionlimit(10000)


# ---------------------------------------------------------------------------------------------
# per-key linearizability of a register with put / get / del

def linearizable(ops):
    """ops: list of (inv, resp, kind, arg, result) for ONE key; kinds put(arg=id)->ok, get->id|nil, del->true|false.
    Returns True iff some total order respecting real time explains all results (initial state nil)."""
    n = len(ops)
    ops = sorted(ops, key=lambda o: o[0])
    seen = set()

    def apply(state, op):
        _, _, kind, arg, res = op
        if kind == "put":
            return (res == "ok"), arg
        if kind == "get":
            return (res == (state if state is not None else "nil")), state
        return (res == ("true" if state is not None else "false")), None

    def search(done, state):
        if done == (1 << n) - 1:
            return True
        key = (done, state)
        if key in seen:
            return False
        seen.add(key)
        # candidates: not done, and no other not-done op responded before this one was invoked
        min_resp = min(ops[i][1] for i in range(n) if not done >> i & 1)
        for i in range(n):
            if done >> i & 1:
                continue
            if ops[i][0] > min_resp:
                break
            ok, st2 = apply(state, ops[i])
            if ok and search(done | 1 << i, st2):
                return True
        return False

    return search(0, None)


def check_history(hist):
    """hist: list of event strings `tid kind key arg inv resp result`; returns list of problems"""
    problems = []
    bykey = {}
    for e in hist:
        p = e.split(" ")
        if len(p) != 7:
            continue
        tid, kind, key, arg, inv, resp, res = p
        if res == "panic":
            problems.append(f"{kind} {key} panicked (thread {tid})")
            continue
        if res.startswith("err"):
            problems.append(f"{kind} {key} failed: {res}")
            continue
        if "!corrupt" in res:
            problems.append(f"get {key} returned a torn value {res}")
            continue
        if kind in ("put", "get", "del"):
            bykey.setdefault(key, []).append((int(inv), int(resp), kind, arg, res))
    for key, ops in bykey.items():
        # split into chunks at quiescent points to keep the search small
        ops.sort(key=lambda o: o[0])
        if not linearizable_chunked(ops):
            problems.append(f"history of key {key} ({len(ops)} ops) is not linearizable")
    return problems


def linearizable_chunked(ops):
    # exact check on the whole per-key history (memoised search); histories here are <= ~250 ops per key with
    # bounded overlap, which the bitmask search handles because candidates are limited by real time
    return linearizable(ops)


# ---------------------------------------------------------------------------------------------

SCHEDULES = [
    # name, cfg, setup lines, steps, expectations: list of (line index in steps, predicate description, allowed answers)
    ("reader maps the active file between the two writes of a 9000-byte entry, then reads that entry (D2 window)",
     "cfg mfs=1000000 pool=1",
     ["put 61 3131"],
     ["t.park W io.write 2", "t.spawn W put 62 78*9000", "t.wait W 5000", "get 61", "t.release W", "t.join W 5000", "get 62", "idle", "t.spawn R get 61", "t.join R 5000", "get 62"],
     {2: ["parked io.write"], 3: ["3131"], 5: ["done ok"], 6: ["#9000:"], 7: ["idle 1"], 9: ["done 3131"], 10: ["#9000:"]}),
    ("same window through the merge's own reader: a merge copies an entry whose file it mapped while a large entry was half written",
     "cfg mfs=1000000 pool=1 frag=0/1 dead=0 small=1099511627776",
     ["put 61 3131", "merge"],
     ["put 63 3333", "t.park W io.write 2", "t.spawn W put 62 78*9000", "t.wait W 5000", "get 63", "t.release W", "t.join W 5000", "get 62", "merge", "get 62", "get 63", "idle"],
     {3: ["parked io.write"], 4: ["3333"], 6: ["done ok"], 7: ["#9000:"], 8: ["ok*"], 9: ["#9000:"], 10: ["3333"], 11: ["idle 1"]}),
    ("writer preempted between append and index publish: readers see the old value until the publish, the new one after",
     "cfg mfs=1000000 pool=2",
     ["put 61 3131"],
     ["t.park W put.before_publish 1", "t.spawn W put 61 3232", "t.wait W 5000", "get 61", "t.release W", "t.join W 5000", "get 61"],
     {2: ["parked put.before_publish"], 3: ["3131"], 5: ["done ok"], 6: ["3232"]}),
    ("delete preempted between tombstone append and index removal",
     "cfg mfs=1000000 pool=2",
     ["put 61 3131"],
     ["t.park W del.before_publish 1", "t.spawn W del 61", "t.wait W 5000", "get 61", "t.release W", "t.join W 5000", "get 61"],
     {2: ["parked del.before_publish"], 3: ["3131"], 5: ["done true"], 6: ["nil"]}),
    ("reader preempted between checkout and index lookup while a merge moves its key and removes the old file",
     "cfg mfs=0 pool=2 frag=0/1 dead=0 small=1099511627776",
     ["put 61 3131", "put 62 3232"],
     ["t.park R get.checkout 1", "t.spawn R get 61", "t.wait R 5000", "merge", "put 61 3333", "t.release R", "t.join R 5000", "idle"],
     {2: ["parked get.checkout"], 3: ["ok*"], 4: ["ok"], 6: ["done 3333"], 7: ["idle 2"]}),
    ("reader preempted between index lookup and file read while a merge and a writer wait for its shard; everybody completes",
     "cfg mfs=0 pool=2 frag=0/1 dead=0 small=1099511627776",
     ["put 61 3131"],
     ["t.park R get.lookup 1", "t.spawn R get 61", "t.wait R 5000", "t.spawn M merge", "t.spawn W put 61 3232", "sleep 50", "t.release R", "t.join R 5000", "t.join M 5000", "t.join W 5000", "get 61", "idle"],
     {2: ["parked get.lookup"], 7: ["done 3131"], 8: ["done ok"], 9: ["done ok"], 10: ["3232"], 11: ["idle 2"]}),
    ("rollover between two writes: reader holds a mapping of the old active file, new entries land in the next file",
     "cfg mfs=60 pool=1",
     ["put 61 31*40"],
     ["get 61", "put 62 32*40", "put 61 33*40", "get 62", "get 61", "idle"],
     {0: ["3131*"], 3: ["3232*"], 4: ["3333*"], 5: ["idle 1"]}),
    ("merge preempted after copying an entry, before re-pointing it: a reader of another key is served from the old files",
     "cfg mfs=0 pool=2 frag=0/1 dead=0 small=1099511627776",
     ["put 61 3131", "put 62 3232"],
     ["t.park M merge.before_unlink 1", "t.spawn M merge", "t.wait M 5000", "get 61", "get 62", "t.release M", "t.join M 5000", "get 61", "get 62", "idle"],
     {2: ["parked merge.before_unlink"], 3: ["3131"], 4: ["3232"], 6: ["done ok"], 7: ["3131"], 8: ["3232"], 9: ["idle 2"]}),
]


def run_c04(rep, tier, seed):
    root = os.path.join(WORK, "run-C04")
    nv = 0

    def viol(kind, what, detail):
        nonlocal nv
        nv += 1
        if nv <= 4:
            rep.violation(kind, dict(what=what, **detail))

    # 1. forced schedules (each in its own process: a wedged reader pool must not poison the next)
    for si, (name, cfg, setup, steps, expect) in enumerate(SCHEDULES):
        lines = [cfg, f"dir s{si}", "open"] + setup + steps
        shutil.rmtree(root, ignore_errors=True)
        died = None
        try:
            ans = run_harness(["store", "--root", root, "--hang-ms", "20000"], lines, preload=True, timeout=120)
        except Died as d:
            ans, died = d.answered, d
        rep.cov["evaluations"] += len(lines)
        rep.count("forced_schedules")
        rep.nontrivial(["c04s", name])
        base = 3 + len(setup)
        bad = None
        for idx, allowed in expect.items():
            li = base + idx
            if li >= len(ans):
                bad = (li, allowed, "no answer (process died / hung)" if died else "missing")
                break
            a = ans[li]
            if not any(a == x or (x.endswith(":") and a.startswith(x)) or (x.endswith("*") and a.startswith(x[:-1])) for x in allowed):
                bad = (li, allowed, a)
                break
        if bad is None and died is not None:
            bad = (len(ans), ["<answer>"], f"process died / hung: {died.why}")
        if bad:
            viol("oracle", f"forced schedule `{name}`: step `{lines[bad[0]] if bad[0] < len(lines) else '?'}` answered {bad[2]!r}",
                 dict(script=lines, answers=ans, failing_line=bad[0], expected=" | ".join(bad[1]), observed=bad[2]))
        rep.cov["traces_validated_against_impl"] += 1
        if si < 2:
            rep.sample({"schedule": name, "script": lines, "answers": ans})
    # 2. free-running stress with linearizability check
    rng = random.Random(seed * 1000 + 4)
    nruns = 12 if tier == "quick" else 120
    for ri in range(nruns):
        mfs = rng.choice([0, 60, 300, 9000, 30000])
        pool = rng.choice([1, 1, 2, 4])
        cache = rng.choice([0, 1, 256])
        writers = rng.choice([1, 2, 3])
        readers = rng.choice([1, 2, 4])
        ops = rng.choice([40, 80]) if tier == "quick" else rng.choice([60, 150])
        keys = rng.choice([1, 2, 4])
        big = rng.choice([0, 30, 60])
        preset = rng.choice(["frag=0/1 dead=0 small=1099511627776", "frag=1/4 dead=1099511627776 small=0", "frag=1/1 dead=1099511627776 small=200"])
        lines = [f"cfg mfs={mfs} pool={pool} cache={cache} {preset}", f"dir st{ri}", "open",
                 f"stress writers={writers} readers={readers} mergers=1 ops={ops} keys={keys} seed={rng.randint(1, 10**6)} big={big}", "idle"]
        shutil.rmtree(root, ignore_errors=True)
        died = None
        try:
            ans = run_harness(["store", "--root", root, "--hang-ms", "60000"], lines, preload=False, timeout=300)
        except Died as d:
            ans, died = d.answered, d
        rep.cov["evaluations"] += (writers + readers) * ops
        rep.count("stress_runs")
        if died is not None or len(ans) < 5:
            viol("oracle", f"stress run died / hung ({died.why if died else '?'})", dict(script=lines, answers=[a[:300] for a in ans]))
            continue
        h = ans[3].split(";")
        if h and h[0].startswith("HANG"):
            viol("oracle", "concurrent operations stopped making progress (hang): " + h[0], dict(script=lines, history_tail=h[-12:]))
            continue
        nm = [e for e in h if e.startswith("m merges")]
        rep.count("merges", int(nm[0].split(" ")[-1]) if nm else 0)
        rep.count("ops", len(h))
        probs = check_history(h)
        rep.nontrivial(["c04r", lines[0], lines[3]])
        if ans[4] != f"idle {max(pool, 1)}":
            probs.append(f"reader pool not restored after the run: {ans[4]} (capacity {max(pool, 1)})")
        if probs:
            viol("oracle", "; ".join(probs[:3]), dict(script=lines, history=h[:400]))
        rep.cov["traces_validated_against_impl"] += 1
        if ri == 0:
            rep.sample({"stress": lines, "history_head": h[:8]})
    shutil.rmtree(root, ignore_errors=True)
    rep.cov["rule"] = ("(1) %d hand-written forced schedules using the crate's schedule points and a pause before a chosen write(2) (the two windows named in the property, merge/reader and writer/reader windows); "
                       "(2) free-running stress: 1-3 writers (put with unique values of 8..48 bytes or 8191/8192/9000/20000 bytes, del), 1-4 readers, one merging thread, max_file_size in {0,60,300,9000,30000}, pool 1/2/4, cache 0/1/256; "
                       "the timestamped history is checked per key for linearizability (exact memoised search), values for tearing, results for panics/errors, the run for hangs, the pool for leaked readers; "
                       "non-trivial = distinct schedule or stress configuration") % len(SCHEDULES)


RUNNERS = {"C04": run_c04}
