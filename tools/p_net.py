"""Network properties on the real server over loopback TCP: C06 (replies = map model, in order,
independent of segmentation/pipelining), C10 (hostile input is contained)."""
import random
import shutil

from vlib import *
from p_resp import segmentations, every_single_cut, hx, enc_py
from p_store import show_val


def bulk(b):
    return b"$" + str(len(b)).encode() + b"\r\n" + b + b"\r\n"


def req_bytes(r):
    if r[0] == "SET":
        parts = [b"SET", r[1], r[2]]
    elif r[0] == "GET":
        parts = [b"GET", r[1]]
    else:
        parts = [b"DEL"] + list(r[1])
    return b"*" + str(len(parts)).encode() + b"\r\n" + b"".join(bulk(p) for p in parts)


def apply_req(m, r):
    """python map oracle: returns reply bytes"""
    if r[0] == "SET":
        m[r[1]] = r[2]
        return b"+OK\r\n"
    if r[0] == "GET":
        v = m.get(r[1])
        return b"$-1\r\n" if v is None else bulk(v)
    n = 0
    for k in r[1]:
        if m.pop(k, None) is not None:
            n += 1
    return b":" + str(n).encode() + b"\r\n"


NKEYS = ["k", "", "key two", "é日本😀", "a\tb", "x" * 40]


def gen_key(rng):
    return rng.choice(NKEYS).encode()


def gen_value(rng):
    r = rng.random()
    if r < 0.1:
        return b""
    if r < 0.4:
        return bytes(rng.choice([13, 10, 0, 255, 36, 42, 43, 45, 58, 48]) for _ in range(rng.randint(1, 10)))
    if r < 0.9:
        return bytes(rng.getrandbits(8) for _ in range(rng.randint(1, 60)))
    return bytes([rng.getrandbits(8)]) * rng.choice([8191, 8192, 8193, 20000])


def gen_req(rng):
    r = rng.random()
    if r < 0.4:
        return ("SET", gen_key(rng), gen_value(rng))
    if r < 0.75:
        return ("GET", gen_key(rng))
    n = rng.choice([1, 1, 2, 3, 5])
    ks = [gen_key(rng) for _ in range(n)]
    if n >= 2 and rng.random() < 0.5:
        ks[1] = ks[0]            # duplicate key: counted once
    return ("DEL", ks)


def net_sessions(impl_lines, model_lines, root, timeout=1800):
    shutil.rmtree(root, ignore_errors=True)
    died = None
    try:
        impl = run_harness(["net", "--root", root, "--fast-fail", "6"], impl_lines, timeout=timeout)
    except Died as d:
        impl, died = d.answered, d
    model = run_driver(model_lines, timeout=timeout)
    shutil.rmtree(root, ignore_errors=True)
    return impl, model, died


def segs_tok(segs):
    return "|".join(s.hex() for s in segs) if segs else "."


def length_sweep(rep, tier, rng, root, viol):
    """value lengths around every power of ten up to a million, and DELs naming 100 / 101 / 10 present keys: every decimal a
    reply can carry as a length or a count with 1..7 digits and a carry in it. Interactive: after a wrong reply the connection
    is replaced (the stream may be out of step), after three the sweep ends."""
    lens = sorted(set(list(range(0, 130)) + [x + d for x in (1000, 10000, 100000, 1000000) for d in range(-3, 102 if tier != "quick" or x <= 10000 else 4)] + [65535, 65536, 99, 999, 9999]))
    shutil.rmtree(root, ignore_errors=True)
    env = dict(ENV)
    s = Session([HBIN, "net", "--root", root], env=env, timeout=60)
    nbad, cn = 0, 0
    try:
        s.ask("srv.start max=64 mfs=300")
        s.ask("c.open len0")

        def step(lines, exp, what):
            nonlocal nbad, cn
            ans = s.ask_many(lines)
            rep.cov["evaluations"] += len(lines)
            rep.count("length_sweep_replies")
            if ans[-1] != exp:
                nbad += 1
                viol("oracle", f"{what}: the reply is not the one the key-value map gives (a length or count is mis-encoded)", [x[:120] for x in lines], exp[:200], ans[-1][:200])
                s.ask(f"c.close len{cn}")
                cn += 1
                s.ask(f"c.open len{cn}")
        for L in lens:
            if nbad >= 3:
                break
            b = rng.getrandbits(8)
            step([f"c.sendbig len{cn} 6c {b:02x} {L}", f"c.read len{cn} 1 5000"], "S:4f4b", f"SET of a {L}-byte value")
            step([f"c.send len{cn} {req_bytes(('GET', b'l')).hex()}", f"c.read len{cn} 1 5000"], "B:" + show_val(bytes([b]) * L), f"GET of a {L}-byte value")
        for nk in (100, 101, 10):
            if nbad >= 3:
                break
            ks_ = [b"d%03d" % i for i in range(nk)]
            lines = []
            for k in ks_:
                lines += [f"c.send len{cn} {req_bytes(('SET', k, b'1')).hex()}", f"c.read len{cn} 1 5000"]
            s.ask_many(lines)
            step([f"c.send len{cn} {req_bytes(('DEL', ks_)).hex()}", f"c.read len{cn} 1 5000"], f"I:{nk}", f"DEL naming {nk} present keys")
        s.ask("srv.stop")
    except Died as d:
        viol("oracle", f"length sweep: harness died / hung ({d.why})", d.answered[-3:], "-", "process death")
    finally:
        s.close()
        shutil.rmtree(root, ignore_errors=True)


def storage_config_sweep(rep, tier, rng, root, viol):
    """the same commands over a server whose store is configured at the edges: no reader cache, no reader pool, a file per
    entry, one-byte files, everything synced; replies against the python map"""
    cfgs = ["cache=0 pool=0 mfs=0", "cache=1 pool=1 mfs=1 sync=always", "cache=0 pool=4 mfs=60", "cache=2 pool=0 mfs=1000000"]
    if tier != "quick":
        cfgs += ["cache=256 pool=1 mfs=0 sync=always", "cache=1 pool=0 mfs=300"]
    keys = [b"a", b"", "ключ".encode()]
    for cfg in cfgs:
        lines, exp, m = [f"srv.start max=8 {cfg}", "c.open x"], {}, {}
        for _ in range(40 if tier == "quick" else 200):
            r = rng.random()
            k = rng.choice(keys)
            if r < 0.4:
                rq = ("SET", k, bytes(rng.getrandbits(8) for _ in range(rng.choice([0, 1, 30, 200]))))
            elif r < 0.8:
                rq = ("GET", k)
            else:
                rq = ("DEL", [rng.choice(keys) for _ in range(rng.randint(1, 3))])
            want = apply_req(m, rq)
            lines += [f"c.send x {req_bytes(rq).hex()}", "c.read x 1 5000"]
            tokb = want
            exp[len(lines) - 1] = ("S:4f4b" if tokb == b"+OK\r\n" else "N" if tokb == b"$-1\r\n" else "I:" + tokb[1:-2].decode() if tokb[:1] == b":" else "B:" + show_val(m.get(rq[1])), rq)
        lines += ["srv.stop"]
        shutil.rmtree(root, ignore_errors=True)
        try:
            ans = run_harness(["net", "--root", root, "--hang-ms", "30000"], lines, timeout=300)
        except Died as d:
            viol("oracle", f"server over a store configured with `{cfg}`: harness died / hung ({d.why})", lines[max(0, len(d.answered) - 3):len(d.answered) + 1], "-", "process death")
            continue
        rep.cov["evaluations"] += len(lines)
        rep.count("storage_config_sweeps")
        for li in sorted(exp):
            if ans[li] != exp[li][0]:
                viol("oracle", f"server over a store configured with `{cfg}`: the reply to {exp[li][1][0]} is not the one the key-value map gives", lines[max(1, li - 5):li + 1], exp[li][0], ans[li][:200])
                break
    shutil.rmtree(root, ignore_errors=True)


def run_c06(rep, tier, seed):
    rng = random.Random(seed * 1000 + 6)
    ncases = 120 if tier == "quick" else 1200
    root = os.path.join(RUNS, "run-C06")
    impl_lines = ["srv.start max=64 mfs=300"]
    model_lines = ["srv.start"]
    cases = []        # (kind, first impl line, n impl lines, model line index, reqs)
    m = {}
    bigcases = [70000, 100000] if tier == "quick" else [8192, 16384, 65536, 70000, 100000, 200000]
    for ci in range(ncases + len(bigcases)):
        reqs = [gen_req(rng) for _ in range(rng.choice([1, 2, 3, 5, 9]))]
        if ci >= ncases:
            # a large request with further requests already buffered behind it
            reqs = [("SET", b"big", bytes([rng.getrandbits(8)]) * bigcases[ci - ncases]), ("GET", b"k"), ("SET", b"k", b"after-big"), ("GET", b"k"), ("DEL", [b"big", b"big"])]
        data = b"".join(req_bytes(r) for r in reqs)
        expected = b"".join(apply_req(m, r) for r in reqs)
        mode = rng.choice(["serve", "serve", "pipeline", "ragged"]) if ci < ncases else "serve"
        if mode == "serve":
            choices = segmentations(rng, data, k=3)
            if len(data) <= 48:
                choices += every_single_cut(data)[:40]
            segs = rng.choice(choices)
            if ci >= ncases:
                segs = rng.choice([[data], [data[i:i + 1000] for i in range(0, len(data), 1000)]])
            if len(data) <= 300 and rng.random() < 0.3:
                segs = [data[i:i + 1] for i in range(len(data))]
            cases.append(("serve", len(impl_lines), 1, len(model_lines), reqs, expected))
            impl_lines.append(f"serve {segs_tok(segs)} {rng.choice([0, 1, 1, 3])}")
            model_lines.append(f"serve {segs_tok(segs)}")
        elif mode == "ragged":
            # lock-step client whose segments do not end on request boundaries: each segment carries the rest of request i
            # and the first bytes of request i+1; reply i is awaited BEFORE the rest of request i+1 is sent
            cid = f"r{ci}"
            start = len(impl_lines)
            impl_lines.append(f"c.open {cid}")
            carried = 0
            for i, r in enumerate(reqs):
                rb = req_bytes(r)
                seg = rb[carried:]
                if i + 1 < len(reqs):
                    nb = req_bytes(reqs[i + 1])
                    carried = rng.choice([1, 1, 2, 4, max(1, len(nb) // 2), len(nb) - 1])
                    carried = max(1, min(carried, len(nb) - 1))
                    seg += nb[:carried]
                impl_lines.append(f"c.send {cid} {seg.hex()}")
                impl_lines.append(f"c.read {cid} 1 8000")
            impl_lines.append(f"c.close {cid}")
            cases.append(("pipeline", start, len(impl_lines) - start, len(model_lines), reqs, expected))
            model_lines.append(f"serve {data.hex()}")
        else:
            # persistent connection, pipelining depth d: send d requests, then read d replies
            d = rng.choice([1, 2, 4, len(reqs)])
            cid = f"p{ci}"
            start = len(impl_lines)
            impl_lines.append(f"c.open {cid}")
            i = 0
            while i < len(reqs):
                chunk = reqs[i:i + d]
                impl_lines.append(f"c.send {cid} " + b"".join(req_bytes(r) for r in chunk).hex())
                impl_lines.append(f"c.read {cid} {len(chunk)} 8000")
                i += d
            impl_lines.append(f"c.close {cid}")
            cases.append(("pipeline", start, len(impl_lines) - start, len(model_lines), reqs, expected))
            model_lines.append(f"serve {data.hex()}")
    # the client library (net/client.rs) against a scripted one-shot server: what Client::{get,set,del} send and what they
    # return for the reply the map model gives, for error replies, for replies of the wrong kind, for truncated replies and
    # for end of stream — compared with the Lean client model (Resp/Client.lean, `cl.call` in the driver)
    def enc_bulk(b):
        return b"$%d\r\n" % len(b) + b + b"\r\n"
    cl_lines, cl_expect = [], []
    ckeys = [b"k", b"key-2", "cl\u00e9".encode(), b"", b"a b", b"x" * 300]
    nclient = 40 if tier == "quick" else 400
    for ci in range(nclient):
        op = rng.choice(["get", "set", "del"])
        k = rng.choice(ckeys)
        v = bytes(rng.getrandbits(8) for _ in range(rng.choice([0, 1, 5, 40, 9000])))
        ks = [rng.choice(ckeys) for _ in range(rng.randint(1, 3))]
        good = {"get": rng.choice([enc_bulk(v), b"$-1\r\n"]), "set": b"+OK\r\n", "del": b":%d\r\n" % rng.randint(0, 3)}[op]
        others = [b"-ERR something went wrong\r\n", b"+OK\r\n", b"+ok\r\n", b":7\r\n", b"$-1\r\n", enc_bulk(b"v"), b"*0\r\n", b"*1\r\n$1\r\nx\r\n",
                  good[:-1], good[:1], b"", b"!bogus\r\n", b":12x\r\n"]
        reply = good if rng.random() < 0.5 else rng.choice(others)
        rtok = "eof" if reply == b"" else reply.hex()
        args = {"get": hx(k), "set": f"{hx(k)} {hx(v)}", "del": ",".join(hx(x) for x in ks)}[op]
        if op != "del" and hx(k) == "-" or (op == "del" and any(hx(x) == "-" for x in ks)):
            continue      # the line protocol writes the empty string as `-`; keep to non-empty keys here
        cl_lines.append(f"cl.call {op} {args} reply={rtok}")
        cl_expect.append((op, reply == good, good, v))
    if cl_lines:
        try:
            ci_ = run_harness(["net", "--root", root + "-cl"], cl_lines, timeout=900)
            cdied = None
        except Died as d:
            ci_, cdied = d.answered, d
        cm_ = run_driver(cl_lines)
        rep.cov["evaluations"] += len(cl_lines)
        rep.count("client_library_calls", len(cl_lines))
        if cdied is not None:
            rep.violation("oracle", dict(what=f"the client library call died / hung ({cdied.why})", script=cl_lines[:len(ci_) + 1][-3:]))
        ncl = 0
        for l, a, m_, (op, was_good, good, v) in zip(cl_lines, ci_, cm_, cl_expect):
            rep.count("client:" + a.split(" ")[0] + ":" + (a.split(" ")[1].split(":")[0] if a.startswith("err") else "ok"))
            kind = None
            if was_good and not a.startswith("ok"):
                kind, what = "oracle", "the client library rejects the reply a correct server gives"
            elif a != m_:
                kind, what = "correspondence", "the client library and its model differ (result or request bytes)"
            if kind and ncl < 3:
                ncl += 1
                rep.violation(kind, dict(what=what, script=[l[:600]], expected=m_[:600], observed=a[:600]))
    # large replies against a client that does not read for a while (the socket buffer fills; a reply must still arrive whole)
    big_checks = []
    for (nbytes, ngets) in ([(3000000, 4)] if tier == "quick" else [(300000, 40), (3000000, 6), (12000000, 2)]):
        byte = rng.getrandbits(8)
        cid = f"big{nbytes}"
        st_ = len(impl_lines)
        impl_lines += [f"c.open {cid}", f"c.sendbig {cid} 626967 {byte:02x} {nbytes}", f"c.read {cid} 1 30000",
                       f"c.send {cid} " + (req_bytes(("GET", b"big")) * ngets + req_bytes(("GET", b"k"))).hex(), "sleep 400", f"c.read {cid} {ngets + 1} 60000", f"c.close {cid}"]
        from p_store import fnv64
        big_checks.append((st_, ngets, "B:#%d:%016x" % (nbytes, fnv64(bytes([byte]) * nbytes))))
        m[b"big"] = bytes([byte]) * nbytes
        model_lines.append(f"kv.set 626967 {byte:02x}*{nbytes}")
    # final store contents through a direct handle
    fin = len(impl_lines)
    for k in NKEYS:
        impl_lines.append("kv.get " + hx(k.encode()))
        model_lines.append("kv.get " + hx(k.encode()))
    impl_lines.append("srv.stop")
    impl, model, died = net_sessions(impl_lines, model_lines, root)
    rep.cov["evaluations"] += len(impl_lines)
    nv = 0

    def viol(kind, what, script, exp, got):
        nonlocal nv
        nv += 1
        if nv <= 4:
            rep.violation(kind, dict(what=what, script=script, expected=exp[:1500], observed=got[:1500]))

    if died is not None:
        viol("oracle", f"harness died / hung ({died.why})", impl_lines[max(0, len(impl) - 3):len(impl) + 1], "-", "process death")
    from p_resp import frame_text

    def reply_tokens(expected):
        """expected reply bytes -> list of frame tokens as `c.read` prints them"""
        out, b = [], expected
        while b:
            if b[:1] in b"+-:":
                e = b.index(b"\r\n")
                tok = {b"+": "S:" + b[1:e].hex(), b"-": "E:" + b[1:e].hex(), b":": "I:" + b[1:e].decode()}[b[:1]]
                out.append(tok)
                b = b[e + 2:]
            else:
                e = b.index(b"\r\n")
                n = int(b[1:e])
                if n < 0:
                    out.append("N")
                    b = b[e + 2:]
                else:
                    out.append("B:" + show_val(b[e + 2:e + 2 + n]))
                    b = b[e + 2 + n + 2:]
        return out

    for (kind, st, n, mi, reqs, expected) in cases:
        if st + n > len(impl):
            break
        rep.count("case:" + kind)
        rep.count("requests", len(reqs))
        rep.nontrivial(["c06", impl_lines[st:st + n]])
        for r in reqs:
            rep.count("req:" + r[0])
        mout = model[mi].split(" ")
        if kind == "serve":
            a = impl[st].split(" ")
            if a[0] != hx(expected) or a[1] != "eof":
                viol("oracle", "replies differ from the key-value map's (exactly one reply per request, in order, byte for byte)", [impl_lines[st][:3000]], hx(expected) + " eof", impl[st])
            elif a[0] != mout[0] or mout[1] != "clean":
                viol("correspondence", "model and server disagree on the reply stream", [impl_lines[st][:3000]], model[mi], impl[st])
        else:
            got = []
            for l, a in zip(impl_lines[st:st + n], impl[st:st + n]):
                if l.startswith("c.read"):
                    got += a.split(";")
            exp = reply_tokens(expected)
            if got != exp:
                viol("oracle", "replies on a pipelined connection differ from the key-value map's", impl_lines[st:st + n], ";".join(exp), ";".join(got))
            elif mout[0] != hx(expected):
                viol("correspondence", "model and server disagree on the reply stream", impl_lines[st:st + n], hx(expected), model[mi])
    length_sweep(rep, tier, rng, root + "-len", viol)
    storage_config_sweep(rep, tier, rng, root + "-cfg", viol)
    for (st_, ngets, tok) in big_checks:
        if st_ + 5 < len(impl):
            rep.count("large_reply_cases")
            exp_small = reply_tokens(apply_req(dict(m), ("GET", b"k")))[0]
            exp = ";".join([tok] * ngets + [exp_small])
            if impl[st_ + 2] != "S:4f4b" or impl[st_ + 5] != exp:
                viol("oracle", "large bulk replies to a slow reader did not arrive whole / in order (reply announced more bytes than were sent, or later replies are mis-framed)",
                     [x[:120] for x in impl_lines[st_:st_ + 7]], exp[:300], (impl[st_ + 2] + " / " + impl[st_ + 5])[:300])
    if len(impl) > fin + len(NKEYS) - 1:
        for j, k in enumerate(NKEYS):
            exp = show_val(m.get(k.encode()))
            if impl[fin + j] != exp:
                viol("oracle", "final store contents differ from the map", [impl_lines[fin + j]], exp, impl[fin + j])
            elif model[len(model_lines) - len(NKEYS) + j] != exp:
                viol("correspondence", "model's final store differs", [impl_lines[fin + j]], exp, model[len(model_lines) - len(NKEYS) + j])
    rep.cov["traces_validated_against_impl"] = len(cases)
    rep.cov["rule"] = ("request scripts of 1..9 SET/GET/DEL (keys: UTF-8 incl. empty, multi-byte, 40 bytes; values: arbitrary bytes incl. CR/LF/NUL, 8191..20000 bytes; DEL with 1..5 keys and duplicates) "
                       "sent to the real server over loopback either on a fresh connection cut into segments (all-at-once / byte-at-a-time / every single cut / random; 0-3 ms between segments; "
                       "everything sent before any reply is read) or on a persistent connection with pipelining depth 1/2/4/all; reply bytes compared with a python map and the Lean handler model; "
                       "final store contents read through a direct handle; a sweep of value lengths 0..129 and -3..+101 around 1000 / 10^4 / 10^5 / 10^6 (SET then GET, the reply compared whole) and DELs naming 100 / 101 / 10 present keys; the same commands over stores configured at the edges (no reader cache, no reader pool, a file per entry, sync always); non-trivial = distinct case")
    for (kind, st, n, mi, reqs, expected) in cases[:3]:
        rep.sample({"requests": [r[0] for r in reqs], "impl_lines": [l[:160] for l in impl_lines[st:st + n]][:6], "impl": [a[:160] for a in impl[st:st + n]][:6]})


# ---------------------------------------------------------------------------------------------

def hostile_streams(rng, tier):
    """(tag, bytes) — what one misbehaving client sends before closing"""
    ok_set = req_bytes(("SET", b"h", b"1"))
    ok_set2 = req_bytes(("SET", b"h2", b"\r\n"))
    out = [
        ("garbage", bytes(rng.getrandbits(8) for _ in range(50))),
        ("garbage-text", b"hello world\r\n"),
        ("unknown-cmd", b"*1\r\n$4\r\nPING\r\n"),
        ("lowercase", b"*2\r\n$3\r\nget\r\n$1\r\nh\r\n"),
        ("arity-get0", b"*1\r\n$3\r\nGET\r\n"),
        ("arity-get2", b"*3\r\n$3\r\nGET\r\n$1\r\na\r\n$1\r\nb\r\n"),
        ("arity-set1", b"*2\r\n$3\r\nSET\r\n$1\r\na\r\n"),
        ("arity-set3", b"*4\r\n$3\r\nSET\r\n$1\r\na\r\n$1\r\nb\r\n$1\r\nc\r\n"),
        ("arity-del0", b"*1\r\n$3\r\nDEL\r\n"),
        ("nonutf8-key", b"*3\r\n$3\r\nSET\r\n$2\r\n\xff\xfe\r\n$1\r\nv\r\n"),
        ("nonutf8-get", b"*2\r\n$3\r\nGET\r\n$1\r\n\xc0\r\n"),
        ("not-array", b"+OK\r\n"),
        ("int-frame", b":5\r\n"),
        ("null-in-array", b"*2\r\n$3\r\nGET\r\n$-1\r\n"),
        ("nested-cmd", b"*1\r\n*2\r\n$3\r\nGET\r\n$1\r\nh\r\n"),
        ("truncated", req_bytes(("SET", b"t", b"value"))[:-4]),
        ("truncated-len", b"*3\r\n$3\r\nSET\r\n$1"),
        ("sign-only", b":-"),
        ("sign-only-bulk", b"*1\r\n$+"),
        ("huge-bulk-len", b"$9223372036854775807\r\n"),
        ("huge-array-len", b"*9223372036854775807\r\n"),
        ("19-digits", b"*2\r\n$20\r\n" + b"a" * 20 + b"\r\n:9999999999999999999\r\n"),
        ("20-digit-len", b"$99999999999999999999\r\n"),
        ("neg-len", b"$-5\r\n"),
        ("neg-array", b"*-1\r\n"),
        ("empty-array", b"*0\r\n"),
        ("deep-33", b"*1\r\n" * 33 + b":1\r\n"),
        ("deep-200000", b"*1\r\n" * 200000 + b":1\r\n"),
        ("valid-then-garbage", ok_set + b"\x00\x01\x02"),
        ("valid-then-unknown", ok_set2 + b"*1\r\n$4\r\nQUIT\r\n" + req_bytes(("SET", b"never", b"x"))),
        ("valid-then-truncated", ok_set + req_bytes(("SET", b"h", b"2"))[:-1]),
        ("lf-in-simple", b"+a\nb\r\n"),
        ("del-good-then-nonutf8", ok_set + b"*3\r\n$3\r\nDEL\r\n$1\r\nh\r\n$2\r\n\xff\xfe\r\n"),
        ("del-good-then-integer", ok_set + b"*3\r\n$3\r\nDEL\r\n$1\r\nh\r\n:5\r\n"),
        ("del-good-then-null", ok_set + b"*4\r\n$3\r\nDEL\r\n$1\r\nh\r\n$-1\r\n$2\r\nh2\r\n"),
        ("del-good-then-nested", ok_set + b"*3\r\n$3\r\nDEL\r\n$1\r\nh\r\n*1\r\n$1\r\nh\r\n"),
        ("del-bad-first", ok_set + b"*3\r\n$3\r\nDEL\r\n$1\r\n\xc0\r\n$1\r\nh\r\n"),
        ("set-value-not-bulk", b"*3\r\n$3\r\nSET\r\n$1\r\nh\r\n:7\r\n"),
        ("set-key-not-bulk", b"*3\r\n$3\r\nSET\r\n+h\r\n$1\r\nv\r\n"),
        ("get-key-simple", ok_set + b"*2\r\n$3\r\nGET\r\n+h\r\n"),
        ("cmd-name-not-bulk", b"*2\r\n+GET\r\n$1\r\nh\r\n"),
        ("cmd-name-mixed-case", b"*2\r\n$3\r\nGet\r\n$1\r\nh\r\n"),
        ("cmd-name-longer", b"*2\r\n$4\r\nGETX\r\n$1\r\nh\r\n"),
        ("empty", b""),
        ("crlf-only", b"\r\n"),
        ("bulk-no-crlf", b"*2\r\n$3\r\nGET\r\n$1\r\nhXY"),
    ]
    # keys that are not UTF-8, of every kind: lone continuation bytes (0x80, 0xbf), bytes that never occur (0xc0, 0xc1, 0xf5..0xff),
    # truncated sequences, overlong forms, surrogates, code points above U+10FFFF; alone and inside ASCII; as the key of a SET, a GET,
    # and as a later key of a DEL (python's decoder is the reference for what is not UTF-8)
    bad_keys = [b"\x80", b"\xbf", b"\xc0", b"\xc1", b"\xf5", b"\xf8", b"\xfe", b"\xff", b"\xc3", b"\xe2\x82", b"\xf0\x9f\x98", b"\xc0\x80", b"\xe0\x80\x80",
                b"\xf0\x80\x80\x80", b"\xed\xa0\x80", b"\xed\xbf\xbf", b"\xf4\x90\x80\x80", b"\xc3\x28", b"\xe2\x28\xa1", b"\x80\x80\x80", b"\xc3\xa9\x80"]
    for bk in list(bad_keys):
        bad_keys += [b"k" + bk, bk + b"k", b"good0" + bk]
    for bk in bad_keys:
        try:
            bk.decode("utf-8")
            continue
        except UnicodeDecodeError:
            pass
        if tier == "quick" and len(bk) > 2 and rng.random() < 0.5:
            continue
        out.append(("nonutf8-set-" + bk.hex(), req_bytes(("SET", bk, b"v"))))
        out.append(("nonutf8-get-" + bk.hex(), req_bytes(("GET", bk))))
        out.append(("nonutf8-del-" + bk.hex(), ok_set + req_bytes(("DEL", [b"h", bk]))))
    # lengths of every size announced and never honoured (a length the peer writes is not memory the server owes it): as array
    # length, as bulk length, top-level and as the second element of a command
    for d in range(3, 20):
        num = b"1" + b"0" * (d - 1)
        out.append((f"array-len-1e{d - 1}", b"*" + num + b"\r\n"))
        if d % 2 or tier != "quick":
            out.append((f"bulk-len-1e{d - 1}", b"*2\r\n$3\r\nGET\r\n$" + num + b"\r\nab"))
            out.append((f"nested-array-len-1e{d - 1}", b"*2\r\n$3\r\nGET\r\n*" + num + b"\r\n"))
    n = 20 if tier == "quick" else 300
    for _ in range(n):
        base = req_bytes(("SET", b"m", bytes(rng.getrandbits(8) for _ in range(5)))) + req_bytes(("GET", b"m"))
        b = bytearray(base)
        for _ in range(rng.randint(1, 3)):
            i = rng.randrange(len(b))
            b[i] = rng.choice([13, 10, 36, 42, 43, 45, 58, 48, 57, 0, 255, rng.getrandbits(8)])
        out.append(("mutated", bytes(b)))
    return out


def run_c10(rep, tier, seed):
    rng = random.Random(seed * 1000 + 10)
    root = os.path.join(RUNS, "run-C10")
    hostile = hostile_streams(rng, tier)
    impl_lines = ["srv.start max=8 mfs=300", "c.open ctl"]
    model_lines = ["srv.start", "#"]
    steps = []     # (kind, impl idx, model idx, info)
    ctl_map_keys = [b"c1", b"c2", b"h", b"h2", b"m", b"never", b"t"]
    for (tag, data) in hostile:
        # control traffic before, hostile connection, control traffic after (same persistent connection)
        for _ in range(2):
            r = rng.choice([("SET", rng.choice([b"c1", b"c2"]), bytes(rng.getrandbits(8) for _ in range(rng.randint(0, 12)))),
                            ("GET", rng.choice(ctl_map_keys)), ("DEL", [rng.choice(ctl_map_keys)])])
            steps.append(("ctl", len(impl_lines), len(model_lines), r))
            impl_lines += ["c.send ctl " + req_bytes(r).hex(), "c.read ctl 1 8000"]
            model_lines += ["serve " + req_bytes(r).hex(), "#"]
        segs = rng.choice(segmentations(rng, data, k=2)) if 0 < len(data) < 5000 else ([data] if data else [])
        steps.append(("hostile", len(impl_lines), len(model_lines), (tag, data)))
        impl_lines.append(f"serve {segs_tok(segs)} 0")
        model_lines.append(f"serve {segs_tok(segs)}")
        steps.append(("alive", len(impl_lines), len(model_lines), None))
        impl_lines.append("srv.alive")
        model_lines.append("#")
        if tag.startswith("nonutf8-"):
            # read through a direct handle right away: a command whose key is not UTF-8 is not well-formed and must have
            # changed nothing (the key it names is not in the store; the key `h` a DEL names before it is still there)
            probe_k = bytes.fromhex(tag.split("-")[2]) if tag.startswith("nonutf8-set-") else b"h"
            steps.append(("stored", len(impl_lines), len(model_lines), (tag, probe_k)))
            impl_lines.append("kv.get " + hx(probe_k))
            model_lines.append("kv.get " + hx(probe_k))
    # a fresh connection is still served, and the store holds exactly what well-formed commands put there
    fin = len(impl_lines)
    probe = req_bytes(("SET", b"fresh", b"1")) + req_bytes(("GET", b"fresh"))
    impl_lines.append(f"serve {probe.hex()} 0")
    model_lines.append(f"serve {probe.hex()}")
    for k in ctl_map_keys:
        impl_lines.append("kv.get " + hx(k))
        model_lines.append("kv.get " + hx(k))
    impl_lines.append("srv.stop")
    impl, model, died = net_sessions(impl_lines, model_lines, root)
    rep.cov["evaluations"] += len(impl_lines)
    nv = 0

    def viol(kind, what, script, exp, got):
        nonlocal nv
        nv += 1
        if nv <= 4:
            rep.violation(kind, dict(what=what, script=[s[:400] for s in script], expected=exp[:1500], observed=got[:1500]))

    if died is not None:
        k = len(impl)
        last_h = [s for s in steps if s[0] == "hostile" and s[1] <= k]
        viol("oracle", f"the server process died / hung ({died.why}) — hostile input took the whole process down",
             [f"hostile stream `{last_h[-1][3][0]}`: {last_h[-1][3][1][:60].hex()}..." if last_h else "?", impl_lines[min(k, len(impl_lines) - 1)][:200]], "server keeps running", "process death")
    py = {}
    for (kind, ii, mi, info) in steps:
        if ii >= len(impl) or (kind == "ctl" and ii + 1 >= len(impl)):
            break
        if kind == "ctl":
            exp = apply_req(py, info)
            mout = model[mi].split(" ")[0]
            got = impl[ii + 1]
            expected_tok = exp
            # what c.read prints for this reply
            if exp.startswith(b"+"):
                et = "S:" + exp[1:-2].hex()
            elif exp.startswith(b":"):
                et = "I:" + exp[1:-2].decode()
            elif exp == b"$-1\r\n":
                et = "N"
            else:
                e = exp.index(b"\r\n")
                et = "B:" + show_val(exp[e + 2:-2])
            if mout != hx(exp):
                # the model disagrees with the python map: hostile connection changed the store in the model's view
                pass
            mexp = model[mi].split(" ")[0]
            # expected per the model (which accounts for well-formed commands on hostile connections)
            if got != tok_of_hex(mexp):
                viol("oracle", "a well-behaved connection got a wrong answer while another connection misbehaved", impl_lines[max(0, ii - 3):ii + 2], tok_of_hex(mexp), got)
            rep.count("control_requests")
        elif kind == "hostile":
            tag, data = info
            rep.count("hostile:" + tag.split("-")[0])
            rep.nontrivial(["c10", tag, data[:64].hex(), len(data)])
            a = impl[ii].split(" ")
            mo = model[mi].split(" ")
            # keep the python map in step with the well-formed prefix the model accepted
            ok_replies = mo[0]
            if a[1] == "timeout":
                viol("oracle", f"the server neither answered nor closed the misbehaving connection within 10 s (stream `{tag}`)", [impl_lines[ii][:300]], model[mi], impl[ii][:300])
            elif a[0] != mo[0] and not (a[1] == "reset" and mo[0].startswith(a[0] if a[0] != "-" else "")):
                viol("correspondence", f"replies on the misbehaving connection differ from the model (stream `{tag}`)", [impl_lines[ii][:300]], model[mi][:300], impl[ii][:300])
            elif mo[1] == "clean" and a[1] != "eof":
                viol("correspondence", f"connection end differs from the model (stream `{tag}`)", [impl_lines[ii][:300]], model[mi][:300], impl[ii][:300])
            sync_py_from_model(py, data, mo)
        elif kind == "stored":
            tag, probe_k = info
            want = "nil" if tag.startswith("nonutf8-set-") else model[mi]
            rep.count("stored_data_probes")
            if impl[ii] != want:
                viol("oracle", f"stored data changed through a command that is not well-formed (its key is not UTF-8; stream `{tag}`): key {probe_k!r} reads {impl[ii]} right afterwards",
                     [impl_lines[ii - 2][:300], impl_lines[ii]], want, impl[ii])
        elif kind == "alive":
            if impl[ii] != "alive":
                viol("oracle", "the server stopped serving (its run loop ended) after a misbehaving connection", [impl_lines[ii - 1][:300]], "alive", impl[ii])
    if len(impl) > fin:
        exp = "2b4f4b0d0a24310d0a310d0a eof"
        if impl[fin] != exp:
            viol("oracle", "a fresh connection is not served correctly after the hostile traffic", [impl_lines[fin]], exp, impl[fin])
        for j, k in enumerate(ctl_map_keys):
            if fin + 1 + j < len(impl):
                mi = len(model_lines) - len(ctl_map_keys) + j
                if impl[fin + 1 + j] != model[mi]:
                    viol("oracle", "stored data differs from what the well-formed SET/DEL commands produce", [impl_lines[fin + 1 + j]], model[mi], impl[fin + 1 + j])
    # connection-level misbehaviour: connections that are reset (RST) at awkward moments — while still queued behind the
    # connection limit, right after connecting, in the middle of a frame, with a reply in flight
    SETk = req_bytes(("SET", b"ck", b"cv")).hex()
    GETk = req_bytes(("GET", b"ck")).hex()
    HALF = req_bytes(("SET", b"hk", b"hv"))[:-3].hex()
    conn_scen = []
    for mx in (1, 2, 3):
        for nhost in (1, 3):
            for payload in ("-", HALF):
                good = [f"g{i}" for i in range(mx)]
                sc = [f"srv.start max={mx} mfs=300"]
                exp = {}
                for g in good:
                    sc += [f"c.open {g}", f"c.send {g} {SETk}", f"c.read {g} 1 8000"]
                    exp[len(sc) - 1] = "S:4f4b"
                for i in range(nhost):
                    sc += [f"c.open h{i}"] + ([f"c.send h{i} {payload}"] if payload != "-" else []) + [f"c.abort h{i}"]
                sc += ["sleep 60", f"c.close {good[-1]}", "sleep 150"]
                for g in good[:-1]:
                    sc += [f"c.send {g} {GETk}", f"c.read {g} 1 8000"]
                    exp[len(sc) - 1] = "B:6376"
                sc += ["c.open n", f"c.send n {GETk}", "c.read n 1 8000"]
                exp[len(sc) - 1] = "B:6376"
                sc += ["srv.alive"]
                exp[len(sc) - 1] = "alive"
                sc += ["kv.get 686b"]
                exp[len(sc) - 1] = "nil"
                sc += ["srv.stop"]
                conn_scen.append((f"max_connections={mx}: {nhost} client(s) connect while all slots are taken, " + ("send a truncated SET, " if payload != "-" else "") + "and reset the connection while still queued; then a slot frees", sc, exp))
    # peers that connect and then say nothing (and keep their sockets open) must not hold up anybody who connects after them
    for nsilent in (1, 3):
        sc = ["srv.start max=8 mfs=300", "c.open ctl", f"c.send ctl {SETk}", "c.read ctl 1 8000"]
        exp = {3: "S:4f4b"}
        for i in range(nsilent):
            sc += [f"c.open q{i}"]
        sc += ["sleep 100"]
        for i in range(3):
            sc += [f"c.open n{i}", f"c.send n{i} {GETk}", f"c.read n{i} 1 8000"]
            exp[len(sc) - 1] = "B:6376"
        sc += [f"c.send ctl {GETk}", "c.read ctl 1 8000"]
        exp[len(sc) - 1] = "B:6376"
        sc += ["srv.alive"]
        exp[len(sc) - 1] = "alive"
        sc += ["srv.stop"]
        conn_scen.append((f"{nsilent} peer(s) connect, send nothing and keep the connection open; three clients connect after them", sc, exp))
    # resets on connections that are being served: after a request whose reply is never read, and in mid-frame
    sc = ["srv.start max=4 mfs=300", "c.open ctl", f"c.send ctl {SETk}", "c.read ctl 1 8000"]
    exp = {3: "S:4f4b"}
    for i in range(6):
        sc += [f"c.open r{i}", f"c.send r{i} " + (GETk * 20 if i % 2 == 0 else HALF), f"c.abort r{i}", f"c.send ctl {GETk}", "c.read ctl 1 8000"]
        exp[len(sc) - 1] = "B:6376"
    sc += ["srv.alive"]
    exp[len(sc) - 1] = "alive"
    sc += ["srv.stop"]
    conn_scen.append(("served connections reset with replies in flight / in mid-frame", sc, exp))
    for name, sc, exp in conn_scen:
        shutil.rmtree(root, ignore_errors=True)
        cdied = None
        try:
            ans = run_harness(["net", "--root", root], sc, timeout=300)
        except Died as d:
            ans, cdied = d.answered, d
        rep.cov["evaluations"] += len(sc)
        rep.count("connection_level_scenarios")
        rep.nontrivial(["c10conn", name])
        badl = None
        if cdied is not None:
            badl = (len(ans), "an answer", f"process died / hung: {cdied.why}")
        for li, e in sorted(exp.items()):
            if badl is None and li < len(ans) and ans[li] != e:
                badl = (li, e, ans[li])
        if badl:
            viol("oracle", f"{name}: step `{sc[min(badl[0], len(sc) - 1)][:80]}` — the other connections / the server are affected by a connection that was reset", sc, badl[1], badl[2])
    # command layer on its own: frames -> Command::try_from, model vs real code (valid and near-valid command frames)
    from p_resp import frame_text, both as resp_both
    names = [b"GET", b"SET", b"DEL", b"get", b"Get", b"PING", b"", b"GETX", b"DE"]
    elems = [("B", b"k"), ("B", b""), ("B", b"\xff\xfe"), ("B", "é".encode()), ("I", 5), ("N",), ("S", b"k"), ("E", b"e"), ("A", [("B", b"k")]), ("B", b"v" * 50)]
    cl = []
    for nm in names:
        for n in range(0, 4):
            for _ in range(6 if tier == "quick" else 40):
                args = [rng.choice(elems) for _ in range(n)]
                first = ("B", nm) if rng.random() < 0.9 else rng.choice(elems)
                cl.append("cmd " + frame_text(("A", [first] + args)))
    for f in [("B", b"GET"), ("N",), ("I", 1), ("S", b"GET"), ("A", [])]:
        cl.append("cmd " + frame_text(f))
    cl = sorted(set(cl))
    ci, cm, cd = resp_both(cl)
    rep.cov["evaluations"] += len(cl)
    rep.count("command_frames", len(cl))
    if cd is not None:
        viol("oracle", f"the command parser died ({cd.why})", [cl[len(ci)]], cm[len(ci)], "process death")
    for l, a, m_ in zip(cl, ci, cm):
        rep.count("cmd:" + a.split(" ")[0] + ("-" + a.split(" ")[1] if a.startswith("err") else ""))
        if a != m_:
            viol("correspondence" if "panic" not in a else "oracle", "Command::try_from differs from the model on a command frame (a frame that is not a well-formed command must be rejected as a whole)", [l], m_, a)
    rep.cov["traces_validated_against_impl"] = len(hostile)
    rep.cov["rule"] = ("%d misbehaving byte streams (garbage, unknown/lower-case commands, wrong arity, non-UTF-8 keys of every kind (lone continuation bytes, impossible bytes, truncated / overlong sequences, surrogates, beyond U+10FFFF) in SET / GET / DEL, non-array / nested frames, truncated frames then close, sign-only numbers, "
                       "19-20 digit and negative lengths, array / bulk lengths of 10^2..10^18 announced and never honoured, nesting depth 33 and 200000, valid commands followed by garbage, random mutations of valid requests), each on its own connection, "
                       "interleaved with SET/GET/DEL on one persistent well-behaved connection; checked: process and run loop alive, control replies and final store = Lean handler model "
                       "(which applies exactly the well-formed commands before the first error), hostile connection closed; plus connection-level misbehaviour: clients that reset (RST) their connection while queued behind the "
                       "connection limit (with and without a truncated SET sent), served connections reset with replies in flight or in mid-frame, and peers that connect and stay silent, at max_connections 1/2/3/4/8: the server keeps running, the other connections and a new one are answered, nothing is stored; "
                       "non-trivial = distinct hostile stream or scenario") % len(hostile)
    for (kind, ii, mi, info) in [s for s in steps if s[0] == "hostile"][:4]:
        rep.sample({"hostile": info[0], "bytes_hex": info[1][:40].hex(), "server": impl[ii][:80] if ii < len(impl) else None, "model": model[mi][:80]})


def tok_of_hex(h):
    b = bytes.fromhex(h) if h != "-" else b""
    if b.startswith(b"+"):
        return "S:" + b[1:-2].hex()
    if b.startswith(b":"):
        return "I:" + b[1:-2].decode()
    if b == b"$-1\r\n":
        return "N"
    if b.startswith(b"$"):
        e = b.index(b"\r\n")
        return "B:" + show_val(b[e + 2:-2])
    return "?" + h


def sync_py_from_model(py, data, mo):
    pass



# ---------------------------------------------------------------------------------------------
# C15: connection limit

GET_PROBE = req_bytes(("GET", b"probe-key")).hex()


def run_c15(rep, tier, seed):
    rng = random.Random(seed * 1000 + 15)
    root = os.path.join(RUNS, "run-C15")
    nscen = 4 if tier == "quick" else 30
    nv = 0
    for sc in range(nscen):
        mx = rng.choice([1, 2, 3])
        nev = rng.randint(8, 14) if tier == "quick" else rng.randint(10, 30)
        # plan abstract events with a python mirror only to keep the script well-formed; predictions come from the Lean LTS
        impl = [f"srv.start max={mx} mfs=1000000"]
        model = [f"cl.init {mx}"]
        pairs = []          # (impl line index of observation, model line index giving `served`, conn id, kind)
        alive, nextid = [], 1
        events = []
        for _ in range(nev):
            r = rng.random()
            if r < 0.45 or not alive:
                events.append(("connect", nextid))
                alive.append(nextid)
                nextid += 1
            elif r < 0.75:
                events.append(("probe", rng.choice(alive)))
            else:
                c = rng.choice(alive)
                alive.remove(c)
                events.append(("end", c, rng.choice(["close", "garbage", "garbage-keep", "badcmd-keep", "half", "panic", "abort", "abort-half"])))
        # faulty phase: 3*max connections that all end badly, then the capacity test
        for _ in range(3 * mx):
            events.append(("connect", nextid))
            events.append(("end", nextid, rng.choice(["garbage", "garbage-keep", "badcmd-keep", "half", "panic", "close", "abort", "abort-half"])))
            nextid += 1
        for c in list(alive):
            events.append(("end", c, "close"))
        # directed: clients that reset their connection while still queued behind the limit, then a slot frees
        held = list(range(nextid, nextid + mx))
        nextid += mx
        for c in held:
            events.append(("connect", c))
        events.append(("probe", held[-1]))
        for _ in range(rng.randint(1, 3)):
            events.append(("connect", nextid))
            events.append(("end", nextid, rng.choice(["abort", "abort-half"])))
            nextid += 1
        events.append(("end", held[0], "close"))
        events.append(("connect", nextid))
        events.append(("probe", nextid))
        held = held[1:] + [nextid]
        nextid += 1
        for c in held:
            events.append(("end", c, "close"))
        # directed: every slot is used by a connection that the server ends (garbage / unknown command) while the client keeps
        # its socket open; the full number of new connections must be served straight away
        kept = list(range(nextid, nextid + mx))
        nextid += mx
        for c in kept:
            events.append(("connect", c))
        for c in kept:
            events.append(("probe", c))
        for c in kept:
            events.append(("end", c, rng.choice(["badcmd-keep", "garbage-keep"])))
        again = list(range(nextid, nextid + mx))
        nextid += mx
        for c in again:
            events.append(("connect", c))
        for c in again:
            events.append(("probe", c))
        for c in again:
            events.append(("end", c, "close"))
        fresh = list(range(nextid, nextid + mx + 1))
        for c in fresh:
            events.append(("connect", c))
        for c in fresh:
            events.append(("probe", c))
        events.append(("end", fresh[0], "close"))
        events.append(("probe", fresh[-1]))
        # first pass through the model to know who is served when (needed to choose timeouts and legal panic points)
        mlines = [f"cl.init {mx}"]
        for ev in events:
            if ev[0] == "connect":
                mlines.append(f"cl.connect {ev[1]}")
            elif ev[0] == "probe":
                mlines.append("cl.served")
            else:
                mlines.append("cl.served")
                mlines.append(f"cl.finish {ev[1]}")
        mans = run_driver(mlines)

        def served_of(line):
            t = line.split(" ")[1]
            return set() if t == "-" else set(int(x) for x in t.split(","))

        def free_of(line):
            m = re.search(r"permits=(\d+) holding=(\w+) pending=(\d+)", line)
            return int(m.group(1)), m.group(2) == "true", int(m.group(3))
        mi = 1
        script = [f"srv.start max={mx} mfs=1000000"]
        checks = []     # (script line index, expected kind, description)
        for ev in events:
            if ev[0] == "connect":
                script.append(f"c.open {ev[1]}")
                mi += 1
            elif ev[0] == "probe":
                sv = served_of(mans[mi])
                mi += 1
                c = ev[1]
                script.append(f"c.drain {c} 40")
                script.append(f"c.send {c} {GET_PROBE}")
                if c in sv:
                    script.append(f"c.read {c} 1 5000")
                    checks.append((len(script) - 1, "N", f"connection {c} is being served (per the model) and must get a reply"))
                else:
                    script.append(f"c.read {c} 1 250")
                    checks.append((len(script) - 1, "timeout", f"connection {c} is beyond the limit of {mx} (per the model) and must not be served yet"))
            else:
                sv = served_of(mans[mi])
                permits, holding, pending = free_of(mans[mi])
                mi += 2
                c, how = ev[1], ev[2]
                if how == "panic" and not (c in sv and (pending == 0 or (permits == 0 and not holding))):
                    how = "garbage"
                if how == "close":
                    script.append(f"c.close {c}")
                elif how == "badcmd-keep":
                    # a well-formed frame that is not a command (PING): the server ends the connection; the client keeps its
                    # socket open
                    script.append(f"c.send {c} 2a310d0a24340d0a50494e470d0a")
                    if c in sv:
                        script.append(f"c.readall {c} 5000")
                        checks.append((len(script) - 1, "closed", f"connection {c} sent an unknown command and must be closed by the server"))
                    else:
                        script.append(f"c.close {c}")
                elif how == "garbage-keep":
                    # the server ends the connection (malformed input); the client does not close its own socket: the slot
                    # must come back all the same (the socket is closed at the very end of the script)
                    script.append(f"c.send {c} 00ff2a2a0d0a")
                    if c in sv:
                        script.append(f"c.readall {c} 5000")
                        checks.append((len(script) - 1, "closed", f"connection {c} sent garbage and must be closed by the server"))
                    else:
                        script.append(f"c.close {c}")
                elif how == "garbage":
                    script.append(f"c.send {c} 00ff2a2a0d0a")
                    if c in sv:
                        script.append(f"c.readall {c} 5000")
                        checks.append((len(script) - 1, "closed", f"connection {c} sent garbage and must be closed by the server"))
                    script.append(f"c.close {c}")
                elif how == "half":
                    script.append(f"c.send {c} 2a320d0a24330d0a4745")
                    script.append(f"c.close {c}")
                elif how == "abort":
                    script.append(f"c.abort {c}")
                elif how == "abort-half":
                    script.append(f"c.send {c} 2a320d0a24330d0a4745")
                    script.append(f"c.abort {c}")
                else:
                    # make sure the handler is up (round trip) before arming the one-shot panic, so that it is the
                    # handler's own clone() that panics and not the listener's
                    script.append(f"c.drain {c} 40")
                    script.append(f"c.send {c} {GET_PROBE}")
                    script.append(f"c.read {c} 1 5000")
                    checks.append((len(script) - 1, "N", f"connection {c} is being served (per the model) and must get a reply"))
                    script.append("ctl.panic on")
                    script.append(f"c.send {c} {GET_PROBE}")
                    script.append(f"c.readall {c} 5000")
                    checks.append((len(script) - 1, "closed", f"the handler of connection {c} panicked; the connection must end"))
                    script.append("ctl.panic off")
                    script.append(f"c.close {c}")
                script.append("sleep 30")
        script.append("srv.alive")
        checks.append((len(script) - 1, "alive", "the server keeps running"))
        script.append("srv.stop")
        shutil.rmtree(root, ignore_errors=True)
        died = None
        try:
            ans = run_harness(["net", "--root", root], script, timeout=600)
        except Died as d:
            ans, died = d.answered, d
        rep.cov["evaluations"] += len(script)
        rep.count("scenarios")
        rep.count("events", len(events))
        rep.nontrivial(["c15", mx, events])
        rep.cov["traces_validated_against_impl"] += 1
        bad = None
        if died is not None:
            bad = (len(ans), "harness alive", f"died: {died.why}", "the harness / server process died")
        for (li, kind, desc) in checks:
            if bad or li >= len(ans):
                break
            a = ans[li]
            rep.count("obs:" + kind)
            ok = {"N": a == "N", "timeout": a == "timeout", "closed": a.endswith(" eof") or a.endswith(" reset"), "alive": a == "alive"}[kind]
            if not ok:
                bad = (li, kind, a, desc)
        if bad:
            nv += 1
            if nv <= 3:
                rep.violation("oracle", dict(what=f"max_connections={mx}: {bad[3]}; observed `{bad[2]}`", script=script, answers=ans, failing_line=bad[0],
                                             expected=str(bad[1]), observed=str(bad[2]), model_script=mlines, model_answers=mans))
        if sc == 0:
            rep.sample({"max": mx, "events": [list(e) for e in events][:20], "script": script[:20], "answers": ans[:20]})
    # transient failures of accept(2) (EMFILE when descriptors run out for a moment, ECONNABORTED when the peer has already
    # gone): the listener retries with its back-off (up to four failures in a row are within it); none of the attempts may cost
    # a slot (ConnLimit's `acceptFail` steps, theorem c15_accept_failure_free). Injected by the LD_PRELOAD layer; who is served
    # when is asked of the LTS.
    for (mx, k, errno) in ([(2, 3, 24), (4, 4, 103)] if tier == "quick" else [(1, 1, 24), (2, 3, 24), (3, 2, 103), (4, 4, 24), (4, 4, 103), (8, 4, 24)]):
        script = [f"srv.start max={mx} mfs=1000000", f"io.failaccepts {k} {errno}", "c.open t", f"c.send t {GET_PROBE}", "c.read t 1 5000", "io.failedaccepts", "c.close t", "sleep 150"]
        # who is served when: the LTS with its `acceptFail` steps (ids: t = 1000, s_i = i, q = 2000)
        mlines = [f"cl.init {mx}", f"cl.acceptfail {k}", "cl.connect 1000", "cl.finish 1000"] + [f"cl.connect {i}" for i in range(mx)] + ["cl.connect 2000", "cl.finish 0"]
        mans = run_driver(mlines)
        srv = [set() if a.split(" ")[1] == "-" else set(int(x) for x in a.split(" ")[1].split(",")) for a in mans]
        exp = {4: "N" if 1000 in srv[2] else "timeout", 5: str(k)}
        for i in range(mx):
            script += [f"c.open s{i}", f"c.send s{i} {GET_PROBE}", f"c.read s{i} 1 5000"]
            exp[len(script) - 1] = "N" if i in srv[4 + i] else "timeout"
        script += ["c.open q", f"c.send q {GET_PROBE}", "c.read q 1 300"]
        exp[len(script) - 1] = "N" if 2000 in srv[4 + mx] else "timeout"
        script += ["c.close s0", "c.read q 1 5000"]
        exp[len(script) - 1] = "N" if 2000 in srv[5 + mx] else "timeout"
        script += ["srv.alive", "srv.stop"]
        exp[len(script) - 2] = "alive"
        if not (exp[4] == "N" and all(exp[8 + 3 * i + 2] == "N" for i in range(mx)) and exp[8 + 3 * mx + 2] == "timeout" and exp[8 + 3 * mx + 4] == "N"):
            rep.violation("correspondence", dict(what="the connection-limit LTS does not predict `all of max_connections served, the next one waits` after failed accepts", script=mlines, answers=mans))
            continue
        shutil.rmtree(root, ignore_errors=True)
        try:
            ans = run_harness(["net", "--root", root, "--hang-ms", "30000"], script, preload=True, timeout=120)
        except Died as d:
            rep.violation("oracle", dict(what=f"max_connections={mx}, {k} accept(2) calls fail with errno {errno}: harness died / hung ({d.why})", script=script, answers=d.answered))
            continue
        rep.cov["evaluations"] += len(script)
        rep.count("accept_failure_scenarios")
        rep.nontrivial(["c15acc", mx, k, errno])
        if ans[5] != str(k):
            rep.violation("correspondence", dict(what=f"the scenario `{k} failing accept(2) calls` did not come about (the recorder saw {ans[5]} failed calls)", script=script, answers=ans, expected=str(k), observed=ans[5]))
            continue
        for li in sorted(exp):
            a = ans[li]
            ok = a == exp[li] if exp[li] != "timeout" else a == "timeout"
            if not ok:
                what = {4: "the client whose accept failed at first is not served after the retries", }.get(li, "after the failed accept(2) calls the server does not serve exactly max_connections clients at a time (a failed attempt cost a slot, or the limit is gone)")
                rep.violation("oracle", dict(what=f"max_connections={mx}, {k} accept(2) calls fail with errno {errno}: {what}; step `{script[li][:60]}` observed `{a}`", script=script, answers=ans,
                                             failing_line=li, expected=exp[li], observed=a))
                break
    # the retry loop itself (AcceptBackoff.accept, theorems c15_backoff_survives / c15_backoff_gives_up): the harness's server
    # has min_backoff_ms = 10, max_backoff_ms = 100; the model says how a burst of k failing accept(2) calls ends
    # (k <= 4: the connection is accepted; k = 5: the fifth failure finds the back-off at 160 > 100 and the listener ends)
    # other configurations: (5, 20): 5, 10, 20 survive, the fourth failure finds 40 > 20; (0, 5): a minimum of zero never grows,
    # the listener never gives up (c15_backoff_zero_min) — 40 failures in a row are survived
    for (bmin, bmax, k) in ([(10, 100, 4), (10, 100, 5), (5, 20, 3), (5, 20, 4), (0, 5, 40)] if tier == "quick" else
                            [(10, 100, k) for k in (1, 2, 3, 4, 5)] + [(5, 20, 3), (5, 20, 4), (0, 5, 40), (1, 1, 1), (1, 1, 2), (3, 2, 1), (200, 100, 1)]):
        m = run_driver(["cl.init 2", f"cl.backoff {bmin} {bmax} {k}"])[1].split(" ")
        script = [f"srv.start max=2 mfs=1000000 bmin={bmin} bmax={bmax}", f"io.failaccepts {k} 24", "c.open t", f"c.send t {GET_PROBE}", "c.read t 1 3000", "srv.wait 400", "io.failedaccepts", "srv.stop"]
        exp = {4: "N", 5: "timeout"} if m[0] == "accepted" else {5: "returned"}
        exp[6] = str(int(m[1]) - 1 if m[0] == "accepted" else int(m[1]))
        shutil.rmtree(root, ignore_errors=True)
        try:
            ans = run_harness(["net", "--root", root, "--hang-ms", "30000"], script, preload=True, timeout=120)
        except Died as d:
            rep.violation("oracle", dict(what=f"{k} accept(2) calls fail in a row: harness died / hung ({d.why})", script=script, answers=d.answered))
            continue
        rep.cov["evaluations"] += len(script)
        rep.count("accept_backoff_scenarios")
        rep.nontrivial(["c15backoff", bmin, bmax, k])
        for li in sorted(exp):
            if ans[li] != exp[li]:
                if m[0] == "accepted":
                    rep.violation("oracle", dict(what=f"{k} accept(2) calls fail in a row (back-off {bmin} ms doubling, maximum {bmax} ms): the model of Listener::accept says the connection is accepted after the retries and the listener lives on; step `{script[li][:60]}` observed `{ans[li]}`",
                                                 script=script, answers=ans, failing_line=li, expected=exp[li], observed=ans[li], model=m))
                else:
                    rep.violation("correspondence", dict(what=f"{k} accept(2) calls fail in a row (back-off {bmin} ms doubling, maximum {bmax} ms): the model of Listener::accept says `{' '.join(m)}` (how it ends, calls, ms slept); step `{script[li][:60]}` observed `{ans[li]}`",
                                                         script=script, answers=ans, failing_line=li, expected=exp[li], observed=ans[li], model=m))
                break
    shutil.rmtree(root, ignore_errors=True)
    rep.cov["rule"] = ("seeded event scripts at max_connections 1/2/3: connect / probe (GET) / end by clean close, garbage or an unknown command (the client closing afterwards or keeping its socket open), half-sent frame, connection reset (RST, also while still queued behind the limit, with or without a half-sent frame), or handler panic (a store wrapper whose clone() panics once), "
                       "then 3*max connections that all end badly, then max+1 fresh connections; the Lean ConnLimit LTS (executed by the driver) predicts after every event which connections are served; "
                       "a served connection must answer within 5 s, an unserved one must stay silent for 250 ms (a slow machine cannot fabricate a reply); non-trivial = distinct script")


# ---------------------------------------------------------------------------------------------
# C16: graceful shutdown

def binary_shutdown(rep, root):
    """the server BINARY (src/bin/svr.rs: configuration file -> store -> server wired to Ctrl-C): SIGINT while one client has
    an acknowledged SET, one is idle and one has sent half a frame; the process must exit by itself within 10 s, every client
    must see complete replies then end of stream, and a second start on the same directory must still hold the value"""
    import signal
    import socket
    import subprocess
    import time as _t
    tdir = os.path.join(WORK, "repo-target")
    with Lock("cargo-bin"):
        rc, out = sh(["cargo", "build", "--offline", "--bin", "svr", "--target-dir", tdir], cwd=REPO, timeout=1800)
    if rc != 0:
        rep.violation("build", dict(correspondence="the server binary does not build", output=out[-2000:]), no_input=True)
        return
    exe = os.path.join(tdir, "debug", "svr")
    d = os.path.join(root + "-bin")
    shutil.rmtree(d, ignore_errors=True)
    os.makedirs(d)
    with socket.socket() as s0:
        s0.bind(("127.0.0.1", 0))
        port = s0.getsockname()[1]
    open(os.path.join(d, "conf.toml"), "w").write(
        f'net.host = "127.0.0.1"\nnet.port = {port}\nnet.min_backoff_ms = 125\nnet.max_backoff_ms = 64000\nnet.max_connections = 16\n'
        f'storage.path = "{os.path.join(d, "db")}"\nstorage.concurrency = 2\nstorage.readers_cache_size = 16\nstorage.max_file_size = 1000000\nstorage.sync = "none"\n'
        'storage.merge.policy = "never"\nstorage.merge.check_interval_ms = 3600000\nstorage.merge.check_jitter = 0.3\n'
        'storage.merge.triggers.fragmentation = 0.6\nstorage.merge.triggers.dead_bytes = 536870912\n'
        'storage.merge.thresholds.fragmentation = 0.4\nstorage.merge.thresholds.dead_bytes = 134217728\nstorage.merge.thresholds.small_file = 10485760\n')

    def start():
        p = subprocess.Popen([exe, "--config", os.path.join(d, "conf")], stdout=subprocess.DEVNULL, stderr=subprocess.DEVNULL, cwd=d)
        for _ in range(200):
            try:
                c = socket.create_connection(("127.0.0.1", port), timeout=1)
                return p, c
            except OSError:
                if p.poll() is not None:
                    return p, None
                _t.sleep(0.05)
        return p, None

    def drain(c):
        c.settimeout(8)
        got = b""
        try:
            while True:
                x = c.recv(65536)
                if not x:
                    return got, "eof"
                got += x
        except socket.timeout:
            return got, "timeout"
        except OSError:
            return got, "reset"

    rep.count("binary_shutdown_runs")
    steps = []
    p, a = start()
    try:
        if a is None:
            rep.violation("oracle", dict(what="the server binary does not start / does not listen with a plain configuration file", script=[open(os.path.join(d, "conf.toml")).read()], observed=f"exit code {p.poll()}"))
            return
        a.sendall(req_bytes(("SET", b"bk", b"bv")))
        a.settimeout(8)
        r = a.recv(100)
        steps.append(("SET bk bv", r))
        b = socket.create_connection(("127.0.0.1", port), timeout=2)
        c = socket.create_connection(("127.0.0.1", port), timeout=2)
        c.sendall(req_bytes(("SET", b"half", b"x"))[:-4])
        _t.sleep(0.2)
        p.send_signal(signal.SIGINT)
        try:
            p.wait(timeout=10)
            ended = f"exit {p.returncode}"
        except subprocess.TimeoutExpired:
            ended = "still running after 10 s"
        ends = [drain(x) for x in (a, b, c)]
        steps.append(("SIGINT", ended))
        bad = None
        if r != b"+OK\r\n":
            bad = ("the first SET was not acknowledged", "+OK", r)
        elif ended != "exit 0":
            # killed by the signal (exit -2) = nobody was listening for it: `run` never returned
            bad = ("the process did not stop by itself within 10 s of SIGINT (one acknowledged, one idle, one half-frame connection open)", "exit 0", ended)
        elif any(g != b"" or e == "timeout" for g, e in ends):
            bad = ("a client did not see a clean end of stream after the shutdown", "end of stream, no stray bytes", str(ends))
        if bad is None:
            p, a2 = start()
            if a2 is None:
                bad = ("the server binary does not start again on the directory it has just left", "listening", f"exit code {p.poll()}")
            else:
                a2.sendall(req_bytes(("GET", b"bk")) + req_bytes(("GET", b"half")))
                a2.settimeout(8)
                got = b""
                try:
                    while len(got) < len(b"$2\r\nbv\r\n$-1\r\n"):
                        x = a2.recv(100)
                        if not x:
                            break
                        got += x
                except OSError:
                    pass
                if got != b"$2\r\nbv\r\n$-1\r\n":
                    bad = ("after the restart the acknowledged SET is not there / the half-sent one is", "$2 bv, null", got)
        if bad:
            rep.violation("oracle", dict(what="server binary: " + bad[0], script=[str(x) for x in steps], expected=str(bad[1]), observed=str(bad[2])[:500]))
    finally:
        if p.poll() is None:
            p.kill()
        shutil.rmtree(d, ignore_errors=True)


def run_c16(rep, tier, seed):
    rng = random.Random(seed * 1000 + 16)
    root = os.path.join(RUNS, "run-C16")
    nv = 0
    SET = lambda k, v: req_bytes(("SET", k, v)).hex()
    GET = lambda k: req_bytes(("GET", k)).hex()
    big = b"B" * 600000
    scenarios = []
    reps = 1 if tier == "quick" else 8
    for r in range(reps):
        scenarios += [
            ("idle connections", ["c.open a", "c.open b", "sleep 50"], ["srv.signal", "srv.wait 10000", "c.readraw a 3000", "c.readraw b 3000"],
             {1: "returned", 2: "- end", 3: "- end"}, []),
            ("a connection that has sent part of a frame", ["c.open a", "c.send a 2a330d0a24330d0a534554", "sleep 50"], ["srv.signal", "srv.wait 10000", "c.readraw a 3000"],
             {1: "returned", 2: "- end"}, []),
            ("a command executing on a blocking thread", ["c.open a", "ctl.block on", f"c.send a {SET(b'x', b'1')}", "ctl.entered 1 5000"],
             ["srv.signal", "srv.wait 300", "ctl.block off", "srv.wait 10000", "c.readraw a 3000", "kv.get 78"],
             {1: "timeout", 3: "returned", 4: "2b4f4b0d0a end", 5: "31"}, []),
            ("pipelined commands, some still unread when the signal fires", ["c.open a", f"c.send a {SET(b'p1', b'1') + SET(b'p2', b'2') + SET(b'p3', b'3') + GET(b'p1')}"],
             ["srv.signal", "srv.wait 10000", "c.readraw a 3000", "kv.get 7031", "kv.get 7032", "kv.get 7033"],
             {1: "returned", 2: "replies-prefix:+OK,+OK,+OK,$1"}, [("acked-sets", 2, [(3, "31"), (4, "32"), (5, "33")])]),
            ("a large reply being written to a reading client", ["c.open a", f"c.send a {SET(b'big', big)}", "c.read a 1 8000", f"c.send a {GET(b'big')}"],
             ["srv.signal", "srv.wait 10000", "c.readall a 8000"],
             {1: "returned", 2: f"whole-or-none:{len(big)}"}, []),
            ("pipelined GETs of an 8 KiB value with the first one held in the store: replies cross the write buffer",
             ["c.open a", "c.sendbig a 6b ab 8192", "c.read a 1 8000", "ctl.block on", "c.send a " + GET(b"k") * 32, "ctl.entered 1 5000"],
             ["srv.signal", "sleep 100", "ctl.block off", "srv.wait 10000", "c.readall a 8000"],
             {3: "returned", 4: "multiple-of:8201"}, []),
            ("a client that never stops sending: requests are pipelined back to back (a second thread drains the replies), so a complete request is always waiting when the handler looks",
             ["c.open f", "c.open g", f"c.flood f {GET(b'nokey')}", f"c.flood g {SET(b'fk', b'fv')}", "sleep 200"],
             ["srv.signal", "srv.wait 10000", "c.flood.end f 5000", "c.flood.end g 5000", "kv.get 666b"],
             {1: "returned", 2: "flood-multiple-of:5", 3: "flood-multiple-of:5", 4: "6676"}, []),
            ("several connections in different states at once", ["c.open i", "c.open h", "c.send h 2a320d0a2433", "c.open w", "ctl.block on", f"c.send w {SET(b'y', b'2')}", "ctl.entered 1 5000"],
             ["srv.signal", "sleep 100", "ctl.block off", "srv.wait 10000", "c.readraw i 3000", "c.readraw h 3000", "c.readraw w 3000", "kv.get 79"],
             {3: "returned", 4: "- end", 5: "- end", 6: "2b4f4b0d0a end", 7: "32"}, []),
        ]
    # `once connections have wound down` is not `after a grace period`: a command that stays in the store for seconds keeps run()
    # waiting (6.5 s here, 35 s in the thorough tier), its reply arrives whole and its effect is in the store
    long_ms = 6500 if tier == "quick" else 35000
    scenarios.append(("a command executing on a blocking thread for seconds (no grace period cuts it off)", ["c.open a", "ctl.block on", f"c.send a {SET(b'x', b'1')}", "ctl.entered 1 5000"],
                      ["srv.signal", f"srv.wait {long_ms}", "ctl.block off", "srv.wait 10000", "c.readraw a 3000", "kv.get 78"],
                      {1: "timeout", 3: "returned", 4: "2b4f4b0d0a end", 5: "31"}, []))
    for si, (name, setup, steps, expect, extra) in enumerate(scenarios):
        script = ["srv.start max=16 mfs=1000000"] + setup + steps + ["srv.stop"]
        shutil.rmtree(root, ignore_errors=True)
        died = None
        try:
            ans = run_harness(["net", "--root", root], script, timeout=300)
        except Died as d:
            ans, died = d.answered, d
        rep.cov["evaluations"] += len(script)
        rep.count("scenarios")
        rep.count("state:" + name.split(" ")[1])
        rep.nontrivial(["c16", name, si // max(1, len(scenarios) // reps) if reps > 1 else 0])
        rep.cov["traces_validated_against_impl"] += 1
        base = 1 + len(setup)
        bad = None
        if died is not None:
            bad = (len(ans), "-", f"harness died: {died.why}")
        for idx, want in expect.items():
            li = base + idx
            if bad or li >= len(ans):
                break
            a = ans[li]
            if want.endswith(" end"):
                ok = a in (want[:-4] + " eof", want[:-4] + " reset")
            elif want.startswith("replies-prefix:"):
                toks = want.split(":", 1)[1].split(",")
                full = b"".join({"+OK": b"+OK\r\n", "$1": b"$1\r\n1\r\n"}[t] for t in toks)
                got = a.split(" ")[0]
                gb = bytes.fromhex(got) if got != "-" else b""
                # complete replies only, in order, then end of stream
                cuts = [b"", b"+OK\r\n", b"+OK\r\n+OK\r\n", b"+OK\r\n+OK\r\n+OK\r\n", full]
                ok = gb in cuts and (a.endswith(" eof") or a.endswith(" reset"))
                nrep = cuts.index(gb) if gb in cuts else -1
                for (kind, _, kvs) in extra:
                    for j, (ki, val) in enumerate(kvs):
                        if nrep > j and base + ki < len(ans) and ans[base + ki] != val:
                            ok = False
                            a = a + f" / but the SET acknowledged by reply {j + 1} is not in the store ({ans[base + ki]})"
            elif want.startswith("flood-multiple-of:"):
                # bytes=<n> sent=<m> eof|reset|still-open: only whole replies, then end of stream
                unit = int(want.split(":")[1])
                mm = re.match(r"bytes=(\d+) sent=(\d+) (eof|reset)$", a)
                ok = bool(mm) and int(mm.group(1)) % unit == 0 and int(mm.group(1)) > 0
            elif want.startswith("multiple-of:"):
                # only whole replies of the given length, then end of stream
                unit = int(want.split(":")[1])
                mm = re.match(r"(-|#(\d+):\S+|[0-9a-f]+) (eof|reset)", a)
                nbytes = 0 if not mm or mm.group(1) == "-" else (int(mm.group(2)) if mm.group(2) else len(mm.group(1)) // 2)
                ok = bool(mm) and nbytes % unit == 0
            elif want.startswith("whole-or-none:"):
                n = int(want.split(":")[1])
                # the reply to GET big: either not started, or complete ($n CRLF payload CRLF); never torn
                m = re.match(r"(\S+) (eof|reset)", a)
                ok = bool(m) and (m.group(1) == "-" or m.group(1).startswith(f"#{n + len(str(n)) + 5}:"))
            else:
                ok = a == want
            if not ok:
                bad = (li, want, a)
        if bad:
            nv += 1
            if nv <= 3:
                rep.violation("oracle", dict(what=f"shutdown while {name}: step `{script[bad[0]] if bad[0] < len(script) else '?'}` observed `{bad[2][:200]}`", script=[x[:200] for x in script],
                                             answers=[x[:200] for x in ans], failing_line=bad[0], expected=bad[1], observed=bad[2][:400]))
        if si < 3:
            rep.sample({"state": name, "script": [x[:100] for x in script], "answers": [x[:100] for x in ans]})
    binary_shutdown(rep, root)
    shutil.rmtree(root, ignore_errors=True)
    rep.cov["rule"] = ("the shutdown future of the real server is fired at each handler state: idle, after a partial frame, inside a store call held on a gate (run must not return before the "
                       "command finishes; its reply must arrive complete and its effect be in the store), with pipelined commands buffered, during a 600 KB reply to a reading client, with 32 pipelined 8 KiB replies, with clients that flood the server with back-to-back requests across the signal, and a mix; plus the server BINARY started from a configuration file and stopped with SIGINT (exits within 10 s, clean end of stream for an acknowledged, an idle and a half-frame client, the acknowledged SET there after a restart); "
                       "checked: run returns within 10 s, each client receives complete replies then end-of-stream (EOF or RST), every SET whose reply arrived is in the store; non-trivial = distinct scenario instance")


# ---------------------------------------------------------------------------------------------
# C11: concurrent clients see one linearizable store

def run_c11(rep, tier, seed):
    from p_conc import check_history
    rng = random.Random(seed * 1000 + 11)
    root = os.path.join(RUNS, "run-C11")
    nruns = 8 if tier == "quick" else 80
    nv = 0
    for ri in range(nruns):
        mfs = rng.choice([0, 60, 300, 9000])
        clients = rng.choice([2, 3, 4, 8])
        ops = rng.choice([30, 60]) if tier == "quick" else rng.choice([50, 120])
        keys = rng.choice([1, 2, 3])
        preset = rng.choice(["frag=0/1 dead=0 small=1099511627776", "frag=1/4 dead=1099511627776 small=0"])
        mix = ""
        if ri % 3 == 2:
            # hot key, SET and GET only (no DEL): a GET that follows an acknowledged SET can never be answered with a null;
            # a preemption injector interrupts the server's runtime threads (workers and blocking pool) at random instructions
            keys, clients, ops, mix = 1, 8, ops * 4, " sets=25 dels=0 preempt_us=300 pause_us=20"
        script = [f"srv.start max=32 mfs={mfs} pool={rng.choice([1, 2, 4])} {preset}",
                  f"netstress clients={clients} ops={ops} keys={keys} seed={rng.randint(1, 10**6)} big={rng.choice([0, 10, 30])}{mix}", "srv.alive", "srv.stop"]
        shutil.rmtree(root, ignore_errors=True)
        died = None
        try:
            ans = run_harness(["net", "--root", root, "--hang-ms", "120000"], script, timeout=600)
        except Died as d:
            ans, died = d.answered, d
        rep.cov["evaluations"] += clients * ops
        rep.count("runs")
        if died is not None or len(ans) < 3:
            nv += 1
            if nv <= 3:
                rep.violation("oracle", dict(what=f"server / harness died or hung under concurrent clients ({died.why if died else '?'})", script=script, answers=[a[:300] for a in ans]))
            continue
        h = ans[1].split(";")
        nm = [e for e in h if e.startswith("m merges")]
        rep.count("merges", int(nm[0].split(" ")[-1]) if nm else 0)
        rep.count("commands", len(h) - 1)
        probs = check_history(h)
        if ans[2] != "alive":
            probs.append("the server's run loop ended")
        rep.nontrivial(["c11", script[0], script[1]])
        rep.cov["traces_validated_against_impl"] += 1
        if probs:
            nv += 1
            if nv <= 3:
                rep.violation("oracle", dict(what="; ".join(probs[:3]), script=script, history=h[:500]))
        if ri == 0:
            rep.sample({"script": script, "history_head": h[:8]})
    # forced interleavings through TCP (schedule points of the store, reached from the server's blocking pool)
    SETk = req_bytes(("SET", b"k", b"v")).hex()
    DELk = req_bytes(("DEL", [b"k"])).hex()
    GETk = req_bytes(("GET", b"k")).hex()
    forced = [
        ("two clients delete the same key: one DEL holds the writer lock with the key still indexed while the other arrives",
         ["c.open a", "c.open b", "c.open c", f"c.send c {SETk}", "c.read c 1 5000", "np.park del.before_publish 1", f"c.send a {DELk}", "np.wait 5000",
          f"c.send b {DELk}", "sleep 200", "np.release", "c.read a 1 5000", "c.read b 1 5000", f"c.send c {GETk}", "c.read c 1 5000"],
         lambda a: (a[7] == "parked del.before_publish" and sorted([a[11], a[12]]) == ["I:0", "I:1"] and a[14] == "N", "replies I:0 and I:1 in some order, then GET -> null")),
        ("a client reads while another client's SET has appended but not yet published: old value; after the publish: new value",
         ["c.open a", "c.open b", f"c.send a {SETk}", "c.read a 1 5000", "np.park put.before_publish 1", "c.send a " + req_bytes(("SET", b"k", b"w")).hex(), "np.wait 5000",
          f"c.send b {GETk}", "c.read b 1 5000", "np.release", "c.read a 1 5000", f"c.send b {GETk}", "c.read b 1 5000"],
         lambda a: (a[6] == "parked put.before_publish" and a[8] == "B:76" and a[10] == "S:4f4b" and a[12] == "B:77", "GET -> v while parked, +OK, then GET -> w")),
    ]
    forced.append(
        ("a client's GET is between index lookup and file read while another client's SET is acknowledged and a full merge pass runs",
         ["c.open a", "c.open b", f"c.send a {SETk}", "c.read a 1 5000", "kv.merge", "np.park get.lookup 1", f"c.send a {GETk}", "np.wait 5000",
          "c.send b " + req_bytes(("SET", b"k", b"w")).hex(), "kv.merge.bg", "sleep 400", "np.release", "c.read a 1 5000", "c.read b 1 5000", "kv.merge.join 5000",
          f"c.send b {GETk}", "c.read b 1 5000"],
         lambda a: (a[7] == "parked get.lookup" and a[12] in ("B:76", "B:77") and a[13] == "S:4f4b" and a[14] == "done ok" and a[16] == "B:77", "GET -> v or w (never an error / dropped connection), SET -> +OK, merge ok, GET -> w")))
    forced.append(
        ("a client's SET has appended but not yet published when a full merge pass (which selects every file, the active one included) is requested; afterwards three clients read the key",
         ["c.open a", "c.open b", "c.open c", f"c.send a {SETk}", "c.read a 1 5000", "np.park put.before_publish 1", "c.send a " + req_bytes(("SET", b"k", b"w")).hex(), "np.wait 5000",
          "kv.merge.bg", "sleep 400", "np.release", "c.read a 1 5000", "kv.merge.join 5000", f"c.send b {GETk}", "c.read b 1 5000", f"c.send c {GETk}", "c.read c 1 5000", f"c.send a {GETk}", "c.read a 1 5000"],
         lambda a: (a[7] == "parked put.before_publish" and a[11] == "S:4f4b" and a[12] == "done ok" and a[14] == "B:77" and a[16] == "B:77" and a[18] == "B:77", "SET -> +OK, merge ok, then every GET -> w")))
    ks = [f"6d{i:02x}" for i in range(8)]
    sets = []
    for i, k in enumerate(ks):
        sets += [f"c.send a {req_bytes(('SET', bytes.fromhex(k), bytes([0x30 + i]) * 20)).hex()}", "c.read a 1 5000"]
    opens = [f"c.open b{i}" for i in range(8)]
    sends = [f"c.send b{i} {req_bytes(('GET', bytes.fromhex(k))).hex()}" for i, k in enumerate(ks)]
    reads = [f"c.read b{i} 1 8000" for i in range(8)]
    n0 = 1 + len(sets) + len(opens)
    # eight readers on eight connections: the one whose key lives in the shard the parked pass is holding waits for the
    # release, the others are answered while the pass is in flight; every one of them must get the value that was set
    forced.append(
        ("a merge pass is in flight (parked after copying and hinting eight small entries into one output file) while other clients read the keys it has already moved",
         ["c.open a"] + sets + opens + ["np.park merge.hinted 8", "kv.merge.bg", "np.wait 8000"] + sends + ["sleep 300", "np.release", "kv.merge.join 8000"] + reads,
         lambda a: (a[n0 + 2] == "parked merge.hinted" and a[n0 + 3 + 8 + 2] == "done ok" and all(a[n0 + 3 + 8 + 3 + i] == "B:" + f"{0x30 + i:02x}" * 20 for i in range(8)),
                    "every GET answers the value that was set")))
    for name, steps, pred in forced:
        big = "mfs=1000000" if "eight small entries" in name else "mfs=0"
        script = [f"srv.start max=16 {big} pool=2 frag=0/1 dead=0 small=1099511627776"] + steps + ["srv.stop"]
        shutil.rmtree(root, ignore_errors=True)
        try:
            ans = run_harness(["net", "--root", root, "--hang-ms", "30000"], script, timeout=120)
        except Died as d:
            rep.violation("oracle", dict(what=f"forced interleaving `{name}`: harness died / hung ({d.why})", script=script, answers=d.answered))
            continue
        rep.cov["evaluations"] += len(script)
        rep.count("forced_interleavings")
        rep.nontrivial(["c11f", name])
        ok, want = pred(ans[1:])
        waits = [(l, a) for l, a in zip(script, ans) if l.startswith("np.wait")]
        if not ok and any(not a.startswith("parked") for _, a in waits):
            # no thread stopped at the schedule point: the interleaving could not be forced (the code no longer passes the
            # point this way); that breaks the tie of this scenario to the code and says nothing about the property itself
            rep.violation("correspondence", dict(what=f"forced interleaving `{name}` can no longer be forced: {waits}", script=script, answers=ans, expected=want, observed=";".join(ans[1:])[:600]))
        elif not ok:
            rep.violation("oracle", dict(what=f"forced interleaving `{name}`: not consistent with any single order of the commands", script=script, answers=ans, expected=want, observed=";".join(ans[1:])[:600]))
    shutil.rmtree(root, ignore_errors=True)
    rep.cov["rule"] = ("2-8 client connections issue SET (unique values, 8..38 bytes or 9000 bytes) / GET / single-key DEL on 1-3 keys concurrently against the real server (4 worker threads + blocking pool) "
                       "while a thread forces merges through a direct handle and max_file_size in {0,60,300,9000} forces rollovers; each command's send/receive times and reply form a history that is "
                       "checked per key for linearizability (exact memoised search; per-connection order is implied by non-overlap); non-trivial = distinct run configuration")


RUNNERS = {"C06": run_c06, "C10": run_c10, "C15": run_c15, "C16": run_c16, "C11": run_c11}
