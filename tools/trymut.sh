#!/bin/sh
# trymut.sh <patch.diff> <Cxx> [Cyy ...] : apply a seeded change to /repo, run the checks, undo it.
# (development aid; never leaves /repo modified)
P="$1"; shift
cd /repo || exit 2
git diff --quiet || { echo "/repo has uncommitted changes"; exit 2; }
git apply "$P" || { echo "patch does not apply"; exit 2; }
trap 'git -C /repo checkout -- . ' EXIT
cd /verif
for c in "$@"; do
  echo "== $c"
  timeout 1500 python3 tools/check.py "$c" --no-proof 2>&1 | cut -c1-220 | tail -4
  echo "rc=$?"
done
