#!/usr/bin/env python3
"""regress_alt.py [-j N] [ids...]: like regress_seeded.py but never touches /repo: every archived change is applied to its own scratch
worktree (tools/trymut_alt.sh) and N of them run at a time."""
import json
import os
import subprocess
import sys
from concurrent.futures import ThreadPoolExecutor

V = os.path.dirname(os.path.dirname(os.path.abspath(__file__)))
args = sys.argv[1:]
jobs = 6
if args[:1] == ["-j"]:
    jobs = int(args[1])
    args = args[2:]
ids = args or sorted(os.listdir(os.path.join(V, "seeded")))


def one(sid):
    d = os.path.join(V, "seeded", sid)
    meta = json.load(open(os.path.join(d, "meta.json")))
    checks = meta.get("caught_by") or []
    r = subprocess.run([os.path.join(V, "tools", "trymut_alt.sh"), os.path.join(d, "patch.diff")] + checks, capture_output=True, text=True)
    if "does not apply" in r.stdout + r.stderr and meta.get("base"):
        # written for an older commit of /repo and not ported: try it there
        r = subprocess.run([os.path.join(V, "tools", "trymut_alt.sh"), os.path.join(d, "patch.diff")] + checks, capture_output=True, text=True,
                           env=dict(os.environ, BASE=meta["base"]))
    res, cur = {}, None
    for l in r.stdout.split("\n"):
        if l.startswith("== "):
            cur = l[3:].strip()
            res[cur] = [0, 0]
        elif l.startswith("VIOLATION") and cur:
            res[cur][0] += 1
            res[cur][1] += "no-failing-input-found" in l
    ok = bool(checks) and all(res.get(c, [0, 0])[0] > 0 for c in checks)
    crashed = [l for l in r.stdout.split("\n") if "rror" in l and not l.startswith(("VIOLATION", "KNOWN"))]
    if crashed and not ok:
        # the check itself fell over (e.g. the shared Lean driver was being rebuilt under it): not a verdict on the change
        return sid, False, "CHECK DID NOT RUN TO ITS END: " + crashed[0][:200]
    return sid, ok, ", ".join(f"{c}: {res.get(c, [0, 0])[0]} violation(s), {res.get(c, [0, 0])[1]} without failing input" for c in checks) + ("" if r.returncode == 0 else f" [rc={r.returncode} {r.stderr[-200:]}]")


bad = 0
with ThreadPoolExecutor(max_workers=jobs) as ex:
    for sid, ok, txt in ex.map(one, ids):
        bad += 0 if ok else 1
        print(f"{sid}: " + ("caught " if ok else "MISSED ") + txt, flush=True)
print("regression done;", bad, "problem(s)")
sys.exit(1 if bad else 0)
