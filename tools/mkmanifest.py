#!/usr/bin/env python3
"""Regenerates /verif/MANIFEST.json from the table below (kept in one place so it stays valid)."""
import json, os
V = os.path.dirname(os.path.dirname(os.path.abspath(__file__)))
HOOK_COMMITS = ["verif: add cargo feature `verif` with add-only hooks (merge/sync/dump entry points, schedule points, server local addr)"]
COMMON_NOTE = ("Trusted: Lean 4.33 kernel; axioms propext/Classical.choice/Quot.sound only (audited by #print axioms each run, no sorry/native_decide/bv_decide); "
               "the hand-written model's faithfulness, sampled on every run by the differential correspondence (Rust harness calling the real code in-process, "
               "iotrace LD_PRELOAD shim, cargo-feature `verif` hooks). ")
CHECKS = {
 "C07": dict(
   text="Lean theorems over a faithful index-level model of frame.rs (explicit panic outcome at every index/advance/overflow site): check, parse and parse_frame never panic "
        "for any byte string; accepted integers have exactly the written value at every offset; out-of-range numbers are rejected; check/parse lengths agree. "
        "Tied to the code by differential execution of model and real parser on ~370k inputs (exhaustive small alphabet strings, numbers at all offsets, truncations, mutations, deep nesting on a small stack).",
   note=COMMON_NOTE + "Modelled not verified: bytes::Buf cursor semantics, String::from_utf8 (= validUtf8, differential-tested), process stack size (nesting bound 32 is proved for the model; real stack use observed on a 256 KiB stack).",
   technique="Lean 4 proof (loop invariants via fun_induction, fuel-indexed mutual recursion) + differential correspondence with the real parser",
   ref="DESIGN.md §5 C07"),
 "C01": dict(
   text="Lean refinement theorem: from a fresh store every sequence of put/delete/get/merge (any max_file_size from 0 up, any subset of files a merge selects, any KeyDir iteration order) "
        "returns exactly the results of the abstract map Key -> Option Val, keeps the index invariant (every entry addresses the complete record written for it) and never reads a bad location. "
        "The theorems are about the same definitions the driver executes; the tie is differential execution of model and real store on seeded histories (values 0..70 KiB, rollover on every write, "
        "cache/pool sizes 0.., all merge presets) plus a plain-map oracle.",
   note=COMMON_NOTE + "Modelled not verified: files at record granularity (byte layout = Store/Codec.lean, compared through positions/lengths/sizes and trace hashes), mmap/LRU reader cache and reader pool "
        "(sequentially unobservable; concurrency is C04), DashMap iteration order = the `order` parameter (observed from the real merge and quantified over in the theorem).",
   technique="Lean 4 proof (invariant + refinement to an abstract map, induction over operations) + differential correspondence with the real store",
   ref="DESIGN.md §5 C01"),
 "C15": dict(
   text="Lean theorems over the ConnLimit transition system (listener takes a permit before accept; a handler's Drop returns it whatever ends the handler): in every reachable state "
        "permits + running handlers + [listener holds one] = max; never more than max handlers; after all handlers ended every permit is available; a waiting client can always be admitted while fewer "
        "than max are served. The same LTS, executed by the driver, predicts for seeded event scripts (connect / probe / clean close / garbage / half frame / handler panic) which connections the real "
        "server serves; observed over loopback TCP at max_connections 1..3. Failing accept(2) calls are steps of the LTS (acceptFail; c15_accept_failure_free: a failed attempt costs no permit) and are injected into the real listener by the LD_PRELOAD layer (EMFILE / ECONNABORTED, up to the four in a row its back-off tolerates): afterwards exactly max_connections clients are served at a time. The retry loop itself (Listener::accept, u64 doubling back-off) is modelled (Conc/AcceptBackoff.lean; c15_backoff_survives / c15_backoff_gives_up / c15_backoff_zero_min for every min, max, burst length) and tied: bursts of failing accept(2) calls at back-off settings (10,100), (5,20), (0,5) (thorough also (1,1), (3,2), (200,100)) against the real server, outcome compared with the driver's cl.backoff.",
   note=COMMON_NOTE + "PARTIAL: the protocol logic is proved; tokio Semaphore / task-drop-on-panic semantics and the kernel's FIFO accept queue are trusted; 'served' is observed with timeouts "
        "(positive expectations wait 5 s, negative ones 250 ms, so a slow machine cannot fabricate an alarm).",
   technique="Lean 4 proof (invariant over a labelled transition system) + model-predicted scenario replay against the real server",
   ref="DESIGN.md §5 C15"),
 "C06": dict(
   text="Lean theorems over the handler model the driver executes (read frame -> command -> map operation -> one reply): every well-formed SET/GET/DEL request frame is parsed back to its command; for any "
        "request sequence the handler writes exactly the concatenation of the map model's replies, in order, one per request, and leaves the store as the map does; GET returns the stored bytes verbatim; "
        "DEL counts each key as it is deleted in turn. Tied to the real server over loopback TCP: request scripts x segmentations (down to one byte) x pipelining depths, values with CR/LF/NUL and up to "
        "200 KB, compared byte for byte with a python map and the Lean model. At byte level (Props/C06Bytes.lean): for EVERY segmentation of the bytes of any well-formed request sequence the reply bytes and the final store are those of the map model (segmentation and pipelining are irrelevant); a stream that ends inside a request yields exactly the replies of the complete requests before it and a reset, never a reply to the partial one. Client library (Props/C06Client.lean, Resp/Client.lean): what Client::{get,set,del} return for the map model's reply is the map's answer; error frames, end of stream and replies of the wrong kind are rejected, never taken for a value; tied by running the real Client against a scripted server (request bytes and results vs the driver). Also: a sweep of value lengths around every power of ten up to 10^6 and DELs naming 100 / 101 keys (every decimal a reply can carry), and the same commands over stores configured at the edges (no reader cache, no reader pool, a file per entry, sync always).",
   note=COMMON_NOTE + "PARTIAL: the theorem is at the level of the frames a connection delivers; that those frames are independent of segmentation is C08 (c08 theorems), that the real store is the map is C01. "
        "Trusted: kernel TCP delivers bytes in order; tokio scheduling of handler and blocking pool.",
   technique="Lean 4 proof (handler model refines the map model, induction over requests) + differential correspondence with the real server over TCP",
   ref="DESIGN.md §5 C06"),
 "C10": dict(
   text="Lean theorems for every byte stream in every segmentation: the connection handler model never ends by a panic (no index/overflow/advance panic in check, parse, parse_frame, the reader loop, "
        "the command layer; replies are never arrays so write_frame never hits unimplemented!); the store afterwards is exactly the store before with the leading well-formed commands applied; accepted "
        "lengths never exceed the bytes received. Tied to the real server: ~190 hostile streams (garbage, wrong arity, non-UTF-8, truncations, 200000-deep nesting, 19-20 digit lengths, mutations) each on its "
        "own connection interleaved with a well-behaved persistent connection; process/run loop alive, control replies and final store equal the model's. Byte level (Props/C06Bytes.lean): for arbitrary bytes the frames read are a unique run of complete frames followed by one terminal result; the final store is the fold of exactly the well-formed commands decoded before the first error (named, not just existential), of which only SET/DEL change it. The key validator (Props/C10Utf8.lean): `validUtf8` accepts exactly the UTF-8 encodings of sequences of Unicode scalar values = exactly the byte strings of Lean `String`s (sound and complete; so no lone continuation byte, impossible byte, truncated or overlong sequence, surrogate or code point beyond U+10FFFF is accepted); tied by sending non-UTF-8 keys of every such kind in SET / GET / DEL (python's decoder as the reference) and reading the store through a direct handle afterwards; peers that connect and stay silent; array / bulk lengths of every size announced and never honoured.",
   note=COMMON_NOTE + "PARTIAL: isolation between connections is structural in the model (connections share only the store); tokio's containment of a task panic, memory exhaustion by sheer volume and the "
        "stack bound of the real recursion (depth limit 32 proved for the model, real stack use observed) are runtime facts.",
   technique="Lean 4 proof (totality + store = fold of well-formed command prefix) + hostile-corpus replay against the real server",
   ref="DESIGN.md §5 C10"),
 "C16": dict(
   text="Lean theorems over the handler Shutdown LTS (top / select / executing / writing / done): a handler is never `done` with part of a reply on the wire (no torn reply); replies sent never exceed "
        "store operations returned (every acknowledged command is in the store), also for a reply still being written; after the signal a handler always has an own step enabled and every step strictly "
        "decreases an explicit distance to `done` (bounded by frames still deliverable), so run returns. Tied to the real server by firing the shutdown future at each handler state (idle, partial frame, "
        "store call held on a gate, pipelined commands, 600 KB reply in flight, mixed). Byte level (Props/C06Bytes.lean): whatever the input, the reply byte string of the handler model is a concatenation of complete encodings of reply frames, one per applied command. One scenario keeps a command inside the store for 6.5 s (thorough: 35 s) after the signal: run() must keep waiting (no grace period), the reply arrives whole and the effect is in the store.",
   note=COMMON_NOTE + "PARTIAL: protocol logic proved; select! fairness under endless pipelining, TCP turning close-with-unread-data into RST (accepted as end of stream) and wall-clock bounds are observed, not proved. "
        "A client that never reads its reply is outside the property's listed client states.",
   technique="Lean 4 proof (safety invariant + variant function on a labelled transition system) + scenario replay against the real server",
   ref="DESIGN.md §5 C16"),
 "C17": dict(
   text="Lean theorems over the Close LTS: after the drop every handle operation returns `closed` and leaves the state (incl. the count of file-system calls) unchanged; no step of the background worker - "
        "including the merge/sync it was about to run - issues a call; from every worker state the worker exits within 5 own steps, is never stuck waiting for its timer, and ticks change nothing. "
        "Tied to the real store: drop while the worker sleeps with a far timer / is parked between can_merge() and the merge call / syncs / merges continuously; all APIs must fail with closed, the LD_PRELOAD "
        "recorder must see no call, the worker thread must be gone within 3 s, the directory must reopen with the pre-drop contents; 50 open/close cycles with thread and descriptor counts.",
   note=COMMON_NOTE + "PARTIAL: thread exit, descriptor release and tokio runtime teardown are runtime facts, observed with deadlines; dropping the store while a merge pass is already executing is outside the listed states.",
   technique="Lean 4 proof (labelled transition system, distance function) + forced-schedule replay with I/O recorder",
   ref="DESIGN.md §5 C17"),
 "C18": dict(
   text="Lean theorems: with policy never the trigger decision is false for all counters; with policy always it is true iff some file exceeds the dead-bytes or the fragmentation trigger (rational comparison, "
        "meaning spelled out); no trigger exceeded implies no merge request; the timer loop wakes within hi = interval(1+jitter) of any instant while running, the sync loop within interval. The decision "
        "function is the one the driver evaluates against Context::can_merge on the same histories. Tied to the real store by leaving it alone under policies always/never/window with triggers just "
        "above/below the written pattern and jitter 0/0.3/1: a merge must appear within the bound + 4 s or not at all; interval sync observed through fsync calls.",
   note=COMMON_NOTE + "PARTIAL: real time is outside the model (bounds are checked with 4 s slack for positive expectations and >= 12 intervals of silence for negative ones); f64 thresholds are compared as rationals "
        "(dyadic / small-denominator thresholds only); the clock hour of window policies is read from the host.",
   technique="Lean 4 proof (decision logic stated outright + timer-gap lemma) + timed observation of the real background tasks",
   ref="DESIGN.md §5 C18"),
 "C02": dict(
   text="Lean theorems about the executable store model: for every state reachable by put/delete/reopen under any configuration, the startup scan of the directory rebuilds an index under which every key reads "
        "exactly as before the close (deleted keys stay deleted), and reopening is idempotent; proof via 'the scan = last record wins' over all records in (file id, position) order. Tied to the real store "
        "by histories with overwrites, deletes of present/absent keys, re-sets, >=12 files, reopen cycles at arbitrary positions (a third of them with merge passes in between, as the store merges on its own; the merge+restart theorems are C05's, and defect D3 shows here as a known finding); racing pairs of operations followed by two restarts; wall-clock steps; reads, index and counters compared with the model and a plain map.",
   note=COMMON_NOTE + "Files at record granularity (byte layout Store/Codec.lean validated through trace hashes and crash images); directory listing order and numeric id parsing are modelled by an ascending sort.",
   technique="Lean 4 proof (recovery invariant: rebuilt index = index, induction over operations) + differential correspondence with the real store",
   ref="DESIGN.md §5 C02"),
 "C05": dict(
   text="Lean theorems: a merge pass with ANY selected set below the active id and ANY KeyDir iteration order leaves every key reading as before (c05_now, full strength); after a following restart the same "
        "holds under the explicit hypothesis NoHazard (no deleted key whose deciding tombstone is merged away while an older value survives in an unselected file) - c05_restart_partial - and the full statement "
        "is refuted by a concrete counterexample that is also replayed on the real code (known finding D3). Tied to the real store by histories with merges under all threshold presets, reads after merge, "
        "after a restart right after the merge (copy of the directory) and after reopen; one history in eight steps or stops the wall clock between operations (all theorems quantify over arbitrary timestamps), and the corpus holds the directed case: clock stepped back (or standing still) between two writes of a key, a pass over the newer file only, a restart.",
   note=COMMON_NOTE + "KNOWN FINDING D3 (known_findings.json): the unchanged code violates the restart half in exactly the NoHazard-negated class; the check classifies that class from the model (hazard query) and reports anything else.",
   technique="Lean 4 proof (merge refinement + recovery invariant under NoHazard, counterexample by decide) + differential correspondence with the real store",
   ref="DESIGN.md §5 C05"),
 "C12": dict(
   text="Lean theorem: for reachable states (merges included) opening the directory with all hint files removed recovers an index under which every key reads the same as with them (hint files list exactly the "
        "records of their data files, which hold no tombstones). Tied to the real store: after every merge/reopen a copy of the directory is opened with and without *.hint and all keys compared, also with the model.",
   note=COMMON_NOTE + "Crash-free histories, as the property states.",
   technique="Lean 4 proof (hint-exactness invariant) + differential correspondence with the real store",
   ref="DESIGN.md §5 C12"),
 "C13": dict(
   text="Lean theorems: a merge never increases the total data-file size; when every non-empty file is selected the size afterwards equals the total length of the live entries (= a fresh store holding the live "
        "pairs, entry length being independent of the timestamp); a repeated full merge keeps that size. Tied to the real store: directory sizes before/after every merge, eligibility recomputed from the "
        "configured thresholds and ground-truth counters, selected sets/sizes/index/counters compared with the model.",
   note=COMMON_NOTE + "f64 fragmentation thresholds compared as rationals (small-denominator thresholds only).",
   technique="Lean 4 proof (size accounting over the merge loop) + differential correspondence with the real store",
   ref="DESIGN.md §5 C13"),
 "C19": dict(
   text="Lean theorems: in every reachable state of the store model the per-file counters equal ground truth recomputed from the records and the index (live = keys whose current entry is in the file, dead / dead "
        "bytes = all other entries), and no counter ever underflows (the model's sticky `bad` flag is never set). Tied to the real store: after every mutating op the dumped counters are compared with ground "
        "truth recomputed by the harness' own decoder from the real files, and with the model.",
   note=COMMON_NOTE + "Crash-free, fault-free histories, as the property states.",
   technique="Lean 4 proof (accounting invariant by induction over operations) + differential correspondence with the real store",
   ref="DESIGN.md §5 C19"),
 "C14": dict(
   text="Lean theorems over the call traces the model emits (the model's call alphabet is create/append/fsync/unlink only): every created id is above every id ever present (merge outputs above the active id, "
        "new active id above the outputs, reopen's max+1 fresh because the largest id ever used is still on disk); every append targets a file created in the same life and not yet removed; a data file "
        "receives an entry only while its size is within max_file_size. Tied to the real store by the LD_PRELOAD recorder: open flags must be O_CREAT|O_EXCL|O_APPEND, no rename/truncate/pwrite/writable "
        "mmap, the same monitor runs on the real trace across lives incl. restored crash images, and the logical trace must equal the model's.",
   note=COMMON_NOTE + "The shim observes libc-level calls of this process only; O_APPEND semantics of the kernel are trusted.",
   technique="Lean 4 proof (trace invariants) + LD_PRELOAD trace monitor and trace equality with the model",
   ref="DESIGN.md §5 C14"),
 "C03": dict(
   text="Lean theorems (record level + codec law): every byte-granular cut of the calls of a put/delete leaves a directory whose startup scan yields the old or the new map and never fails; merge cuts under "
        "NoHazard. Tied to the real store: each workload runs once under the recorder (trace must equal the model's), then crash images at every call boundary and inside appends are opened by the real "
        "code and by the model: must open, every key reads as acknowledged (+/- the op in flight); sampled images are restored in place and the workload continues through writes, restart, merge, restart. Lives (Props/C03Lives.lean): the same for ANY number of lives, each possibly ended by a kill at any cut of any operation, merges included: the recovery invariant is weakened to `HintsPrefix` (the hint entries the scan accepts describe a prefix of the data file's records) and re-established by every recovery; a decide-checked counterexample shows the D3 side condition must count the records the scan does not see.",
   note=COMMON_NOTE + "The property's own failure model (a killed process leaves a prefix of its system calls; POSIX append) is trusted. KNOWN FINDING D3 applies to workloads whose merge drops a shadowing tombstone.",
   technique="Lean 4 proof (cut lemmas per operation over the recovery invariant) + crash-image enumeration against real code and model",
   ref="DESIGN.md §5 C03"),
 "C09": dict(
   text="Lean theorems: with sync=always every acknowledged record lies below the fsynced length of its file; merge outputs are fsynced before the first unlink, hint entries beyond the data file are ignored. "
        "Tied to the real store: trace equality incl. every fsync, and power-loss images (each file independently cut back to its synced length / kept / in between) opened by real code and model. Lives (Props/C09Lives.lean): any number of lives ended by kills or power failures at any cut (sync=always), merges included; a decide-checked counterexample shows why the image model must keep the length of a file that loses no record.",
   note=COMMON_NOTE + "The property's failure model (what fsync guarantees; creations/removals durable) is trusted. KNOWN FINDING D3 applies.",
   technique="Lean 4 proof (durability invariant over traces) + power-loss image enumeration against real code and model",
   ref="DESIGN.md §5 C09"),
 "C20": dict(
   text="Lean theorems over a fault-aware writer model of the repaired code (fault kinds: append of a small / large entry, fsync, create on rollover): the faulty operation reports an error, the invariant is kept, "
        "no other key changes, the failed key is unchanged in memory, and later fault-free operations still refine the map. Tied to the real store: one ENOSPC/EIO per run at (sampled) every physical "
        "open/write/fsync/unlink position, all keys read after every op and after a final reopen. Merge passes (Props/C20Merge.lean): `mergeF` = the pass in which call j fails, in the order of the code of the day (hint entry before re-pointing; the order before the repair is kept with its decide-checked data-loss counterexample, which is how defect D13 was found): error reported, invariant kept, no key reads differently, later operations refine the map, ids stay fresh, the trace monitor accepts the calls; restart (also after any later fault-free history) reads as the map under the D3 side condition. The driver runs `mergeF` and the check compares it with the real store at every fault position inside a merge. Through the server (Props/C20Server.lean, model Resp/ServerFault.lean: the handler over a store whose calls can fail): an acknowledging reply is true of the running server and of what a restart recovers, a command is refused only when one of its calls failed, a refused command touches no key it does not name and leaves old or new; the real server with the n-th file-system call after a SET/GET/DEL failing is compared with the set of outcomes the model allows.",
   note=COMMON_NOTE + "KNOWN FINDING D12 (faults inside a merge pass). What std's BufWriter retains after a failed write is modelled from observation.",
   technique="Lean 4 proof (fault-aware model keeps the refinement invariant) + exhaustive single-fault injection by LD_PRELOAD",
   ref="DESIGN.md §5 C20"),
 "C08": dict(
   text="Lean theorems over the index-level model: every well-formed frame is encoded without hitting unimplemented!, parse(encode f ++ rest) = f with the full length and check agrees; strict prefixes are "
        "incomplete; any segmentation of a concatenation of encodings is decoded to the same frames, and a stream ending inside a frame is an error. Tied to the real Connection over a scripted stream: "
        "type-directed frames up to 140 KB, every prefix, all-at-once / byte-at-a-time / every-cut / random segmentations, large frames followed by buffered frames.",
   note=COMMON_NOTE + "String::from_utf8 = validUtf8 (differential-tested); tokio's read_buf may split a segment further (covered: the theorem holds for every segmentation).",
   technique="Lean 4 proof (codec round trip, prefix and stream theorems) + differential correspondence with the real Connection",
   ref="DESIGN.md §5 C08"),
 "C04": dict(
   text="Lean theorems over a concurrent store LTS (chunked record writes, index publish after the last chunk, readers mapping files at arbitrary moments, remap test, shard guards, merge re-point before unlink, "
        "reader pool): no panic state is reachable (and one IS reachable with the old remap test), pool accounting, linearizability via linearization points, no deadlock, bounded own steps. Tied to the real store by "
        "(a) a step-by-step correspondence of that LTS (run by the Lean driver) with real threads parked at the crate's schedule points and before chosen write(2) calls: parked / finished-with-result / blocked per move, final index, files, active id, pool; "
        "(b) hand-written forced schedules for the windows named in the property; (c) free-running stress with an exact per-key linearizability search, hang watchdog and pool check.",
   note=COMMON_NOTE + "PARTIAL: memory-model effects below the lock/atomic abstraction (DashMap, crossbeam ArrayQueue, parking_lot), mmap coherence and OS scheduler fairness are trusted; the schedule space of the real code is sampled.",
   technique="Lean 4 proof (invariants + linearization points on a labelled transition system) + forced schedules and linearizability-checked stress",
   ref="DESIGN.md §5 C04"),
 "C11": dict(
   text="Lean meta-theorem: widening every operation's interval to (request sent, reply received) and adding per-connection order preserves linearizability, so the client-visible history is linearizable whenever "
        "the store history is (C04). Tied to the real server: 2-8 concurrent TCP clients with forced merges and rollovers, histories checked per key; forced interleavings through TCP using the store's schedule points.",
   note=COMMON_NOTE + "PARTIAL: as C04, plus tokio's blocking pool and kernel TCP.",
   technique="Lean 4 proof (linearizability meta-theorem) + linearizability-checked concurrent client histories",
   ref="DESIGN.md §5 C11"),
}
NOT_YET = "check under construction in this session; will be claimed once its machinery is committed"
def main():
    props = [json.loads(l) for l in open(os.path.join(V, "properties.jsonl"))]
    m = {"version": 1, "setup_cmd": "sh tools/setup.sh",
         "hooks": {"guard": "cargo feature `verif` (Cargo.toml [features] verif = []; all hook code is under #[cfg(feature = \"verif\")])",
                   "enable": "the harness depends on /repo by path with features = [\"verif\"] (cargo build --offline in /verif/harness)",
                   "baseline_off_cmd": "cd /repo && cargo test --workspace --no-fail-fast --offline",
                   "source_commits": HOOK_COMMITS, "add_only": True},
         "engines": [
            {"name": "lean-model", "path": "lean/", "serves_properties": sorted(p for p in CHECKS if os.path.exists(os.path.join(V, "lean", "BitcaskVerif", "Props", p + ".lean"))), "kind_free_text": "Lean 4 model + theorems + compiled line-protocol driver"},
            {"name": "bcharness", "path": "harness/", "serves_properties": sorted(p for p in CHECKS if os.path.exists(os.path.join(V, "lean", "BitcaskVerif", "Props", p + ".lean"))), "kind_free_text": "Rust harness executing the real code on the same line protocol"},
            {"name": "iotrace", "path": "iotrace/iotrace.c", "serves_properties": [p for p in sorted(CHECKS) if p in ("C01","C02","C03","C04","C05","C09","C12","C13","C14","C15","C17","C18","C19","C20")], "kind_free_text": "LD_PRELOAD layer: file-system call recorder / fault injector / write pauser; fails accept(2) calls (C15); shifts or stops CLOCK_REALTIME (store histories of C01 C02 C05 C12 C13 C19)"}],
         "checks": [], "not_applicable": [],
         "notes": "All checks: python3 tools/check.py Cxx --tier quick|thorough (VERIF_SEED / VERIF_TIER honoured). Known/fixed findings: known_findings.json."}
    for p in props:
        pid = p["id"]
        if pid in CHECKS and os.path.exists(os.path.join(V, "lean", "BitcaskVerif", "Props", pid + ".lean")) and os.path.exists(os.path.join(V, "lean", "BitcaskVerif", "Audit", pid + ".lean")):
            c = CHECKS[pid]
            m["checks"].append({
                "property_id": pid,
                "quick_cmd": f"python3 tools/check.py {pid} --tier quick",
                "thorough_cmd": f"python3 tools/check.py {pid} --tier thorough",
                "evidence_file": f"/verif/evidence/{pid}.json",
                "replay_cmd_template": f"python3 tools/check.py {pid} --replay {{path}}",
                "engine": "lean-model + bcharness",
                "level_claimed": {"category": "proof", "text": c["text"], "design_ref": c["ref"]},
                "level_note": c["note"], "technique": c["technique"]})
        else:
            m["not_applicable"].append({"property_id": pid, "reason": NOT_YET})
    json.dump(m, open(os.path.join(V, "MANIFEST.json"), "w"), indent=1)
if __name__ == "__main__":
    main()
