#!/usr/bin/env python3
"""Regenerates /verif/MANIFEST.json from the table below (kept in one place so it stays valid)."""
import json, os
V = os.path.dirname(os.path.dirname(os.path.abspath(__file__)))
HOOK_COMMITS = ["verif: add cargo feature `verif` with add-only hooks (merge/sync/dump entry points, schedule points, server local addr)"]
COMMON_NOTE = ("Trusted: Lean 4.33 kernel; axioms propext/Classical.choice/Quot.sound only (audited by #print axioms each run, no sorry/native_decide/bv_decide); "
               "the hand-written model's faithfulness, sampled on every run by the differential correspondence (Rust harness calling the real code in-process, "
               "iotrace LD_PRELOAD shim, cargo-feature `verif` hooks). ")
CHECKS = {
 "C07": dict(
   text="Lean theorems over a faithful index-level model of frame.rs (explicit panic outcome at every index/advance/overflow site): check, parse and parse_frame never panic "
        "for any byte string; accepted integers have exactly the written value at every offset; out-of-range numbers are rejected; check/parse lengths agree. "
        "Tied to the code by differential execution of model and real parser on ~370k inputs (exhaustive small alphabet strings, numbers at all offsets, truncations, mutations, deep nesting on a small stack).",
   note=COMMON_NOTE + "Modelled not verified: bytes::Buf cursor semantics, String::from_utf8 (= validUtf8, differential-tested), process stack size (nesting bound 32 is proved for the model; real stack use observed on a 256 KiB stack).",
   technique="Lean 4 proof (loop invariants via fun_induction, fuel-indexed mutual recursion) + differential correspondence with the real parser",
   ref="DESIGN.md §5 C07"),
 "C01": dict(
   text="Lean refinement theorem: from a fresh store every sequence of put/delete/get/merge (any max_file_size from 0 up, any subset of files a merge selects, any KeyDir iteration order) "
        "returns exactly the results of the abstract map Key -> Option Val, keeps the index invariant (every entry addresses the complete record written for it) and never reads a bad location. "
        "The theorems are about the same definitions the driver executes; the tie is differential execution of model and real store on seeded histories (values 0..70 KiB, rollover on every write, "
        "cache/pool sizes 0.., all merge presets) plus a plain-map oracle.",
   note=COMMON_NOTE + "Modelled not verified: files at record granularity (byte layout = Store/Codec.lean, compared through positions/lengths/sizes and trace hashes), mmap/LRU reader cache and reader pool "
        "(sequentially unobservable; concurrency is C04), DashMap iteration order = the `order` parameter (observed from the real merge and quantified over in the theorem).",
   technique="Lean 4 proof (invariant + refinement to an abstract map, induction over operations) + differential correspondence with the real store",
   ref="DESIGN.md §5 C01"),
 "C15": dict(
   text="Lean theorems over the ConnLimit transition system (listener takes a permit before accept; a handler's Drop returns it whatever ends the handler): in every reachable state "
        "permits + running handlers + [listener holds one] = max; never more than max handlers; after all handlers ended every permit is available; a waiting client can always be admitted while fewer "
        "than max are served. The same LTS, executed by the driver, predicts for seeded event scripts (connect / probe / clean close / garbage / half frame / handler panic) which connections the real "
        "server serves; observed over loopback TCP at max_connections 1..3.",
   note=COMMON_NOTE + "PARTIAL: the protocol logic is proved; tokio Semaphore / task-drop-on-panic semantics and the kernel's FIFO accept queue are trusted; 'served' is observed with timeouts "
        "(positive expectations wait 5 s, negative ones 250 ms, so a slow machine cannot fabricate an alarm).",
   technique="Lean 4 proof (invariant over a labelled transition system) + model-predicted scenario replay against the real server",
   ref="DESIGN.md §5 C15"),
}
NOT_YET = "check under construction in this session; will be claimed once its machinery is committed"
def main():
    props = [json.loads(l) for l in open(os.path.join(V, "properties.jsonl"))]
    m = {"version": 1, "setup_cmd": "sh tools/setup.sh",
         "hooks": {"guard": "cargo feature `verif` (Cargo.toml [features] verif = []; all hook code is under #[cfg(feature = \"verif\")])",
                   "enable": "the harness depends on /repo by path with features = [\"verif\"] (cargo build --offline in /verif/harness)",
                   "baseline_off_cmd": "cd /repo && cargo test --workspace --no-fail-fast --offline",
                   "source_commits": HOOK_COMMITS, "add_only": True},
         "engines": [
            {"name": "lean-model", "path": "lean/", "serves_properties": sorted(CHECKS), "kind_free_text": "Lean 4 model + theorems + compiled line-protocol driver"},
            {"name": "bcharness", "path": "harness/", "serves_properties": sorted(CHECKS), "kind_free_text": "Rust harness executing the real code on the same line protocol"},
            {"name": "iotrace", "path": "iotrace/iotrace.c", "serves_properties": [p for p in sorted(CHECKS) if p in ("C03","C09","C14","C20","C04","C17","C18")], "kind_free_text": "LD_PRELOAD file-system call recorder / fault injector"}],
         "checks": [], "not_applicable": [],
         "notes": "All checks: python3 tools/check.py Cxx --tier quick|thorough (VERIF_SEED / VERIF_TIER honoured). Known/fixed findings: known_findings.json."}
    for p in props:
        pid = p["id"]
        if pid in CHECKS:
            c = CHECKS[pid]
            m["checks"].append({
                "property_id": pid,
                "quick_cmd": f"python3 tools/check.py {pid} --tier quick",
                "thorough_cmd": f"python3 tools/check.py {pid} --tier thorough",
                "evidence_file": f"/verif/evidence/{pid}.json",
                "replay_cmd_template": f"python3 tools/check.py {pid} --replay {{path}}",
                "engine": "lean-model + bcharness",
                "level_claimed": {"category": "proof", "text": c["text"], "design_ref": c["ref"]},
                "level_note": c["note"], "technique": c["technique"]})
        else:
            m["not_applicable"].append({"property_id": pid, "reason": NOT_YET})
    json.dump(m, open(os.path.join(V, "MANIFEST.json"), "w"), indent=1)
if __name__ == "__main__":
    main()
