"""Properties decided on the file-system call trace: C14 (append-only, fresh ids), C03 (crash at any
byte-granular cut), C09 (power loss under sync=always). All runs are under the iotrace preload."""
import random
import shutil

from vlib import *
from p_store import (KEYS, PRESETS, Hist, SpecMap, gen_history, script_for, hx, show_val, parse_opened, strip_trace,
                     minimise, P, D3_SIG)


def run_both_traced(lines, root, timeout=1800):
    died = None
    shutil.rmtree(root, ignore_errors=True)
    try:
        impl = run_harness(["store", "--root", root], lines, preload=True, timeout=timeout)
    except Died as d:
        impl, died = d.answered, d
    mlines = []
    for i, l in enumerate(lines):
        if l == "merge" and i < len(impl):
            m = re.search(r"order=(\S+)", impl[i])
            mlines.append("merge order=" + (m.group(1) if m else "-"))
        else:
            mlines.append(l)
    model = run_driver(mlines, timeout=timeout)
    shutil.rmtree(root, ignore_errors=True)
    return impl, model, died


class Pair:
    """the real store and the model, live: merge requests to the model get the iteration order the real merge just used"""
    def __init__(self, root):
        shutil.rmtree(root, ignore_errors=True)
        self.root = root
        self.h = harness_session(["store", "--root", root, "--hang-ms", "30000"], preload=True)
        self.m = driver_session()
        self.lines, self.impl, self.model = [], [], []
        self.died = None

    def ask_many(self, lines):
        """returns (impl answers, model answers); on harness death self.died is set and answers are short"""
        n0 = len(self.h.answers)
        try:
            a = self.h.ask_many(lines)
        except Died as d:
            self.died = d
            a = self.h.answers[n0:]
        ml = []
        for i, l in enumerate(lines):
            if l == "merge" and i < len(a):
                mm = re.search(r"order=(\S+)", a[i])
                ml.append("merge order=" + (mm.group(1) if mm else "-"))
            else:
                ml.append(l)
        b = self.m.ask_many(ml[:max(len(a), 0)] if self.died else ml)
        self.lines += lines
        self.impl += a
        self.model += b
        return a, b

    def close(self):
        self.h.close()
        self.m.close()
        shutil.rmtree(self.root, ignore_errors=True)


def no_sync(ans):
    """an answer line with the fsync calls removed from its trace: a process crash (C03) loses nothing that was written
    and append-only / fresh-id discipline (C14) is not about durability, so when and in which order files are synced is
    not an observable of those properties (it is of C09)"""
    if " | T" not in ans:
        return ans
    head, t = ans.split(" | T", 1)
    return head + " | T " + " ".join(c for c in t.strip().split(" ") if c and not c.startswith("s:"))


def nohint(ans, line):
    """the `files` answer without the sizes of hint files: the record-level model keeps the length of a torn tail for data
    files only (a torn hint entry is simply not there for it), so after a crash image with a torn hint append the two
    sides print different hint file sizes while agreeing on everything that is read"""
    if line != "files":
        return ans
    return " ".join(t for t in ans.split(" ") if not re.match(r"h\d+=", t))


def calls_of(ans):
    """logical calls listed after `| T` in an answer line"""
    if " | T" not in ans:
        return []
    t = ans.split(" | T", 1)[1].strip()
    return t.split(" ") if t else []


def fid(name):
    return int(name[1:])


class TraceMonitor:
    """C14's oracle over the logical calls of the real code, across lives"""
    def __init__(self, mfs):
        self.mfs = mfs
        self.ever = set()        # ids ever present (data or hint)
        self.size = {}           # current length per file name
        self.mine = set()        # files created in the current life
        self.unlinked = set()

    def new_life(self):
        self.mine = set()

    def feed(self, c):
        """returns a complaint or None"""
        p = c.split(":")
        if p[0] == "x":
            return f"illegal file operation {c}"
        if p[0].startswith("!"):
            return None
        if p[0] == "c":
            n = p[1]
            if n[0] == "d":
                if self.ever and fid(n) <= max(self.ever):
                    return f"created {n} although id {max(self.ever)} had already been used"
            else:
                # a hint file accompanies the data file of the same id created just before by this process
                if ("d" + n[1:]) not in self.mine or n in self.size:
                    return f"created {n} without a data file of that id created by this process (or twice)"
            self.ever.add(fid(n))
            self.size[n] = 0
            self.mine.add(n)
            self.unlinked.discard(n)
        elif p[0] in ("a", "a?"):
            n, ln = p[1], int(p[2])
            if n not in self.mine:
                return f"appended to {n}, which this process did not create"
            if n in self.unlinked:
                return f"appended to {n} after it was removed"
            if n[0] == "d" and self.size.get(n, 0) > self.mfs:
                return f"appended an entry to {n} although it already had {self.size[n]} > max_file_size={self.mfs} bytes"
            self.size[n] = self.size.get(n, 0) + ln
        elif p[0] == "u":
            self.unlinked.add(p[1])
        return None


def gen_workload(rng, idx, tier, sync="none", allow=("put", "del", "merge", "reopen"), small=False):
    h, meta = gen_history(rng, idx, set(allow) | {"get"}, tier)
    # crash workloads stay short: every cut is opened by the real code
    maxops = 12 if tier == "quick" else 25
    h.ops = [o for o in h.ops if o[0] != "get"][:rng.randint(3, maxops)]
    if small:
        h.ops = h.ops[:6]
    h.cfg = h.cfg.replace("sync=none", f"sync={sync}")
    # values above 20 KiB make images slow; cap
    ops = []
    for o in h.ops:
        if o[0] == "put" and len(o[2]) > 21000:
            o = ("put", o[1], o[2][:300], o[3].split("*")[0] + "*300")
        ops.append(o)
    h.ops = ops
    return h, meta


def trace_script(h, meta):
    lines = [h.cfg, f"dir {h.name}", "trace on", "keys " + " ".join(hx(k) for k in meta["keys"]), "open"]
    tags = [("cfg",), ("dir",), ("trace",), ("keys",), ("open",)]
    for i, op in enumerate(h.ops):
        if op[0] == "put":
            lines.append(f"put {hx(op[1])} {op[3]}")
        elif op[0] in ("del", "get"):
            lines.append(f"{op[0]} {hx(op[1])}")
        elif op[0] == "restore":
            lines.append(f"restore {op[1]} {op[2]}")
            tags.append(("op", i))
            lines.append("open")
            tags.append(("reopen-after-restore", i))
            continue
        else:
            lines.append(op[0])
        tags.append(("op", i))
    return lines, tags


# ---------------------------------------------------------------------------------------------

def run_c14(rep, tier, seed):
    rng = random.Random(seed * 1000 + 14)
    n = 150 if tier == "quick" else 1500
    wl = []
    for i in range(n):
        h, meta = gen_workload(rng, i, tier, sync=rng.choice(["none", "always"]))
        # a share of workloads continue after a crash image: restore at a random cut chosen later (second pass)
        wl.append((h, meta))
    # directed: passes over files that hold nothing live (every key deleted, or nothing but tombstones of absent keys), with every
    # file selected, the active one included: the inputs are removed and the only ids left are those the pass itself created
    for di, (mfs, pre) in enumerate([(0, []), (300, []), (1 << 31, []), (0, ["reopen"]), (300, ["reopen"]), (60, ["merge"])]):
        k1, k2 = b"k", b"key2"
        ops = [("put", k1, b"v" * 3, "76*3"), ("put", k2, b"w" * 3, "77*3")] + [(x,) for x in pre] + [("del", k1), ("del", k2), ("merge",), ("put", k1, b"x" * 3, "78*3"), ("merge",)]
        wl.append((Hist(f"dead{di}", f"cfg mfs={mfs} sync=none frag=0/1 dead=0 small=1099511627776 cache=0 pool=0", ops), dict(mfs=mfs, preset="all", keys=[k1, k2], cache=0, pool=0)))
        ops = [("del", k1), ("merge",), ("del", k2), ("reopen",), ("merge",)]
        wl.append((Hist(f"tomb{di}", f"cfg mfs={mfs} sync=none frag=0/1 dead=0 small=1099511627776 cache=0 pool=0", ops), dict(mfs=mfs, preset="all", keys=[k1, k2], cache=0, pool=0)))
    root = os.path.join(RUNS, "run-C14")
    all_lines, spans = [], []
    for h, meta in wl:
        lines, tags = trace_script(h, meta)
        lines.append("files")
        tags.append(("files",))
        spans.append((len(all_lines), len(lines), h, meta, tags))
        all_lines += lines
    impl, model, died = run_both_traced(all_lines, root)
    rep.cov["evaluations"] += len(all_lines)
    nv = 0          # reports of the first pass
    nv_o = nv_c = 0  # reports of the continuations: oracle / correspondence
    crash_lines, crash_meta = [], []
    for (start, ln, h, meta, tags) in spans:
        lines = all_lines[start:start + ln]
        i2, m2 = impl[start:start + ln], model[start:start + ln]
        if len(i2) < ln:
            if nv == 0:
                rep.violation("oracle", dict(what=f"harness died ({died.why if died else '?'})", script=lines, impl_answers=i2))
            nv += 1
            break
        rep.count("workloads")
        mon = TraceMonitor(meta["mfs"])
        ncalls = 0
        problem = None
        present, low_cuts = set(), []
        for li, (l, a) in enumerate(zip(lines, i2)):
            if l in ("open", "reopen"):
                mon.new_life()
            for c in calls_of(a):
                ncalls += 1
                rep.count("call:" + c.split(":")[0])
                w = mon.feed(c)
                if w and not problem:
                    problem = ("oracle", w, li, "append-only / fresh ids / bounded size", c)
                p_ = c.split(":")
                if p_[0] == "c":
                    present.add(p_[1])
                elif p_[0] == "u":
                    present.discard(p_[1])
                # an instant at which the highest id the directory has ever contained is no longer in it: whoever opens
                # the directory left by a crash right here has nothing to tell it which ids are used up
                if mon.ever and (not present or max(fid(n) for n in present) < max(mon.ever)):
                    low_cuts.append(ncalls)
            if a.startswith("panic") or a.startswith("err"):
                problem = problem or ("oracle", f"`{l[:50]}` failed", li, "ok", a)
        if not problem:
            for li, (a, b) in enumerate(zip(i2, m2)):
                if lines[li] != "hazard" and no_sync(a) != no_sync(b):
                    problem = ("correspondence", "the file-system call trace / files of the real code differ from the model's", li, b, a)
                    break
        rep.cov["traces_validated_against_impl"] += 1
        rep.nontrivial(["c14", h.cfg, lines[4:]])
        if problem:
            nv += 1
            if nv <= 3:
                def fails(ops):
                    h2 = Hist(h.name, h.cfg, ops)
                    l2, t2 = trace_script(h2, meta)
                    l2.append("files")
                    a2, b2, d2 = run_both_traced(l2, root + "-shrink")
                    if d2 is not None:
                        return True
                    mon2 = TraceMonitor(meta["mfs"])
                    for l, a in zip(l2, a2):
                        if l in ("open", "reopen"):
                            mon2.new_life()
                        for c in calls_of(a):
                            if mon2.feed(c):
                                return problem[0] == "oracle"
                    return problem[0] == "correspondence" and [no_sync(x) for x in a2] != [no_sync(x) for x in b2]
                small = minimise(h, meta, fails)
                h3 = Hist(h.name, h.cfg, small)
                l3, t3 = trace_script(h3, meta)
                l3.append("files")
                a3, b3, d3 = run_both_traced(l3, root + "-shrink")
                rep.violation(problem[0], dict(what=problem[1], script=l3, impl_answers=a3, model_answers=b3, expected=str(problem[3])[:800], observed=str(problem[4])[:800]))
            if problem[0] == "oracle":
                continue
            # the model no longer describes this workload: its crash images are still opened by the real code below (the search
            # for an input on which the property itself fails); only the comparison with the model is left out for them
        # crashed directories: the id chosen after recovery is above every id ever used before the cut
        if ncalls > 0:
            for _ in range(3 if tier == "quick" else 8):
                i = rng.randint(0, ncalls)
                crash_lines.append((start, ln, i, problem is None))
            for i in low_cuts[:2] + low_cuts[-1:]:
                rep.count("cuts_with_the_highest_id_absent")
                crash_lines.append((start, ln, i, problem is None))
    # second pass: for sampled cuts, continue the workload after the crash and keep monitoring (ids stay fresh across lives)
    lines2, spans2 = [], []
    for (start, ln, cut, tied) in crash_lines:
        base = all_lines[start:start + ln - 1]
        h = next(s[2] for s in spans if s[0] == start)
        meta = next(s[3] for s in spans if s[0] == start)
        k = rng.choice(meta["keys"])
        # half of the crash images end in a torn append (1, 9 or 17 bytes of the entry being appended at the cut; every entry
        # is at least 18 bytes long; for a call that is not an append the byte count is ignored): recovery must not repair,
        # truncate or reopen for writing what an earlier life wrote
        torn = rng.choice([0, 0, 0, 1, 9, 17])
        tail = [f"restore {cut} {torn}", "open", f"put {hx(k)} 77", "merge", "reopen", f"put {hx(k)} 78", "files"]
        spans2.append((len(lines2), len(base) + len(tail), meta, cut, len(base), tied))
        lines2 += base + tail
    if lines2:
        impl2, model2, died2 = run_both_traced(lines2, root)
        rep.cov["evaluations"] += len(lines2)
        for (start, ln, meta, cut, nbase, tied) in spans2:
            ls, a2, b2 = lines2[start:start + ln], impl2[start:start + ln], model2[start:start + ln]
            if len(a2) < ln:
                rep.violation("oracle", dict(what="harness died while continuing after a crash image", script=ls, impl_answers=a2))
                break
            rep.count("crash_continuations")
            mon = TraceMonitor(meta["mfs"])
            calls = []
            for li, (l, a) in enumerate(zip(ls[:nbase], a2[:nbase])):
                calls += calls_of(a)
            for c in calls[:cut]:
                mon.feed(c)      # ids ever used before the crash (complaints were handled in pass 1)
            mon.new_life()
            bad = None
            for li in range(nbase, ln):
                if ls[li] in ("open", "reopen"):
                    mon.new_life()
                for c in calls_of(a2[li]):
                    w = mon.feed(c)
                    if w and not bad:
                        bad = (w, li, c)
                if a2[li].startswith("panic") or a2[li].startswith("err") or a2[li].startswith("restore-error"):
                    bad = bad or (f"`{ls[li]}` failed after recovery from a crash image", li, a2[li])
            if bad:
                nv_o += 1
                if nv_o <= 3:
                    rep.violation("oracle", dict(what=bad[0] + " (after recovering the directory left by a crash)", script=ls, failing_line=bad[1], observed=bad[2], impl_answers=a2))
            elif tied and [nohint(no_sync(x), l) for x, l in zip(a2, ls)] != [nohint(no_sync(x), l) for x, l in zip(b2, ls)]:
                nv_c += 1
                if nv_c <= 2:
                    d = next(i for i in range(ln) if nohint(no_sync(a2[i]), ls[i]) != nohint(no_sync(b2[i]), ls[i]))
                    rep.violation("correspondence", dict(what="after a crash image the real code and the model diverge", script=ls, failing_line=d, expected=b2[d][:800], observed=a2[d][:800]))
            rep.nontrivial(["c14c", ls])
    rep.cov["rule"] = ("seeded workloads of put/del/merge/reopen (sync none/always, all max_file_size and merge presets) under the LD_PRELOAD recorder: every call on a store file is checked "
                       "(exclusive-create+append-only open flags; no rename/truncate/pwrite/writable mmap; append only to files this process created and has not removed; every created id above "
                       "every id ever present; data file <= max_file_size before each entry append) and the logical trace is compared with the Lean model's; sampled crash cuts are restored into the "
                       "directory and the workload continues (put, merge, reopen) with the same monitor, as is every cut at which the highest id ever used is absent from the directory (none on a tree that creates its outputs before it removes its inputs); "
                       "directed workloads merge files that hold nothing live with every file selected; non-trivial = distinct workload")
    for (start, ln, h, meta, tags) in spans[:2]:
        rep.sample({"script": all_lines[start:start + ln][:12], "impl": [x[:200] for x in impl[start:start + ln][:12]]})


# ---------------------------------------------------------------------------------------------

def op_call_ranges(lines, answers):
    """[(line_index, first_call, n_calls)] for a traced script"""
    out, n = [], 0
    for li, a in enumerate(answers):
        k = len(calls_of(a))
        out.append((li, n, k))
        n += k
    return out, n


def spec_states(h, lines, tags, ranges, cut_i, cut_b):
    """maps allowed after a crash at cut (i, b): acked only, or acked + the operation in flight"""
    sm = SpecMap()
    inflight = None
    for (li, first, k) in ranges:
        tag = tags[li] if li < len(tags) else ("x",)
        if tag[0] != "op":
            continue
        op = h.ops[tag[1]]
        if op[0] not in ("put", "del"):
            continue
        if first + k <= cut_i:
            sm.apply(op)            # all its calls completed before the cut
        elif first <= cut_i:
            inflight = op           # the cut falls among its calls
            break
        else:
            break
    a = dict(sm.m)
    if inflight is not None:
        sm.apply(inflight)
        return [a, dict(sm.m)]
    return [a]


def enumerate_cuts(rng, calls, budget):
    ncalls = len(calls)
    cuts = []
    for i in range(ncalls + 1):
        cuts.append((i, 0))
        if i < ncalls and calls[i].startswith("a:"):
            ln = int(calls[i].split(":")[2])
            for b in sorted(set([1, ln // 2, ln - 1, 8, 16, 17])):
                if 0 < b < ln:
                    cuts.append((i, b))
    if len(cuts) > budget:
        keep = set(rng.sample(range(len(cuts)), budget))
        for j, (i, b) in enumerate(cuts):
            if b == 0 and i < ncalls and calls[i][0] in "uc":
                keep.add(j)        # always keep the cuts around creates and unlinks (merge / rollover windows)
        cuts = [c for j, c in enumerate(cuts) if j in keep]
    return cuts


def check_cuts(rep, tier, rng, prop, h, meta, lines, tags, pair, loss=False, budget=60, compare_model=True):
    """enumerate cuts of the workload the live pair has JUST executed (same process, same merge iteration
    order: call indices refer to that very execution); returns list of problems"""
    impl = pair.impl[-len(lines):]
    ranges, ncalls = op_call_ranges(lines, impl)
    calls = []
    for a in impl:
        calls += calls_of(a)
    cuts = enumerate_cuts(rng, calls, budget)
    q = []
    for (i, b) in cuts:
        if not loss:
            q.append(((i, b, None), f"cut {i} {b}"))
        else:
            size, synced, exists = {}, {}, set()
            for c in calls[:i]:
                p = c.split(":")
                if p[0] == "c":
                    size[p[1]] = 0
                    synced[p[1]] = 0
                    exists.add(p[1])
                elif p[0] == "a":
                    size[p[1]] = size.get(p[1], 0) + int(p[2])
                elif p[0] == "s":
                    synced[p[1]] = size.get(p[1], 0)
                elif p[0] == "u":
                    exists.discard(p[1])
            if b > 0:
                n = calls[i].split(":")[1]
                size[n] = size.get(n, 0) + b
            vecs = [{f: synced.get(f, 0) for f in exists}]
            for _ in range(2):
                vecs.append({f: rng.choice([synced.get(f, 0), size.get(f, 0), rng.randint(synced.get(f, 0), size.get(f, 0))]) for f in exists})
            for v in vecs:
                tr = ",".join(f"{f}={n}" for f, n in sorted(v.items()) if n < size.get(f, 0)) or "-"
                q.append(((i, b, tr), f"loss {i} {b} {tr}"))
    # the D3 classification is asked for the image itself: a tombstone that the power loss cut off masks nothing
    qlines = [l for x in q for l in (x[1], f"d3cut {x[0][0]} {x[0][1]}" + (f" {x[0][2]}" if x[0][2] else ""))]
    i2, m2 = pair.ask_many(qlines)
    rep.cov["evaluations"] += len(q)
    problems = []
    script = lines + qlines
    if pair.died is not None:
        problems.append(("oracle", f"harness died ({pair.died.why}) while opening a crash image", script, len(lines) + len(i2), "opened", "process death", None))
        return problems
    base = len(lines)
    for j, ((i, b, tr), ql) in enumerate(q):
        a = i2[2 * j]
        m = m2[2 * j]
        d3 = m2[2 * j + 1].split(" ")
        d3keys = set(d3[2].split(",")) if len(d3) > 2 and int(d3[1]) > 0 else set()
        rep.count("cuts")
        if b > 0:
            rep.count("cuts_inside_an_append")
        got = parse_opened(a)
        if got is None:
            problems.append(("oracle", "the directory left by the crash cannot be opened", script, base + 2 * j, "opened ...", a, None))
            continue
        allowed = spec_states(h, lines, tags, ranges, i, b)
        ok = False
        diffs = []
        for st in allowed:
            d = [k for k in meta["keys"] if got.get(hx(k)) != show_val(st.get(k))]
            if not d:
                ok = True
                break
            diffs.append(d)
        if not ok:
            d = min(diffs, key=len)
            st = allowed[diffs.index(d)]
            if all(st.get(k) is None and hx(k) in d3keys for k in d):
                problems.append(("oracle", "known: deleted key resurrected by merge + restart/crash", script, base + 2 * j,
                                 ",".join(f"{hx(k)}=nil" for k in d), ",".join(f"{hx(k)}={got.get(hx(k))}" for k in d), D3_SIG))
            else:
                problems.append(("oracle", "after the crash the store does not hold the acknowledged operations (with the one in flight applied or not)", script, base + 2 * j,
                                 " | ".join(",".join(f"{hx(k)}={show_val(s.get(k))}" for k in meta["keys"]) for s in allowed), a, None))
                continue
        if a != m and compare_model:
            problems.append(("correspondence", "the real code and the model recover different contents from the same crash image", script, base + 2 * j, m, a, None))
    return problems


def life_after_crash(rep, tier, rng, prop, h, meta, lines, tags, root, compare_model=True):
    """a fresh execution of the workload, then: recover a crash image IN PLACE, keep writing, restart, merge,
    restart (a torn tail or a half-finished merge must stay isolated from what later lives write)"""
    pair = Pair(root)
    problems = []
    try:
        a0, b0 = pair.ask_many(lines)
        if pair.died is not None:
            return [("oracle", f"harness died ({pair.died.why})", lines, len(a0), "ok", "process death", None)]
        calls = []
        for a in a0:
            calls += calls_of(a)
        ncalls = len(calls)
        cuts = enumerate_cuts(rng, calls, 10**6)
        pri = [c for c in cuts if c[1] > 0] + [c for c in cuts if c[1] == 0 and c[0] < ncalls and calls[c[0]][0] in "uc"]
        # between two creations of one merge output pair (data / hint), and right before the first unlink
        pairs = [c for c in cuts if c[1] == 0 and 0 < c[0] < ncalls and calls[c[0]][0] == "c" and calls[c[0] - 1][0] == "c" and calls[c[0]][3:] == calls[c[0] - 1][3:]]
        # ... and right after the pair is complete, with both files of the output still empty
        pairs += [c for c in cuts if c[1] == 0 and 1 < c[0] <= ncalls and calls[c[0] - 1].startswith("c:h")]
        if not pri:
            return []
        (i, b) = rng.choice(pairs) if pairs and rng.random() < 0.5 else rng.choice(pri)
        ks = meta["keys"]
        cont = []
        for n, k in enumerate(ks[:3]):
            cont.append(f"put {hx(k)} c{n}" if n != 1 else f"del {hx(k)}")
        gets = ["get " + hx(k) for k in ks]
        tail = [f"restore {i} {b}", "open"] + gets + cont + gets + ["reopen"] + gets + ["merge", "hazard", "reopen"] + gets
        a2, m2b = pair.ask_many(tail)
        script2 = lines + tail
        rep.cov["evaluations"] += len(tail)
        rep.count("lives_after_crash")
        if pair.died is not None:
            return [("oracle", f"harness died ({pair.died.why}) in a life after the crash", script2, len(lines) + len(a2), "ok", "process death", None)]
        o = 2
        basevals = {hx(k): a2[o + n] for n, k in enumerate(ks)}
        exp = dict(basevals)
        for n, k in enumerate(ks[:3]):
            exp[hx(k)] = f"c{n}" if n != 1 else "nil"
        hz = m2b[tail.index("hazard")].split(" ")
        hazard = set(hz[2].split(",")) if len(hz) > 2 and int(hz[1]) > 0 else set()
        bad = None
        for li in range(len(tail)):
            if strip_trace(a2[li]).startswith(("panic", "err", "restore-error", "open-panic")):
                bad = (li, "ok", a2[li], None)
                break
        if not bad:
            for blk, start in (("after the writes", o + len(ks) + len(cont)), ("after the next restart", o + 2 * len(ks) + len(cont) + 1), ("after a merge and another restart", o + 3 * len(ks) + len(cont) + 4)):
                for n, k in enumerate(ks):
                    if a2[start + n] != exp[hx(k)]:
                        sig = D3_SIG if (exp[hx(k)] == "nil" and "merge" in blk and hx(k) in hazard) else None
                        bad = (start + n, f"{hx(k)}={exp[hx(k)]} {blk}", f"{hx(k)}={a2[start + n]}", sig)
                        break
                if bad:
                    break
        if bad:
            problems.append(("oracle", "a later life does not keep what was written after recovering from the crash (the crash left-over was not isolated)"
                             if bad[3] is None else "known: deleted key resurrected by merge + restart/crash", script2, len(lines) + bad[0], bad[1], bad[2], bad[3]))
        elif compare_model:
            for t in range(len(tail)):
                if tail[t] != "hazard" and no_sync(a2[t]) != no_sync(m2b[t]):
                    problems.append(("correspondence", "real code and model diverge in a life after the crash", script2, len(lines) + t, m2b[t], a2[t], None))
                    break
    finally:
        pair.close()
    return problems


def run_cut_property(rep, tier, seed, prop, loss):
    rng = random.Random(seed * 1000 + int(prop[1:]))
    n = (40 if tier == "quick" else 400)
    root = os.path.join(RUNS, "run-" + prop)
    nv = 0
    nvk = {}
    known = set()
    corpus = []
    if prop == "C03":
        corpus = [(Hist("c0", "cfg mfs=100 sync=none frag=1/1 dead=1099511627776 small=60 cache=256 pool=1",
                        [("put", b"k", b"x" * 100, "78*100"), ("del", b"k"), ("merge",), ("put", b"z", b"1", "31")]),
                   dict(mfs=100, preset="corpus", keys=[b"k", b"z"], cache=256, pool=1)),
                  (Hist("c1", "cfg mfs=60 sync=none frag=0/1 dead=0 small=1099511627776 cache=256 pool=1",
                        [P(b"k", b"v1"), P(b"z", b"w" * 50), ("del", b"k"), P(b"k", b"v2"), ("merge",), ("del", b"z"), ("merge",)]),
                   dict(mfs=60, preset="corpus", keys=[b"k", b"z"], cache=256, pool=1))]
    if prop == "C09":
        corpus = [(Hist("c0", "cfg mfs=60 sync=always frag=0/1 dead=0 small=1099511627776 cache=256 pool=1",
                        [P(b"k", b"v1"), P(b"z", b"w" * 50), P(b"k", b"v2"), ("merge",), P(b"q", b"1")]),
                   dict(mfs=60, preset="corpus", keys=[b"k", b"z", b"q"], cache=256, pool=1))]
    # a merge whose removal phase matters: six keys, each set in one file and deleted in a later one, all merged in
    # one pass (between two removals the tombstone's file must never go before the value's file)
    ks6 = [bytes([0x61 + i]) for i in range(6)]
    corpus.append((Hist("c-del", f"cfg mfs=0 sync={'always' if loss else 'none'} frag=0/1 dead=0 small=1099511627776 cache=256 pool=1",
                        [P(k, b"v" + k) for k in ks6] + [("del", k) for k in ks6] + [("merge",), P(b"z", b"1")]),
                   dict(mfs=0, preset="corpus", keys=ks6 + [b"z"], cache=256, pool=1)))
    for idx in range(n + len(corpus)):
        if idx < len(corpus):
            h, meta = corpus[idx]
        else:
            h, meta = gen_workload(rng, idx, tier, sync="always" if loss else rng.choice(["none", "always"]))
        lines, tags = trace_script(h, meta)
        pair = Pair(root)
        try:
            impl, model = pair.ask_many(lines)
            died = pair.died
            rep.cov["evaluations"] += len(lines)
            rep.count("workloads")
            rep.count("merges", sum(1 for o in h.ops if o[0] == "merge"))
            cmp = (lambda x: x) if loss else no_sync
            broken = died is not None or [cmp(x) for x in impl] != [cmp(x) for x in model]
            if broken:
                nv += 1
                if nv <= 3:
                    d = next((i for i in range(min(len(impl), len(model))) if cmp(impl[i]) != cmp(model[i])), len(impl))
                    rep.violation("correspondence" if died is None else "oracle",
                                  dict(what="the file-system call trace of the workload differs from the model's (before any crash)" if died is None else f"harness died ({died.why})",
                                       script=lines, failing_line=d, expected=model[d][:800] if d < len(model) else None, observed=impl[d][:800] if d < len(impl) else None))
                if died is not None or nv > 3:
                    continue
            else:
                rep.cov["traces_validated_against_impl"] += 1
                rep.nontrivial([prop, h.cfg, lines[4:]])
            # when the trace correspondence is already broken, keep searching for a failing input with the direct oracle alone
            probs = check_cuts(rep, tier, rng, prop, h, meta, lines, tags, pair, loss=loss, budget=(40 if broken else (60 if tier == "quick" else 200)), compare_model=not broken)
        finally:
            pair.close()
        # lives after the crash: also for power loss (the image in which nothing unsynced happened to be lost is one of the
        # images a power failure can leave)
        # (when the model no longer describes what the real code recovers, the lives still run, with the direct oracle alone: the
        #  search for an input on which the property itself fails)
        if not any(p[0] == "oracle" and p[6] is None for p in probs):
            differs = broken or any(p[0] == "correspondence" for p in probs)
            for _ in range((2 if tier == "quick" else 6) if not differs else 12):
                probs += life_after_crash(rep, tier, rng, prop, h, meta, lines, tags, root, compare_model=not differs)
                if any(p[0] == "oracle" and p[6] is None for p in probs):
                    break
        if broken:
            probs = [p for p in probs if p[0] == "oracle" and p[6] is None][:1]
        # failing inputs first
        probs.sort(key=lambda p: 0 if p[0] == "oracle" else 1)
        for p in probs:
            if p[6] is not None:
                if p[6] not in known:
                    known.add(p[6])
                    rep.violation("oracle", dict(what=p[1], script=p[2][:len(lines)] + p[2][len(lines):][-24:], failing_request=p[2][p[3]] if p[3] < len(p[2]) else None, expected=p[4][:600], observed=p[5][:600]), signature=p[6])
            else:
                nvk[p[0]] = nvk.get(p[0], 0) + 1
                if nvk[p[0]] <= (3 if p[0] == "oracle" else 2):
                    rep.violation(p[0], dict(what=p[1], script=p[2][:len(lines)] + p[2][len(lines):][-24:], failing_request=p[2][p[3]] if p[3] < len(p[2]) else None, expected=p[4][:1200], observed=p[5][:1200]))
        if idx < 2:
            rep.sample({"workload": lines, "trace": [x[:160] for x in impl]})


def run_c03(rep, tier, seed):
    run_cut_property(rep, tier, seed, "C03", loss=False)
    rep.cov["rule"] = ("seeded workloads of put/del/merge/reopen run once under the LD_PRELOAD recorder; logical trace must equal the Lean model's; then crash cuts (every call boundary, and 1/8/16/17/half/len-1 "
                       "bytes into appends; sampled down to a budget but always keeping the cuts around creates and unlinks) are materialised as directories and opened by the real code: must open, and every "
                       "key must read as after the acknowledged ops with the in-flight op applied or not; the model opens the same image and must agree; non-trivial = distinct workload")


def run_c09(rep, tier, seed):
    run_cut_property(rep, tier, seed, "C09", loss=True)
    rep.cov["rule"] = ("sync=always workloads under the recorder; trace (incl. every fsync) must equal the model's; for sampled cuts, power-loss images (each file independently cut back to its last-fsynced "
                       "length, kept whole, or cut in between; creations and removals persistent) are opened by the real code: every acknowledged op must be readable; model must agree; non-trivial = distinct workload")


RUNNERS = {"C14": run_c14, "C03": run_c03, "C09": run_c09}
