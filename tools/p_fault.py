"""C20: a failed disk operation is reported and leaves the store consistent.
One transient fault per run, at every (quick: sampled) physical call position of each workload."""
import random
import shutil

from vlib import *
from p_store import KEYS, Hist, hx, show_val, strip_trace, P
from p_crash import calls_of
from p_store import D3_SIG

D12_SIG = "D12:failed-merge-returns-without-new-active-file"
ENOSPC, EIO = 28, 5


def gen_fault_workload(rng, idx, tier):
    mfs = rng.choice([60, 60, 300, 9000, 1 << 31])
    sync = rng.choice(["none", "always"])
    # mostly every file with counters is eligible for a merge; sometimes only fragmented files are (so that a merge can
    # select an input again while leaving an earlier output alone)
    sel = "frag=0/1 dead=0 small=1099511627776" if rng.random() < 0.7 else "frag=1/8 dead=1099511627776 small=0"
    cfg = f"cfg mfs={mfs} sync={sync} {sel} cache=256 pool=1"
    # keys longer than the 8 KiB write buffer make the HINT entry of a merge take two write(2) calls, like a large value does
    # for a data entry
    keys = rng.sample([b"k", b"z", b"", b"key2", b"K" * 9000], rng.randint(1, 3))
    ops = []
    n = rng.randint(2, 7 if tier == "quick" else 12)
    for _ in range(n):
        r = rng.random()
        k = rng.choice(keys)
        if r < 0.5:
            c = rng.random()
            if c < 0.55:
                pat, cnt = bytes([rng.getrandbits(8)]), rng.randint(1, 50)
            else:
                pat, cnt = bytes([rng.getrandbits(8)]), rng.choice([8191, 8192, 8193, 9000])
            ops.append(("put", k, pat * cnt, f"{pat.hex()}*{cnt}"))
        elif r < 0.7:
            ops.append(("del", k))
        elif r < 0.85:
            ops.append(("merge",))
        else:
            ops.append(("reopen",))
    return Hist(f"f{idx}", cfg, ops), dict(keys=keys, mfs=mfs, sync=sync)


def fault_script(h, meta, fault, name):
    """fault = None (baseline) or (n, errno)"""
    lines = [h.cfg, f"dir {name}", "trace on", "keys " + " ".join(hx(k) for k in meta["keys"]), "open", "seq"]
    tags = [("pre",)] * 6
    if fault is not None:
        lines.append(f"fault {fault[0]} {fault[1]}")
        tags.append(("fault",))
    for i, op in enumerate(h.ops):
        if op[0] == "put":
            lines.append(f"put {hx(op[1])} {op[3]}")
        elif op[0] == "del":
            lines.append(f"del {hx(op[1])}")
        else:
            lines.append(op[0])
        tags.append(("op", i))
        for k in meta["keys"]:
            lines.append("get " + hx(k))
            tags.append(("read", i, k))
    lines.append("seq")
    tags.append(("seq",))
    lines.append("reopen")
    tags.append(("final-reopen",))
    for k in meta["keys"]:
        lines.append("get " + hx(k))
        tags.append(("read", "final", k))
    return lines, tags


def evaluate(h, meta, lines, tags, ans):
    """oracle for one faulty run; yields (what, line, expected, observed, signature)"""
    allowed = {k: {None} for k in meta["keys"]}     # key -> set of allowed values (None = absent)
    attempted = {k: set() for k in meta["keys"]}     # values of FAILED sets of the key
    merge_after_del = {k: False for k in meta["keys"]}   # a merge ran after the key's last acknowledged delete
    restarted_since = {k: False for k in meta["keys"]}   # ... and the store was restarted after that merge
    fault_seen = None
    fault_in_merge = False
    for li, tag in enumerate(tags):
        if li >= len(ans):
            return
        a = strip_trace(ans[li])
        failed_calls = [c for c in calls_of(ans[li]) if c.startswith("!")]
        if tag[0] == "op":
            op = h.ops[tag[1]]
            if failed_calls and fault_seen is None:
                fault_seen = li
                # the known class (D12): a call fails inside the merge pass and the merge returns at once, i.e. WITHOUT creating a
                # new active file above the output files it has created (no successful create follows the failed call)
                cs_ = calls_of(ans[li])
                fi_ = next(i for i, c in enumerate(cs_) if c.startswith("!"))
                fault_in_merge = op[0] == "merge" and not any(c.startswith("c:d") for c in cs_[fi_ + 1:])
                if not a.startswith("err"):
                    # a swallowed failure is only acceptable if nothing depends on the failed call
                    yield (f"a file-system call failed ({failed_calls[0]}) during `{lines[li][:40]}` but the operation reported success", li, "err io", a,
                           D12_SIG if fault_in_merge else None)
            elif a.startswith("err") and failed_calls and fault_seen is not None and fault_seen != li:
                # exactly one call is made to fail per run; a call that fails later was not injected: it fails because of
                # the state the earlier fault left behind (e.g. EEXIST when a file id is handed out twice)
                yield (f"`{lines[li][:40]}` failed on its own ({failed_calls[0]}) after the earlier injected fault: the store did not stay usable", li, "ok", a,
                       D12_SIG if fault_in_merge else None)
                return
            elif a.startswith("err") and not failed_calls:
                yield (f"`{lines[li][:40]}` failed although no file-system call of it failed (the store did not stay usable after the earlier fault)", li, "ok", a,
                       D12_SIG if fault_in_merge else None)
                return
            if a.startswith("panic") or a == "hang":
                yield (f"`{lines[li][:40]}` panicked after a fault", li, "ok", a, D12_SIG if fault_in_merge else None)
                return
            if op[0] == "merge":
                for k in meta["keys"]:
                    if allowed[k] == {None}:
                        merge_after_del[k] = True
            if op[0] == "reopen":
                for k in meta["keys"]:
                    if merge_after_del[k]:
                        restarted_since[k] = True
            if op[0] == "put":
                merge_after_del[op[1]] = False
                restarted_since[op[1]] = False
                if a.startswith("err"):
                    attempted[op[1]].add(show_val(op[2]))      # only FAILED sets: their entry may sit in a file without counters
                    allowed[op[1]] = set(allowed[op[1]]) | {op[2]}
                else:
                    allowed[op[1]] = {op[2]}
            elif op[0] == "del":
                if a.startswith("err"):
                    allowed[op[1]] = set(allowed[op[1]]) | {None}
                else:
                    exp = {"true" if v is not None else "false" for v in allowed[op[1]]}
                    if a not in exp:
                        yield ("delete reported the wrong presence flag after a fault", li, "/".join(sorted(exp)), a, D12_SIG if fault_in_merge else None)
                    allowed[op[1]] = {None}
            elif op[0] == "reopen" and a.startswith("err") and "retry-ok" not in a:
                yield ("the directory could not be opened again after a fault", li, "ok", a, D12_SIG if fault_in_merge else None)
                return
        elif tag[0] == "final-reopen":
            # the injected fault may hit the restart's own file creation: that open then fails (as it must) and the
            # harness opens once more (`retry-ok`): the directory can still be opened
            if not (a.startswith("ok") or (failed_calls and a.startswith("err") and "retry-ok" in a)):
                yield ("the directory could not be opened after the faulty run", li, "ok", a, D12_SIG if fault_in_merge else None)
                return
        elif tag[0] == "read":
            k = tag[2]
            exp = {show_val(v) for v in allowed[k]}
            if a not in exp and exp == {"nil"} and a in attempted[k] and merge_after_del[k] and (tag[1] == "final" or restarted_since[k]):
                # D3 (known finding) in its fault flavour: the failed set's entry reached the old file when the writer was
                # dropped; a later acknowledged delete wrote a tombstone; a merge dropped that tombstone while the file
                # holding the entry (it has no counters, so it is never selected) survives: the key is back after restart
                yield ("known: deleted key resurrected by merge + restart (the surviving older value is the entry of the failed set)", li, "nil", a, D3_SIG)
                return
            if a not in exp:
                when = "after the restart" if tag[1] == "final" else "in the running process"
                yield (f"a key does not read one of its allowed values {when} (acknowledged data lost or another key affected by the fault)", li,
                       "/".join(sorted(exp)), a, D12_SIG if fault_in_merge else None)
                return


def run_c20(rep, tier, seed):
    rng = random.Random(seed * 1000 + 20)
    nw = 30 if tier == "quick" else 300
    per = 14 if tier == "quick" else 10**6
    root = os.path.join(RUNS, "run-C20")
    corpus = [
        # D10: create fails on rollover; D11: second write of a > 8 KiB entry fails; D12: fault in merge
        (Hist("c0", "cfg mfs=40 sync=none frag=0/1 dead=0 small=1099511627776 cache=256 pool=1", [P(b"a", b"1" * 30), P(b"b", b"2" * 30), P(b"c", b"3")]), dict(keys=[b"a", b"b", b"c"], mfs=40, sync="none")),
        (Hist("c1", "cfg mfs=2147483648 sync=none frag=0/1 dead=0 small=1099511627776 cache=256 pool=1",
              [P(b"a", b"1"), ("put", b"b", b"x" * 9000, "78*9000"), P(b"c", b"3"), P(b"a", b"4")]), dict(keys=[b"a", b"b", b"c"], mfs=1 << 31, sync="none")),
        (Hist("c2", "cfg mfs=60 sync=always frag=0/1 dead=0 small=1099511627776 cache=256 pool=1",
              [P(b"a", b"1" * 30), P(b"b", b"2" * 30), P(b"a", b"3" * 30), ("merge",), P(b"c", b"5" * 40), P(b"a", b"6" * 40)]), dict(keys=[b"a", b"b", b"c"], mfs=60, sync="always")),
    ]
    corpus.append((Hist("c3", "cfg mfs=60 sync=none frag=0/1 dead=0 small=1099511627776 cache=256 pool=1",
                         [P(b"a", b"1" * 40), P(b"k", b"2" * 40), P(b"b", b"3" * 40), ("del", b"k"), P(b"c", b"4" * 40), ("merge",), P(b"d", b"5")]),
                   dict(keys=[b"a", b"k", b"b", b"c", b"d"], mfs=60, sync="none")))
    # D13: the hint entry of a key longer than the write buffer takes two writes; the second one fails; a later pass that
    # selects the input again (only fragmented files are eligible) removes it
    BIGK = b"K" * 9000
    corpus.append((Hist("c4", "cfg mfs=20000 sync=none frag=1/8 dead=1099511627776 small=0 cache=256 pool=1",
                         [P(BIGK, b"a" * 10), ("put", b"k2", b"b" * 9000, "62*9000"), P(b"k3", b"c" * 10), P(b"k2", b"d" * 10), ("merge",), ("merge",)]),
                   dict(keys=[BIGK, b"k2", b"k3"], mfs=20000, sync="none")))
    # the removal phase of a pass over many files: five keys, each set in one file and deleted in a later one (one entry per file);
    # whichever removal fails, a file holding a tombstone must not have gone while the file holding the value it kills is still there
    ks5 = [bytes([0x61 + i]) for i in range(5)]
    corpus.append((Hist("c5", "cfg mfs=0 sync=none frag=0/1 dead=0 small=1099511627776 cache=256 pool=1",
                         [P(k, b"v" + k) for k in ks5] + [("del", k) for k in ks5] + [("merge",), P(b"z", b"1")]),
                   dict(keys=ks5 + [b"z"], mfs=0, sync="none")))
    ncorpus = len(corpus)
    wl = corpus + [gen_fault_workload(rng, i, tier) for i in range(nw)]
    # baselines: count physical calls
    base_lines, spans = [], []
    for (h, meta) in wl:
        lines, tags = fault_script(h, meta, None, h.name)
        spans.append((len(base_lines), len(lines)))
        base_lines += lines
    shutil.rmtree(root, ignore_errors=True)
    try:
        base = run_harness(["store", "--root", root], base_lines, preload=True)
    except Died as d:
        rep.violation("oracle", dict(what=f"harness died in a fault-free run ({d.why})", script=base_lines[:len(d.answered) + 1][-20:]))
        return
    rep.cov["evaluations"] += len(base_lines)
    runs, run_lines_all = [], []
    for (h, meta), (st, ln) in zip(wl, spans):
        ans = base[st:st + ln]
        lines, tags = fault_script(h, meta, None, h.name)
        seqs = [int(a) for l, a in zip(lines, ans) if l == "seq"]
        ncalls = seqs[1] - seqs[0]
        # the baseline itself must be clean
        for p in evaluate(h, meta, lines, tags, ans):
            rep.violation("oracle", dict(what="fault-free baseline: " + p[0], script=lines, failing_line=p[1], expected=p[2], observed=p[3]))
            return
        rep.count("workloads")
        rep.count("physical_calls", ncalls)
        positions = list(range(ncalls))
        if len(positions) > per and wl.index((h, meta)) >= ncorpus:
            positions = sorted(rng.sample(positions, per))
        for n in positions:
            errno = rng.choice([ENOSPC, EIO])
            l2, t2 = fault_script(h, meta, (n, errno), f"{h.name}n{n}")
            runs.append((h, meta, n, errno, len(run_lines_all), len(l2), t2))
            run_lines_all += l2
    shutil.rmtree(root, ignore_errors=True)
    died = None
    try:
        ans = run_harness(["store", "--root", root, "--hang-ms", "15000"], run_lines_all, preload=True, timeout=3000)
    except Died as d:
        ans, died = d.answered, d
    shutil.rmtree(root, ignore_errors=True)
    rep.cov["evaluations"] += len(run_lines_all)
    nv, known = 0, set()
    for (h, meta, n, errno, st, ln, tags) in runs:
        a2 = ans[st:st + ln]
        lines = run_lines_all[st:st + ln]
        if len(a2) < ln:
            what = f"harness died / hung ({died.why if died else '?'}) in a faulty run"
            in_merge = False
            for l, x in zip(lines, a2):
                cs_ = calls_of(x)
                if l == "merge" and any(c.startswith("!") for c in cs_):
                    fi_ = next(i for i, c in enumerate(cs_) if c.startswith("!"))
                    in_merge = not any(c.startswith("c:d") for c in cs_[fi_ + 1:])
            if a2 and a2[-1] == "hang":
                what = f"`{lines[len(a2) - 1][:40]}` never returned after a fault (hang)"
            probs = [(what, len(a2) - 1, "ok", a2[-1] if a2 else "?", D12_SIG if in_merge else None)]
        else:
            probs = list(evaluate(h, meta, lines, tags, a2))
        rep.count("fault_runs")
        kinds = [c for x in a2 for c in calls_of(x) if c.startswith("!")]
        if kinds:
            rep.count("fault:" + kinds[0].split(":")[0][1:])
            rep.nontrivial(["c20", h.cfg, lines[6:], n])
        else:
            rep.count("fault_not_reached")
        rep.cov["traces_validated_against_impl"] += 1
        # correspondence with the fault-aware Lean models (Store/FaultModel.lean: put / delete path; Store/MergeFault.lean: merge pass)
        if not probs and len(a2) == ln:
            fl = next((i for i, x in enumerate(a2) if any(c.startswith("!") for c in calls_of(x))), None)
            kind = None
            if fl is not None and tags[fl][0] == "op" and h.ops[tags[fl][1]][0] in ("put", "del"):
                op = h.ops[tags[fl][1]]
                cs = calls_of(a2[fl])
                bad = next(c for c in cs if c.startswith("!"))
                if bad.startswith("!write"):
                    # what reached the old file (before the failure, or when the abandoned writer was dropped): the whole
                    # entry (it fitted the 8 KiB buffer) or only some leading bytes of it
                    reached = sum(int(c.split(":")[2]) for c in cs if c.startswith(("a:", "a?:")))
                    entry_len = 17 + len(op[1]) + (8 + len(op[2]) if op[0] == "put" else 0)
                    kind = "small" if reached == entry_len else f"large:{reached}"
                elif bad.startswith("!fsync"):
                    kind = "fsync"
                elif bad.startswith("!open"):
                    kind = "create"
            elif fl is not None and tags[fl][0] == "op" and h.ops[tags[fl][1]][0] == "merge":
                # a call of a merge pass fails (Store/MergeFault.lean, `mergeF true`): its index among the calls the pass issues
                cs = calls_of(a2[fl])
                kind = f"merge {next(i for i, c in enumerate(cs) if c.startswith('!'))} 0"
            if fl is None or kind is not None:
                ml, mp = [], []
                for i, l in enumerate(lines):
                    if l.startswith(("fault ", "trace ", "seq")):
                        ml.append("#")
                        mp.append(None)
                        continue
                    if i == fl:
                        ml.append("mfault " + kind)
                        mp.append(None)
                    if l == "merge":
                        mm = re.search(r"order=(\S+)", a2[i])
                        ml.append("merge order=" + (mm.group(1) if mm else "-"))
                    else:
                        ml.append(l)
                    mp.append(i)
                mans = run_driver(ml)
                rep.count("model_compared_runs")
                for j, i in enumerate(mp):
                    if i is None:
                        continue
                    ia = strip_trace(a2[i])
                    if "retry-" in ia:
                        ia = "ok"
                    ma = mans[j]
                    if lines[i] == "merge" and fl is not None:
                        # in a run with a fault only success / failure of a merge pass is compared (the harness derives `sel=` and
                        # `order=` from the active id before the pass, which a pending move makes stale; the error kind, io or
                        # serialization, depends on which layer met the failing call); what the keys read is compared line by line
                        ia, ma = ia.split(" ")[0], ma.split(" ")[0]
                    if ia != ma:
                        probs.append(("the fault-aware model and the real store disagree after the fault", i, ma, ia, None, "correspondence"))
                        break
        for p in probs:
            if p[4] is not None:
                if p[4] not in known:
                    known.add(p[4])
                    rep.violation("oracle", dict(what=p[0], script=lines, failing_line=p[1], expected=p[2], observed=p[3], answers=a2), signature=p[4])
            else:
                nv += 1
                if nv <= 4:
                    rep.violation(p[5] if len(p) > 5 else "oracle", dict(what=p[0], script=lines, failing_line=p[1], failing_request=lines[p[1]] if p[1] < len(lines) else None,
                                                 expected=p[2], observed=p[3], answers=a2))
        if len(a2) < ln:
            break
    for (h, meta, n, errno, st, ln, tags) in runs[:2]:
        rep.sample({"script": run_lines_all[st:st + ln][:16], "answers": [x[:120] for x in ans[st:st + ln][:16]]})
    server_stage(rep, tier, rng, root + "-net")
    rep.cov["rule"] = ("workloads of put (entries below and above the 8 KiB write buffer) / del / merge / reopen at max_file_size {60,300,9000,2^31}, sync none/always; after a fault-free baseline "
                       "that counts the physical open/write/fsync/unlink calls, one run per fault position (quick: up to 14 sampled positions per workload) with ENOSPC or EIO injected by the LD_PRELOAD "
                       "layer; every key is read after every op, and again after a final reopen; oracle: the op that issued the failing call returns an error, no other op fails, every key reads "
                       "one of its allowed values (failed put/del: old or new), the directory reopens; the same through the server: SET / GET / DEL (one or several keys) sent by a client with the n-th file-system "
                       "call after it failing: a reply that acknowledges is true of the store, a refused command leaves old or new, other keys, later commands and a restarted server are unaffected; "
                       "non-trivial = distinct (workload, fault position) whose fault was reached")


def server_stage(rep, tier, rng, root):
    """The same obligation seen by a client of the server: a command on whose behalf a file-system call failed is not
    acknowledged as if it had worked. A reply that acknowledges (+OK, :n, a bulk value) has to be true of the store: after
    `+OK` the key reads the value, after `:n` every key the DEL named is absent (and n of them were present), a GET answers
    the value the key has; a command that fails answers with an error or the connection ends, and then each key it named
    holds its old value or the one the command would have given it. Other keys and later commands are unaffected, also
    after the server has been restarted on the same directory."""
    from p_net import req_bytes
    import shutil

    def tok(v):
        return "N" if v is None else "B:" + show_val(v)
    big = b"Z" * 9000
    ops = [("DEL", [b"a", b"b", b"c"]), ("DEL", [b"b"]), ("DEL", [b"zz", b"b", b"a"]), ("SET", b"b", b"9"), ("SET", b"e", big), ("SET", b"a", b""), ("GET", b"b")]
    cases = []
    for op in ops:
        for n in range(0, 4):
            for errno in ((28, 5) if tier != "quick" else (rng.choice((28, 5)),)):
                for sync in (("none", "always") if tier != "quick" else (rng.choice(("none", "always")),)):
                    cases.append((op, n, errno, sync))
    lines, spans = [], []
    for ci, (op, n, errno, sync) in enumerate(cases):
        st = len(lines)
        lines += [f"srv.start max=8 mfs=1000000 sync={sync} cache=0 policy=never", "c.open a"]
        for k, v in ((b"a", b"1"), (b"b", b"2"), (b"c", b"3")):
            lines += [f"c.send a {req_bytes(('SET', k, v)).hex()}", "c.read a 1 5000"]
        i_f = len(lines) - st
        lines += ["io.seq", f"io.fault {n} {errno}", f"c.send a {req_bytes(op).hex()}", "c.read a 1 5000", "io.seq", "io.fault -1000000000 0", "c.open b"]
        i_g = len(lines) - st
        for k in (b"a", b"b", b"c", b"e", b"zz"):
            lines += [f"c.send b {req_bytes(('GET', k)).hex()}", "c.read b 1 5000"]
        lines += [f"c.send b {req_bytes(('SET', b'd', b'4')).hex()}", "c.read b 1 5000", "srv.stop", "srv.start keep max=8 mfs=1000000 sync=none cache=0 policy=never", "c.open r"]
        i_r = len(lines) - st
        for k in (b"a", b"b", b"c", b"e", b"zz", b"d"):
            lines += [f"c.send r {req_bytes(('GET', k)).hex()}", "c.read r 1 5000"]
        lines += ["srv.stop"]
        spans.append((st, len(lines) - st, i_f, i_g, i_r))
    shutil.rmtree(root, ignore_errors=True)
    try:
        ans = run_harness(["net", "--root", root, "--hang-ms", "30000"], lines, preload=True, timeout=900)
        died = None
    except Died as d:
        ans, died = d.answered, d
    rep.cov["evaluations"] += len(ans)
    # the Lean model of the handler over a store whose calls can fail (Resp/ServerFault.lean): every outcome it allows for
    # the command (no call fails; the i-th call fails with or without its entry left in the file)
    PROBE = (b"a", b"b", b"c", b"e", b"zz")
    mlines, mspans = [], []
    for (op, n, errno, sync) in cases:
        mspans.append(len(mlines) + 4)
        mlines += ["srv.start", "kv.set 61 31", "kv.set 62 32", "kv.set 63 33", f"srvf.outcomes {req_bytes(op).hex()} " + ",".join(k.hex() for k in PROBE)]
    mans = run_driver(mlines)
    nv = nc = 0
    for (op, n, errno, sync), (st, ln, i_f, i_g, i_r) in zip(cases, spans):
        if st + ln > len(ans):
            rep.violation("oracle", dict(what=f"server under an injected fault: harness died / hung ({died.why if died else '?'})", script=lines[st:st + ln], answers=ans[st:]))
            break
        a = ans[st:st + ln]
        sc = lines[st:st + ln]
        before = {b"a": b"1", b"b": b"2", b"c": b"3", b"e": None, b"zz": None}
        reply = a[i_f + 3]
        try:
            reached = int(a[i_f + 4]) > int(a[i_f]) + n
        except ValueError:
            rep.violation("correspondence", dict(what="server under an injected fault: the recorder is not loaded", script=sc, answers=a))
            break
        rep.count("server_fault_cases")
        rep.count("server_fault:" + op[0] + (":reached" if reached else ":not-reached") + (":acked" if reply[:2] in ("S:", "I:", "B:") or reply == "N" else ":refused"))
        rep.nontrivial(["c20net", op[0], str(op[1:])[:40], n, errno, sync])
        after = {k: a[i_g + 2 * j + 1] for j, k in enumerate((b"a", b"b", b"c", b"e", b"zz"))}
        restarted = {k: a[i_r + 2 * j + 1] for j, k in enumerate((b"a", b"b", b"c", b"e", b"zz", b"d"))}
        want = dict(before)
        named = []
        if op[0] == "SET":
            want[op[1]] = op[2]
            named = [op[1]]
            ack = "S:4f4b"
        elif op[0] == "DEL":
            for k in op[1]:
                want[k] = None
            named = list(op[1])
            ack = "I:%d" % len([k for k in set(op[1]) if before.get(k) is not None])
        else:
            ack = tok(before[op[1]])
        bad = None
        acked = reply[:2] in ("S:", "I:", "B:") or reply == "N"
        if acked and reply != ack:
            bad = (i_f + 3, ack + " (or an error / the connection closed)", reply, "the reply acknowledges something else than what the command does")
        elif not acked and not reached:
            bad = (i_f + 3, ack, reply, "no file-system call failed, yet the command was not answered")
        for k in (b"a", b"b", b"c", b"e", b"zz"):
            if bad:
                break
            allowed = {tok(want[k])} if acked else ({tok(before[k]), tok(want[k])} if k in named else {tok(before[k])})
            if after[k] not in allowed:
                bad = (i_g + 1, f"{k.decode()} reads " + " or ".join(sorted(allowed)), after[k],
                       ("the command was acknowledged with `%s`" % reply if acked else "the command failed") + f", and afterwards key {k.decode()} does not read as it should")
            elif restarted[k] not in allowed:
                # (a key named by a refused command may hold the old value in the running server and the new one after the
                #  restart, or the reverse: the command `may or may not have taken effect`, as at the store's own interface)
                bad = (i_r + 1, f"{k.decode()} reads " + " or ".join(sorted(allowed)), restarted[k], f"after a restart of the server key {k.decode()} does not read as it should")
        if not bad and a[i_g + 11] != "S:4f4b":
            bad = (i_g + 11, "S:4f4b", a[i_g + 11], "a later SET on another connection is not served")
        if not bad and restarted[b"d"] != "B:34":
            bad = (i_r + 11, "B:34", restarted[b"d"], "the later SET is not there after a restart")
        if not bad:
            mi = mspans[cases.index((op, n, errno, sync))]
            observed = (reply if acked else "-") + "/" + ",".join(after[k] for k in PROBE) + "/" + ",".join(restarted[k] for k in PROBE)
            allowed_m = mans[mi].split(" ") if mi < len(mans) else []
            if not reached:
                allowed_m = allowed_m[:1]
            rep.count("server_fault_outcomes_compared_with_model")
            if observed not in allowed_m:
                nc += 1
                if nc <= 2:
                    rep.violation("correspondence", dict(what=f"server, {op[0]} with call {n} after it failing (errno {errno}, sync={sync}): what the client and a restart observe is none of the outcomes the Lean model of the handler over a failing store allows",
                                                         script=sc, answers=[x[:120] for x in a], expected=" | ".join(allowed_m)[:1500], observed=observed))
        if bad:
            nv += 1
            if nv <= 3:
                rep.violation("oracle", dict(what=f"server, {op[0]} {[x.decode() for x in (op[1] if op[0] == 'DEL' else [op[1]])]} with the call number {n} after it was sent failing with errno {errno} (sync={sync}): {bad[3]}",
                                             script=sc, answers=[x[:120] for x in a], failing_line=bad[0], expected=bad[1], observed=bad[2]))
    shutil.rmtree(root, ignore_errors=True)


RUNNERS = {"C20": run_c20}
