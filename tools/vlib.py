"""Common machinery for all checks: building, running the harness and the Lean driver over the
line protocol, proof audit, evidence / violation / known-finding plumbing."""
import fcntl
import hashlib
import json
import os
import re
import subprocess
import sys
import time

VERIF = os.path.dirname(os.path.dirname(os.path.abspath(__file__)))
# The registered checks always run against /repo. For development (trying a seeded change on a scratch worktree while
# /repo is in use) VERIF_ALT_REPO=<dir> points the harness at another checkout and keeps all scratch output apart.
ALT = os.environ.get("VERIF_ALT_REPO")
REPO = ALT or "/repo"
WORK = os.path.join(VERIF, "work") if not ALT else os.path.join(VERIF, "work", "alt-" + hashlib.sha256(ALT.encode()).hexdigest()[:8])
# the store / server directories of one invocation of a check: its own, so that two invocations (the quick and the thorough
# command of one property, say) can run side by side; removed when the invocation ends
RUNS = os.path.join(WORK, "runs-%d" % os.getpid())


def _remove_runs():
    import shutil
    shutil.rmtree(RUNS, ignore_errors=True)


import atexit
atexit.register(_remove_runs)
LEAN = os.path.join(VERIF, "lean")
HARNESS = os.path.join(VERIF, "harness") if not ALT else os.path.join(WORK, "harness")
HBIN = os.path.join(WORK, "harness-target", "debug", "bcharness")
DRIVER = os.path.join(LEAN, ".lake", "build", "bin", "driver")
IOTRACE = os.path.join(WORK, "iotrace.so")
ENV = dict(os.environ, CARGO_NET_OFFLINE="true")

ALLOWED_AXIOMS = {"propext", "Classical.choice", "Quot.sound"}
FORBIDDEN = re.compile(r"\bsorry\b|\badmit\b|^axiom |native_decide|bv_decide|implemented_by|\bunsafe |maxHeartbeats 0", re.M)

TRUSTED_BASE = [
    "Lean 4.33 kernel (thorough tier re-checks the property modules with leanchecker)",
    "axioms propext, Classical.choice, Quot.sound only (audited with #print axioms on every run)",
    "faithfulness of the hand-written Lean model = what the correspondence run of this check samples (Rust harness, iotrace shim, cargo-feature `verif` hooks, generators)",
]


class Lock:
    def __init__(self, name):
        os.makedirs(WORK, exist_ok=True)
        # the Lean project is shared by every run, whatever checkout the harness is built against
        self.path = os.path.join(VERIF, "work", name + ".lock") if name == "lake" else os.path.join(WORK, name + ".lock")

    def __enter__(self):
        self.f = open(self.path, "w")
        fcntl.flock(self.f, fcntl.LOCK_EX)
        return self

    def __exit__(self, *a):
        fcntl.flock(self.f, fcntl.LOCK_UN)
        self.f.close()


def sh(cmd, cwd=None, timeout=None, env=None):
    p = subprocess.run(cmd, cwd=cwd, shell=isinstance(cmd, str), stdout=subprocess.PIPE,
                       stderr=subprocess.STDOUT, timeout=timeout, env=env or ENV, text=True)
    return p.returncode, p.stdout


# ------------------------------------------------------------------------------------------
# builds

def build_iotrace():
    with Lock("iotrace"):
        src = os.path.join(VERIF, "iotrace", "iotrace.c")
        if not os.path.exists(IOTRACE) or os.path.getmtime(IOTRACE) < os.path.getmtime(src):
            rc, out = sh(["gcc", "-O2", "-shared", "-fPIC", "-o", IOTRACE, src, "-ldl", "-lpthread"])
            if rc != 0:
                raise RuntimeError("iotrace build failed:\n" + out)


def build_harness():
    """Rebuild the harness against /repo's current working tree (cargo decides what is stale)."""
    with Lock("cargo"):
        if ALT:
            import shutil
            src = os.path.join(VERIF, "harness")
            os.makedirs(HARNESS, exist_ok=True)
            for name in ("src", ".cargo"):
                shutil.rmtree(os.path.join(HARNESS, name), ignore_errors=True)
                shutil.copytree(os.path.join(src, name), os.path.join(HARNESS, name))
            toml = open(os.path.join(src, "Cargo.toml")).read().replace('path = "/repo"', f'path = "{ALT}"')
            if not os.path.exists(os.path.join(HARNESS, "Cargo.toml")) or open(os.path.join(HARNESS, "Cargo.toml")).read() != toml:
                open(os.path.join(HARNESS, "Cargo.toml"), "w").write(toml)
        lock = os.path.join(HARNESS, "Cargo.lock")
        if not os.path.exists(lock):
            import shutil
            shutil.copy(os.path.join(REPO, "Cargo.lock"), lock)
        rc, out = sh(["cargo", "build", "--offline", "--target-dir", os.path.join(WORK, "harness-target")], cwd=HARNESS, timeout=1800)
        return rc == 0, out


def build_lean(targets):
    with Lock("lake"):
        rc, out = sh(["lake", "build"] + targets, cwd=LEAN, timeout=3600)
        return rc == 0, out


def lean_source_clean(files):
    """grep for forbidden constructs outside comments; returns list of hits"""
    hits = []
    for f in files:
        txt = open(f).read()
        # strip block comments and line comments
        txt2 = re.sub(r"/-.*?-/", lambda m: "\n" * m.group(0).count("\n"), txt, flags=re.S)
        txt2 = re.sub(r"--.*", "", txt2)
        for m in FORBIDDEN.finditer(txt2):
            line = txt2.count("\n", 0, m.start()) + 1
            hits.append(f"{os.path.relpath(f, VERIF)}:{line}: {m.group(0).strip()}")
    return hits


def lean_files():
    out = []
    for root, _, files in os.walk(os.path.join(LEAN, "BitcaskVerif")):
        for f in files:
            if f.endswith(".lean"):
                out.append(os.path.join(root, f))
    return sorted(out)


def audit_axioms(prop):
    """Elaborate Audit/<prop>.lean (a list of `#print axioms`) and parse the result.
    Returns (ok, {theorem: [axioms]}, raw_output)."""
    path = os.path.join(LEAN, "BitcaskVerif", "Audit", prop + ".lean")
    with Lock("lake"):
        rc, out = sh(["lake", "env", "lean", path], cwd=LEAN, timeout=1800)
    thms = {}
    for m in re.finditer(r"^'(.+?)' depends on axioms: \[([^\]]*)\]", out, re.M):
        thms[m.group(1)] = [a.strip() for a in m.group(2).replace("\n", " ").split(",") if a.strip()]
    for m in re.finditer(r"^'(.+?)' does not depend on any axioms", out, re.M):
        thms[m.group(1)] = []
    ok = rc == 0 and len(thms) > 0
    bad = {t: [a for a in ax if a not in ALLOWED_AXIOMS] for t, ax in thms.items()}
    bad = {t: a for t, a in bad.items() if a}
    if "sorryAx" in out or bad:
        ok = False
    return ok, thms, out


def expected_theorems(prop):
    """theorem names listed in Audit/<prop>.lean"""
    path = os.path.join(LEAN, "BitcaskVerif", "Audit", prop + ".lean")
    return re.findall(r"^#print axioms (\S+)", open(path).read(), re.M)


# ------------------------------------------------------------------------------------------
# line-protocol sessions

class Died(Exception):
    def __init__(self, answered, rc, why):
        self.answered, self.rc, self.why = answered, rc, why


def run_lines(argv, lines, env=None, timeout=600, cwd=None):
    """Feed `lines` to a process speaking the line protocol; return answer lines.
    Raises Died(answers_so_far, rc, why) if it exits early / times out / answers too few lines."""
    data = "\n".join(lines) + "\n"
    try:
        p = subprocess.run(argv, input=data, stdout=subprocess.PIPE, stderr=subprocess.PIPE, text=True,
                           timeout=timeout, env=env or ENV, cwd=cwd)
    except subprocess.TimeoutExpired as e:
        out = (e.stdout or b"")
        if isinstance(out, bytes):
            out = out.decode("utf-8", "replace")
        raise Died(out.split("\n")[:-1], None, "timeout")
    ans = p.stdout.split("\n")
    if ans and ans[-1] == "":
        ans.pop()
    if p.returncode != 0 or len(ans) != len(lines):
        raise Died(ans, p.returncode, f"exit {p.returncode}, {len(ans)}/{len(lines)} answers; stderr: {p.stderr[-400:]}")
    return ans


class Session:
    """a live line-protocol process: requests can depend on earlier answers"""
    def __init__(self, argv, env=None, timeout=120):
        self.p = subprocess.Popen(argv, stdin=subprocess.PIPE, stdout=subprocess.PIPE, stderr=subprocess.DEVNULL, env=env or ENV, bufsize=0)
        self.timeout = timeout
        self.answers = []
        self.buf = b""

    def _readline(self):
        import select
        while b"\n" not in self.buf:
            r, _, _ = select.select([self.p.stdout], [], [], self.timeout)
            if not r:
                self.p.kill()
                raise Died(list(self.answers), None, "timeout")
            chunk = os.read(self.p.stdout.fileno(), 1 << 16)
            if not chunk:
                raise Died(list(self.answers), self.p.poll(), f"process ended (exit {self.p.poll()})")
            self.buf += chunk
        line, self.buf = self.buf.split(b"\n", 1)
        return line.decode("utf-8", "replace")

    def ask_many(self, lines, chunk=50):
        out = []
        for i in range(0, len(lines), chunk):
            part = lines[i:i + chunk]
            try:
                self.p.stdin.write(("\n".join(part) + "\n").encode())
                self.p.stdin.flush()
            except (BrokenPipeError, OSError):
                raise Died(self.answers, self.p.poll(), "process gone (broken pipe)")
            for _ in part:
                a = self._readline()
                out.append(a)
                self.answers.append(a)
        return out

    def ask(self, line):
        return self.ask_many([line])[0]

    def close(self):
        try:
            self.p.stdin.close()
            self.p.wait(timeout=10)
        except Exception:
            self.p.kill()


def harness_session(mode_args, preload=False, timeout=120):
    env = dict(ENV)
    if preload:
        env["LD_PRELOAD"] = IOTRACE
    return Session([HBIN] + mode_args, env=env, timeout=timeout)


def driver_session(timeout=120):
    return Session([DRIVER], timeout=timeout)


def run_driver(lines, timeout=600):
    return run_lines([DRIVER], lines, timeout=timeout)


def run_harness(mode_args, lines, preload=False, timeout=600):
    env = dict(ENV)
    if preload:
        env["LD_PRELOAD"] = IOTRACE
    return run_lines([HBIN] + mode_args, lines, env=env, timeout=timeout)


# ------------------------------------------------------------------------------------------
# reporting

def case_hash(obj):
    return hashlib.sha256(json.dumps(obj, sort_keys=True).encode()).hexdigest()[:12]


def load_known():
    p = os.path.join(VERIF, "known_findings.json")
    if not os.path.exists(p):
        return []
    return json.load(open(p))


class Report:
    def __init__(self, prop, tier, seed):
        self.prop, self.tier, self.seed = prop, tier, seed
        self.t0 = time.time()
        self.violations = []       # (replay_path, no_failing_input)
        self.printed = set()       # replay paths whose VIOLATION line is out
        self.known_hits = []
        self.cov = {"evaluations": 0, "distinct_nontrivial": 0, "samples": [], "rule": "",
                    "traces_validated_against_impl": 0, "distribution": {}}
        self.assumptions = []
        self.distinct = set()
        self.known = [k for k in load_known() if k.get("property") == prop and k.get("status") == "known"]

    def count(self, key, n=1):
        d = self.cov["distribution"]
        d[key] = d.get(key, 0) + n

    def sample(self, s, limit=6):
        if len(self.cov["samples"]) < limit:
            self.cov["samples"].append(s)

    def nontrivial(self, obj):
        self.distinct.add(case_hash(obj))

    def violation(self, kind, detail, signature=None, no_input=False):
        """kind: oracle | correspondence | proof | build. detail: dict written to the replay file."""
        for k in self.known:
            if signature is not None and k.get("signature") == signature:
                if signature not in [s for s, _ in self.known_hits]:
                    self.known_hits.append((signature, k.get("what", "")))
                return
        os.makedirs(os.path.join(VERIF, "replays"), exist_ok=True)
        if kind == "correspondence":
            # model and implementation differ on an observable, but the property's direct oracle, evaluated on
            # every generated and shrunk case of this run (that is the search), found no input on which the
            # property itself fails: the property is no longer SHOWN to hold, without a failing input
            no_input = True
            detail = dict(detail, note="correspondence `model = implementation` no longer checks for this property; "
                                       "no input violating the property itself was found by this run's oracles")
        body = dict(property=self.prop, kind=kind, seed=self.seed, tier=self.tier, signature=signature, **detail)
        path = os.path.join(VERIF, "replays", f"{self.prop}-{case_hash(body)}.json")
        with open(path, "w") as f:
            json.dump(body, f, indent=1)
        self.violations.append((path, no_input))
        # said at once (a check that is cut off by somebody's time limit has then said what it had found), and enough is enough:
        # on a tree that is broken through and through (every scenario hangs until its time-out) the check ends after a handful
        if path not in self.printed:
            self.printed.add(path)
            print(f"VIOLATION property={self.prop} replay={path}" + (" no-failing-input-found" if no_input else ""), flush=True)
        if len(self.printed) >= 10 or (len(self.printed) >= 5 and any(not ni for _, ni in self.violations)):
            raise StopCheck()

    def finish(self, proof):
        """proof: dict(obligations, discharged, checker_cmd, axioms, theorems)"""
        cov = self.cov
        cov["distinct_nontrivial"] = len(self.distinct)
        cov.update(obligations=proof.get("obligations", 0), discharged=proof.get("discharged", 0),
                   checker_cmd=proof.get("checker_cmd", ""), trusted_base=TRUSTED_BASE + proof.get("trusted_extra", []),
                   axioms=proof.get("axioms", {}))
        ev = dict(property_id=self.prop, tier=self.tier, seed=self.seed, level="proof", coverage=cov,
                  assumptions=self.assumptions, wall_s=round(time.time() - self.t0, 2),
                  violations=len(self.violations))
        # a development run without the Lean stage (--no-proof) must not overwrite the evidence of a full run
        evdir = os.path.join(VERIF, "evidence") if proof else os.path.join(WORK, "evidence-no-proof")
        os.makedirs(evdir, exist_ok=True)
        with open(os.path.join(evdir, self.prop + ".json"), "w") as f:
            json.dump(ev, f, indent=1)
        for sig, what in self.known_hits:
            print(f"KNOWN-FINDING: property={self.prop} {what}")
        for path, no_input in self.violations:
            if path in self.printed:
                continue
            self.printed.add(path)
            print(f"VIOLATION property={self.prop} replay={path}" + (" no-failing-input-found" if no_input else ""))
        sys.stdout.flush()
        return 1 if self.violations else 0


class StopCheck(Exception):
    """enough violations have been reported: the runner is abandoned, the evidence is written"""


def proof_stage(rep, prop, thorough=False):
    """Build the property's theorems, audit axioms and sources. Returns the `proof` dict for
    Report.finish; records a violation (no failing input yet) when something does not check."""
    audit_src = open(os.path.join(LEAN, "BitcaskVerif", "Audit", prop + ".lean")).read()
    targets = sorted(set([f"BitcaskVerif.Props.{prop}"] + re.findall(r"^import (BitcaskVerif\.\S+)", audit_src, re.M))) + ["driver"]
    ok, out = build_lean(targets)
    names = expected_theorems(prop)
    proof = dict(obligations=len(names), discharged=0,
                 checker_cmd=f"cd lean && lake build BitcaskVerif.Props.{prop} && lake env lean BitcaskVerif/Audit/{prop}.lean",
                 axioms={})
    if not ok:
        rep.violation("proof", dict(theorem=f"BitcaskVerif.Props.{prop} (lake build failed)", output=out[-3000:]), no_input=True)
        return proof
    hits = lean_source_clean(lean_files())
    if hits:
        rep.violation("proof", dict(theorem="source audit", hits=hits), no_input=True)
        return proof
    aok, thms, raw = audit_axioms(prop)
    proof["axioms"] = thms
    missing = [n for n in names if n not in thms]
    if not aok or missing:
        rep.violation("proof", dict(theorem="axiom audit", missing=missing, output=raw[-3000:]), no_input=True)
        return proof
    proof["discharged"] = len([n for n in names if n in thms])
    if thorough:
        for mod in [t for t in targets if t.startswith("BitcaskVerif.Props.")]:
            with Lock("lake"):
                rc, o = sh(["lake", "env", "leanchecker", mod], cwd=LEAN, timeout=3600)
            proof["leanchecker"] = "ok" if rc == 0 and proof.get("leanchecker", "ok") == "ok" else o[-500:]
            if rc != 0:
                rep.violation("proof", dict(theorem=f"leanchecker {mod}", output=o[-3000:]), no_input=True)
    return proof


def harness_stage(rep):
    ok, out = build_harness()
    if not ok:
        rep.violation("build", dict(correspondence="harness build against /repo with --features verif failed",
                                    output=out[-3000:]), no_input=True)
    build_iotrace()
    return ok


def config_stage(rep, rng, n, root):
    """the configuration a check asks for is the configuration the store gets: the harness builds every configuration from
    its serialised form; here the same settings are also applied with the builder methods of `Config` and the two results
    compared field by field (`cfgcheck`)"""
    lines = ["dir cfg"]
    for _ in range(n):
        toks = []
        if rng.random() < 0.8: toks.append(f"mfs={rng.choice([0, 1, 60, 300, 9000, 65536, 2**31, 2**40])}")
        if rng.random() < 0.6: toks.append(f"cache={rng.choice([0, 1, 2, 256, 1000])}")
        if rng.random() < 0.6: toks.append(f"pool={rng.choice([1, 2, 4, 64])}")
        if rng.random() < 0.6: toks.append(f"frag={rng.choice(['0/1', '1/8', '2/5', '1/2', '1/1'])}")
        if rng.random() < 0.6: toks.append(f"dead={rng.choice([0, 50, 134217728, 1099511627776])}")
        if rng.random() < 0.6: toks.append(f"small={rng.choice([0, 100, 10485760, 1099511627776])}")
        if rng.random() < 0.6: toks.append(f"interval={rng.choice([1, 40, 180000, 3600000])}")
        if rng.random() < 0.6: toks.append(f"jitter={rng.choice(['0/1', '3/10', '1/2', '1/1'])}")
        if rng.random() < 0.6: toks.append(f"tfrag={rng.choice(['0/1', '3/5', '7/8', '1/1'])}")
        if rng.random() < 0.6: toks.append(f"tdead={rng.choice([0, 50, 536870912, 1099511627776])}")
        if rng.random() < 0.5: toks.append(f"sync={rng.choice(['none', 'always', '20', '60000'])}")
        if rng.random() < 0.5: toks.append(f"policy={rng.choice(['never', 'always', 'window:3-9'])}")
        lines.append("cfgcheck " + " ".join(toks))
    try:
        ans = run_harness(["store", "--root", root], lines, timeout=120)
    except Died as d:
        rep.violation("oracle", dict(what=f"building a configuration killed the process ({d.why})", script=lines[:len(d.answered) + 1][-2:]))
        return
    rep.count("configurations_built_both_ways", n)
    for l, a in zip(lines[1:], ans[1:]):
        if a != "same":
            rep.violation("correspondence", dict(what="a configuration built with the builder methods is not the configuration its serialised form gives: a setting does not arrive where it is meant to", script=[l], expected="same", observed=a[:1500]))
            break
