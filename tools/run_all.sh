#!/bin/sh
# run_all.sh [tier] : run every claimed check in sequence on /repo's current tree; print id, exit code, seconds.
T="${1:-quick}"
cd "$(dirname "$0")/.." || exit 2; mkdir -p work
rc_all=0
for id in $(python3 -c "import json;print(' '.join(c['property_id'] for c in json.load(open('MANIFEST.json'))['checks']))"); do
  s=$(date +%s)
  python3 tools/check.py "$id" --tier "$T" > "work/run_all_$id.log" 2>&1
  rc=$?
  e=$(date +%s)
  echo "$id rc=$rc $((e-s))s $(grep -c '^VIOLATION' work/run_all_$id.log) violation(s) $(grep -c '^KNOWN-FINDING' work/run_all_$id.log) known"
  [ $rc -ne 0 ] && rc_all=1
done
exit $rc_all
