#!/usr/bin/env python3
"""regress_seeded.py [ids...]: for every archived seeded change, apply it to /repo, run the checks its meta.json names under
`caught_by` (quick tier, no Lean stage), undo it, and report whether each still reports a violation. Never leaves /repo modified."""
import json
import os
import subprocess
import sys

V = os.path.dirname(os.path.dirname(os.path.abspath(__file__)))
ids = sys.argv[1:] or sorted(os.listdir(os.path.join(V, "seeded")))
assert subprocess.run(["git", "-C", "/repo", "diff", "--quiet"]).returncode == 0, "/repo has uncommitted changes"
bad = 0
for sid in ids:
    d = os.path.join(V, "seeded", sid)
    meta = json.load(open(os.path.join(d, "meta.json")))
    checks = meta.get("caught_by") or []
    if subprocess.run(["git", "-C", "/repo", "apply", os.path.join(d, "patch.diff")]).returncode != 0:
        print(f"{sid}: PATCH DOES NOT APPLY")
        bad += 1
        continue
    try:
        res = []
        for c in checks:
            r = subprocess.run([sys.executable, os.path.join(V, "tools", "check.py"), c, "--no-proof"], capture_output=True, text=True, cwd=V)
            n = sum(1 for l in r.stdout.split("\n") if l.startswith("VIOLATION"))
            nf = sum(1 for l in r.stdout.split("\n") if l.startswith("VIOLATION") and "no-failing-input-found" in l)
            res.append((c, r.returncode, n, nf))
    finally:
        subprocess.run(["git", "-C", "/repo", "checkout", "--", "."])
    ok = all(rc == 1 and n > 0 for _, rc, n, _ in res)
    bad += 0 if ok else 1
    print(f"{sid}: " + ("caught " if ok else "MISSED ") + ", ".join(f"{c}: {n} violation(s), {nf} without failing input" for c, rc, n, nf in res), flush=True)
print("regression done;", bad, "problem(s)")
sys.exit(1 if bad else 0)
