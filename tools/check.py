#!/usr/bin/env python3
"""Entry point of every check:  check.py Cxx [--tier quick|thorough] [--seed N] [--replay file]

Exit 0 = the property held on everything explored (KNOWN-FINDING lines may be printed);
exit 1 = at least one `VIOLATION property=Cxx replay=<path>` line was printed."""
import argparse
import os
import sys

sys.path.insert(0, os.path.dirname(os.path.abspath(__file__)))
from vlib import *


def main():
    ap = argparse.ArgumentParser()
    ap.add_argument("prop")
    ap.add_argument("--tier", default=os.environ.get("VERIF_TIER", "quick"))
    ap.add_argument("--seed", type=int, default=int(os.environ.get("VERIF_SEED", "1")))
    ap.add_argument("--replay")
    ap.add_argument("--no-proof", action="store_true", help="skip the Lean stage (development only)")
    a = ap.parse_args()
    prop = a.prop.upper()
    rep = Report(prop, a.tier, a.seed)
    import p_resp
    runners = {"C07": p_resp.run_c07, "C08": p_resp.run_c08}
    try:
        import p_store
        runners.update(p_store.RUNNERS)
    except ImportError:
        pass
    try:
        import p_crash
        runners.update(p_crash.RUNNERS)
    except ImportError:
        pass
    try:
        import p_fault
        runners.update(p_fault.RUNNERS)
    except ImportError:
        pass
    try:
        import p_net
        runners.update(p_net.RUNNERS)
    except ImportError:
        pass
    try:
        import p_conc
        runners.update(p_conc.RUNNERS)
    except ImportError:
        pass
    if prop not in runners:
        print(f"no check for {prop}", file=sys.stderr)
        return 2
    if a.replay:
        import replay
        return replay.run(prop, a.replay)
    proof = {}
    if not a.no_proof:
        proof = proof_stage(rep, prop, thorough=(a.tier == "thorough"))
    else:
        build_lean(["driver"])
    if harness_stage(rep):
        # a wall-clock budget far above what the check needs on a tree that works (quick: under a minute; thorough: under a
        # quarter of an hour): on a tree where everything hangs until its time-out the check says what it has and ends
        import signal
        budget = int(os.environ.get("VERIF_BUDGET_S", "900" if a.tier == "quick" else "5400"))

        def on_alarm(signum, frame):
            raise StopCheck("budget")
        signal.signal(signal.SIGALRM, on_alarm)
        signal.alarm(budget)
        try:
            runners[prop](rep, a.tier, a.seed)
            signal.alarm(0)
        except StopCheck as e:
            signal.alarm(0)
            rep.cov["ended_early"] = "budget" if e.args else "enough violations reported"
            if e.args and not rep.violations:
                rep.violation("oracle", dict(what=f"the check did not come to its end within {budget} s (on the tree it was written for it takes a small fraction of that): "
                                                  "the code under test hangs or has become much slower; nothing else had been found by then"), no_input=True)
    return rep.finish(proof)


if __name__ == "__main__":
    sys.exit(main())
