#!/usr/bin/env python3
"""Entry point of every check:  check.py Cxx [--tier quick|thorough] [--seed N] [--replay file]

Exit 0 = the property held on everything explored (KNOWN-FINDING lines may be printed);
exit 1 = at least one `VIOLATION property=Cxx replay=<path>` line was printed."""
import argparse
import os
import sys

sys.path.insert(0, os.path.dirname(os.path.abspath(__file__)))
from vlib import *


def main():
    ap = argparse.ArgumentParser()
    ap.add_argument("prop")
    ap.add_argument("--tier", default=os.environ.get("VERIF_TIER", "quick"))
    ap.add_argument("--seed", type=int, default=int(os.environ.get("VERIF_SEED", "1")))
    ap.add_argument("--replay")
    ap.add_argument("--no-proof", action="store_true", help="skip the Lean stage (development only)")
    a = ap.parse_args()
    prop = a.prop.upper()
    rep = Report(prop, a.tier, a.seed)
    import p_resp
    runners = {"C07": p_resp.run_c07, "C08": p_resp.run_c08}
    try:
        import p_store
        runners.update(p_store.RUNNERS)
    except ImportError:
        pass
    try:
        import p_crash
        runners.update(p_crash.RUNNERS)
    except ImportError:
        pass
    try:
        import p_fault
        runners.update(p_fault.RUNNERS)
    except ImportError:
        pass
    try:
        import p_net
        runners.update(p_net.RUNNERS)
    except ImportError:
        pass
    try:
        import p_conc
        runners.update(p_conc.RUNNERS)
    except ImportError:
        pass
    if prop not in runners:
        print(f"no check for {prop}", file=sys.stderr)
        return 2
    if a.replay:
        import replay
        return replay.run(prop, a.replay)
    proof = {}
    if not a.no_proof:
        proof = proof_stage(rep, prop, thorough=(a.tier == "thorough"))
    else:
        build_lean(["driver"])
    if harness_stage(rep):
        runners[prop](rep, a.tier, a.seed)
    return rep.finish(proof)


if __name__ == "__main__":
    sys.exit(main())
