#!/bin/sh
# trymut_alt.sh <patch.diff> <Cxx> [Cyy ...] : try a seeded change WITHOUT touching /repo: a scratch worktree of /repo's HEAD gets the
# patch (BASE=<commit> to start from another commit than HEAD), the harness is built against it (VERIF_ALT_REPO), the checks run with their scratch output kept apart. Development aid only.
P="$1"; shift
W=/tmp/alt-repo-$$-$(date +%N)
git -C /repo worktree add --detach -q "$W" "${BASE:-HEAD}" || exit 2
H=$(python3 -c "import hashlib,sys;print(hashlib.sha256(sys.argv[1].encode()).hexdigest()[:8])" "$W")
trap 'git -C /repo worktree remove --force "$W"; git -C /repo worktree prune; rm -rf "/verif/work/alt-$H"' EXIT
( cd "$W" && git apply "$P" ) || { echo "patch does not apply"; exit 2; }
cd /verif
for c in "$@"; do
  echo "== $c"
  VERIF_ALT_REPO="$W" timeout 3000 python3 tools/check.py "$c" --no-proof 2>&1 | cut -c1-220 | grep -E "VIOLATION|KNOWN|rror" | head -6
done
