#!/bin/sh
# sweep.sh <first seed> <last seed> [tier]: every check, several seeds, on /repo's current tree; prints only failures.
cd "$(dirname "$0")/.." || exit 2; mkdir -p work
T="${3:-quick}"
for seed in $(seq "$1" "$2"); do
  for id in $(python3 -c "import json;print(' '.join(c['property_id'] for c in json.load(open('MANIFEST.json'))['checks']))"); do
    python3 tools/check.py "$id" --tier "$T" --seed "$seed" --no-proof > "work/sweep_${id}_${seed}.log" 2>&1
    rc=$?
    if [ $rc -ne 0 ] || grep -q '^VIOLATION' "work/sweep_${id}_${seed}.log"; then echo "FAIL $id seed=$seed rc=$rc: $(grep -m2 '^VIOLATION' work/sweep_${id}_${seed}.log | tr '\n' ' ')"; fi
  done
  echo "seed $seed done"
done
