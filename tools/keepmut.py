#!/usr/bin/env python3
"""keepmut.py <worktree> <id> <caught_by(comma list, or 'none')> [note]: archive a confirmed seeded change under /verif/seeded/<id>/"""
import json, os, shutil, sys
w, sid, caught = sys.argv[1], sys.argv[2], sys.argv[3]
note = sys.argv[4] if len(sys.argv) > 4 else ""
d = os.path.join("/verif/seeded", sid)
os.makedirs(d, exist_ok=True)
shutil.copy(os.path.join(w, "mutation/patch.diff"), d)
for f in os.listdir(os.path.join(w, "mutation")):
    if f.startswith("demo"):
        shutil.copy(os.path.join(w, "mutation", f), d)
m = json.load(open(os.path.join(w, "mutation/meta.json")))
conf = os.path.join("/tmp/mut", "confirm_" + os.path.basename(w.rstrip("/")) + ".log")
m["confirmed_by_me"] = open(conf).read()[-1500:] if os.path.exists(conf) else "not confirmed"
m["what_i_ran"] = f"tools/confirm_mut.sh {w} (suite with patch / demo with patch / demo without patch); tools/trymut.sh mutation/patch.diff <checks>"
m["caught_by"] = [] if caught == "none" else caught.split(",")
m["note"] = note
import subprocess
m["base"] = subprocess.run(["git", "-C", w, "rev-parse", "--short", "HEAD"], capture_output=True, text=True).stdout.strip() or None
json.dump(m, open(os.path.join(d, "meta.json"), "w"), indent=1)
print("kept", d)
