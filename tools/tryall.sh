#!/bin/sh
# tryall.sh <patch.diff> : apply a change to /repo, run EVERY quick check (no Lean stage), print what each reports, undo the change.
P="$1"
cd /repo || exit 2
git diff --quiet || { echo "/repo has uncommitted changes"; exit 2; }
git apply "$P" || { echo "patch does not apply"; exit 2; }
trap 'git -C /repo checkout -- . ' EXIT
cd /verif
for id in $(python3 -c "import json;print(' '.join(c['property_id'] for c in json.load(open('MANIFEST.json'))['checks']))"); do
  python3 tools/check.py "$id" --no-proof > "work/tryall_$id.log" 2>&1
  rc=$?
  n=$(grep -c '^VIOLATION' work/tryall_$id.log); nf=$(grep -c 'no-failing-input-found' work/tryall_$id.log)
  [ "$n" != "0" ] || [ $rc -ne 0 ] && echo "$id rc=$rc violations=$n of which no-failing-input-found=$nf"
done
echo "tryall done"
