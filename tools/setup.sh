#!/bin/sh
# Build everything the checks need, offline, from files on disk only.
set -e
cd "$(dirname "$0")/.."
mkdir -p work
gcc -O2 -shared -fPIC -o work/iotrace.so iotrace/iotrace.c -ldl -lpthread
(cd lean && lake build)
[ -f harness/Cargo.lock ] || cp /repo/Cargo.lock harness/Cargo.lock
(cd harness && CARGO_NET_OFFLINE=true cargo build --offline --target-dir "$(pwd)/../work/harness-target")
echo setup-ok
