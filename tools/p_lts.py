"""Correspondence between the concurrent store LTS of the C04 / C11 theorems (`CStore.step`, driven through
`lts.*` driver commands) and the real store under forced schedules.

A schedule is a list of moves `(thread, stop)`: "let this thread run until it reaches <stop> (or finishes)".
The LTS is asked first (it answers `at <stop>`, `done <result>`, `blocked <where>` or `failed <kind>`); the real
thread is then released towards the same stop and must show the same thing: parked at that schedule point,
finished with that result, or still not finished after a settle time when the model says it is blocked.
A blocked thread is re-examined after every later move. At the end the index (key -> file, length; multiset of
locations), the non-empty data files, the active file id and the number of pooled readers are compared.

Only the negative observation (`blocked`) uses a short settle time, and only to confirm the model's prediction;
every positive expectation waits up to 15 s, so load cannot fabricate a disagreement."""
import os
import random
import shutil

from vlib import *
from p_store import show_val, hx

K1, K2 = b"a", b"b"
SELECT_ALL = "frag=0/1 dead=0 small=1099511627776"
BUF = 8192


def entry_size(op):
    if op[0] == "put":
        return 25 + len(op[1]) + len(op[2])
    if op[0] == "del":
        return 17 + len(op[1])
    return 0


def chunks_of(op):
    """sizes of the write(2) calls std's BufWriter (8 KiB) issues for one entry"""
    if op[0] == "put":
        head = 25 + len(op[1])
        if len(op[2]) > BUF - head:
            return [head, len(op[2])]
        return [head + len(op[2])]
    return [entry_size(op)]


def stops_of(op):
    if op[0] == "put":
        s = ["io.write:1"] + (["io.write:2"] if len(chunks_of(op)) > 1 else [])
        return s + ["write.appended", "put.before_publish"]
    if op[0] == "del":
        return ["io.write:1", "write.appended", "del.before_publish"]
    if op[0] == "get":
        return ["get.checkout", "get.lookup", "get.before_checkin"]
    if op[0] == "merge":
        return ["merge.copied:1", "merge.copied:2", "merge.before_unlink"]
    return []


class Disagree(Exception):
    def __init__(self, what, expected, observed):
        self.what, self.expected, self.observed = what, expected, observed


class LtsPair:
    def __init__(self, root, mfs, pool, nthreads=3):
        self.root = root
        shutil.rmtree(root, ignore_errors=True)
        self.h = harness_session(["store", "--root", root, "--hang-ms", "40000"], preload=True, timeout=60)
        self.d = driver_session(timeout=60)
        self.hs, self.ds = [], []        # (line, answer)
        self.vals = {}
        self.nthreads = nthreads
        self.started = {}                # thread -> op
        self.blocked = {}                # thread -> stop it is heading for
        self.parked = set()
        self.H(f"cfg mfs={mfs} pool={pool} {SELECT_ALL}")
        self.H("dir s")
        self.H("open")
        # two shards in the model: K1 -> 0, K2 -> 1 (no schedule lets a writer of one key meet a guard of the other)
        self.D(f"lts.init {pool} {nthreads + 1} {mfs} 1 {K1[0]}:0,{K2[0]}:1")

    def H(self, line):
        a = self.h.ask(line)
        self.hs.append((line, a))
        return a

    def D(self, line):
        a = self.d.ask(line)
        self.ds.append((line, a))
        return a

    def close(self):
        self.h.close()
        self.d.close()
        shutil.rmtree(self.root, ignore_errors=True)

    # -- values ------------------------------------------------------------------------------
    def vid(self, v):
        i = len(self.vals) + 1
        self.vals[i] = v
        return i

    def show_res(self, res):
        """the model's result in the harness's vocabulary"""
        if res in ("ok", "nil", "true", "false"):
            return res
        return show_val(self.vals[int(res)])

    def inv_line(self, tid, op):
        if op[0] == "get":
            return f"lts.inv {tid} get {op[1][0]}"
        if op[0] == "put":
            return f"lts.inv {tid} put {op[1][0]} {self.vid(op[2])} {entry_size(op)} {'+'.join(map(str, chunks_of(op)))}"
        if op[0] == "del":
            return f"lts.inv {tid} del {op[1][0]} {entry_size(op)} {'+'.join(map(str, chunks_of(op)))}"
        return f"lts.inv {tid} merge " + ",".join(map(str, range(0, 64)))

    @staticmethod
    def op_line(op):
        if op[0] == "get":
            return f"get {hx(op[1])}"
        if op[0] == "put":
            v = op[2]
            tok = f"{v[0]:02x}*{len(v)}" if len(v) > 40 and v == bytes([v[0]]) * len(v) else hx(v)
            return f"put {hx(op[1])} {tok}"
        if op[0] == "del":
            return f"del {hx(op[1])}"
        return "merge"

    # -- sequential operations on the main thread (model thread `nthreads`) ---------------------
    def seq(self, op):
        t = self.nthreads
        self.D(self.inv_line(t, op))
        m = self.D(f"lts.run {t} end")
        a = self.H(self.op_line(op))
        if not m.startswith("done "):
            raise Disagree(f"sequential `{self.op_line(op)}`", m, a)
        exp = self.show_res(m[5:])
        if op[0] == "merge":
            ok = a.startswith("ok")
        else:
            ok = a == exp
        if not ok:
            raise Disagree(f"sequential `{self.op_line(op)}`", exp, a)

    # -- one move of a schedule -----------------------------------------------------------------
    def expect(self, t, m, what):
        """compare the model's answer `m` for thread t with what the real thread shows"""
        name = f"T{t}"
        if m.startswith("blocked"):
            a = self.H(f"t.wait {name} 350")
            if a != "timeout":
                raise Disagree(what, f"still blocked ({m})", a)
            return "blocked"
        a = self.H(f"t.wait {name} 15000")
        if m.startswith("at "):
            point = m[3:].split(":")[0]
            if a != f"parked {point}":
                raise Disagree(what, f"parked {point}", a)
            self.parked.add(t)
            return "parked"
        if m.startswith("done "):
            exp = "done " + self.show_res(m[5:])
            if not (a == exp or (exp == "done ok" and a.startswith("done ok"))):
                raise Disagree(what, exp, a)
            self.H(f"t.join {name} 5000")
            return "done"
        raise Disagree(what, "a state the real code can show", f"model: {m}; impl: {a}")

    def move(self, t, stop, op=None):
        name = f"T{t}"
        what = f"thread {name} ({self.op_line(op or self.started[t])}) -> {stop}"
        if t not in self.started:
            self.started[t] = op
            self.D(self.inv_line(t, op))
            m = self.D(f"lts.run {t} {stop}")
            if stop != "end":
                p, _, n = stop.partition(":")
                self.H(f"t.park {name} {p} {n or 1}")
            self.H(f"t.spawn {name} {self.op_line(op)}")
        else:
            m = self.D(f"lts.run {t} {stop}")
            if stop != "end":
                p, _, n = stop.partition(":")
                self.H(f"t.park {name} {p} {n or 1}")
            if t in self.parked:
                self.parked.discard(t)
                self.H(f"t.release {name}")
        r = self.expect(t, m, what)
        if r == "blocked":
            self.blocked[t] = stop
        else:
            self.blocked.pop(t, None)
        # threads that were blocked may have been let through by this move
        for bt, bstop in list(self.blocked.items()):
            if bt == t:
                continue
            m2 = self.D(f"lts.run {bt} {bstop}")
            r2 = self.expect(bt, m2, f"thread T{bt} ({self.op_line(self.started[bt])}), blocked before, after the move of {name}")
            if r2 != "blocked":
                self.blocked.pop(bt, None)
            if r2 == "done":
                del self.started[bt]
        if r == "done":
            del self.started[t]

    def finish_impl(self):
        """release every parked thread, join every started one, read both keys: returns a description of a hard failure
        (panic, hang, process death) or None"""
        try:
            for t in sorted(self.started):
                self.H(f"t.release T{t}")
            bad = None
            for t in sorted(self.started):
                a = self.H(f"t.join T{t} 15000")
                if "panic" in a:
                    bad = bad or f"thread T{t} ({self.op_line(self.started[t])}) panicked"
                elif a.startswith("timeout") or a == "hang":
                    bad = bad or f"thread T{t} ({self.op_line(self.started[t])}) never finished (hang)"
            for k in (K1, K2):
                a = self.H(f"get {hx(k)}")
                if "panic" in a or a == "hang" or a.startswith("err"):
                    bad = bad or f"a later get answered {a[:60]!r}"
            a = self.H("idle")
            return bad
        except Died as d:
            return f"the process died / hung ({d.why})"

    # -- final comparison -------------------------------------------------------------------------
    @staticmethod
    def parse_impl(dump, files, idle):
        toks = dump.split()
        kd = toks[1] if len(toks) > 1 and toks[0] == "keydir" else "?"
        idx = {}
        if kd not in ("-", "?"):
            for e in kd.split(","):
                k, loc = e.split("=")
                f, p, l = loc.split(":")
                idx[int(k, 16)] = (int(f), int(p), int(l))
        act = [t for t in toks if t.startswith("active=")]
        fs = sorted((int(t[1:].split("=")[0]), int(t.split("=")[1])) for t in files.split() if t.startswith("d") and not t.endswith("=0"))
        return idx, (int(act[0][7:]) if act else None), fs, idle.split()[-1]

    @staticmethod
    def parse_model(idx, act, mf, pool):
        model = {}
        for e in idx.split()[1:]:
            if e == "-":
                continue
            k, loc = e.split("=")
            f, p, l = loc.split(":")
            model[int(k)] = (int(f), int(p), int(l))
        fm = sorted((int(t.split(":")[0]), int(t.split(":")[1])) for t in mf.split()[1:] if not t.endswith(":0"))
        return model, int(act.split()[1]), fm, pool.split()[-1]

    FINAL = ["lts.index", "lts.active", "lts.files", "lts.pool"]
    # the hash map's iteration order is fixed per process, not by the model: the two keys may live in either
    # order of shards, or in one shard in either order
    VARIANTS = [("{a}:1,{b}:0", "-"), ("{a}:0,{b}:0", "{a},{b}"), ("{a}:0,{b}:0", "{b},{a}")]

    def compare_state(self):
        impl = self.parse_impl(self.H("dump"), self.H("files"), self.H("idle"))
        first = self.parse_model(*[self.D(q) for q in self.FINAL])
        if impl == first:
            return
        pre = [(l, a) for l, a in self.ds if l not in self.FINAL]
        tried = [first]
        for shards, pref in self.VARIANTS:
            d2 = driver_session(timeout=60)
            try:
                same = True
                for l, a in pre:
                    if l.startswith("lts.init"):
                        l = " ".join(l.split()[:-1] + [shards.format(a=K1[0], b=K2[0])])
                        a2 = d2.ask(l)
                        d2.ask("lts.pref " + pref.format(a=K1[0], b=K2[0]))
                    else:
                        a2 = d2.ask(l)
                    if a2 != a:
                        same = False
                        break
                if same:
                    m = self.parse_model(*[d2.ask(q) for q in self.FINAL])
                    tried.append(m)
                    if m == impl:
                        self.ds.append((f"# final state matched with shard assignment {shards.format(a=K1[0], b=K2[0])} pref {pref}", ""))
                        return
            finally:
                d2.close()
        raise Disagree("state after the schedule (index, active file id, non-empty data files, pooled readers), under every assignment of the two keys to shards",
                       " | ".join(map(str, tried)), str(impl))


SETUPS = [
    ("empty store", []),
    ("key present", [("put", K1, b"11")]),
    ("two keys", [("put", K1, b"11"), ("put", K2, b"22")]),
    ("overwritten key (a dead entry)", [("put", K1, b"10"), ("put", K1, b"11"), ("put", K2, b"22")]),
    ("deleted key", [("put", K1, b"10"), ("del", K1), ("put", K2, b"22")]),
    ("merged store", [("put", K1, b"10"), ("put", K1, b"11"), ("put", K2, b"22"), ("merge",)]),
]


def ops_for(tag, big):
    return [("get", K1), ("put", K1, (b"A" if tag == "A" else b"B") * (9000 if big else 3)), ("del", K1), ("merge",)]


def schedule_cases(rng, tier):
    """single- and double-preemption schedules of two threads on one key (plus a reader of the other key)"""
    cases = []
    for mfs in (1000000, 0, 60):
        for pool in (1, 2):
            for sname, setup in SETUPS:
                for big in (False, True):
                    for a in ops_for("A", big):
                        if a[0] == "merge" and len(setup) >= 2 and sname != "key present":
                            # the order in which a merge visits keys is the hash map's: only stops that do not
                            # depend on it are scheduled when more than one key is stored
                            astops = ["merge.before_unlink"]
                        else:
                            astops = stops_of(a)
                        for stop in astops:
                            for b in ops_for("B", False) + [("get", K2)]:
                                if pool == 1 and a[0] == "get" and b[0] == "merge" and False:
                                    continue
                                cases.append((mfs, pool, sname, setup, a, stop, b))
    rng.shuffle(cases)
    return cases


def run_case(root, case, second_stop=None):
    mfs, pool, sname, setup, a, stop, b = case
    p = LtsPair(root, mfs, pool)
    try:
        for op in setup:
            p.seq(op)
        p.move(0, stop, a)
        p.move(1, "end", b)
        if second_stop and 0 in p.started:
            p.move(0, second_stop)
        if 0 in p.started:
            p.move(0, "end")
        if 1 in p.started:
            p.move(1, "end")
        for op in (("get", K1), ("get", K2)):
            p.seq(op)
        p.compare_state()
        return None, p
    except Disagree as d:
        # model and code disagree somewhere in the schedule. Before calling it a disagreement only, let the real threads run to
        # their ends: a panic or a hang further down is the property failing on this very schedule
        hard = p.finish_impl()
        if hard:
            return Disagree(d.what + f"; and when the schedule is let run to its end on the real store: {hard}", d.expected, hard), p
        return d, p
    except Died as d:
        return Disagree("a process of the pair died or hung", "an answer", f"{d.why}"), p


def run_lts_tie(rep, tier, seed, viol):
    rng = random.Random(seed * 7919 + 404)
    cases = schedule_cases(rng, tier)
    n = 150 if tier == "quick" else 2000
    root = os.path.join(RUNS, "run-C04-lts")
    done = 0
    for case in cases[:n]:
        mfs, pool, sname, setup, a, stop, b = case
        second = None
        st = stops_of(a)
        if stop in st and rng.random() < 0.3:
            later = st[st.index(stop) + 1:]
            if later and not (a[0] == "merge" and len(setup) >= 2 and sname != "key present"):
                second = rng.choice(later)
        d, p = run_case(root, case, second)
        done += 1
        rep.cov["evaluations"] += len(p.hs)
        rep.count("lts_schedules")
        rep.count("lts_stop:" + stop.split(":")[0])
        rep.count("lts_blocked_observations", sum(1 for l, a_ in p.ds if a_.startswith("blocked")))
        rep.nontrivial(["c04lts", mfs, pool, sname, LtsPair.op_line(a), stop, second, LtsPair.op_line(b)])
        rep.cov["traces_validated_against_impl"] += 1
        if done <= 2:
            rep.sample({"lts_schedule": f"{sname}; A={LtsPair.op_line(a)} parked at {stop}" + (f" then {second}" if second else "") + f"; B={LtsPair.op_line(b)}; mfs={mfs} pool={pool}",
                        "impl": [f"{l} -> {x}" for l, x in p.hs][:40], "model": [f"{l} -> {x}" for l, x in p.ds][:40]})
        if d is not None:
            # a thread that hangs or panics, or a process that dies, is the property failing on this schedule, whatever the
            # model says; anything else is a disagreement between model and code
            hard = any(w in str(d.observed) for w in ("hang", "panic", "died", "process ended")) and "parked" not in str(d.observed)
            viol("oracle" if hard else "correspondence", f"concurrent store LTS vs real store, schedule `{sname}; A={LtsPair.op_line(a)} parked at {stop}"
                 + (f" then {second}" if second else "") + f"; B={LtsPair.op_line(b)}; mfs={mfs} pool={pool}`: {d.what}: model says {d.expected!r}, the store shows {d.observed!r}",
                 dict(script=[l for l, _ in p.hs], answers=[x for _, x in p.hs], model_script=[l for l, _ in p.ds], model_answers=[x for _, x in p.ds],
                      failing_line=len(p.hs) - 1, expected=str(d.expected), observed=str(d.observed),
                      theorem="CStore.c04_safe / c04_lin / c04_pool / c04_progress (the model they are about no longer matches the code on this schedule)"))
        p.close()
