"""check.py Cxx --replay <file>: re-execute a recorded violation on the current tree.

Prints what the real code (and, where applicable, the model) answers now, next to what was recorded;
exit 1 if the recorded failure still shows, 0 if the current tree behaves as expected."""
import json
import os
import shutil

from vlib import *

NET = {"C06", "C10", "C11", "C15", "C16"}


def run(prop, path):
    r = json.load(open(path))
    ok, out = build_harness()
    if not ok:
        print("harness does not build against the current tree:\n" + out[-2000:])
        return 1
    build_iotrace()
    build_lean(["driver"])
    print(f"replay of {path}\n  property={r.get('property')} kind={r.get('kind')} signature={r.get('signature')}\n  what: {r.get('what', r.get('theorem', ''))}")
    if r.get("kind") == "proof":
        print("  this replay names a theorem / audit step that no longer checked; re-run the check itself (the Lean stage) to see whether it does now")
        return 1
    if "replay_line" in r:
        lines = [r["replay_line"]]
        try:
            impl = run_harness(["resp"], lines, timeout=120)
        except Died as d:
            impl = d.answered + [f"<process died: {d.why}>"]
        model = run_driver(lines)
        print(f"  request : {lines[0][:300]}\n  recorded: expected={r.get('expected')!r} observed={r.get('observed')!r}\n  now     : impl={impl[0]!r} model={model[0]!r}")
        return 0 if impl[0] == model[0] and "panic" not in impl[0] and "died" not in impl[0] else 1
    script = r.get("script")
    if not script:
        print("  no executable script recorded in this replay file")
        return 1
    script = [l for l in script if isinstance(l, str) and not l.endswith("...")]
    root = os.path.join(WORK, "replay-" + prop)
    shutil.rmtree(root, ignore_errors=True)
    mode = ["net", "--root", root] if prop in NET else ["store", "--root", root, "--hang-ms", "20000"]
    try:
        ans = run_harness(mode, script, preload=(prop not in NET), timeout=600)
    except Died as d:
        ans = d.answered + [f"<process died / hung: {d.why}>"]
    shutil.rmtree(root, ignore_errors=True)
    for l, a in zip(script, ans + ["<no answer>"] * (len(script) - len(ans))):
        print(f"  {l[:120]:<60} -> {a[:200]}")
    fl = r.get("failing_line")
    still = None
    if isinstance(fl, int) and fl < len(ans):
        rec_obs = str(r.get("observed", ""))
        still = bool(rec_obs) and (ans[fl].startswith(rec_obs[:60]) or rec_obs[:60] in ans[fl])
        print(f"  at line {fl} (`{script[fl][:80]}`): recorded expected={str(r.get('expected'))[:120]!r} observed={rec_obs[:120]!r}; now={ans[fl][:120]!r}")
    if len(ans) < len(script) or any("panic" in a or "hang" == a for a in ans):
        still = True
    print("  => the recorded failure " + ("STILL SHOWS" if still else "does not show on the current tree"))
    return 1 if still else 0
