//! net mode: the real server (real listener, handlers, connection, command layer) over loopback
//! TCP, on the real store wrapped so that the harness can block or panic a store call on demand.

use std::{
    collections::HashMap,
    io::{Read, Write},
    net::{Shutdown as NetShutdown, SocketAddr, TcpStream},
    path::PathBuf,
    sync::{
        atomic::{AtomicBool, AtomicUsize, Ordering},
        Arc, Condvar, Mutex,
    },
    time::{Duration, Instant},
};

use bitcask::storage::{
    bitcask::{Bitcask, Error, Handle},
    KeyValueStorage,
};
use bytes::Bytes;

use crate::store::{cfg_json, make_config};
use crate::util::*;

#[derive(Default)]
pub struct Ctl {
    pub panic_clone: AtomicBool,
    pub block: Mutex<bool>,
    pub cv: Condvar,
    pub entered: AtomicUsize,
}

pub struct WrapKV {
    inner: Handle,
    ctl: Arc<Ctl>,
}

impl Clone for WrapKV {
    fn clone(&self) -> Self {
        // one-shot: the next clone (a handler cloning the store for its command) panics
        if self.ctl.panic_clone.swap(false, Ordering::SeqCst) {
            panic!("harness: handler panic requested");
        }
        WrapKV {
            inner: self.inner.clone(),
            ctl: self.ctl.clone(),
        }
    }
}

impl WrapKV {
    fn gate(&self) {
        let mut b = self.ctl.block.lock().unwrap();
        if *b {
            self.ctl.entered.fetch_add(1, Ordering::SeqCst);
            while *b {
                b = self.ctl.cv.wait(b).unwrap();
            }
            self.ctl.entered.fetch_sub(1, Ordering::SeqCst);
        }
    }
}

impl KeyValueStorage for WrapKV {
    type Error = Error;
    fn set(&self, key: Bytes, value: Bytes) -> Result<(), Error> {
        self.gate();
        self.inner.set(key, value)
    }
    fn get(&self, key: Bytes) -> Result<Option<Bytes>, Error> {
        self.gate();
        KeyValueStorage::get(&self.inner, key)
    }
    fn del(&self, key: Bytes) -> Result<bool, Error> {
        self.gate();
        self.inner.del(key)
    }
}

pub struct Net {
    root: PathBuf,
    rt: tokio::runtime::Runtime,
    kv: Option<Bitcask>,
    handle: Option<Handle>,
    ctl: Arc<Ctl>,
    addr: Option<SocketAddr>,
    shutdown_tx: Option<tokio::sync::oneshot::Sender<()>>,
    server_task: Option<tokio::task::JoinHandle<()>>,
    server_done: Arc<AtomicBool>,
    conns: HashMap<String, TcpStream>,
    nstore: usize,
    bg_merge: Option<Arc<Mutex<Option<String>>>>,
    /// flooding clients: id -> (bytes received, how the stream ended once it has ended, requests written)
    floods: HashMap<String, Arc<Mutex<(u64, Option<&'static str>, u64)>>>,
    /// the LD_PRELOAD recorder, when it is loaded: faults on the server's store files
    io: Option<crate::store::IoTrace>,
    pub fast_fail: usize,
    timeouts: usize,
    serve_wait_ms: u64,
}

enum ReadEnd {
    Eof,
    Reset,
    Timeout,
}

/// length of the first complete reply frame in `b` (replies are never arrays), if any
fn reply_len(b: &[u8]) -> Option<usize> {
    let line_end = |from: usize| -> Option<usize> {
        let mut i = from;
        while i + 1 < b.len() {
            if b[i] == b'\r' && b[i + 1] == b'\n' {
                return Some(i);
            }
            i += 1;
        }
        None
    };
    match *b.first()? {
        b'+' | b'-' | b':' => line_end(1).map(|i| i + 2),
        b'$' => {
            let e = line_end(1)?;
            let n: i64 = std::str::from_utf8(&b[1..e]).ok()?.parse().ok()?;
            if n < 0 {
                Some(e + 2)
            } else {
                let total = e + 2 + n as usize + 2;
                if b.len() >= total {
                    Some(total)
                } else {
                    None
                }
            }
        }
        _ => Some(b.len()), // not a reply we know: hand everything over
    }
}

fn show_reply(b: &[u8]) -> String {
    match b.first() {
        Some(b'+') => format!("S:{}", hex(&b[1..b.len() - 2])),
        Some(b'-') => format!("E:{}", hex(&b[1..b.len() - 2])),
        Some(b':') => format!("I:{}", String::from_utf8_lossy(&b[1..b.len() - 2])),
        Some(b'$') => {
            if b.starts_with(b"$-1") {
                "N".into()
            } else {
                let e = b.iter().position(|c| *c == b'\r').unwrap();
                format!("B:{}", show_val(&b[e + 2..b.len() - 2]))
            }
        }
        _ => format!("?{}", hex(b)),
    }
}

impl Net {
    pub fn new(root: PathBuf) -> Self {
        Net {
            root,
            rt: tokio::runtime::Builder::new_multi_thread()
                .worker_threads(4)
                .enable_all()
                .build()
                .unwrap(),
            kv: None,
            handle: None,
            ctl: Arc::new(Ctl::default()),
            addr: None,
            shutdown_tx: None,
            server_task: None,
            server_done: Arc::new(AtomicBool::new(false)),
            conns: HashMap::new(),
            nstore: 0,
            bg_merge: None,
            floods: HashMap::new(),
            io: crate::store::IoTrace::load(),
            fast_fail: 0,
            timeouts: 0,
            serve_wait_ms: 10000,
        }
    }

    fn stop(&mut self) {
        self.conns.clear();
        *self.ctl.block.lock().unwrap() = false;
        self.ctl.cv.notify_all();
        self.ctl.panic_clone.store(false, Ordering::SeqCst);
        if let Some(tx) = self.shutdown_tx.take() {
            let _ = tx.send(());
        }
        if let Some(t) = self.server_task.take() {
            let _ = self.rt.block_on(async { tokio::time::timeout(Duration::from_secs(5), t).await });
        }
        self.handle = None;
        self.kv = None;
        self.addr = None;
    }

    fn read_some(s: &mut TcpStream, buf: &mut Vec<u8>, deadline: Instant) -> Option<ReadEnd> {
        let now = Instant::now();
        if now >= deadline {
            return Some(ReadEnd::Timeout);
        }
        let _ = s.set_read_timeout(Some(deadline - now));
        let mut tmp = [0u8; 65536];
        match s.read(&mut tmp) {
            Ok(0) => Some(ReadEnd::Eof),
            Ok(n) => {
                buf.extend_from_slice(&tmp[..n]);
                None
            }
            Err(e) if e.kind() == std::io::ErrorKind::WouldBlock || e.kind() == std::io::ErrorKind::TimedOut => {
                Some(ReadEnd::Timeout)
            }
            Err(_) => Some(ReadEnd::Reset),
        }
    }

    fn end_name(e: ReadEnd) -> &'static str {
        match e {
            ReadEnd::Eof => "eof",
            ReadEnd::Reset => "reset",
            ReadEnd::Timeout => "timeout",
        }
    }

    /// N client connections issue SET/GET/DEL on a small key pool concurrently (unique values), while a
    /// thread forces merges through a direct handle; returns the timestamped client-side history
    fn netstress(&mut self, kv: &HashMap<String, u64>) -> String {
        let clients = *kv.get("clients").unwrap_or(&4);
        let ops = *kv.get("ops").unwrap_or(&40);
        let nkeys = *kv.get("keys").unwrap_or(&2);
        let seed = *kv.get("seed").unwrap_or(&1);
        let big = *kv.get("big").unwrap_or(&10);
        // percentage of SETs and DELs in each client's mix (the rest are GETs)
        let sets = *kv.get("sets").unwrap_or(&40);
        let dels = *kv.get("dels").unwrap_or(&15);
        let Some(addr) = self.addr else { return "no-server".into() };
        let t0 = Instant::now();
        let stop = Arc::new(AtomicBool::new(false));
        let merger = {
            let h = self.handle.clone();
            let stop = stop.clone();
            std::thread::spawn(move || {
                let mut n = 0u64;
                while !stop.load(Ordering::SeqCst) {
                    if let Some(h) = &h {
                        let _ = h.verif_merge();
                        n += 1;
                    }
                    std::thread::sleep(Duration::from_micros(500));
                }
                n
            })
        };
        // preempt_us=<p> pause_us=<q>: about every p microseconds one thread of the server's runtime (its workers and its
        // blocking pool, where the store calls run) is interrupted wherever it is and sleeps >= q microseconds there
        let preempt_us = *kv.get("preempt_us").unwrap_or(&0);
        let pause_us = *kv.get("pause_us").unwrap_or(&20);
        let injector = if preempt_us > 0 {
            crate::conc::install_pause_handler(pause_us);
            let stop = stop.clone();
            Some(std::thread::spawn(move || {
                let pid = unsafe { libc::getpid() };
                let mut x = seed ^ 0x5851_F42D_4C95_7F2D | 1;
                let mut tids: Vec<i32> = vec![];
                let (mut n, mut round) = (0u64, 0u64);
                while !stop.load(Ordering::SeqCst) {
                    if round % 64 == 0 {
                        tids.clear();
                        if let Ok(rd) = std::fs::read_dir("/proc/self/task") {
                            for e in rd.flatten() {
                                let comm = std::fs::read_to_string(e.path().join("comm")).unwrap_or_default();
                                if comm.starts_with("tokio-runtime-w") {
                                    if let Ok(t) = e.file_name().to_string_lossy().parse::<i32>() {
                                        tids.push(t);
                                    }
                                }
                            }
                        }
                    }
                    round += 1;
                    x ^= x << 13;
                    x ^= x >> 7;
                    x ^= x << 17;
                    if !tids.is_empty() {
                        let t = tids[(x % tids.len() as u64) as usize];
                        // a thread of the blocking pool may have ended meanwhile: tgkill then fails with ESRCH, harmlessly
                        unsafe {
                            libc::syscall(libc::SYS_tgkill, pid as libc::c_long, t as libc::c_long, libc::SIGUSR1 as libc::c_long);
                        }
                        n += 1;
                    }
                    let until = Instant::now() + Duration::from_micros(preempt_us / 2 + x % preempt_us.max(1));
                    while Instant::now() < until {
                        std::hint::spin_loop();
                    }
                }
                n
            }))
        } else {
            None
        };
        let mut joins = vec![];
        // all clients send their first command together, after everybody has connected
        let start = Arc::new(std::sync::Barrier::new(clients as usize));
        for tid in 0..clients {
            let start = start.clone();
            joins.push(std::thread::spawn(move || {
                let mut out = vec![];
                let conn = TcpStream::connect(addr);
                start.wait();
                let Ok(mut s) = conn else { return vec![format!("{} connect - - 0 0 err", tid)] };
                let _ = s.set_nodelay(true);
                let mut x: u64 = seed.wrapping_mul(0x9E3779B97F4A7C15) ^ (tid + 1).wrapping_mul(0xD1B54A32D192ED03) | 1;
                let mut next = move || {
                    x ^= x << 13;
                    x ^= x >> 7;
                    x ^= x << 17;
                    x
                };
                let mut buf = vec![];
                for seq in 0..ops {
                    let key = format!("k{}", next() % nkeys);
                    let r = next() % 100;
                    let (kind, arg, req) = if r < sets {
                        let size = if next() % 100 < big { 9000usize } else { 8 + (next() % 30) as usize };
                        let mut v = Vec::with_capacity(size);
                        v.extend_from_slice(&((tid << 32) | seq).to_be_bytes());
                        while v.len() < size {
                            v.push((tid as u8) ^ (seq as u8));
                        }
                        let mut rq = format!("*3\r\n$3\r\nSET\r\n${}\r\n{}\r\n${}\r\n", key.len(), key, v.len()).into_bytes();
                        rq.extend_from_slice(&v);
                        rq.extend_from_slice(b"\r\n");
                        ("put", format!("{}.{}", tid, seq), rq)
                    } else if r < sets + dels {
                        ("del", "-".to_string(), format!("*2\r\n$3\r\nDEL\r\n${}\r\n{}\r\n", key.len(), key).into_bytes())
                    } else {
                        ("get", "-".to_string(), format!("*2\r\n$3\r\nGET\r\n${}\r\n{}\r\n", key.len(), key).into_bytes())
                    };
                    let inv = t0.elapsed().as_nanos();
                    if s.write_all(&req).is_err() {
                        out.push(format!("{} {} {} {} {} {} err:send", tid, kind, key, arg, inv, inv));
                        break;
                    }
                    let deadline = Instant::now() + Duration::from_secs(20);
                    let mut res = None;
                    loop {
                        if let Some(l) = reply_len(&buf) {
                            if l > 0 && l <= buf.len() && !(buf[0] == b'$' && l == buf.len() && !buf.ends_with(b"\r\n")) {
                                let frame: Vec<u8> = buf.drain(..l).collect();
                                res = Some(frame);
                                break;
                            }
                        }
                        if let Some(e) = Net::read_some(&mut s, &mut buf, deadline) {
                            out.push(format!("{} {} {} {} {} {} err:{}", tid, kind, key, arg, inv, t0.elapsed().as_nanos(), Net::end_name(e)));
                            return out;
                        }
                    }
                    let resp = t0.elapsed().as_nanos();
                    let frame = res.unwrap();
                    let shown = match (kind, frame.first()) {
                        ("put", Some(b'+')) => "ok".to_string(),
                        ("del", Some(b':')) => if &frame[1..frame.len() - 2] == b"1" { "true".into() } else if &frame[1..frame.len() - 2] == b"0" { "false".into() } else { format!("err:count{}", String::from_utf8_lossy(&frame[1..frame.len() - 2])) },
                        ("get", Some(b'$')) => {
                            if frame.starts_with(b"$-1") {
                                "nil".into()
                            } else {
                                let e = frame.iter().position(|c| *c == b'\r').unwrap();
                                let v = &frame[e + 2..frame.len() - 2];
                                if v.len() >= 8 {
                                    let id = u64::from_be_bytes(v[..8].try_into().unwrap());
                                    let ok = v[8..].iter().all(|b| *b == ((id >> 32) as u8) ^ (id as u8));
                                    format!("{}.{}{}", id >> 32, id & 0xffff_ffff, if ok { "" } else { "!corrupt" })
                                } else {
                                    format!("?{}", hex(v))
                                }
                            }
                        }
                        _ => format!("err:reply{}", hex(&frame[..frame.len().min(16)])),
                    };
                    out.push(format!("{} {} {} {} {} {} {}", tid, kind, key, arg, inv, resp, shown));
                }
                out
            }));
        }
        let mut hist = vec![];
        for j in joins {
            if let Ok(v) = j.join() {
                hist.extend(v);
            }
        }
        stop.store(true, Ordering::SeqCst);
        let n = merger.join().unwrap_or(0);
        hist.push(format!("m merges - - 0 0 {}", n));
        if let Some(j) = injector {
            hist.push(format!("i preemptions - - 0 0 {}", j.join().unwrap_or(0)));
        }
        hist.join(";")
    }

    pub fn step(&mut self, toks: &[&str]) -> String {
        // `--fast-fail n` (sessions in which a correct server never lets a read time out): once n reads have timed out the
        // server is plainly not answering any more, and every later read waits 250 ms instead of its 5-10 s, so that the
        // session ends in minutes and the check can say what it saw
        let reading = matches!(toks.first().copied(), Some("c.read" | "c.readraw" | "c.readall" | "serve"));
        let fast = self.fast_fail > 0 && self.timeouts >= self.fast_fail;
        let mut toks2: Vec<&str> = toks.to_vec();
        if fast && reading && toks[0] != "serve" {
            if let Some(last) = toks2.last_mut() {
                *last = "250";
            }
        }
        self.serve_wait_ms = if fast { 250 } else { 10000 };
        let a = self.step_inner(&toks2).unwrap_or_else(|| "bad-op".into());
        if reading && a.contains("timeout") {
            self.timeouts += 1;
        }
        a
    }

    fn step_inner(&mut self, toks: &[&str]) -> Option<String> {
        match toks {
            ["srv.start", rest @ ..] => {
                self.stop();
                let mut max = 128usize;
                // the listener's accept(2) back-off (milliseconds)
                let (mut bmin, mut bmax) = (10u64, 100u64);
                let mut cfg_toks = vec![];
                let mut keep = false;
                for t in rest {
                    if let Some(v) = t.strip_prefix("max=") {
                        max = v.parse().ok()?;
                    } else if let Some(v) = t.strip_prefix("bmin=") {
                        bmin = v.parse().ok()?;
                    } else if let Some(v) = t.strip_prefix("bmax=") {
                        bmax = v.parse().ok()?;
                    } else if *t == "keep" {
                        // a restart: the directory of the previous server is opened again
                        keep = true;
                    } else {
                        cfg_toks.push(*t);
                    }
                }
                if !keep {
                    self.nstore += 1;
                }
                let dir = self.root.join(format!("netstore{}", self.nstore));
                if !keep {
                    let _ = std::fs::remove_dir_all(&dir);
                }
                std::fs::create_dir_all(&dir).ok()?;
                if let Some(io) = &self.io {
                    io.set_dir(&dir);
                    io.reset();
                }
                let conf = make_config(&cfg_json(&cfg_toks)?, &dir).ok()?;
                let kv = conf.open().ok()?;
                let handle = kv.get_handle();
                self.ctl = Arc::new(Ctl::default());
                let wrapped = WrapKV {
                    inner: handle.clone(),
                    ctl: self.ctl.clone(),
                };
                let netconf: bitcask::net::Config = serde_json::from_value(serde_json::json!({
                    "host": "127.0.0.1", "port": 0, "min_backoff_ms": bmin, "max_backoff_ms": bmax, "max_connections": max
                }))
                .ok()?;
                let (tx, rx) = tokio::sync::oneshot::channel::<()>();
                let server = self
                    .rt
                    .block_on(netconf.async_server(wrapped, async move {
                        let _ = rx.await;
                    }))
                    .ok()?;
                self.addr = Some(server.verif_local_addr().ok()?);
                let done = Arc::new(AtomicBool::new(false));
                self.server_done = done.clone();
                self.server_task = Some(self.rt.spawn(async move {
                    server.run().await;
                    done.store(true, Ordering::SeqCst);
                }));
                self.shutdown_tx = Some(tx);
                self.kv = Some(kv);
                self.handle = Some(handle);
                Some("ok".into())
            }
            ["srv.stop"] => {
                self.stop();
                Some("ok".into())
            }
            ["srv.shutdown", deadline_ms] => {
                let d: u64 = deadline_ms.parse().ok()?;
                let tx = self.shutdown_tx.take()?;
                let _ = tx.send(());
                let t = self.server_task.take()?;
                let t0 = Instant::now();
                let r = self.rt.block_on(async { tokio::time::timeout(Duration::from_millis(d), t).await });
                Some(match r {
                    Ok(Ok(())) => {
                        let _ = t0;
                        "returned".to_string()
                    }
                    Ok(Err(_)) => "run-panicked".into(),
                    Err(_) => "timeout".into(),
                })
            }
            ["srv.signal"] => {
                let tx = self.shutdown_tx.take()?;
                let _ = tx.send(());
                Some("ok".into())
            }
            ["srv.wait", deadline_ms] => {
                let d: u64 = deadline_ms.parse().ok()?;
                let t0 = Instant::now();
                loop {
                    if self.server_done.load(Ordering::SeqCst) {
                        return Some("returned".into());
                    }
                    if t0.elapsed() >= Duration::from_millis(d) {
                        return Some("timeout".into());
                    }
                    std::thread::sleep(Duration::from_millis(2));
                }
            }
            ["c.drain", id, ms] => {
                // discard whatever arrives within `ms`
                let deadline = Instant::now() + Duration::from_millis(ms.parse().ok()?);
                let s = self.conns.get_mut(*id)?;
                let mut buf = vec![];
                let end = loop {
                    if let Some(e) = Self::read_some(s, &mut buf, deadline) {
                        break e;
                    }
                };
                Some(format!("drained {} {}", buf.len(), Self::end_name(end)))
            }
            ["netstress", rest @ ..] => {
                let mut kv = HashMap::new();
                for t in rest {
                    let (k, v) = t.split_once('=')?;
                    kv.insert(k.to_string(), v.parse::<u64>().ok()?);
                }
                Some(self.netstress(&kv))
            }
            ["srv.alive"] => Some(
                match &self.server_task {
                    Some(_) if !self.server_done.load(Ordering::SeqCst) => "alive",
                    Some(_) => "finished",
                    None => "none",
                }
                .into(),
            ),
            ["serve", segs, rest @ ..] => {
                // one connection: send the segments, half-close, read everything until the end
                let gap_ms: u64 = rest.first().and_then(|s| s.parse().ok()).unwrap_or(1);
                let parts: Vec<Vec<u8>> = if *segs == "." {
                    vec![]
                } else {
                    segs.split('|').map(unhex).collect::<Option<Vec<_>>>()?
                };
                let mut s = TcpStream::connect(self.addr?).ok()?;
                let _ = s.set_nodelay(true);
                let mut write_failed = false;
                for (i, p) in parts.iter().enumerate() {
                    if s.write_all(p).is_err() {
                        write_failed = true;
                        break;
                    }
                    let _ = s.flush();
                    if i + 1 < parts.len() && gap_ms > 0 {
                        std::thread::sleep(Duration::from_millis(gap_ms));
                    }
                }
                let _ = s.shutdown(NetShutdown::Write);
                let mut buf = vec![];
                let deadline = Instant::now() + Duration::from_millis(self.serve_wait_ms);
                let end = loop {
                    if let Some(e) = Self::read_some(&mut s, &mut buf, deadline) {
                        break e;
                    }
                };
                let _ = write_failed;
                Some(format!("{} {}", hex_tok(&buf), Self::end_name(end)))
            }
            ["c.open", id] => {
                let s = TcpStream::connect(self.addr?).ok()?;
                let _ = s.set_nodelay(true);
                self.conns.insert(id.to_string(), s);
                Some("ok".into())
            }
            ["io.fault", n, errno] => {
                // the n-th call from now on one of the store's files fails with errno (once)
                let io = self.io.as_ref()?;
                let n: i64 = n.parse().ok()?;
                io.fail_at(io.seq() + n, errno.parse().ok()?);
                Some("ok".into())
            }
            ["io.failaccepts", n, errno] => {
                // the next n accept(2) calls of the process fail with errno (EMFILE = 24, ECONNABORTED = 103, ...)
                let io = self.io.as_ref()?;
                io.fail_accepts(n.parse().ok()?, errno.parse().ok()?);
                Some("ok".into())
            }
            ["io.failedaccepts"] => Some(match &self.io {
                Some(io) => format!("{}", io.failed_accepts()),
                None => "no-iotrace".into(),
            }),
            ["io.seq"] => Some(match &self.io {
                Some(io) => format!("{}", io.seq()),
                None => "no-iotrace".into(),
            }),
            ["c.sendbig", id, key, byte, count] => {
                // SET <key> <byte x count> without putting the value on the request line
                let key = unhex(key)?;
                let b = unhex(byte)?;
                let n: usize = count.parse().ok()?;
                let mut rq = format!("*3\r\n$3\r\nSET\r\n${}\r\n", key.len()).into_bytes();
                rq.extend_from_slice(&key);
                rq.extend_from_slice(format!("\r\n${}\r\n", n).as_bytes());
                rq.extend(std::iter::repeat(*b.first()?).take(n));
                rq.extend_from_slice(b"\r\n");
                let s = self.conns.get_mut(*id)?;
                Some(match s.write_all(&rq).and_then(|_| s.flush()) {
                    Ok(()) => "ok".into(),
                    Err(_) => "send-error".into(),
                })
            }
            ["c.send", id, h] => {
                let b = unhex(h)?;
                let s = self.conns.get_mut(*id)?;
                Some(match s.write_all(&b).and_then(|_| s.flush()) {
                    Ok(()) => "ok".into(),
                    Err(_) => "send-error".into(),
                })
            }
            ["c.read", id, n, timeout_ms] => {
                // read n reply frames
                let n: usize = n.parse().ok()?;
                let deadline = Instant::now() + Duration::from_millis(timeout_ms.parse().ok()?);
                let s = self.conns.get_mut(*id)?;
                let mut buf = vec![];
                let mut out = vec![];
                let mut end = None;
                while out.len() < n {
                    while let Some(l) = reply_len(&buf) {
                        if l == 0 {
                            break;
                        }
                        out.push(show_reply(&buf[..l]));
                        buf.drain(..l);
                        if out.len() == n {
                            break;
                        }
                    }
                    if out.len() == n {
                        break;
                    }
                    if let Some(e) = Self::read_some(s, &mut buf, deadline) {
                        end = Some(e);
                        break;
                    }
                }
                if let Some(e) = end {
                    if !buf.is_empty() {
                        out.push(format!("partial:{}", hex(&buf)));
                    }
                    out.push(Self::end_name(e).into());
                }
                Some(if out.is_empty() { "-".into() } else { out.join(";") })
            }
            ["c.readall", id, timeout_ms] => {
                let deadline = Instant::now() + Duration::from_millis(timeout_ms.parse().ok()?);
                let s = self.conns.get_mut(*id)?;
                let mut buf = vec![];
                let end = loop {
                    if let Some(e) = Self::read_some(s, &mut buf, deadline) {
                        break e;
                    }
                };
                Some(format!("{} {}", show_val(&buf), Self::end_name(end)))
            }
            ["c.readraw", id, timeout_ms] => {
                let deadline = Instant::now() + Duration::from_millis(timeout_ms.parse().ok()?);
                let s = self.conns.get_mut(*id)?;
                let mut buf = vec![];
                let end = loop {
                    if let Some(e) = Self::read_some(s, &mut buf, deadline) {
                        break e;
                    }
                };
                Some(format!("{} {}", hex_tok(&buf), Self::end_name(end)))
            }
            ["c.halfclose", id] => {
                let s = self.conns.get_mut(*id)?;
                let _ = s.shutdown(NetShutdown::Write);
                Some("ok".into())
            }
            ["cl.call", op, rest @ ..] => {
                // the client library against a one-shot scripted server: `cl.call get <k> reply=<hex|eof>` etc.
                // answers what the call returns and the request bytes the client sent
                let reply = rest.last()?.strip_prefix("reply=")?.to_string();
                let args = &rest[..rest.len() - 1];
                let reply_bytes = if reply == "eof" { vec![] } else { unhex(&reply)? };
                let listener = std::net::TcpListener::bind("127.0.0.1:0").ok()?;
                let addr = listener.local_addr().ok()?;
                let srv = std::thread::spawn(move || {
                    let mut got = vec![];
                    if let Ok((mut s, _)) = listener.accept() {
                        // the request is complete when nothing more arrives for a moment
                        let _ = s.set_read_timeout(Some(Duration::from_millis(150)));
                        let mut tmp = [0u8; 65536];
                        loop {
                            match s.read(&mut tmp) {
                                Ok(0) => break,
                                Ok(n) => got.extend_from_slice(&tmp[..n]),
                                Err(_) => break,
                            }
                        }
                        let _ = s.write_all(&reply_bytes);
                        let _ = s.shutdown(NetShutdown::Both);
                    }
                    got
                });
                let key_of = |h: &str| -> Option<String> { String::from_utf8(unhex(h)?).ok() };
                let out = self.rt.block_on(async {
                    let mut c = match bitcask::net::Client::connect(addr).await {
                        Ok(c) => c,
                        Err(e) => return Some(format!("err connect {}", e)),
                    };
                    let show_err = |e: bitcask::net::Error| -> String {
                        let t = format!("{:?}", e);
                        match e {
                            bitcask::net::Error::Storage(m) => format!("err storage:{}", hex_tok(m.to_string().as_bytes())),
                            bitcask::net::Error::Command(_) => "err badframe".into(),
                            bitcask::net::Error::Frame(_) => "err frame".into(),
                            bitcask::net::Error::Io(_) => "err reset".into(),
                            #[allow(unreachable_patterns)]
                            _ => format!("err other {}", t),
                        }
                    };
                    Some(match (*op, args) {
                        ("get", [k]) => match c.get(key_of(k)?).await {
                            Ok(Some(v)) => format!("ok B:{}", hex_tok(&v)),
                            Ok(None) => "ok N".into(),
                            Err(e) => show_err(e),
                        },
                        ("set", [k, v]) => match c.set(key_of(k)?, Bytes::from(unhex(v)?)).await {
                            Ok(()) => "ok".into(),
                            Err(e) => show_err(e),
                        },
                        ("del", [ks]) => {
                            let keys: Option<Vec<String>> = ks.split(',').map(key_of).collect();
                            match c.del(keys?).await {
                                Ok(n) => format!("ok I:{}", n),
                                Err(e) => show_err(e),
                            }
                        }
                        _ => return None,
                    })
                })?;
                let req = srv.join().unwrap_or_default();
                Some(format!("{} req={}", out, hex_tok(&req)))
            }
            ["c.close", id] => {
                self.conns.remove(*id)?;
                Some("ok".into())
            }
            ["c.flood", id, req] => {
                // a client that never pauses: one thread writes the request over and over, another reads whatever comes
                // back, until the stream ends
                let s = self.conns.remove(*id)?;
                let req = unhex(req)?;
                let st = Arc::new(Mutex::new((0u64, None, 0u64)));
                self.floods.insert(id.to_string(), st.clone());
                let mut w = s.try_clone().ok()?;
                let st_w = st.clone();
                std::thread::spawn(move || {
                    let mut n = 0u64;
                    while w.write_all(&req).is_ok() {
                        n += 1;
                        if n % 64 == 0 {
                            st_w.lock().unwrap().2 = n;
                        }
                    }
                    st_w.lock().unwrap().2 = n;
                });
                let mut r = s;
                std::thread::spawn(move || {
                    let mut tmp = [0u8; 65536];
                    let _ = r.set_read_timeout(Some(Duration::from_secs(60)));
                    let end = loop {
                        match r.read(&mut tmp) {
                            Ok(0) => break "eof",
                            Ok(n) => st.lock().unwrap().0 += n as u64,
                            Err(e) if e.kind() == std::io::ErrorKind::WouldBlock || e.kind() == std::io::ErrorKind::TimedOut => break "timeout",
                            Err(_) => break "reset",
                        }
                    };
                    st.lock().unwrap().1 = Some(end);
                });
                Some("ok".into())
            }
            ["c.flood.end", id, ms] => {
                let st = self.floods.get(*id)?.clone();
                let deadline = Instant::now() + Duration::from_millis(ms.parse().ok()?);
                loop {
                    let (bytes, end, sent) = *st.lock().unwrap();
                    if let Some(e) = end {
                        return Some(format!("bytes={} sent={} {}", bytes, sent, e));
                    }
                    if Instant::now() >= deadline {
                        return Some(format!("bytes={} sent={} still-open", bytes, sent));
                    }
                    std::thread::sleep(Duration::from_millis(5));
                }
            }
            ["c.abort", id] => {
                // abortive close: SO_LINGER 0 makes close() send RST instead of FIN
                use std::os::unix::io::AsRawFd;
                let s = self.conns.remove(*id)?;
                let lg = libc::linger { l_onoff: 1, l_linger: 0 };
                unsafe {
                    libc::setsockopt(
                        s.as_raw_fd(),
                        libc::SOL_SOCKET,
                        libc::SO_LINGER,
                        &lg as *const libc::linger as *const libc::c_void,
                        std::mem::size_of::<libc::linger>() as libc::socklen_t,
                    );
                }
                drop(s);
                Some("ok".into())
            }
            ["kv.get", k] => {
                let h = self.handle.as_ref()?;
                Some(match KeyValueStorage::get(h, Bytes::from(unhex(k)?)) {
                    Ok(Some(v)) => show_val(&v),
                    Ok(None) => "nil".into(),
                    Err(e) => format!("err {}", crate::store::err_kind(&e)),
                })
            }
            ["kv.merge.bg"] => {
                // start a merge pass on its own thread (it may have to wait for readers)
                let h = self.handle.as_ref()?.clone();
                let done = Arc::new(Mutex::new(None::<String>));
                let d2 = done.clone();
                // (a named thread: schedule points only park threads that have a name)
                let _ = std::thread::Builder::new().name("kv-merge".into()).spawn(move || {
                    let r = match h.verif_merge() {
                        Ok(()) => "ok".to_string(),
                        Err(e) => format!("err {}", crate::store::err_kind(&e)),
                    };
                    *d2.lock().unwrap() = Some(r);
                });
                self.bg_merge = Some(done);
                Some("ok".into())
            }
            ["kv.merge.join", ms] => {
                let deadline = Instant::now() + Duration::from_millis(ms.parse().ok()?);
                let d = self.bg_merge.as_ref()?.clone();
                loop {
                    if let Some(r) = d.lock().unwrap().clone() {
                        return Some(format!("done {}", r));
                    }
                    if Instant::now() >= deadline {
                        return Some("timeout".into());
                    }
                    std::thread::sleep(Duration::from_millis(2));
                }
            }
            ["kv.merge"] => {
                let h = self.handle.as_ref()?;
                Some(match h.verif_merge() {
                    Ok(()) => "ok".into(),
                    Err(e) => format!("err {}", crate::store::err_kind(&e)),
                })
            }
            ["ctl.block", onoff] => {
                *self.ctl.block.lock().unwrap() = *onoff == "on";
                self.ctl.cv.notify_all();
                Some("ok".into())
            }
            ["ctl.panic", onoff] => {
                self.ctl.panic_clone.store(*onoff == "on", Ordering::SeqCst);
                Some("ok".into())
            }
            ["ctl.entered", want, timeout_ms] => {
                // wait until `want` store calls are blocked inside the gate
                let want: usize = want.parse().ok()?;
                let deadline = Instant::now() + Duration::from_millis(timeout_ms.parse().ok()?);
                loop {
                    let n = self.ctl.entered.load(Ordering::SeqCst);
                    if n >= want {
                        return Some(format!("entered {}", n));
                    }
                    if Instant::now() >= deadline {
                        return Some(format!("entered {} timeout", n));
                    }
                    std::thread::sleep(Duration::from_millis(2));
                }
            }
            ["np.park", point, nth] => {
                crate::conc::install(None);
                crate::conc::park_plan("*", point, nth.parse().ok()?);
                Some("ok".into())
            }
            ["np.wait", ms] => Some(crate::conc::wait_parked("*", ms.parse().ok()?)),
            ["np.release"] => {
                crate::conc::release("*");
                Some("ok".into())
            }
            ["sleep", ms] => {
                std::thread::sleep(Duration::from_millis(ms.parse().ok()?));
                Some("ok".into())
            }
            _ => None,
        }
    }
}
