//! net mode: the real server (real listener, handlers, connection, command layer) over loopback
//! TCP, on the real store wrapped so that the harness can block or panic a store call on demand.

use std::{
    collections::HashMap,
    io::{Read, Write},
    net::{Shutdown as NetShutdown, SocketAddr, TcpStream},
    path::PathBuf,
    sync::{
        atomic::{AtomicBool, AtomicUsize, Ordering},
        Arc, Condvar, Mutex,
    },
    time::{Duration, Instant},
};

use bitcask::storage::{
    bitcask::{Bitcask, Error, Handle},
    KeyValueStorage,
};
use bytes::Bytes;

use crate::store::{cfg_json, make_config};
use crate::util::*;

#[derive(Default)]
pub struct Ctl {
    pub panic_clone: AtomicBool,
    pub block: Mutex<bool>,
    pub cv: Condvar,
    pub entered: AtomicUsize,
}

pub struct WrapKV {
    inner: Handle,
    ctl: Arc<Ctl>,
}

impl Clone for WrapKV {
    fn clone(&self) -> Self {
        if self.ctl.panic_clone.load(Ordering::SeqCst) {
            panic!("harness: handler panic requested");
        }
        WrapKV {
            inner: self.inner.clone(),
            ctl: self.ctl.clone(),
        }
    }
}

impl WrapKV {
    fn gate(&self) {
        let mut b = self.ctl.block.lock().unwrap();
        if *b {
            self.ctl.entered.fetch_add(1, Ordering::SeqCst);
            while *b {
                b = self.ctl.cv.wait(b).unwrap();
            }
            self.ctl.entered.fetch_sub(1, Ordering::SeqCst);
        }
    }
}

impl KeyValueStorage for WrapKV {
    type Error = Error;
    fn set(&self, key: Bytes, value: Bytes) -> Result<(), Error> {
        self.gate();
        self.inner.set(key, value)
    }
    fn get(&self, key: Bytes) -> Result<Option<Bytes>, Error> {
        self.gate();
        KeyValueStorage::get(&self.inner, key)
    }
    fn del(&self, key: Bytes) -> Result<bool, Error> {
        self.gate();
        self.inner.del(key)
    }
}

pub struct Net {
    root: PathBuf,
    rt: tokio::runtime::Runtime,
    kv: Option<Bitcask>,
    handle: Option<Handle>,
    ctl: Arc<Ctl>,
    addr: Option<SocketAddr>,
    shutdown_tx: Option<tokio::sync::oneshot::Sender<()>>,
    server_task: Option<tokio::task::JoinHandle<()>>,
    server_done: Arc<AtomicBool>,
    conns: HashMap<String, TcpStream>,
    nstore: usize,
}

enum ReadEnd {
    Eof,
    Reset,
    Timeout,
}

/// length of the first complete reply frame in `b` (replies are never arrays), if any
fn reply_len(b: &[u8]) -> Option<usize> {
    let line_end = |from: usize| -> Option<usize> {
        let mut i = from;
        while i + 1 < b.len() {
            if b[i] == b'\r' && b[i + 1] == b'\n' {
                return Some(i);
            }
            i += 1;
        }
        None
    };
    match *b.first()? {
        b'+' | b'-' | b':' => line_end(1).map(|i| i + 2),
        b'$' => {
            let e = line_end(1)?;
            let n: i64 = std::str::from_utf8(&b[1..e]).ok()?.parse().ok()?;
            if n < 0 {
                Some(e + 2)
            } else {
                let total = e + 2 + n as usize + 2;
                if b.len() >= total {
                    Some(total)
                } else {
                    None
                }
            }
        }
        _ => Some(b.len()), // not a reply we know: hand everything over
    }
}

fn show_reply(b: &[u8]) -> String {
    match b.first() {
        Some(b'+') => format!("S:{}", hex(&b[1..b.len() - 2])),
        Some(b'-') => format!("E:{}", hex(&b[1..b.len() - 2])),
        Some(b':') => format!("I:{}", String::from_utf8_lossy(&b[1..b.len() - 2])),
        Some(b'$') => {
            if b.starts_with(b"$-1") {
                "N".into()
            } else {
                let e = b.iter().position(|c| *c == b'\r').unwrap();
                format!("B:{}", show_val(&b[e + 2..b.len() - 2]))
            }
        }
        _ => format!("?{}", hex(b)),
    }
}

impl Net {
    pub fn new(root: PathBuf) -> Self {
        Net {
            root,
            rt: tokio::runtime::Builder::new_multi_thread()
                .worker_threads(4)
                .enable_all()
                .build()
                .unwrap(),
            kv: None,
            handle: None,
            ctl: Arc::new(Ctl::default()),
            addr: None,
            shutdown_tx: None,
            server_task: None,
            server_done: Arc::new(AtomicBool::new(false)),
            conns: HashMap::new(),
            nstore: 0,
        }
    }

    fn stop(&mut self) {
        self.conns.clear();
        *self.ctl.block.lock().unwrap() = false;
        self.ctl.cv.notify_all();
        self.ctl.panic_clone.store(false, Ordering::SeqCst);
        if let Some(tx) = self.shutdown_tx.take() {
            let _ = tx.send(());
        }
        if let Some(t) = self.server_task.take() {
            let _ = self.rt.block_on(async { tokio::time::timeout(Duration::from_secs(5), t).await });
        }
        self.handle = None;
        self.kv = None;
        self.addr = None;
    }

    fn read_some(s: &mut TcpStream, buf: &mut Vec<u8>, deadline: Instant) -> Option<ReadEnd> {
        let now = Instant::now();
        if now >= deadline {
            return Some(ReadEnd::Timeout);
        }
        let _ = s.set_read_timeout(Some(deadline - now));
        let mut tmp = [0u8; 65536];
        match s.read(&mut tmp) {
            Ok(0) => Some(ReadEnd::Eof),
            Ok(n) => {
                buf.extend_from_slice(&tmp[..n]);
                None
            }
            Err(e) if e.kind() == std::io::ErrorKind::WouldBlock || e.kind() == std::io::ErrorKind::TimedOut => {
                Some(ReadEnd::Timeout)
            }
            Err(_) => Some(ReadEnd::Reset),
        }
    }

    fn end_name(e: ReadEnd) -> &'static str {
        match e {
            ReadEnd::Eof => "eof",
            ReadEnd::Reset => "reset",
            ReadEnd::Timeout => "timeout",
        }
    }

    pub fn step(&mut self, toks: &[&str]) -> String {
        self.step_inner(toks).unwrap_or_else(|| "bad-op".into())
    }

    fn step_inner(&mut self, toks: &[&str]) -> Option<String> {
        match toks {
            ["srv.start", rest @ ..] => {
                self.stop();
                let mut max = 128usize;
                let mut cfg_toks = vec![];
                for t in rest {
                    if let Some(v) = t.strip_prefix("max=") {
                        max = v.parse().ok()?;
                    } else {
                        cfg_toks.push(*t);
                    }
                }
                self.nstore += 1;
                let dir = self.root.join(format!("netstore{}", self.nstore));
                let _ = std::fs::remove_dir_all(&dir);
                std::fs::create_dir_all(&dir).ok()?;
                let conf = make_config(&cfg_json(&cfg_toks)?, &dir).ok()?;
                let kv = conf.open().ok()?;
                let handle = kv.get_handle();
                self.ctl = Arc::new(Ctl::default());
                let wrapped = WrapKV {
                    inner: handle.clone(),
                    ctl: self.ctl.clone(),
                };
                let netconf: bitcask::net::Config = serde_json::from_value(serde_json::json!({
                    "host": "127.0.0.1", "port": 0, "min_backoff_ms": 10, "max_backoff_ms": 100, "max_connections": max
                }))
                .ok()?;
                let (tx, rx) = tokio::sync::oneshot::channel::<()>();
                let server = self
                    .rt
                    .block_on(netconf.async_server(wrapped, async move {
                        let _ = rx.await;
                    }))
                    .ok()?;
                self.addr = Some(server.verif_local_addr().ok()?);
                let done = Arc::new(AtomicBool::new(false));
                self.server_done = done.clone();
                self.server_task = Some(self.rt.spawn(async move {
                    server.run().await;
                    done.store(true, Ordering::SeqCst);
                }));
                self.shutdown_tx = Some(tx);
                self.kv = Some(kv);
                self.handle = Some(handle);
                Some("ok".into())
            }
            ["srv.stop"] => {
                self.stop();
                Some("ok".into())
            }
            ["srv.shutdown", deadline_ms] => {
                let d: u64 = deadline_ms.parse().ok()?;
                let tx = self.shutdown_tx.take()?;
                let _ = tx.send(());
                let t = self.server_task.take()?;
                let t0 = Instant::now();
                let r = self.rt.block_on(async { tokio::time::timeout(Duration::from_millis(d), t).await });
                Some(match r {
                    Ok(Ok(())) => {
                        let _ = t0;
                        "returned".to_string()
                    }
                    Ok(Err(_)) => "run-panicked".into(),
                    Err(_) => "timeout".into(),
                })
            }
            ["srv.alive"] => Some(
                match &self.server_task {
                    Some(_) if !self.server_done.load(Ordering::SeqCst) => "alive",
                    Some(_) => "finished",
                    None => "none",
                }
                .into(),
            ),
            ["serve", segs, rest @ ..] => {
                // one connection: send the segments, half-close, read everything until the end
                let gap_ms: u64 = rest.first().and_then(|s| s.parse().ok()).unwrap_or(1);
                let parts: Vec<Vec<u8>> = if *segs == "." {
                    vec![]
                } else {
                    segs.split('|').map(unhex).collect::<Option<Vec<_>>>()?
                };
                let mut s = TcpStream::connect(self.addr?).ok()?;
                let _ = s.set_nodelay(true);
                let mut write_failed = false;
                for (i, p) in parts.iter().enumerate() {
                    if s.write_all(p).is_err() {
                        write_failed = true;
                        break;
                    }
                    let _ = s.flush();
                    if i + 1 < parts.len() && gap_ms > 0 {
                        std::thread::sleep(Duration::from_millis(gap_ms));
                    }
                }
                let _ = s.shutdown(NetShutdown::Write);
                let mut buf = vec![];
                let deadline = Instant::now() + Duration::from_secs(10);
                let end = loop {
                    if let Some(e) = Self::read_some(&mut s, &mut buf, deadline) {
                        break e;
                    }
                };
                let _ = write_failed;
                Some(format!("{} {}", hex_tok(&buf), Self::end_name(end)))
            }
            ["c.open", id] => {
                let s = TcpStream::connect(self.addr?).ok()?;
                let _ = s.set_nodelay(true);
                self.conns.insert(id.to_string(), s);
                Some("ok".into())
            }
            ["c.send", id, h] => {
                let b = unhex(h)?;
                let s = self.conns.get_mut(*id)?;
                Some(match s.write_all(&b).and_then(|_| s.flush()) {
                    Ok(()) => "ok".into(),
                    Err(_) => "send-error".into(),
                })
            }
            ["c.read", id, n, timeout_ms] => {
                // read n reply frames
                let n: usize = n.parse().ok()?;
                let deadline = Instant::now() + Duration::from_millis(timeout_ms.parse().ok()?);
                let s = self.conns.get_mut(*id)?;
                let mut buf = vec![];
                let mut out = vec![];
                let mut end = None;
                while out.len() < n {
                    while let Some(l) = reply_len(&buf) {
                        if l == 0 {
                            break;
                        }
                        out.push(show_reply(&buf[..l]));
                        buf.drain(..l);
                        if out.len() == n {
                            break;
                        }
                    }
                    if out.len() == n {
                        break;
                    }
                    if let Some(e) = Self::read_some(s, &mut buf, deadline) {
                        end = Some(e);
                        break;
                    }
                }
                if let Some(e) = end {
                    if !buf.is_empty() {
                        out.push(format!("partial:{}", hex(&buf)));
                    }
                    out.push(Self::end_name(e).into());
                }
                Some(if out.is_empty() { "-".into() } else { out.join(";") })
            }
            ["c.readall", id, timeout_ms] => {
                let deadline = Instant::now() + Duration::from_millis(timeout_ms.parse().ok()?);
                let s = self.conns.get_mut(*id)?;
                let mut buf = vec![];
                let end = loop {
                    if let Some(e) = Self::read_some(s, &mut buf, deadline) {
                        break e;
                    }
                };
                Some(format!("{} {}", show_val(&buf), Self::end_name(end)))
            }
            ["c.readraw", id, timeout_ms] => {
                let deadline = Instant::now() + Duration::from_millis(timeout_ms.parse().ok()?);
                let s = self.conns.get_mut(*id)?;
                let mut buf = vec![];
                let end = loop {
                    if let Some(e) = Self::read_some(s, &mut buf, deadline) {
                        break e;
                    }
                };
                Some(format!("{} {}", hex_tok(&buf), Self::end_name(end)))
            }
            ["c.halfclose", id] => {
                let s = self.conns.get_mut(*id)?;
                let _ = s.shutdown(NetShutdown::Write);
                Some("ok".into())
            }
            ["c.close", id] => {
                self.conns.remove(*id)?;
                Some("ok".into())
            }
            ["kv.get", k] => {
                let h = self.handle.as_ref()?;
                Some(match KeyValueStorage::get(h, Bytes::from(unhex(k)?)) {
                    Ok(Some(v)) => show_val(&v),
                    Ok(None) => "nil".into(),
                    Err(e) => format!("err {}", crate::store::err_kind(&e)),
                })
            }
            ["kv.merge"] => {
                let h = self.handle.as_ref()?;
                Some(match h.verif_merge() {
                    Ok(()) => "ok".into(),
                    Err(e) => format!("err {}", crate::store::err_kind(&e)),
                })
            }
            ["ctl.block", onoff] => {
                *self.ctl.block.lock().unwrap() = *onoff == "on";
                self.ctl.cv.notify_all();
                Some("ok".into())
            }
            ["ctl.panic", onoff] => {
                self.ctl.panic_clone.store(*onoff == "on", Ordering::SeqCst);
                Some("ok".into())
            }
            ["ctl.entered", want, timeout_ms] => {
                // wait until `want` store calls are blocked inside the gate
                let want: usize = want.parse().ok()?;
                let deadline = Instant::now() + Duration::from_millis(timeout_ms.parse().ok()?);
                loop {
                    let n = self.ctl.entered.load(Ordering::SeqCst);
                    if n >= want {
                        return Some(format!("entered {}", n));
                    }
                    if Instant::now() >= deadline {
                        return Some(format!("entered {} timeout", n));
                    }
                    std::thread::sleep(Duration::from_millis(2));
                }
            }
            ["sleep", ms] => {
                std::thread::sleep(Duration::from_millis(ms.parse().ok()?));
                Some("ok".into())
            }
            _ => None,
        }
    }
}
