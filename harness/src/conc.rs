//! Concurrency support for store mode: named worker threads that can be parked at the crate's
//! `verif::point` schedule points and before any `write(2)` on a store file (iotrace hook), and a
//! free-running stress workload that records a timestamped history.

use std::{
    cell::RefCell,
    collections::HashMap,
    ffi::c_char,
    panic::{catch_unwind, AssertUnwindSafe},
    sync::{
        atomic::{AtomicBool, AtomicU64, Ordering},
        Arc, Condvar, Mutex,
    },
    time::{Duration, Instant},
};

use bitcask::storage::{bitcask::Handle, KeyValueStorage};
use bytes::Bytes;

use crate::store::err_kind;
use crate::util::*;

thread_local! {
    static TNAME: RefCell<Option<String>> = RefCell::new(None);
}

#[derive(Default)]
struct Park {
    /// thread -> list of (point, remaining hits before parking)
    plan: HashMap<String, Vec<(String, u32)>>,
    /// thread -> point it is parked at
    parked: HashMap<String, String>,
    /// threads released since they parked
    released: HashMap<String, bool>,
}

static PARK: Mutex<Option<Park>> = Mutex::new(None);
static PARK_CV: Condvar = Condvar::new();

fn with_park<R>(f: impl FnOnce(&mut Park) -> R) -> R {
    let mut g = PARK.lock().unwrap();
    if g.is_none() {
        *g = Some(Park::default());
    }
    f(g.as_mut().unwrap())
}

/// busy writer (`bw.start <hold ms>` / `bw.stop`): a thread that issues sets back to back and sits `hold` ms inside each
/// of them, between the append and the index publish, i.e. while it holds the writer lock
static BW_HOLD_MS: AtomicU64 = AtomicU64::new(0);
static BW_STOP: AtomicBool = AtomicBool::new(false);
static BW_PUTS: AtomicU64 = AtomicU64::new(0);

pub fn bw_start(h: Handle, hold_ms: u64) -> std::thread::JoinHandle<()> {
    BW_HOLD_MS.store(hold_ms, Ordering::SeqCst);
    BW_STOP.store(false, Ordering::SeqCst);
    BW_PUTS.store(0, Ordering::SeqCst);
    std::thread::spawn(move || {
        TNAME.with(|n| *n.borrow_mut() = Some("BW".to_string()));
        let mut i = 0u64;
        while !BW_STOP.load(Ordering::SeqCst) {
            let _ = catch_unwind(AssertUnwindSafe(|| h.set(Bytes::from_static(b"bw"), Bytes::from(i.to_be_bytes().to_vec()))));
            i += 1;
            BW_PUTS.store(i, Ordering::SeqCst);
        }
    })
}

pub fn bw_stop() -> u64 {
    BW_STOP.store(true, Ordering::SeqCst);
    BW_HOLD_MS.store(0, Ordering::SeqCst);
    BW_PUTS.load(Ordering::SeqCst)
}

fn hit(point: &str) {
    if point == "put.before_publish" {
        let hold = BW_HOLD_MS.load(Ordering::SeqCst);
        if hold > 0 && TNAME.with(|t| t.borrow().as_deref() == Some("BW")) {
            std::thread::sleep(Duration::from_millis(hold));
        }
    }
    // harness worker threads carry an explicit name; other threads (the store's background thread)
    // are known by their OS thread name
    let name = match TNAME.with(|t| t.borrow().clone()) {
        Some(n) => n,
        None => match std::thread::current().name() {
            Some(n) => n.to_string(),
            None => return,
        },
    };
    let mut g = PARK.lock().unwrap();
    let Some(p) = g.as_mut() else { return };
    let mut park_here = false;
    // a plan for "*" applies to whichever thread reaches the point first
    let key = if p.plan.contains_key(&name) { name.clone() } else { "*".to_string() };
    let name = if key == "*" { "*".to_string() } else { name };
    if let Some(plan) = p.plan.get_mut(&key) {
        if let Some(pos) = plan.iter().position(|(pt, _)| pt == point) {
            if plan[pos].1 <= 1 {
                plan.remove(pos);
                park_here = true;
            } else {
                plan[pos].1 -= 1;
            }
        }
    }
    if park_here {
        p.parked.insert(name.clone(), point.to_string());
        p.released.insert(name.clone(), false);
        PARK_CV.notify_all();
        loop {
            g = PARK_CV.wait(g).unwrap();
            let p = g.as_mut().unwrap();
            if p.released.get(&name).copied().unwrap_or(true) {
                p.parked.remove(&name);
                PARK_CV.notify_all();
                break;
            }
        }
    }
}

extern "C" fn write_hook(_name: *const c_char, _len: usize) {
    hit("io.write");
}

pub fn park_plan(t: &str, point: &str, nth: u32) {
    with_park(|p| p.plan.entry(t.to_string()).or_default().push((point.to_string(), nth)));
}

pub fn wait_parked(t: &str, ms: u64) -> String {
    let mut th = Threads::default();
    th.wait(t, ms)
}

pub fn release(t: &str) {
    with_park(|p| {
        p.released.insert(t.to_string(), true);
    });
    PARK_CV.notify_all();
}

pub fn install(io: Option<&crate::store::IoTrace>) {
    bitcask::verif::set_point_hook(Some(Box::new(|name| hit(name))));
    if let Some(io) = io {
        unsafe { (io.set_write_hook)(Some(write_hook)) };
    }
}

pub struct Worker {
    pub join: Option<std::thread::JoinHandle<()>>,
    pub result: Arc<Mutex<Option<String>>>,
}

#[derive(Default)]
pub struct Threads {
    pub workers: HashMap<String, Worker>,
}

pub fn run_op(h: &Handle, op: &[String]) -> String {
    let r = catch_unwind(AssertUnwindSafe(|| match op.iter().map(|s| s.as_str()).collect::<Vec<_>>().as_slice() {
        ["put", k, v] => match h.set(Bytes::from(unhex(k).unwrap()), Bytes::from(val_tok(v).unwrap())) {
            Ok(()) => "ok".to_string(),
            Err(e) => format!("err {}", err_kind(&e)),
        },
        ["del", k] => match h.del(Bytes::from(unhex(k).unwrap())) {
            Ok(b) => b.to_string(),
            Err(e) => format!("err {}", err_kind(&e)),
        },
        ["get", k] => match KeyValueStorage::get(h, Bytes::from(unhex(k).unwrap())) {
            Ok(Some(v)) => show_val(&v),
            Ok(None) => "nil".into(),
            Err(e) => format!("err {}", err_kind(&e)),
        },
        ["merge"] => match h.verif_merge() {
            Ok(()) => "ok".into(),
            Err(e) => format!("err {}", err_kind(&e)),
        },
        _ => "bad-op".into(),
    }));
    r.unwrap_or_else(|_| "panic".into())
}

impl Threads {
    pub fn park(&mut self, t: &str, point: &str, nth: u32) {
        with_park(|p| p.plan.entry(t.to_string()).or_default().push((point.to_string(), nth)));
    }

    pub fn spawn(&mut self, t: &str, h: Handle, op: Vec<String>) {
        let result = Arc::new(Mutex::new(None));
        let r2 = result.clone();
        let name = t.to_string();
        let join = std::thread::spawn(move || {
            TNAME.with(|n| *n.borrow_mut() = Some(name.clone()));
            let r = run_op(&h, &op);
            *r2.lock().unwrap() = Some(r);
            let _g = PARK.lock().unwrap();
            PARK_CV.notify_all();
        });
        self.workers.insert(t.to_string(), Worker { join: Some(join), result });
    }

    /// wait until the thread is parked or has finished
    pub fn wait(&mut self, t: &str, ms: u64) -> String {
        let deadline = Instant::now() + Duration::from_millis(ms);
        // threads the harness did not spawn (the store's background thread) can only be seen parking
        let w = self.workers.get(t);
        let mut g = PARK.lock().unwrap();
        loop {
            if let Some(r) = w.and_then(|w| w.result.lock().unwrap().clone()) {
                return format!("done {}", r);
            }
            if let Some(p) = g.as_ref() {
                if let Some(pt) = p.parked.get(t) {
                    if !p.released.get(t).copied().unwrap_or(false) {
                        return format!("parked {}", pt);
                    }
                }
            }
            let now = Instant::now();
            if now >= deadline {
                return "timeout".into();
            }
            g = PARK_CV.wait_timeout(g, (deadline - now).min(Duration::from_millis(20))).unwrap().0;
        }
    }

    pub fn release(&mut self, t: &str) -> String {
        with_park(|p| {
            p.released.insert(t.to_string(), true);
        });
        PARK_CV.notify_all();
        "ok".into()
    }

    pub fn join(&mut self, t: &str, ms: u64) -> String {
        let deadline = Instant::now() + Duration::from_millis(ms);
        let Some(w) = self.workers.get_mut(t) else { return "no-such-thread".into() };
        loop {
            if let Some(r) = w.result.lock().unwrap().clone() {
                if let Some(j) = w.join.take() {
                    let _ = j.join();
                }
                return format!("done {}", r);
            }
            if Instant::now() >= deadline {
                return "timeout".into();
            }
            std::thread::sleep(Duration::from_millis(1));
        }
    }

    pub fn reset(&mut self) {
        with_park(|p| {
            for (_, v) in p.released.iter_mut() {
                *v = true;
            }
            p.plan.clear();
        });
        PARK_CV.notify_all();
        self.workers.clear();
    }
}

// ---------------------------------------------------------------------------------------------
// free-running stress with a timestamped history

static STOP: AtomicBool = AtomicBool::new(false);
/// set by the watchdog when nothing has moved for a while: spinning readers then sleep between two gets. The index's shard
/// lock is a reader-preferring spin lock; on a machine with more runnable threads than cores a reader can be descheduled
/// while it holds the lock and the others keep taking it, so a writer may get nowhere for seconds without anything being
/// deadlocked. A deadlock stays one when the readers step back; starvation ends.
static RELAX: AtomicBool = AtomicBool::new(false);

/// value written by (thread, seq): 8 identifying bytes + padding
fn stress_value(tid: u64, seq: u64, size: usize) -> Vec<u8> {
    let mut v = Vec::with_capacity(size.max(8));
    v.extend_from_slice(&((tid << 32) | seq).to_be_bytes());
    while v.len() < size {
        v.push((tid as u8) ^ (seq as u8));
    }
    v
}

fn value_id(v: &[u8]) -> String {
    if v.len() >= 8 {
        let id = u64::from_be_bytes(v[..8].try_into().unwrap());
        let ok = v[8..].iter().all(|b| *b == ((id >> 32) as u8) ^ (id as u8));
        format!("{}.{}{}", id >> 32, id & 0xffff_ffff, if ok { "" } else { "!corrupt" })
    } else {
        format!("?{}", hex(v))
    }
}

struct Rng(u64);
impl Rng {
    fn next(&mut self) -> u64 {
        self.0 ^= self.0 << 13;
        self.0 ^= self.0 >> 7;
        self.0 ^= self.0 << 17;
        self.0
    }
}

static PAUSE_NS: AtomicU64 = AtomicU64::new(0);

/// SIGUSR1 handler of the preemption injector: the interrupted thread sleeps for PAUSE_NS (nanosleep is
/// async-signal-safe), i.e. it is "descheduled" at whatever instruction the signal happened to hit
extern "C" fn pause_handler(_sig: libc::c_int) {
    let ns = PAUSE_NS.load(Ordering::Relaxed);
    if ns > 0 {
        let ts = libc::timespec { tv_sec: 0, tv_nsec: ns as _ };
        unsafe {
            libc::nanosleep(&ts, std::ptr::null_mut());
        }
    }
}

pub fn install_pause_handler(pause_us: u64) {
    PAUSE_NS.store(pause_us * 1000, Ordering::SeqCst);
    unsafe {
        let mut sa: libc::sigaction = std::mem::zeroed();
        sa.sa_sigaction = pause_handler as usize;
        sa.sa_flags = libc::SA_RESTART;
        libc::sigemptyset(&mut sa.sa_mask);
        libc::sigaction(libc::SIGUSR1, &sa, std::ptr::null_mut());
    }
}

/// `stress writers=<n> readers=<n> mergers=<n> ops=<per thread> keys=<n> seed=<n> big=<percent>`
/// returns history lines `tid kind key arg inv_ns resp_ns result`, joined by `;`
pub fn stress(h: &Handle, kv: &HashMap<String, u64>, hang_ms: u64) -> String {
    let writers = *kv.get("writers").unwrap_or(&2);
    let readers = *kv.get("readers").unwrap_or(&2);
    let mergers = *kv.get("mergers").unwrap_or(&1);
    let ops = *kv.get("ops").unwrap_or(&50);
    let nkeys = *kv.get("keys").unwrap_or(&3);
    let seed = *kv.get("seed").unwrap_or(&1);
    let big = *kv.get("big").unwrap_or(&20);
    // percentage of deletes among a writer's operations
    let dels = *kv.get("dels").unwrap_or(&25);
    // spin=1: readers do not stop after `ops` gets but keep reading, as fast as they can, until every writer has
    // finished; they record a get when its result differs from the one they recorded last, and otherwise now and
    // then (leaving reads out of a history keeps it linearizable if it was, so the check stays sound)
    let spin = *kv.get("spin").unwrap_or(&0) != 0;
    // a spinning reader also records a get when `every_us` microseconds have passed since the one it recorded last
    let every_ns = (*kv.get("every_us").unwrap_or(&100) as u128) * 1000;
    // with spin=1 a writer keeps writing after its `ops` operations until `minms` ms have passed (at most 20 x ops)
    let minms = *kv.get("minms").unwrap_or(&0) as u128;
    // a spinning reader waits this long between two gets (the index's shard lock is a reader-preferring spin lock:
    // readers that never pause starve the writer)
    let rgap_ns = *kv.get("rgap_ns").unwrap_or(&0) as u128;
    let writers_left = Arc::new(AtomicU64::new(writers));
    // preempt_us=<p> pause_us=<q> target=w|r|all: a separate thread interrupts the chosen worker threads about every p
    // microseconds at whatever instruction they are executing and makes them sleep q microseconds there, as a loaded
    // machine would; windows of a few instructions between two steps of an operation are held open that way
    let preempt_us = *kv.get("preempt_us").unwrap_or(&0);
    let pause_us = *kv.get("pause_us").unwrap_or(&30);
    let target = *kv.get("target").unwrap_or(&0); // 0 = writers, 1 = readers, 2 = all
    let victims: Arc<Mutex<Vec<libc::pthread_t>>> = Arc::new(Mutex::new(vec![]));
    if preempt_us > 0 {
        install_pause_handler(pause_us);
    }
    let t0 = Instant::now();
    let hist: Arc<Mutex<Vec<String>>> = Arc::new(Mutex::new(vec![]));
    let progress = Arc::new(AtomicU64::new(0));
    STOP.store(false, Ordering::SeqCst);
    let mut joins = vec![];
    // all worker threads start their first operation together (a thread that is spawned first must not finish
    // its whole script before the others exist)
    let start = Arc::new(std::sync::Barrier::new((writers + readers) as usize));
    for tid in 0..(writers + readers) {
        let h = h.clone();
        let hist = hist.clone();
        let progress = progress.clone();
        let is_writer = tid < writers;
        let start = start.clone();
        let writers_left = writers_left.clone();
        let victims = victims.clone();
        joins.push(std::thread::spawn(move || {
            if preempt_us > 0 && (target == 2 || (target == 0) == is_writer) {
                victims.lock().unwrap().push(unsafe { libc::pthread_self() });
            }
            start.wait();
            let mut rng = Rng(seed.wrapping_mul(0x9E3779B97F4A7C15) ^ (tid + 1).wrapping_mul(0xD1B54A32D192ED03) | 1);
            // the loop does as little as possible besides the store call (keys are made up front, results are
            // formatted afterwards), so that threads really contend inside the store
            enum R {
                Unit(Result<(), &'static str>),
                Flag(Result<bool, &'static str>),
                Val(Result<Option<Bytes>, &'static str>),
                Panic,
            }
            let keys: Vec<(String, Bytes)> = (0..nkeys).map(|i| (format!("k{}", i), Bytes::from(format!("k{}", i)))).collect();
            let mut raw: Vec<(&'static str, usize, String, u128, u128, R)> = Vec::with_capacity(ops as usize);
            let mut last_rec: Option<Option<Bytes>> = None;
            let mut last_rec_at: u128 = 0;
            let mut seq = 0u64;
            loop {
                if !spin {
                    if seq >= ops {
                        break;
                    }
                } else if is_writer {
                    if (seq >= ops && t0.elapsed().as_millis() >= minms) || seq >= ops * 20 {
                        break;
                    }
                } else if writers_left.load(Ordering::Relaxed) == 0 {
                    break;
                }
                let ki = (rng.next() % nkeys) as usize;
                let key = keys[ki].1.clone();
                let r = rng.next() % 100;
                let (kind, arg, val) = if is_writer {
                    if r < dels {
                        ("del", String::new(), None)
                    } else {
                        let size = if rng.next() % 100 < big { [8191usize, 8192, 9000, 20000][(rng.next() % 4) as usize] } else { 8 + (rng.next() % 40) as usize };
                        ("put", format!("{}.{}", tid, seq), Some(Bytes::from(stress_value(tid, seq, size))))
                    }
                } else {
                    ("get", String::new(), None)
                };
                let inv = t0.elapsed().as_nanos();
                let res = catch_unwind(AssertUnwindSafe(|| match kind {
                    "put" => R::Unit(h.set(key, val.unwrap()).map_err(|e| err_kind(&e))),
                    "del" => R::Flag(h.del(key).map_err(|e| err_kind(&e))),
                    _ => R::Val(KeyValueStorage::get(&h, key).map_err(|e| err_kind(&e))),
                }))
                .unwrap_or(R::Panic);
                let resp = t0.elapsed().as_nanos();
                seq += 1;
                if !is_writer && spin {
                    if rgap_ns > 0 {
                        while t0.elapsed().as_nanos() < resp + rgap_ns {
                            std::hint::spin_loop();
                        }
                    }
                    if RELAX.load(Ordering::Relaxed) {
                        std::thread::sleep(Duration::from_millis(1));
                    }
                    let keep = match &res {
                        R::Val(Ok(v)) => {
                            let changed = last_rec.as_ref() != Some(v);
                            if changed || resp - last_rec_at >= every_ns {
                                last_rec = Some(v.clone());
                                last_rec_at = resp;
                                true
                            } else {
                                false
                            }
                        }
                        _ => true,
                    };
                    if keep && raw.len() < (ops * 40) as usize {
                        raw.push((kind, ki, arg, inv, resp, res));
                    }
                    if seq <= ops {
                        progress.fetch_add(1, Ordering::Relaxed);
                    }
                    continue;
                }
                raw.push((kind, ki, arg, inv, resp, res));
                progress.fetch_add(1, Ordering::Relaxed);
            }
            if preempt_us > 0 {
                // no signal may be sent to a thread that has ended
                let me = unsafe { libc::pthread_self() };
                victims.lock().unwrap().retain(|t| *t != me);
            }
            if is_writer {
                writers_left.fetch_sub(1, Ordering::SeqCst);
            } else if spin {
                // the watchdog counts `ops` steps per thread
                while seq < ops {
                    seq += 1;
                    progress.fetch_add(1, Ordering::Relaxed);
                }
            }
            let mut local = Vec::with_capacity(raw.len());
            for (kind, ki, arg, inv, resp, res) in raw {
                let res = match res {
                    R::Unit(Ok(())) => "ok".to_string(),
                    R::Flag(Ok(b)) => b.to_string(),
                    R::Val(Ok(Some(v))) => value_id(&v),
                    R::Val(Ok(None)) => "nil".into(),
                    R::Unit(Err(e)) | R::Flag(Err(e)) | R::Val(Err(e)) => format!("err:{}", e),
                    R::Panic => "panic".into(),
                };
                local.push(format!("{} {} {} {} {} {} {}", tid, kind, keys[ki].0, if arg.is_empty() { "-" } else { &arg }, inv, resp, res));
            }
            hist.lock().unwrap().extend(local);
        }));
    }
    let inj_stop = Arc::new(AtomicU64::new(0));
    let injector = if preempt_us > 0 {
        let victims = victims.clone();
        let inj_stop = inj_stop.clone();
        Some(std::thread::spawn(move || {
            let mut rng = Rng(seed ^ 0xA076_1D64_78BD_642F | 1);
            let mut n = 0u64;
            while inj_stop.load(Ordering::SeqCst) == 0 {
                {
                    // under the lock: a thread on the list has not passed its deregistration, so it is alive
                    let v = victims.lock().unwrap();
                    if !v.is_empty() {
                        let t = v[(rng.next() % v.len() as u64) as usize];
                        unsafe {
                            libc::pthread_kill(t, libc::SIGUSR1);
                        }
                        n += 1;
                    }
                }
                let wait = preempt_us / 2 + rng.next() % preempt_us.max(1);
                let until = Instant::now() + Duration::from_micros(wait);
                while Instant::now() < until {
                    std::hint::spin_loop();
                }
            }
            n
        }))
    } else {
        None
    };
    let mut merge_joins = vec![];
    for _ in 0..mergers {
        let h = h.clone();
        let hist = hist.clone();
        merge_joins.push(std::thread::spawn(move || {
            let mut n = 0;
            while !STOP.load(Ordering::SeqCst) {
                let r = catch_unwind(AssertUnwindSafe(|| h.verif_merge()));
                n += 1;
                match r {
                    Ok(Ok(())) => {}
                    Ok(Err(e)) => hist.lock().unwrap().push(format!("m merge - - 0 0 err:{}", err_kind(&e))),
                    Err(_) => hist.lock().unwrap().push("m merge - - 0 0 panic".into()),
                }
                std::thread::sleep(Duration::from_micros(300));
            }
            hist.lock().unwrap().push(format!("m merges - - 0 0 {}", n));
        }));
    }
    // watchdog: no progress for hang_ms => hang
    let total = (writers + readers) * ops;
    let mut last = (0u64, Instant::now());
    let mut hung = false;
    RELAX.store(false, Ordering::SeqCst);
    loop {
        let p = progress.load(Ordering::SeqCst);
        if p >= total {
            break;
        }
        if p != last.0 {
            last = (p, Instant::now());
        } else if last.1.elapsed() > Duration::from_millis(hang_ms) {
            if !RELAX.swap(true, Ordering::SeqCst) {
                // first expiry: make the spinning readers step back and wait once more
                last = (p, Instant::now());
            } else {
                hung = true;
                break;
            }
        }
        std::thread::sleep(Duration::from_millis(5));
    }
    STOP.store(true, Ordering::SeqCst);
    RELAX.store(false, Ordering::SeqCst);
    if hung {
        let done = hist.lock().unwrap().join(";");
        return format!("HANG after {} of {} ops;{}", progress.load(Ordering::SeqCst), total, done);
    }
    for j in joins {
        let _ = j.join();
    }
    inj_stop.store(1, Ordering::SeqCst);
    if let Some(j) = injector {
        if let Ok(n) = j.join() {
            hist.lock().unwrap().push(format!("i preemptions - - 0 0 {}", n));
        }
    }
    for j in merge_joins {
        let _ = j.join();
    }
    let v = hist.lock().unwrap();
    v.join(";")
}
