//! Concurrency support for store mode: named worker threads that can be parked at the crate's
//! `verif::point` schedule points and before any `write(2)` on a store file (iotrace hook), and a
//! free-running stress workload that records a timestamped history.

use std::{
    cell::RefCell,
    collections::HashMap,
    ffi::c_char,
    panic::{catch_unwind, AssertUnwindSafe},
    sync::{
        atomic::{AtomicBool, AtomicU64, Ordering},
        Arc, Condvar, Mutex,
    },
    time::{Duration, Instant},
};

use bitcask::storage::{bitcask::Handle, KeyValueStorage};
use bytes::Bytes;

use crate::store::err_kind;
use crate::util::*;

thread_local! {
    static TNAME: RefCell<Option<String>> = RefCell::new(None);
}

#[derive(Default)]
struct Park {
    /// thread -> list of (point, remaining hits before parking)
    plan: HashMap<String, Vec<(String, u32)>>,
    /// thread -> point it is parked at
    parked: HashMap<String, String>,
    /// threads released since they parked
    released: HashMap<String, bool>,
}

static PARK: Mutex<Option<Park>> = Mutex::new(None);
static PARK_CV: Condvar = Condvar::new();

fn with_park<R>(f: impl FnOnce(&mut Park) -> R) -> R {
    let mut g = PARK.lock().unwrap();
    if g.is_none() {
        *g = Some(Park::default());
    }
    f(g.as_mut().unwrap())
}

fn hit(point: &str) {
    // harness worker threads carry an explicit name; other threads (the store's background thread)
    // are known by their OS thread name
    let name = match TNAME.with(|t| t.borrow().clone()) {
        Some(n) => n,
        None => match std::thread::current().name() {
            Some(n) => n.to_string(),
            None => return,
        },
    };
    let mut g = PARK.lock().unwrap();
    let Some(p) = g.as_mut() else { return };
    let mut park_here = false;
    // a plan for "*" applies to whichever thread reaches the point first
    let key = if p.plan.contains_key(&name) { name.clone() } else { "*".to_string() };
    let name = if key == "*" { "*".to_string() } else { name };
    if let Some(plan) = p.plan.get_mut(&key) {
        if let Some(pos) = plan.iter().position(|(pt, _)| pt == point) {
            if plan[pos].1 <= 1 {
                plan.remove(pos);
                park_here = true;
            } else {
                plan[pos].1 -= 1;
            }
        }
    }
    if park_here {
        p.parked.insert(name.clone(), point.to_string());
        p.released.insert(name.clone(), false);
        PARK_CV.notify_all();
        loop {
            g = PARK_CV.wait(g).unwrap();
            let p = g.as_mut().unwrap();
            if p.released.get(&name).copied().unwrap_or(true) {
                p.parked.remove(&name);
                PARK_CV.notify_all();
                break;
            }
        }
    }
}

extern "C" fn write_hook(_name: *const c_char, _len: usize) {
    hit("io.write");
}

pub fn park_plan(t: &str, point: &str, nth: u32) {
    with_park(|p| p.plan.entry(t.to_string()).or_default().push((point.to_string(), nth)));
}

pub fn wait_parked(t: &str, ms: u64) -> String {
    let mut th = Threads::default();
    th.wait(t, ms)
}

pub fn release(t: &str) {
    with_park(|p| {
        p.released.insert(t.to_string(), true);
    });
    PARK_CV.notify_all();
}

pub fn install(io: Option<&crate::store::IoTrace>) {
    bitcask::verif::set_point_hook(Some(Box::new(|name| hit(name))));
    if let Some(io) = io {
        unsafe { (io.set_write_hook)(Some(write_hook)) };
    }
}

pub struct Worker {
    pub join: Option<std::thread::JoinHandle<()>>,
    pub result: Arc<Mutex<Option<String>>>,
}

#[derive(Default)]
pub struct Threads {
    pub workers: HashMap<String, Worker>,
}

pub fn run_op(h: &Handle, op: &[String]) -> String {
    let r = catch_unwind(AssertUnwindSafe(|| match op.iter().map(|s| s.as_str()).collect::<Vec<_>>().as_slice() {
        ["put", k, v] => match h.set(Bytes::from(unhex(k).unwrap()), Bytes::from(val_tok(v).unwrap())) {
            Ok(()) => "ok".to_string(),
            Err(e) => format!("err {}", err_kind(&e)),
        },
        ["del", k] => match h.del(Bytes::from(unhex(k).unwrap())) {
            Ok(b) => b.to_string(),
            Err(e) => format!("err {}", err_kind(&e)),
        },
        ["get", k] => match KeyValueStorage::get(h, Bytes::from(unhex(k).unwrap())) {
            Ok(Some(v)) => show_val(&v),
            Ok(None) => "nil".into(),
            Err(e) => format!("err {}", err_kind(&e)),
        },
        ["merge"] => match h.verif_merge() {
            Ok(()) => "ok".into(),
            Err(e) => format!("err {}", err_kind(&e)),
        },
        _ => "bad-op".into(),
    }));
    r.unwrap_or_else(|_| "panic".into())
}

impl Threads {
    pub fn park(&mut self, t: &str, point: &str, nth: u32) {
        with_park(|p| p.plan.entry(t.to_string()).or_default().push((point.to_string(), nth)));
    }

    pub fn spawn(&mut self, t: &str, h: Handle, op: Vec<String>) {
        let result = Arc::new(Mutex::new(None));
        let r2 = result.clone();
        let name = t.to_string();
        let join = std::thread::spawn(move || {
            TNAME.with(|n| *n.borrow_mut() = Some(name.clone()));
            let r = run_op(&h, &op);
            *r2.lock().unwrap() = Some(r);
            let _g = PARK.lock().unwrap();
            PARK_CV.notify_all();
        });
        self.workers.insert(t.to_string(), Worker { join: Some(join), result });
    }

    /// wait until the thread is parked or has finished
    pub fn wait(&mut self, t: &str, ms: u64) -> String {
        let deadline = Instant::now() + Duration::from_millis(ms);
        // threads the harness did not spawn (the store's background thread) can only be seen parking
        let w = self.workers.get(t);
        let mut g = PARK.lock().unwrap();
        loop {
            if let Some(r) = w.and_then(|w| w.result.lock().unwrap().clone()) {
                return format!("done {}", r);
            }
            if let Some(p) = g.as_ref() {
                if let Some(pt) = p.parked.get(t) {
                    if !p.released.get(t).copied().unwrap_or(false) {
                        return format!("parked {}", pt);
                    }
                }
            }
            let now = Instant::now();
            if now >= deadline {
                return "timeout".into();
            }
            g = PARK_CV.wait_timeout(g, (deadline - now).min(Duration::from_millis(20))).unwrap().0;
        }
    }

    pub fn release(&mut self, t: &str) -> String {
        with_park(|p| {
            p.released.insert(t.to_string(), true);
        });
        PARK_CV.notify_all();
        "ok".into()
    }

    pub fn join(&mut self, t: &str, ms: u64) -> String {
        let deadline = Instant::now() + Duration::from_millis(ms);
        let Some(w) = self.workers.get_mut(t) else { return "no-such-thread".into() };
        loop {
            if let Some(r) = w.result.lock().unwrap().clone() {
                if let Some(j) = w.join.take() {
                    let _ = j.join();
                }
                return format!("done {}", r);
            }
            if Instant::now() >= deadline {
                return "timeout".into();
            }
            std::thread::sleep(Duration::from_millis(1));
        }
    }

    pub fn reset(&mut self) {
        with_park(|p| {
            for (_, v) in p.released.iter_mut() {
                *v = true;
            }
            p.plan.clear();
        });
        PARK_CV.notify_all();
        self.workers.clear();
    }
}

// ---------------------------------------------------------------------------------------------
// free-running stress with a timestamped history

static STOP: AtomicBool = AtomicBool::new(false);

/// value written by (thread, seq): 8 identifying bytes + padding
fn stress_value(tid: u64, seq: u64, size: usize) -> Vec<u8> {
    let mut v = Vec::with_capacity(size.max(8));
    v.extend_from_slice(&((tid << 32) | seq).to_be_bytes());
    while v.len() < size {
        v.push((tid as u8) ^ (seq as u8));
    }
    v
}

fn value_id(v: &[u8]) -> String {
    if v.len() >= 8 {
        let id = u64::from_be_bytes(v[..8].try_into().unwrap());
        let ok = v[8..].iter().all(|b| *b == ((id >> 32) as u8) ^ (id as u8));
        format!("{}.{}{}", id >> 32, id & 0xffff_ffff, if ok { "" } else { "!corrupt" })
    } else {
        format!("?{}", hex(v))
    }
}

struct Rng(u64);
impl Rng {
    fn next(&mut self) -> u64 {
        self.0 ^= self.0 << 13;
        self.0 ^= self.0 >> 7;
        self.0 ^= self.0 << 17;
        self.0
    }
}

/// `stress writers=<n> readers=<n> mergers=<n> ops=<per thread> keys=<n> seed=<n> big=<percent>`
/// returns history lines `tid kind key arg inv_ns resp_ns result`, joined by `;`
pub fn stress(h: &Handle, kv: &HashMap<String, u64>, hang_ms: u64) -> String {
    let writers = *kv.get("writers").unwrap_or(&2);
    let readers = *kv.get("readers").unwrap_or(&2);
    let mergers = *kv.get("mergers").unwrap_or(&1);
    let ops = *kv.get("ops").unwrap_or(&50);
    let nkeys = *kv.get("keys").unwrap_or(&3);
    let seed = *kv.get("seed").unwrap_or(&1);
    let big = *kv.get("big").unwrap_or(&20);
    let t0 = Instant::now();
    let hist: Arc<Mutex<Vec<String>>> = Arc::new(Mutex::new(vec![]));
    let progress = Arc::new(AtomicU64::new(0));
    STOP.store(false, Ordering::SeqCst);
    let mut joins = vec![];
    for tid in 0..(writers + readers) {
        let h = h.clone();
        let hist = hist.clone();
        let progress = progress.clone();
        let is_writer = tid < writers;
        joins.push(std::thread::spawn(move || {
            let mut rng = Rng(seed.wrapping_mul(0x9E3779B97F4A7C15) ^ (tid + 1).wrapping_mul(0xD1B54A32D192ED03) | 1);
            let mut local = vec![];
            for seq in 0..ops {
                let key = format!("k{}", rng.next() % nkeys);
                let r = rng.next() % 100;
                let (kind, arg, val) = if is_writer {
                    if r < 25 {
                        ("del", "-".to_string(), None)
                    } else {
                        let size = if rng.next() % 100 < big { [8191usize, 8192, 9000, 20000][(rng.next() % 4) as usize] } else { 8 + (rng.next() % 40) as usize };
                        ("put", format!("{}.{}", tid, seq), Some(stress_value(tid, seq, size)))
                    }
                } else {
                    ("get", "-".to_string(), None)
                };
                let inv = t0.elapsed().as_nanos();
                let res = catch_unwind(AssertUnwindSafe(|| match kind {
                    "put" => match h.set(Bytes::from(key.clone()), Bytes::from(val.clone().unwrap())) {
                        Ok(()) => "ok".to_string(),
                        Err(e) => format!("err:{}", err_kind(&e)),
                    },
                    "del" => match h.del(Bytes::from(key.clone())) {
                        Ok(b) => b.to_string(),
                        Err(e) => format!("err:{}", err_kind(&e)),
                    },
                    _ => match KeyValueStorage::get(&h, Bytes::from(key.clone())) {
                        Ok(Some(v)) => value_id(&v),
                        Ok(None) => "nil".into(),
                        Err(e) => format!("err:{}", err_kind(&e)),
                    },
                }))
                .unwrap_or_else(|_| "panic".into());
                let resp = t0.elapsed().as_nanos();
                local.push(format!("{} {} {} {} {} {} {}", tid, kind, key, arg, inv, resp, res));
                progress.fetch_add(1, Ordering::SeqCst);
            }
            hist.lock().unwrap().extend(local);
        }));
    }
    let mut merge_joins = vec![];
    for _ in 0..mergers {
        let h = h.clone();
        let hist = hist.clone();
        merge_joins.push(std::thread::spawn(move || {
            let mut n = 0;
            while !STOP.load(Ordering::SeqCst) {
                let r = catch_unwind(AssertUnwindSafe(|| h.verif_merge()));
                n += 1;
                match r {
                    Ok(Ok(())) => {}
                    Ok(Err(e)) => hist.lock().unwrap().push(format!("m merge - - 0 0 err:{}", err_kind(&e))),
                    Err(_) => hist.lock().unwrap().push("m merge - - 0 0 panic".into()),
                }
                std::thread::sleep(Duration::from_micros(300));
            }
            hist.lock().unwrap().push(format!("m merges - - 0 0 {}", n));
        }));
    }
    // watchdog: no progress for hang_ms => hang
    let total = (writers + readers) * ops;
    let mut last = (0u64, Instant::now());
    let mut hung = false;
    loop {
        let p = progress.load(Ordering::SeqCst);
        if p >= total {
            break;
        }
        if p != last.0 {
            last = (p, Instant::now());
        } else if last.1.elapsed() > Duration::from_millis(hang_ms) {
            hung = true;
            break;
        }
        std::thread::sleep(Duration::from_millis(5));
    }
    STOP.store(true, Ordering::SeqCst);
    if hung {
        let done = hist.lock().unwrap().join(";");
        return format!("HANG after {} of {} ops;{}", progress.load(Ordering::SeqCst), total, done);
    }
    for j in joins {
        let _ = j.join();
    }
    for j in merge_joins {
        let _ = j.join();
    }
    let v = hist.lock().unwrap();
    v.join(";")
}
