//! resp mode: run the real RESP codec / connection / command parser on one request line.

use std::{
    collections::VecDeque,
    io::{self, Cursor},
    panic::{catch_unwind, AssertUnwindSafe},
    pin::Pin,
    task::{Context, Poll},
};

use bitcask::net::{
    command::Command,
    connection::Connection,
    frame::{self, Frame},
};
use tokio::io::{AsyncRead, AsyncWrite, ReadBuf};

use crate::util::*;

fn frame_err(e: &frame::Error) -> &'static str {
    match e {
        frame::Error::Incomplete => "incomplete",
        frame::Error::BadEncoding => "err badencoding",
        frame::Error::NotInteger(_) => "err notinteger",
        frame::Error::NotUtf8(_) => "err notutf8",
    }
}

/// A stream that delivers the given segments, one per read (or less, if the reader's buffer is
/// smaller), then end-of-stream; collects everything written.
pub struct SegStream {
    pub segs: VecDeque<Vec<u8>>,
    pub written: Vec<u8>,
}

impl AsyncRead for SegStream {
    fn poll_read(
        mut self: Pin<&mut Self>,
        _cx: &mut Context<'_>,
        buf: &mut ReadBuf<'_>,
    ) -> Poll<io::Result<()>> {
        if let Some(front) = self.segs.front_mut() {
            let n = buf.remaining().min(front.len());
            buf.put_slice(&front[..n]);
            front.drain(..n);
            if front.is_empty() {
                self.segs.pop_front();
            }
        }
        Poll::Ready(Ok(()))
    }
}

impl AsyncWrite for SegStream {
    fn poll_write(
        mut self: Pin<&mut Self>,
        _cx: &mut Context<'_>,
        buf: &[u8],
    ) -> Poll<io::Result<usize>> {
        self.written.extend_from_slice(buf);
        Poll::Ready(Ok(buf.len()))
    }
    fn poll_flush(self: Pin<&mut Self>, _cx: &mut Context<'_>) -> Poll<io::Result<()>> {
        Poll::Ready(Ok(()))
    }
    fn poll_shutdown(self: Pin<&mut Self>, _cx: &mut Context<'_>) -> Poll<io::Result<()>> {
        Poll::Ready(Ok(()))
    }
}

fn net_err(e: &bitcask::net::Error) -> String {
    match e {
        bitcask::net::Error::Frame(fe) => match fe {
            frame::Error::Incomplete => "error incomplete".into(),
            frame::Error::BadEncoding => "error badencoding".into(),
            frame::Error::NotInteger(_) => "error notinteger".into(),
            frame::Error::NotUtf8(_) => "error notutf8".into(),
        },
        bitcask::net::Error::Io(ioe) if ioe.kind() == io::ErrorKind::ConnectionReset => {
            "error reset".into()
        }
        bitcask::net::Error::Io(_) => "error io".into(),
        bitcask::net::Error::Command(_) => "error command".into(),
        bitcask::net::Error::Storage(_) => "error storage".into(),
        bitcask::net::Error::AsyncTask(_) => "error task".into(),
    }
}

pub fn cmd_to_string(c: Command) -> String {
    let f: Frame = match c {
        Command::Set(s) => s.into(),
        Command::Get(g) => g.into(),
        Command::Del(d) => d.into(),
    };
    if let Frame::Array(items) = f {
        let mut toks = vec![];
        for (i, it) in items.iter().enumerate() {
            if let Frame::BulkString(b) = it {
                if i == 0 {
                    toks.push(String::from_utf8_lossy(b).to_lowercase());
                } else {
                    toks.push(hex_tok(b));
                }
            }
        }
        toks.join(" ")
    } else {
        "?".into()
    }
}

fn step_inner(rt: &tokio::runtime::Runtime, toks: &[&str]) -> Option<String> {
    match toks {
        ["check", h] => {
            let b = unhex(h)?;
            let mut cur = Cursor::new(&b[..]);
            Some(match Frame::check(&mut cur) {
                Ok(()) => format!("ok {}", cur.position()),
                Err(e) => frame_err(&e).to_string(),
            })
        }
        ["parse", h] => {
            let b = unhex(h)?;
            let mut cur = Cursor::new(&b[..]);
            Some(match Frame::parse(&mut cur) {
                Ok(f) => format!("ok {} {}", cur.position(), frame_to_string(&f)),
                Err(e) => frame_err(&e).to_string(),
            })
        }
        ["encode", f] => {
            let fr = frame_of_string(f)?;
            let mut stream = SegStream {
                segs: VecDeque::new(),
                written: vec![],
            };
            {
                let mut conn = Connection::new(&mut stream);
                if rt.block_on(conn.write_frame(&fr)).is_err() {
                    return Some("error".into());
                }
            }
            Some(hex_tok(&stream.written))
        }
        ["conn", segs] => {
            let parts: Vec<Vec<u8>> = if *segs == "." {
                vec![]
            } else {
                segs.split('|').map(unhex).collect::<Option<Vec<_>>>()?
            };
            let stream = SegStream {
                segs: parts.into(),
                written: vec![],
            };
            let mut conn = Connection::new(stream);
            let mut out = vec![];
            loop {
                match catch_unwind(AssertUnwindSafe(|| rt.block_on(conn.read_frame()))) {
                    Ok(Ok(Some(f))) => out.push(format!("frame {}", frame_to_string(&f))),
                    Ok(Ok(None)) => {
                        out.push("end".into());
                        break;
                    }
                    Ok(Err(e)) => {
                        out.push(net_err(&e));
                        break;
                    }
                    Err(_) => {
                        out.push("panic".into());
                        break;
                    }
                }
            }
            Some(out.join(";"))
        }
        ["cmd", f] => {
            let fr = frame_of_string(f)?;
            Some(match Command::try_from(fr) {
                Ok(c) => cmd_to_string(c),
                Err(e) => match e {
                    bitcask::net::command::Error::BadArguments(_) => "err badargs".into(),
                    bitcask::net::command::Error::BadCommand(_) => "err badcommand".into(),
                    bitcask::net::command::Error::BadFrame(_) => "err badframe".into(),
                    bitcask::net::command::Error::NotUtf8(_) => "err notutf8".into(),
                },
            })
        }
        ["utf8", h] => {
            let b = unhex(h)?;
            Some(if std::str::from_utf8(&b).is_ok() { "valid" } else { "invalid" }.into())
        }
        _ => None,
    }
}

pub fn step(rt: &tokio::runtime::Runtime, toks: &[&str]) -> String {
    match catch_unwind(AssertUnwindSafe(|| step_inner(rt, toks))) {
        Ok(Some(s)) => s,
        Ok(None) => "bad-op".into(),
        Err(_) => {
            if toks.first() == Some(&"encode") {
                "unimplemented".into()
            } else {
                "panic".into()
            }
        }
    }
}
