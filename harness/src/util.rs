//! Line-protocol helpers shared by all modes: hex, value tokens, frames as text.

use bitcask::net::frame::Frame;
use bytes::Bytes;

pub fn hex(bs: &[u8]) -> String {
    const HX: &[u8; 16] = b"0123456789abcdef";
    let mut s = String::with_capacity(bs.len() * 2);
    for b in bs {
        s.push(HX[(b >> 4) as usize] as char);
        s.push(HX[(b & 15) as usize] as char);
    }
    s
}

pub fn hex_tok(bs: &[u8]) -> String {
    if bs.is_empty() {
        "-".to_string()
    } else {
        hex(bs)
    }
}

pub fn unhex(s: &str) -> Option<Vec<u8>> {
    if s == "-" {
        return Some(vec![]);
    }
    let b = s.as_bytes();
    if b.len() % 2 != 0 {
        return None;
    }
    let v = |c: u8| -> Option<u8> {
        match c {
            b'0'..=b'9' => Some(c - b'0'),
            b'a'..=b'f' => Some(c - b'a' + 10),
            _ => None,
        }
    };
    let mut out = Vec::with_capacity(b.len() / 2);
    for i in (0..b.len()).step_by(2) {
        out.push(v(b[i])? * 16 + v(b[i + 1])?);
    }
    Some(out)
}

/// value token: `-` | hex | hex*count (pattern repeated)
pub fn val_tok(s: &str) -> Option<Vec<u8>> {
    if let Some((h, n)) = s.split_once('*') {
        let pat = unhex(h)?;
        let n: usize = n.parse().ok()?;
        let mut out = Vec::with_capacity(pat.len() * n);
        for _ in 0..n {
            out.extend_from_slice(&pat);
        }
        Some(out)
    } else {
        unhex(s)
    }
}

pub fn fnv64(bs: &[u8]) -> u64 {
    let mut h: u64 = 0xcbf29ce484222325;
    for b in bs {
        h ^= *b as u64;
        h = h.wrapping_mul(0x100000001b3);
    }
    h
}

/// canonical output form of a byte string: hex when short, `#len:fnv` when long
pub fn show_val(bs: &[u8]) -> String {
    if bs.len() <= 40 {
        hex_tok(bs)
    } else {
        format!("#{}:{:016x}", bs.len(), fnv64(bs))
    }
}

pub fn frame_to_string(f: &Frame) -> String {
    match f {
        Frame::SimpleString(s) => format!("S:{}", hex(s.as_bytes())),
        Frame::Error(s) => format!("E:{}", hex(s.as_bytes())),
        Frame::Integer(i) => format!("I:{}", i),
        Frame::BulkString(b) => format!("B:{}", hex(b)),
        Frame::Null => "N".to_string(),
        Frame::Array(xs) => format!(
            "A[{}]",
            xs.iter().map(frame_to_string).collect::<Vec<_>>().join(",")
        ),
    }
}

fn take_hex(s: &[u8], mut i: usize) -> (usize, usize) {
    let st = i;
    while i < s.len() && (s[i].is_ascii_digit() || (b'a'..=b'f').contains(&s[i])) {
        i += 1;
    }
    (st, i)
}

fn parse_frame_at(s: &[u8], i: usize) -> Option<(Frame, usize)> {
    if i >= s.len() {
        return None;
    }
    match s[i] {
        b'S' | b'E' | b'B' if s.get(i + 1) == Some(&b':') => {
            let (a, b) = take_hex(s, i + 2);
            let bytes = unhex(std::str::from_utf8(&s[a..b]).ok()?).or_else(|| if a == b { Some(vec![]) } else { None })?;
            let f = match s[i] {
                b'S' => Frame::SimpleString(String::from_utf8(bytes).ok()?),
                b'E' => Frame::Error(String::from_utf8(bytes).ok()?),
                _ => Frame::BulkString(Bytes::from(bytes)),
            };
            Some((f, b))
        }
        b'I' if s.get(i + 1) == Some(&b':') => {
            let mut j = i + 2;
            while j < s.len() && (s[j] == b'-' || s[j].is_ascii_digit()) {
                j += 1;
            }
            let v: i64 = std::str::from_utf8(&s[i + 2..j]).ok()?.parse().ok()?;
            Some((Frame::Integer(v), j))
        }
        b'N' => Some((Frame::Null, i + 1)),
        b'A' if s.get(i + 1) == Some(&b'[') => {
            let mut j = i + 2;
            let mut items = vec![];
            if s.get(j) == Some(&b']') {
                return Some((Frame::Array(items), j + 1));
            }
            loop {
                let (f, k) = parse_frame_at(s, j)?;
                items.push(f);
                match s.get(k) {
                    Some(b',') => j = k + 1,
                    Some(b']') => return Some((Frame::Array(items), k + 1)),
                    _ => return None,
                }
            }
        }
        _ => None,
    }
}

pub fn frame_of_string(s: &str) -> Option<Frame> {
    let (f, n) = parse_frame_at(s.as_bytes(), 0)?;
    if n == s.len() {
        Some(f)
    } else {
        None
    }
}
