//! store mode: drive the real Bitcask store from a script, observe results, index/accounting
//! dumps, file sizes and (under the iotrace preload) the file-system call trace; materialise
//! crash / power-loss images from the recorded trace and open them with the real code.

use std::{
    ffi::{c_char, c_int, c_long, CString},
    fs,
    panic::{catch_unwind, AssertUnwindSafe},
    path::{Path, PathBuf},
};

use bitcask::storage::bitcask::{Bitcask, Config, Error, Handle};
use bitcask::storage::KeyValueStorage;
use bytes::Bytes;

use crate::util::*;

// ---------------------------------------------------------------------------------------------
// iotrace control API (present only when the shim is preloaded)

pub struct IoTrace {
    set_dir: unsafe extern "C" fn(*const c_char),
    reset: unsafe extern "C" fn(),
    drain: unsafe extern "C" fn(*mut c_char, usize) -> usize,
    pending: unsafe extern "C" fn() -> usize,
    seq: unsafe extern "C" fn() -> c_long,
    fail_at: unsafe extern "C" fn(c_long, c_int),
    pub set_write_hook: unsafe extern "C" fn(Option<extern "C" fn(*const c_char, usize)>),
    take_counts: unsafe extern "C" fn(*mut c_long, *mut c_long),
    fail_accepts: unsafe extern "C" fn(c_long, c_int),
    failed_accepts: unsafe extern "C" fn() -> c_long,
    clock_shift: unsafe extern "C" fn(i64),
    clock_freeze: unsafe extern "C" fn(c_int),
}

impl IoTrace {
    pub fn load() -> Option<Self> {
        unsafe {
            let sym = |n: &str| {
                let c = CString::new(n).unwrap();
                let p = libc::dlsym(libc::RTLD_DEFAULT, c.as_ptr());
                if p.is_null() {
                    None
                } else {
                    Some(p)
                }
            };
            Some(IoTrace {
                set_dir: std::mem::transmute(sym("iotrace_set_dir")?),
                reset: std::mem::transmute(sym("iotrace_reset")?),
                drain: std::mem::transmute(sym("iotrace_drain")?),
                pending: std::mem::transmute(sym("iotrace_pending")?),
                seq: std::mem::transmute(sym("iotrace_seq")?),
                fail_at: std::mem::transmute(sym("iotrace_fail_at")?),
                set_write_hook: std::mem::transmute(sym("iotrace_set_write_hook")?),
                take_counts: std::mem::transmute(sym("iotrace_take_counts")?),
                fail_accepts: std::mem::transmute(sym("iotrace_fail_accepts")?),
                failed_accepts: std::mem::transmute(sym("iotrace_failed_accepts")?),
                clock_shift: std::mem::transmute(sym("iotrace_clock_shift")?),
                clock_freeze: std::mem::transmute(sym("iotrace_clock_freeze")?),
            })
        }
    }
    /// the next `n` calls of accept(2) fail with `errno`
    pub fn fail_accepts(&self, n: i64, errno: i32) {
        unsafe { (self.fail_accepts)(n as c_long, errno as c_int) }
    }
    pub fn failed_accepts(&self) -> i64 {
        unsafe { (self.failed_accepts)() as i64 }
    }
    /// shift every later reading of the wall clock by `ns` nanoseconds (0 = the true time)
    pub fn clock_shift(&self, ns: i64) {
        unsafe { (self.clock_shift)(ns) }
    }
    /// the wall clock stands still (every reading gives the time of this call) / runs again
    pub fn clock_freeze(&self, on: bool) {
        unsafe { (self.clock_freeze)(on as c_int) }
    }
    pub fn set_dir(&self, dir: &Path) {
        let c = CString::new(dir.to_str().unwrap()).unwrap();
        unsafe { (self.set_dir)(c.as_ptr()) }
    }
    pub fn reset(&self) {
        unsafe { (self.reset)() }
    }
    pub fn seq(&self) -> i64 {
        unsafe { (self.seq)() as i64 }
    }
    pub fn fail_at(&self, s: i64, errno: i32) {
        unsafe { (self.fail_at)(s as c_long, errno as c_int) }
    }
    /// tracked calls since the last take: (by the store's background threads, by anybody else)
    pub fn take_counts(&self) -> (i64, i64) {
        let (mut b, mut f): (c_long, c_long) = (0, 0);
        unsafe { (self.take_counts)(&mut b, &mut f) };
        (b as i64, f as i64)
    }
    pub fn drain(&self) -> String {
        unsafe {
            let n = (self.pending)();
            let mut buf = vec![0u8; n + 1];
            let got = (self.drain)(buf.as_mut_ptr() as *mut c_char, n);
            buf.truncate(got);
            String::from_utf8_lossy(&buf).into_owned()
        }
    }
}

// ---------------------------------------------------------------------------------------------
// logical calls

#[derive(Debug, Clone, PartialEq, Eq)]
pub enum Call {
    Create(String),
    /// one complete record appended (or, with `whole = false`, bytes that do not decode as exactly
    /// one record: a partial write, or garbage)
    Append {
        name: String,
        bytes: Vec<u8>,
        whole: bool,
    },
    Fsync(String),
    Unlink(String),
    Illegal(String),
    Failed(String),
}

pub fn short_name(n: &str) -> String {
    if let Some(id) = n.strip_suffix(".bitcask.data") {
        format!("d{}", id)
    } else if let Some(id) = n.strip_suffix(".bitcask.hint") {
        format!("h{}", id)
    } else {
        format!("?{}", n)
    }
}

pub fn long_name(s: &str) -> Option<String> {
    if let Some(id) = s.strip_prefix('d') {
        Some(format!("{}.bitcask.data", id))
    } else {
        s.strip_prefix('h').map(|id| format!("{}.bitcask.hint", id))
    }
}

fn u64_at(b: &[u8], i: usize) -> Option<u64> {
    b.get(i..i + 8).map(|s| u64::from_le_bytes(s.try_into().unwrap()))
}

/// length of the first record in `b` (data or hint layout), if `b` holds it completely
pub fn record_len(name: &str, b: &[u8]) -> Option<usize> {
    if name.starts_with('d') {
        let klen = u64_at(b, 8)? as usize;
        let tag_at = 16usize.checked_add(klen)?;
        match *b.get(tag_at)? {
            0 => Some(tag_at + 1),
            1 => {
                let vlen = u64_at(b, tag_at + 1)? as usize;
                let end = (tag_at + 9).checked_add(vlen)?;
                if end <= b.len() {
                    Some(end)
                } else {
                    None
                }
            }
            _ => None,
        }
    } else {
        let klen = u64_at(b, 24)? as usize;
        let end = 32usize.checked_add(klen)?;
        if end <= b.len() {
            Some(end)
        } else {
            None
        }
    }
}

fn push_appends(out: &mut Vec<Call>, name: &str, mut bytes: &[u8]) {
    while !bytes.is_empty() {
        match record_len(name, bytes) {
            Some(n) => {
                out.push(Call::Append {
                    name: name.to_string(),
                    bytes: bytes[..n].to_vec(),
                    whole: true,
                });
                bytes = &bytes[n..];
            }
            None => {
                out.push(Call::Append {
                    name: name.to_string(),
                    bytes: bytes.to_vec(),
                    whole: false,
                });
                return;
            }
        }
    }
}

/// turn the raw shim log into logical calls: consecutive successful writes to one file are
/// joined and then split at record boundaries
pub fn logical_calls(log: &str) -> Vec<Call> {
    let mut out = vec![];
    let mut pend: Option<(String, Vec<u8>)> = None;
    let flush = |pend: &mut Option<(String, Vec<u8>)>, out: &mut Vec<Call>| {
        if let Some((n, b)) = pend.take() {
            push_appends(out, &n, &b);
        }
    };
    for line in log.lines() {
        let t: Vec<&str> = line.split(' ').collect();
        match t.as_slice() {
            ["write", _seq, name, _req, res, hexbytes] if !res.starts_with('-') => {
                let name = short_name(name);
                let bytes = unhex(hexbytes).unwrap_or_default();
                match &mut pend {
                    Some((n, b)) if *n == name => b.extend_from_slice(&bytes),
                    _ => {
                        flush(&mut pend, &mut out);
                        pend = Some((name, bytes));
                    }
                }
            }
            ["write", _seq, name, _req, res, ..] => {
                flush(&mut pend, &mut out);
                out.push(Call::Failed(format!("write:{}:{}", short_name(name), &res[1..])));
            }
            ["open", _seq, name, _flags, res] => {
                flush(&mut pend, &mut out);
                if *res == "0" {
                    out.push(Call::Create(short_name(name)));
                } else {
                    out.push(Call::Failed(format!("open:{}:{}", short_name(name), &res[1..])));
                }
            }
            ["fsync", _seq, name, res] => {
                flush(&mut pend, &mut out);
                if *res == "0" {
                    out.push(Call::Fsync(short_name(name)));
                } else {
                    out.push(Call::Failed(format!("fsync:{}:{}", short_name(name), &res[1..])));
                }
            }
            ["unlink", _seq, name, res] => {
                flush(&mut pend, &mut out);
                if *res == "0" {
                    out.push(Call::Unlink(short_name(name)));
                } else {
                    out.push(Call::Failed(format!("unlink:{}:{}", short_name(name), &res[1..])));
                }
            }
            ["illegal", _seq, what, name] => {
                flush(&mut pend, &mut out);
                out.push(Call::Illegal(format!("{}:{}", what, short_name(name))));
            }
            _ => {}
        }
    }
    flush(&mut pend, &mut out);
    out
}

pub fn show_call(c: &Call) -> String {
    match c {
        Call::Create(n) => format!("c:{}", n),
        Call::Append { name, bytes, whole } => {
            let mut b = bytes.clone();
            for x in b.iter_mut().take(8) {
                *x = 0;
            }
            format!(
                "{}:{}:{}:{:016x}",
                if *whole { "a" } else { "a?" },
                name,
                b.len(),
                fnv64(&b)
            )
        }
        Call::Fsync(n) => format!("s:{}", n),
        Call::Unlink(n) => format!("u:{}", n),
        Call::Illegal(w) => format!("x:{}", w),
        Call::Failed(w) => format!("!{}", w),
    }
}

// ---------------------------------------------------------------------------------------------

pub fn err_kind(e: &Error) -> &'static str {
    match e {
        Error::Closed => "closed",
        Error::Io(_) => "io",
        Error::Serialization(_) => "serialization",
        Error::AsyncTask(_) => "task",
    }
}

pub struct Store {
    pub threads: crate::conc::Threads,
    pub root: PathBuf,
    pub dir: PathBuf,
    pub cfg: serde_json::Value,
    pub kv: Option<Bitcask>,
    pub handle: Option<Handle>,
    pub io: Option<IoTrace>,
    pub tracing: bool,
    pub trace: Vec<Call>,
    pub keys: Vec<Vec<u8>>,
    pub bw: Option<std::thread::JoinHandle<()>>,
}

fn frac(s: &str) -> Option<f64> {
    let (p, q) = s.split_once('/')?;
    Some(p.parse::<f64>().ok()? / q.parse::<f64>().ok()?)
}

/// `cfg mfs=<n> sync=<none|always|ms> frag=<p>/<q> dead=<n> small=<n> cache=<n> pool=<n>
///      policy=<never|always> interval=<ms> jitter=<p>/<q> tfrag=<p>/<q> tdead=<n>`
pub fn cfg_json(toks: &[&str]) -> Option<serde_json::Value> {
    use serde_json::json;
    let mut conf = json!({"concurrency": 1, "merge": {"policy": "never", "thresholds": {}, "triggers": {}}});
    for t in toks {
        let (k, v) = t.split_once('=')?;
        match k {
            "mfs" => conf["max_file_size"] = json!(v.parse::<u64>().ok()?),
            "sync" => {
                conf["sync"] = match v {
                    "none" => json!("none"),
                    "always" => json!("always"),
                    ms => json!({"interval_ms": ms.parse::<u64>().ok()?}),
                }
            }
            "cache" => conf["readers_cache_size"] = json!(v.parse::<u64>().ok()?),
            "pool" => conf["concurrency"] = json!(v.parse::<u64>().ok()?),
            "frag" => conf["merge"]["thresholds"]["fragmentation"] = json!(frac(v)?),
            "dead" => conf["merge"]["thresholds"]["dead_bytes"] = json!(v.parse::<u64>().ok()?),
            "small" => conf["merge"]["thresholds"]["small_file"] = json!(v.parse::<u64>().ok()?),
            "policy" => {
                conf["merge"]["policy"] = match v.strip_prefix("window:") {
                    Some(w) => {
                        let (a, b) = w.split_once('-')?;
                        json!({"window": {"start": a.parse::<u32>().ok()?, "end": b.parse::<u32>().ok()?}})
                    }
                    None => json!(v),
                }
            }
            "interval" => conf["merge"]["check_interval_ms"] = json!(v.parse::<u64>().ok()?),
            "jitter" => conf["merge"]["check_jitter"] = json!(frac(v)?),
            "tfrag" => conf["merge"]["triggers"]["fragmentation"] = json!(frac(v)?),
            "tdead" => conf["merge"]["triggers"]["dead_bytes"] = json!(v.parse::<u64>().ok()?),
            _ => return None,
        }
    }
    // serde(default) is per struct: fill the sub-structs completely
    let th = conf["merge"]["thresholds"].as_object_mut()?;
    th.entry("fragmentation").or_insert(json!(0.4));
    th.entry("dead_bytes").or_insert(json!(134217728u64));
    th.entry("small_file").or_insert(json!(10485760u64));
    let tr = conf["merge"]["triggers"].as_object_mut()?;
    tr.entry("fragmentation").or_insert(json!(0.6));
    tr.entry("dead_bytes").or_insert(json!(536870912u64));
    Some(conf)
}

pub fn make_config(cfg: &serde_json::Value, dir: &Path) -> Result<Config, String> {
    let mut conf: Config = serde_json::from_value(cfg.clone()).map_err(|e| e.to_string())?;
    conf.path = dir.to_path_buf();
    Ok(conf)
}

fn bg_threads() -> usize {
    let mut n = 0;
    if let Ok(rd) = fs::read_dir("/proc/self/task") {
        for e in rd.flatten() {
            if let Ok(c) = fs::read_to_string(e.path().join("comm")) {
                if c.trim_end().starts_with("bitcask-backgr") {
                    n += 1;
                }
            }
        }
    }
    n
}

fn data_ids(dir: &Path) -> Vec<(u64, char, u64)> {
    let mut v = vec![];
    if let Ok(rd) = fs::read_dir(dir) {
        for e in rd.flatten() {
            let name = e.file_name().to_string_lossy().to_string();
            let sn = short_name(&name);
            if let Some(c) = sn.chars().next() {
                if c == 'd' || c == 'h' {
                    if let Ok(id) = sn[1..].parse::<u64>() {
                        let len = e.metadata().map(|m| m.len()).unwrap_or(0);
                        v.push((id, c, len));
                    }
                }
            }
        }
    }
    v.sort();
    v
}

impl Store {
    pub fn new(root: PathBuf) -> Self {
        let io = IoTrace::load();
        crate::conc::install(io.as_ref());
        Store {
            threads: Default::default(),
            bw: None,
            dir: root.join("store"),
            root,
            cfg: cfg_json(&[]).unwrap(),
            kv: None,
            handle: None,
            io,
            tracing: false,
            trace: vec![],
            keys: vec![],
        }
    }

    fn close(&mut self) {
        self.handle = None;
        self.kv = None;
    }

    fn open(&mut self) -> String {
        self.close();
        let conf = match make_config(&self.cfg, &self.dir) {
            Ok(c) => c,
            Err(e) => return format!("bad-cfg {}", e.replace(' ', "_")),
        };
        match conf.open() {
            Ok(kv) => {
                self.handle = Some(kv.get_handle());
                self.kv = Some(kv);
                "ok".into()
            }
            Err(e) => format!("err {}", err_kind(&e)),
        }
    }

    fn take_trace(&mut self) -> String {
        if !self.tracing {
            return String::new();
        }
        let Some(io) = &self.io else { return String::new() };
        let log = io.drain();
        let calls = logical_calls(&log);
        let s = calls.iter().map(show_call).collect::<Vec<_>>().join(" ");
        self.trace.extend(calls);
        format!(" | T {}", s)
    }

    pub fn dump_string(h: &Handle) -> String {
        let d = h.verif_dump();
        let kd = d
            .keydir
            .iter()
            .map(|k| format!("{}={}:{}:{}", hex_tok(&k.key), k.fileid, k.pos, k.len))
            .collect::<Vec<_>>()
            .join(",");
        let st = d
            .stats
            .iter()
            .map(|s| format!("{}={}:{}:{}", s.fileid, s.live_keys, s.dead_keys, s.dead_bytes))
            .collect::<Vec<_>>()
            .join(",");
        format!(
            "keydir {} stats {} active={} written={}",
            if kd.is_empty() { "-" } else { &kd },
            if st.is_empty() { "-" } else { &st },
            d.active_fileid,
            d.written_bytes
        )
    }

    fn files_string(dir: &Path) -> String {
        let v = data_ids(dir);
        if v.is_empty() {
            return "-".into();
        }
        v.iter()
            .map(|(id, c, len)| format!("{}{}={}", c, id, len))
            .collect::<Vec<_>>()
            .join(" ")
    }

    /// build the directory image left by the first `i` logical calls plus the first `b` bytes of
    /// call `i`, then apply per-file truncations
    fn build_image(&self, i: usize, b: usize, trunc: &[(String, u64)]) -> Result<PathBuf, String> {
        self.build_image_at(self.root.join("img"), i, b, trunc)
    }

    fn build_image_at(&self, img: PathBuf, i: usize, b: usize, trunc: &[(String, u64)]) -> Result<PathBuf, String> {
        let _ = fs::remove_dir_all(&img);
        fs::create_dir_all(&img).map_err(|e| e.to_string())?;
        let apply = |c: &Call, limit: Option<usize>| -> Result<(), String> {
            match c {
                Call::Create(n) => {
                    fs::File::create(img.join(long_name(n).ok_or("name")?)).map_err(|e| e.to_string())?;
                }
                Call::Append { name, bytes, .. } => {
                    use std::io::Write;
                    let mut f = fs::OpenOptions::new()
                        .append(true)
                        .open(img.join(long_name(name).ok_or("name")?))
                        .map_err(|e| e.to_string())?;
                    let n = limit.unwrap_or(bytes.len()).min(bytes.len());
                    f.write_all(&bytes[..n]).map_err(|e| e.to_string())?;
                }
                Call::Unlink(n) => {
                    fs::remove_file(img.join(long_name(n).ok_or("name")?)).map_err(|e| e.to_string())?;
                }
                Call::Fsync(_) | Call::Illegal(_) | Call::Failed(_) => {}
            }
            Ok(())
        };
        for c in self.trace.iter().take(i) {
            apply(c, None)?;
        }
        if b > 0 {
            // only an append can be cut short; for any other call the byte count means nothing (the call has not happened)
            if let Some(c @ Call::Append { .. }) = self.trace.get(i) {
                apply(c, Some(b))?;
            }
        }
        for (n, len) in trunc {
            let p = img.join(long_name(n).ok_or("name")?);
            if p.exists() {
                let f = fs::OpenOptions::new().write(true).open(&p).map_err(|e| e.to_string())?;
                let cur = f.metadata().map_err(|e| e.to_string())?.len();
                if *len < cur {
                    f.set_len(*len).map_err(|e| e.to_string())?;
                }
            }
        }
        Ok(img)
    }

    /// open an image with the real code and read every key of the universe
    fn open_image(&self, img: &Path) -> String {
        let conf = match make_config(&self.cfg, img) {
            Ok(c) => c,
            Err(e) => return format!("bad-cfg {}", e),
        };
        let keys = self.keys.clone();
        let r = catch_unwind(AssertUnwindSafe(move || {
            let kv = match conf.open() {
                Ok(kv) => kv,
                Err(e) => return format!("open-error {}", err_kind(&e)),
            };
            let h = kv.get_handle();
            let mut parts = vec![];
            let mut panicked = false;
            for k in &keys {
                if panicked {
                    // a panicking read does not return its reader to the pool: a further read
                    // could spin forever (that hang is C04's subject; here the panic is reported)
                    parts.push(format!("{}=skipped-after-panic", hex_tok(k)));
                    continue;
                }
                let r = catch_unwind(AssertUnwindSafe(|| KeyValueStorage::get(&h, Bytes::from(k.clone()))));
                let v = match r {
                    Ok(Ok(Some(v))) => show_val(&v),
                    Ok(Ok(None)) => "nil".into(),
                    Ok(Err(e)) => format!("err:{}", err_kind(&e)),
                    Err(_) => {
                        panicked = true;
                        "panic".into()
                    }
                };
                parts.push(format!("{}={}", hex_tok(k), v));
            }
            let d = h.verif_dump();
            format!("opened {} active={}", if parts.is_empty() { "-".into() } else { parts.join(",") }, d.active_fileid)
        }));
        r.unwrap_or_else(|_| "open-panic".into())
    }

    pub fn step(&mut self, toks: &[&str]) -> String {
        let r = catch_unwind(AssertUnwindSafe(|| self.step_inner(toks)));
        match r {
            Ok(Some(s)) => s,
            Ok(None) => "bad-op".into(),
            Err(_) => {
                let t = self.take_trace();
                format!("panic{}", t)
            }
        }
    }

    fn step_inner(&mut self, toks: &[&str]) -> Option<String> {
        match toks {
            ["cfg", rest @ ..] => {
                self.cfg = cfg_json(rest)?;
                Some("ok".into())
            }
            ["dir", name] => {
                self.close();
                self.dir = self.root.join(name);
                let _ = fs::remove_dir_all(&self.dir);
                fs::create_dir_all(&self.dir).ok()?;
                self.trace.clear();
                if let Some(io) = &self.io {
                    io.set_dir(&self.dir);
                    io.reset();
                    // every history starts with the true time
                    io.clock_freeze(false);
                    io.clock_shift(0);
                }
                Some("ok".into())
            }
            ["trace", onoff] => {
                self.tracing = *onoff == "on" && self.io.is_some();
                if *onoff == "on" && self.io.is_none() {
                    return Some("no-iotrace".into());
                }
                Some("ok".into())
            }
            ["keys", ks @ ..] => {
                self.keys = ks.iter().map(|k| unhex(k)).collect::<Option<Vec<_>>>()?;
                Some("ok".into())
            }
            ["open"] | ["reopen"] => {
                let mut r = self.open();
                if r.starts_with("err") {
                    // a transient fault hit the open itself: report it and try once more
                    let r2 = self.open();
                    r = format!("{} retry-{}", r, r2.replace(' ', "-"));
                }
                let t = self.take_trace();
                Some(format!("{}{}", r, t))
            }
            ["seq"] => Some(self.io.as_ref()?.seq().to_string()),
            ["close"] => {
                self.close();
                let t = self.take_trace();
                Some(format!("ok{}", t))
            }
            ["put", k, v] => {
                let k = unhex(k)?;
                let v = val_tok(v)?;
                let h = self.handle.as_ref()?;
                let r = match h.set(Bytes::from(k), Bytes::from(v)) {
                    Ok(()) => "ok".to_string(),
                    Err(e) => format!("err {}", err_kind(&e)),
                };
                let t = self.take_trace();
                Some(format!("{}{}", r, t))
            }
            ["del", k] => {
                let k = unhex(k)?;
                let h = self.handle.as_ref()?;
                let r = match h.del(Bytes::from(k)) {
                    Ok(b) => b.to_string(),
                    Err(e) => format!("err {}", err_kind(&e)),
                };
                let t = self.take_trace();
                Some(format!("{}{}", r, t))
            }
            ["get", k] => {
                let k = unhex(k)?;
                let h = self.handle.as_ref()?;
                let r = match KeyValueStorage::get(h, Bytes::from(k)) {
                    Ok(Some(v)) => show_val(&v),
                    Ok(None) => "nil".into(),
                    Err(e) => format!("err {}", err_kind(&e)),
                };
                Some(r)
            }
            ["merge", ..] => {
                let h = self.handle.as_ref()?.clone();
                let before = h.verif_dump();
                let files_before: Vec<u64> = data_ids(&self.dir)
                    .iter()
                    .filter(|(_, c, _)| *c == 'd')
                    .map(|(id, _, _)| *id)
                    .collect();
                let r = h.verif_merge();
                let after = h.verif_dump();
                let files_after: Vec<u64> = data_ids(&self.dir)
                    .iter()
                    .filter(|(_, c, _)| *c == 'd')
                    .map(|(id, _, _)| *id)
                    .collect();
                let sel: Vec<String> = files_before
                    .iter()
                    .filter(|id| !files_after.contains(id))
                    .map(|id| id.to_string())
                    .collect();
                let mut moved: Vec<_> = after
                    .keydir
                    .iter()
                    .filter(|k| k.fileid > before.active_fileid)
                    .collect();
                moved.sort_by_key(|k| (k.fileid, k.pos));
                let order: Vec<String> = moved.iter().map(|k| hex_tok(&k.key)).collect();
                let res = match r {
                    Ok(()) => "ok".to_string(),
                    Err(e) => format!("err {}", err_kind(&e)),
                };
                let t = self.take_trace();
                Some(format!(
                    "{} sel={} order={}{}",
                    res,
                    if sel.is_empty() { "-".into() } else { sel.join(",") },
                    if order.is_empty() { "-".into() } else { order.join(",") },
                    t
                ))
            }
            ["sync"] => {
                let h = self.handle.as_ref()?;
                let r = match h.verif_sync() {
                    Ok(()) => "ok".to_string(),
                    Err(e) => format!("err {}", err_kind(&e)),
                };
                let t = self.take_trace();
                Some(format!("{}{}", r, t))
            }
            ["t.park", t, point, nth] => {
                self.threads.park(t, point, nth.parse().ok()?);
                Some("ok".into())
            }
            ["t.spawn", t, op @ ..] => {
                let h = self.handle.as_ref()?.clone();
                self.threads.spawn(t, h, op.iter().map(|s| s.to_string()).collect());
                Some("ok".into())
            }
            ["t.wait", t, ms] => Some(self.threads.wait(t, ms.parse().ok()?)),
            ["t.release", t] => Some(self.threads.release(t)),
            ["t.join", t, ms] => Some(self.threads.join(t, ms.parse().ok()?)),
            ["t.reset"] => {
                self.threads.reset();
                Some("ok".into())
            }
            ["bw.start", ms] => {
                let h = self.handle.as_ref()?.clone();
                self.bw = Some(crate::conc::bw_start(h, ms.parse().ok()?));
                Some("ok".into())
            }
            ["bw.stop"] => {
                let n = crate::conc::bw_stop();
                if let Some(j) = self.bw.take() {
                    let _ = j.join();
                }
                Some(format!("sets {}", n))
            }
            ["whocalls"] => {
                // who made the tracked file-system calls since the last `whocalls`
                let (b, f) = self.io.as_ref()?.take_counts();
                Some(format!("bg={} fg={}", b, f))
            }
            ["tdrain"] => {
                // collect the file-system calls made since the last traced request (by anybody)
                let t = self.take_trace();
                Some(format!("ok{}", t))
            }
            ["drop"] => {
                // drop the owning store object, keep a handle
                self.kv = None;
                let t = self.take_trace();
                Some(format!("ok{}", t))
            }
            ["procstat"] => {
                let threads = fs::read_dir("/proc/self/task").map(|d| d.count()).unwrap_or(0);
                let fds = fs::read_dir("/proc/self/fd").map(|d| d.count()).unwrap_or(0);
                let mut names = vec![];
                if let Ok(rd) = fs::read_dir("/proc/self/fd") {
                    for e in rd.flatten() {
                        if let Ok(t) = fs::read_link(e.path()) {
                            let t = t.to_string_lossy().to_string();
                            if t.contains("bitcask") {
                                names.push(t.rsplit('/').next().unwrap_or("").to_string());
                            }
                        }
                    }
                }
                names.sort();
                Some(format!("threads={} fds={} bg={} storefds={}", threads, fds, bg_threads(), if names.is_empty() { "-".into() } else { names.join(",") }))
            }
            ["waitbg", n, ms] => {
                // wait until at most n background-task threads of the store are alive
                let n: usize = n.parse().ok()?;
                let t0 = std::time::Instant::now();
                let limit = std::time::Duration::from_millis(ms.parse().ok()?);
                loop {
                    let b = bg_threads();
                    if b <= n {
                        return Some(format!("bg={} ok", b));
                    }
                    if t0.elapsed() > limit {
                        return Some(format!("bg={} timeout", b));
                    }
                    std::thread::sleep(std::time::Duration::from_millis(5));
                }
            }
            ["cfgcheck", toks @ ..] => {
                // the same configuration built twice: from its serialised form (as every other request does) and with the
                // builder methods on top of a configuration that only carries the sync strategy and the merge policy (their
                // types are not nameable from outside the crate); the two must be the same configuration
                let all = make_config(&cfg_json(toks)?, &self.dir).ok()?;
                let base: Vec<&str> = toks.iter().copied().filter(|t| t.starts_with("sync=") || t.starts_with("policy=")).collect();
                let mut b = make_config(&cfg_json(&base)?, &self.dir).ok()?;
                let r = catch_unwind(AssertUnwindSafe(|| {
                    for t in toks {
                        let Some((k, v)) = t.split_once('=') else { continue };
                        match k {
                            "mfs" => { b.max_file_size(v.parse().unwrap()); }
                            "cache" => { b.readers_cache_size(v.parse().unwrap()); }
                            "pool" => { b.concurrency(v.parse().unwrap()); }
                            "frag" => { b.merge_threshold_fragmentation(frac(v).unwrap()); }
                            "dead" => { b.merge_threshold_dead_bytes(v.parse().unwrap()); }
                            "small" => { b.merge_threshold_small_file(v.parse().unwrap()); }
                            "interval" => { b.merge_check_interval_ms(v.parse().unwrap()); }
                            "jitter" => { b.merge_check_jitter(frac(v).unwrap()); }
                            "tfrag" => { b.merge_trigger_fragmentation(frac(v).unwrap()); }
                            "tdead" => { b.merge_trigger_dead_bytes(v.parse().unwrap()); }
                            _ => {}
                        }
                    }
                }));
                if r.is_err() {
                    return Some("builder-panic".into());
                }
                let (sa, sb) = (format!("{:?}", all), format!("{:?}", b));
                Some(if sa == sb { "same".into() } else { format!("differ serialised={} builder={}", sa, sb) })
            }
            ["mkfile", name] => {
                // an (empty) file that does not belong there, e.g. `mkfile d1` = 1.bitcask.data
                let f = self.dir.join(long_name(name)?);
                Some(match fs::File::create(&f) {
                    Ok(_) => "ok".into(),
                    Err(e) => format!("err {}", e),
                })
            }
            ["clock", what @ ("freeze" | "thaw")] => Some(match &self.io {
                Some(io) => {
                    io.clock_freeze(*what == "freeze");
                    "ok".into()
                }
                None => "no-iotrace".into(),
            }),
            ["clock", ms] => {
                // the wall clock is stepped: from now on it reads `ms` milliseconds off the true time
                let ms: i64 = ms.parse().ok()?;
                Some(match &self.io {
                    Some(io) => {
                        io.clock_shift(ms * 1_000_000);
                        "ok".into()
                    }
                    None => "no-iotrace".into(),
                })
            }
            ["rmfile", name] => {
                // take a planted file away again
                let f = self.dir.join(long_name(name)?);
                Some(match fs::remove_file(&f) {
                    Ok(_) => "ok".into(),
                    Err(e) => format!("err {}", e),
                })
            }
            ["waitfor", what, ms] => {
                // wait for background activity without any client action: a hint file appearing
                // (= a merge ran) or an fsync in the trace; answers with the elapsed milliseconds
                let t0 = std::time::Instant::now();
                let limit = std::time::Duration::from_millis(ms.parse().ok()?);
                loop {
                    let seen = match *what {
                        "hint" => data_ids(&self.dir).iter().any(|(_, c, _)| *c == 'h'),
                        "fsync" => {
                            let log = self.io.as_ref()?.drain();
                            let calls = logical_calls(&log);
                            let hit = calls.iter().any(|c| matches!(c, Call::Fsync(_)));
                            self.trace.extend(calls);
                            hit
                        }
                        _ => return None,
                    };
                    if seen {
                        return Some(format!("seen {}", t0.elapsed().as_millis()));
                    }
                    if t0.elapsed() > limit {
                        return Some("timeout".into());
                    }
                    std::thread::sleep(std::time::Duration::from_millis(3));
                }
            }
            ["sleep", ms] => {
                std::thread::sleep(std::time::Duration::from_millis(ms.parse().ok()?));
                Some("ok".into())
            }
            ["idle"] => Some(format!("idle {}", self.handle.as_ref()?.verif_dump().idle_readers)),
            ["stress", rest @ ..] => {
                let mut kv = std::collections::HashMap::new();
                for t in rest {
                    let (k, v) = t.split_once('=')?;
                    kv.insert(k.to_string(), v.parse::<u64>().ok()?);
                }
                let h = self.handle.as_ref()?.clone();
                Some(crate::conc::stress(&h, &kv, 10000))
            }
            ["hazard"] => Some("hazard n/a".into()),
            ["dump"] => Some(Self::dump_string(self.handle.as_ref()?)),
            ["truth"] => {
                // ground truth of the per-file accounting, recomputed from the real data files
                // with the harness' own decoder and the dumped index
                let d = self.handle.as_ref()?.verif_dump();
                let mut parts = vec![];
                for (id, c, _) in data_ids(&self.dir) {
                    if c != 'd' {
                        continue;
                    }
                    let bytes = fs::read(self.dir.join(long_name(&format!("d{}", id))?)).ok()?;
                    let (mut pos, mut live, mut dead, mut dead_bytes) = (0usize, 0u64, 0u64, 0u64);
                    while let Some(n) = record_len("d", &bytes[pos..]) {
                        let is_live = d
                            .keydir
                            .iter()
                            .any(|k| k.fileid == id && k.pos == pos as u64 && k.len == n as u64);
                        if is_live {
                            live += 1;
                        } else {
                            dead += 1;
                            dead_bytes += n as u64;
                        }
                        pos += n;
                    }
                    if live + dead > 0 {
                        parts.push(format!("{}={}:{}:{}", id, live, dead, dead_bytes));
                    }
                }
                Some(format!("stats {}", if parts.is_empty() { "-".into() } else { parts.join(",") }))
            }
            ["files"] => Some(Self::files_string(&self.dir)),
            ["canmerge"] => Some(self.handle.as_ref()?.verif_can_merge().to_string()),
            ["ncalls"] => Some(self.trace.len().to_string()),
            ["calls"] => Some(
                self.trace
                    .iter()
                    .map(show_call)
                    .collect::<Vec<_>>()
                    .join(" "),
            ),
            ["cut", i, b] => {
                let img = self.build_image(i.parse().ok()?, b.parse().ok()?, &[]);
                Some(match img {
                    Ok(p) => self.open_image(&p),
                    Err(e) => format!("image-error {}", e.replace(' ', "_")),
                })
            }
            ["loss", i, b, tr] => {
                let mut trunc = vec![];
                if *tr != "-" {
                    for part in tr.split(',') {
                        let (n, l) = part.split_once('=')?;
                        trunc.push((n.to_string(), l.parse().ok()?));
                    }
                }
                let img = self.build_image(i.parse().ok()?, b.parse().ok()?, &trunc);
                Some(match img {
                    Ok(p) => self.open_image(&p),
                    Err(e) => format!("image-error {}", e.replace(' ', "_")),
                })
            }
            ["d3cut", _, _] | ["d3cut", _, _, _] => Some("d3 n/a".into()),
            ["restore", i, b] => {
                // continue from the directory a crash at cut (i, b) leaves behind
                let (i, b): (usize, usize) = (i.parse().ok()?, b.parse().ok()?);
                self.close();
                // let the background thread of the dropped store finish with its files
                std::thread::sleep(std::time::Duration::from_millis(2));
                if let Some(io) = &self.io {
                    io.set_dir(Path::new(""));
                }
                let r = self.build_image_at(self.dir.clone(), i, b, &[]);
                let mut tr: Vec<Call> = self.trace.iter().take(i).cloned().collect();
                if b > 0 {
                    if let Some(Call::Append { name, bytes, .. }) = self.trace.get(i) {
                        tr.push(Call::Append {
                            name: name.clone(),
                            bytes: bytes[..b.min(bytes.len())].to_vec(),
                            whole: false,
                        });
                    }
                }
                self.trace = tr;
                if let Some(io) = &self.io {
                    io.set_dir(&self.dir);
                    let _ = io.drain();
                }
                Some(match r {
                    Ok(_) => "ok".into(),
                    Err(e) => format!("restore-error {}", e.replace(' ', "_")),
                })
            }
            ["nohints"] => {
                // copy the (closed) store directory without its hint files and open the copy
                let img = self.root.join("img");
                let _ = fs::remove_dir_all(&img);
                fs::create_dir_all(&img).ok()?;
                for e in fs::read_dir(&self.dir).ok()?.flatten() {
                    let name = e.file_name().to_string_lossy().to_string();
                    if !name.ends_with(".hint") {
                        fs::copy(e.path(), img.join(&name)).ok()?;
                    }
                }
                Some(self.open_image(&img))
            }
            ["copyopen"] => {
                // copy the store directory as it is and open the copy
                let img = self.root.join("img");
                let _ = fs::remove_dir_all(&img);
                fs::create_dir_all(&img).ok()?;
                for e in fs::read_dir(&self.dir).ok()?.flatten() {
                    let name = e.file_name().to_string_lossy().to_string();
                    fs::copy(e.path(), img.join(&name)).ok()?;
                }
                Some(self.open_image(&img))
            }
            ["fault", n, errno] => {
                let io = self.io.as_ref()?;
                let n: i64 = n.parse().ok()?;
                io.fail_at(io.seq() + n, errno.parse().ok()?);
                Some("ok".into())
            }
            _ => None,
        }
    }
}
