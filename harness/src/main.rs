//! bcharness: executes line-protocol scripts against the real letung3105/bitcask code.
//!
//!   bcharness resp  [--stack <bytes>]      RESP codec / connection / command parser
//!   bcharness store --root <dir>           storage engine (optionally under the iotrace preload)
//!
//! One request per stdin line, one answer per stdout line (see DESIGN.md Appendix B).

mod conc;
mod net;
mod resp;
mod store;
mod util;

use std::io::{BufRead, Write};

fn arg_after(args: &[String], flag: &str) -> Option<String> {
    args.iter().position(|a| a == flag).and_then(|i| args.get(i + 1).cloned())
}

/// milliseconds since start at which the current request began (0 = idle); a watchdog thread
/// turns a request that does not return into a `hang` answer and ends the process
static BUSY_SINCE: std::sync::atomic::AtomicU64 = std::sync::atomic::AtomicU64::new(0);
static CLOCK: std::sync::OnceLock<std::time::Instant> = std::sync::OnceLock::new();

fn start_watchdog(limit_ms: u64) {
    let t0 = *CLOCK.get_or_init(std::time::Instant::now);
    std::thread::spawn(move || loop {
        std::thread::sleep(std::time::Duration::from_millis(100));
        let since = BUSY_SINCE.load(std::sync::atomic::Ordering::SeqCst);
        let now = t0.elapsed().as_millis() as u64 + 1;
        if since != 0 && now > since + limit_ms {
            // stdout is locked by the request loop: write the answer with a raw write(2)
            unsafe {
                libc::write(1, b"hang\n".as_ptr() as *const libc::c_void, 5);
            }
            std::process::exit(3);
        }
    });
}

fn run_lines(mut f: impl FnMut(&[&str]) -> String) {
    let stdin = std::io::stdin();
    let stdout = std::io::stdout();
    let mut out = std::io::BufWriter::new(stdout.lock());
    for line in stdin.lock().lines() {
        let Ok(line) = line else { break };
        let line = line.trim();
        if line.is_empty() {
            let _ = writeln!(out);
            continue;
        }
        if line.starts_with('#') {
            let _ = writeln!(out, "{}", line);
            let _ = out.flush();
            continue;
        }
        let toks: Vec<&str> = line.split(' ').filter(|t| !t.is_empty()).collect();
        if let Some(t0) = CLOCK.get() {
            BUSY_SINCE.store(t0.elapsed().as_millis() as u64 + 1, std::sync::atomic::Ordering::SeqCst);
        }
        let ans = f(&toks);
        BUSY_SINCE.store(0, std::sync::atomic::Ordering::SeqCst);
        let _ = writeln!(out, "{}", ans);
        let _ = out.flush();
    }
}

fn main() {
    let args: Vec<String> = std::env::args().collect();
    std::panic::set_hook(Box::new(|_| {}));
    let mode = args.get(1).cloned().unwrap_or_default();
    match mode.as_str() {
        "resp" => {
            let stack: usize = arg_after(&args, "--stack").and_then(|s| s.parse().ok()).unwrap_or(2 * 1024 * 1024);
            // a request that does not return (an endless loop in the parser or the connection) is answered `hang`
            start_watchdog(arg_after(&args, "--hang-ms").and_then(|s| s.parse().ok()).unwrap_or(20000));
            let t = std::thread::Builder::new()
                .stack_size(stack)
                .spawn(|| {
                    let rt = tokio::runtime::Builder::new_current_thread().enable_all().build().unwrap();
                    run_lines(|toks| resp::step(&rt, toks));
                })
                .unwrap();
            let _ = t.join();
        }
        "store" => {
            let root = arg_after(&args, "--root").expect("--root");
            std::fs::create_dir_all(&root).unwrap();
            start_watchdog(arg_after(&args, "--hang-ms").and_then(|s| s.parse().ok()).unwrap_or(30000));
            let mut st = store::Store::new(root.into());
            run_lines(|toks| st.step(toks));
        }
        "net" => {
            let root = arg_after(&args, "--root").expect("--root");
            std::fs::create_dir_all(&root).unwrap();
            start_watchdog(arg_after(&args, "--hang-ms").and_then(|s| s.parse().ok()).unwrap_or(60000));
            let mut n = net::Net::new(root.into());
            n.fast_fail = arg_after(&args, "--fast-fail").and_then(|s| s.parse().ok()).unwrap_or(0);
            run_lines(|toks| n.step(toks));
        }
        _ => {
            eprintln!("usage: bcharness resp|store|net ...");
            std::process::exit(2);
        }
    }
}
