//! bcharness: executes line-protocol scripts against the real letung3105/bitcask code.
//!
//!   bcharness resp  [--stack <bytes>]      RESP codec / connection / command parser
//!   bcharness store --root <dir>           storage engine (optionally under the iotrace preload)
//!
//! One request per stdin line, one answer per stdout line (see DESIGN.md Appendix B).

mod resp;
mod store;
mod util;

use std::io::{BufRead, Write};

fn arg_after(args: &[String], flag: &str) -> Option<String> {
    args.iter().position(|a| a == flag).and_then(|i| args.get(i + 1).cloned())
}

fn run_lines(mut f: impl FnMut(&[&str]) -> String) {
    let stdin = std::io::stdin();
    let stdout = std::io::stdout();
    let mut out = std::io::BufWriter::new(stdout.lock());
    for line in stdin.lock().lines() {
        let Ok(line) = line else { break };
        let line = line.trim();
        if line.is_empty() {
            let _ = writeln!(out);
            continue;
        }
        if line.starts_with('#') {
            let _ = writeln!(out, "{}", line);
            let _ = out.flush();
            continue;
        }
        let toks: Vec<&str> = line.split(' ').filter(|t| !t.is_empty()).collect();
        let ans = f(&toks);
        let _ = writeln!(out, "{}", ans);
        let _ = out.flush();
    }
}

fn main() {
    let args: Vec<String> = std::env::args().collect();
    std::panic::set_hook(Box::new(|_| {}));
    let mode = args.get(1).cloned().unwrap_or_default();
    match mode.as_str() {
        "resp" => {
            let stack: usize = arg_after(&args, "--stack").and_then(|s| s.parse().ok()).unwrap_or(2 * 1024 * 1024);
            let t = std::thread::Builder::new()
                .stack_size(stack)
                .spawn(|| {
                    let rt = tokio::runtime::Builder::new_current_thread().enable_all().build().unwrap();
                    run_lines(|toks| resp::step(&rt, toks));
                })
                .unwrap();
            let _ = t.join();
        }
        "store" => {
            let root = arg_after(&args, "--root").expect("--root");
            std::fs::create_dir_all(&root).unwrap();
            let mut st = store::Store::new(root.into());
            run_lines(|toks| st.step(toks));
        }
        _ => {
            eprintln!("usage: bcharness resp|store ...");
            std::process::exit(2);
        }
    }
}
