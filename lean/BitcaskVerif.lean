-- This module serves as the root of the `BitcaskVerif` library.
-- Import modules here that should be built as part of the library.
import BitcaskVerif.Basic
