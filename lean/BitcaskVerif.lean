import BitcaskVerif.Resp.Model
import BitcaskVerif.Resp.Conn
