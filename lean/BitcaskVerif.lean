import BitcaskVerif.Resp.Model
import BitcaskVerif.Resp.Conn
import BitcaskVerif.Props.C07
import BitcaskVerif.Props.C01
