/-
  C08 helper lemmas, part 3: `read_frame` over a stream that carries encoded frames, delivered
  in arbitrary segments.
-/
import BitcaskVerif.Resp.PrefixLemmas
import BitcaskVerif.Resp.Conn

namespace Resp

/-- the bytes `write_frame` puts on the wire for `f` (nothing if the call would panic; it never
    does on a `WfFrame`, see `encode_total`) -/
def wire (f : Frame) : List UInt8 := (encode f).getD []

theorem wire_eq (f : Frame) (e : List UInt8) (h : encode f = some e) : wire f = e := by
  simp [wire, h]

theorem encode_length (f : Frame) (e : List UInt8) (hw : WfFrame f) (he : encode f = some e) :
    3 ≤ e.length := by
  rcases hw with h | ⟨xs, rfl, hw, hl⟩
  · rw [encode_of_single f h] at he
    exact encodeSingle_length f e he
  · obtain ⟨b, hb⟩ := encodeItems_total xs hw
    rw [encode_array xs b hb, Option.some.injEq] at he
    subst he
    simp only [List.length_append, List.length_cons, List.length_nil]; omega

/-! ### parse_frame on a buffer that starts with a whole frame / is inside a frame -/

theorem parseFrame_full (buf : Buf) (f : Frame) (e r : List UInt8) (hw : WfFrame f)
    (he : encode f = some e) (hb : buf.toList = e ++ r) : parseFrame buf = .frame f e.length := by
  have hbuf : buf = (e ++ r).toArray := by rw [← hb]
  obtain ⟨h1, h2⟩ := roundtrip f e r hw he
  rw [← hbuf] at h1 h2
  have hsz : e.length ≤ buf.size := by
    have := congrArg List.length hb
    simp only [Array.length_toList, List.length_append] at this; omega
  unfold parseFrame
  simp only [h2, h1, hsz, ↓reduceIte]

theorem parseFrame_need (buf : Buf) (f : Frame) (e : List UInt8) (hw : WfFrame f)
    (he : encode f = some e) (hp : buf.toList <+: e) (hne : buf.toList ≠ e) : parseFrame buf = .need := by
  have := check_prefix f e buf.toList hw he hp hne
  simp only [Array.toArray_toList] at this
  unfold parseFrame
  simp only [this]

/-! ### unfolding `readFrame` -/

theorem readFrame_of_frame (buf : Buf) (segs : List (List UInt8)) (f : Frame) (n : Nat)
    (h : parseFrame buf = .frame f n) :
    readFrame buf segs = (.frame f, buf.extract n buf.size, segs) := by
  unfold readFrame; simp only [h]

theorem readFrame_need_nil (buf : Buf) (h : parseFrame buf = .need) :
    readFrame buf [] = if buf.size = 0 then (.cleanEnd, buf, []) else (.reset, buf, []) := by
  unfold readFrame; simp only [h]

theorem readFrame_need_cons (buf : Buf) (s : List UInt8) (rest : List (List UInt8))
    (h : parseFrame buf = .need) :
    readFrame buf (s :: rest) = readFrame (buf ++ s.toArray) rest := by
  rw [readFrame]; simp only [h]

/-! ### one `read_frame` call when the stream starts with an encoded frame -/

theorem readFrame_frame (f : Frame) (e tail : List UInt8) (hw : WfFrame f) (he : encode f = some e) :
    ∀ (segs : List (List UInt8)) (buf : Buf), buf.toList ++ segs.flatten = e ++ tail →
      ∃ buf' segs', readFrame buf segs = (.frame f, buf', segs') ∧
        buf'.toList ++ segs'.flatten = tail := by
  have hfull : ∀ (segs : List (List UInt8)) (buf : Buf), buf.toList ++ segs.flatten = e ++ tail →
      e.length ≤ buf.size →
      ∃ buf' segs', readFrame buf segs = (.frame f, buf', segs') ∧
        buf'.toList ++ segs'.flatten = tail := by
    intro segs buf h hc
    have hc' : e.length ≤ buf.toList.length := by simpa using hc
    have h1 := congrArg (List.take e.length) h
    have h2 := congrArg (List.drop e.length) h
    rw [List.take_append_of_le_length hc', List.take_left' rfl] at h1
    rw [List.drop_append_of_le_length hc', List.drop_left' rfl] at h2
    have hb : buf.toList = e ++ buf.toList.drop e.length := by
      have := (List.take_append_drop e.length buf.toList).symm
      rw [h1] at this; exact this
    have hpf := parseFrame_full buf f e _ hw he hb
    refine ⟨buf.extract e.length buf.size, segs, readFrame_of_frame buf segs f _ hpf, ?_⟩
    rw [← h2]
    congr 1
    simp only [Array.toList_extract, List.extract]
    apply List.take_of_length_le
    simp
  have hpart : ∀ (segs : List (List UInt8)) (buf : Buf), buf.toList ++ segs.flatten = e ++ tail →
      ¬ e.length ≤ buf.size → parseFrame buf = .need := by
    intro segs buf h hc
    have hp1 : buf.toList <+: e ++ tail := ⟨segs.flatten, h⟩
    have hp2 : e <+: e ++ tail := ⟨tail, rfl⟩
    have hp : buf.toList <+: e := List.prefix_of_prefix_length_le hp1 hp2 (by simp; omega)
    have hne : buf.toList ≠ e := by
      intro heq
      have := congrArg List.length heq
      simp at this; omega
    exact parseFrame_need buf f e hw he hp hne
  intro segs
  induction segs with
  | nil =>
    intro buf h
    by_cases hc : e.length ≤ buf.size
    · exact hfull [] buf h hc
    · exfalso
      have := congrArg List.length h
      simp at this; omega
  | cons s rest ih =>
    intro buf h
    by_cases hc : e.length ≤ buf.size
    · exact hfull (s :: rest) buf h hc
    · rw [readFrame_need_cons buf s rest (hpart _ buf h hc)]
      apply ih
      rw [← h]; simp

/-! ### the reader loop over a stream of encoded frames -/

theorem readAllF_frames : ∀ (fs : List Frame) (fuel : Nat) (buf : Buf) (segs : List (List UInt8))
    (tail : List UInt8), (∀ f ∈ fs, WfFrame f) →
    buf.toList ++ segs.flatten = fs.flatMap wire ++ tail →
    ∃ buf' segs', buf'.toList ++ segs'.flatten = tail ∧
      readAllF (fs.length + fuel) buf segs = fs.map .frame ++ readAllF fuel buf' segs' := by
  intro fs
  induction fs with
  | nil =>
    intro fuel buf segs tail _ h
    exact ⟨buf, segs, by simpa using h, by simp⟩
  | cons f fs ih =>
    intro fuel buf segs tail hw h
    obtain ⟨e, he⟩ := encode_total f (hw f (by simp))
    rw [List.flatMap_cons, wire_eq f e he, List.append_assoc] at h
    obtain ⟨buf1, segs1, hr, h1⟩ := readFrame_frame f e _ (hw f (by simp)) he segs buf h
    obtain ⟨buf', segs', h2, h3⟩ := ih fuel buf1 segs1 tail (fun g hg => hw g (by simp [hg])) h1
    refine ⟨buf', segs', h2, ?_⟩
    have e1 : (f :: fs).length + fuel = (fs.length + fuel) + 1 := by simp; omega
    rw [e1, readAllF]
    simp only [hr, h3, List.map_cons, List.cons_append]

/-- when every prefix of what is left makes `parse_frame` ask for more, `read_frame` drains the
    stream and reports a clean end iff nothing was left at all -/
theorem readFrame_exhaust (P : List UInt8) (hneed : ∀ q, q <+: P → parseFrame q.toArray = .need) :
    ∀ (segs : List (List UInt8)) (buf : Buf), buf.toList ++ segs.flatten = P →
      readFrame buf segs = (if P = [] then .cleanEnd else .reset, P.toArray, []) := by
  intro segs
  induction segs with
  | nil =>
    intro buf h
    simp only [List.flatten_nil, List.append_nil] at h
    have hb : buf = P.toArray := by rw [← h]
    subst hb
    rw [readFrame_need_nil _ (hneed P (List.prefix_refl P))]
    by_cases hP : P = []
    · subst hP; simp
    · have : ¬ P.toArray.size = 0 := by
        simp only [List.size_toArray]
        intro h0; exact hP (List.eq_nil_of_length_eq_zero h0)
      simp only [this, hP, ↓reduceIte]
  | cons s rest ih =>
    intro buf h
    have hn : parseFrame buf = .need := by
      have := hneed buf.toList ⟨(s :: rest).flatten, h⟩
      simpa using this
    rw [readFrame_need_cons buf s rest hn]
    apply ih
    rw [← h]; simp

theorem parseFrame_empty : parseFrame #[] = .need := by
  have : check #[] = .incomplete := by
    unfold check fuelFor; unfold checkF; simp
  unfold parseFrame; simp only [this]

theorem wire_flatMap_length (fs : List Frame) (hw : ∀ f ∈ fs, WfFrame f) :
    fs.length ≤ (fs.flatMap wire).length := by
  induction fs with
  | nil => simp
  | cons f fs ih =>
    obtain ⟨e, he⟩ := encode_total f (hw f (by simp))
    have := encode_length f e (hw f (by simp)) he
    have := ih (fun g hg => hw g (by simp [hg]))
    rw [List.flatMap_cons, wire_eq f e he]
    simp only [List.length_cons, List.length_append]; omega

theorem stream_clean (fs : List Frame) (segs : List (List UInt8)) (hw : ∀ f ∈ fs, WfFrame f)
    (h : segs.flatten = fs.flatMap wire) : readAll segs = fs.map .frame ++ [.cleanEnd] := by
  have hlen := wire_flatMap_length fs hw
  obtain ⟨k, hk⟩ : ∃ k, segs.flatten.length + 2 = fs.length + (k + 1) :=
    ⟨segs.flatten.length + 1 - fs.length, by rw [h]; omega⟩
  obtain ⟨buf', segs', h1, h2⟩ := readAllF_frames fs (k+1) #[] segs [] hw (by simpa using h)
  unfold readAll
  rw [hk, h2, readAllF]
  have hneed : ∀ q, q <+: ([] : List UInt8) → parseFrame q.toArray = .need := by
    intro q hq
    have : q = [] := List.prefix_nil.mp hq
    subst this; exact parseFrame_empty
  rw [readFrame_exhaust [] hneed segs' buf' h1]
  simp

theorem stream_reset (fs : List Frame) (f : Frame) (e p : List UInt8) (segs : List (List UInt8))
    (hw : ∀ g ∈ fs, WfFrame g) (hf : WfFrame f) (he : encode f = some e)
    (hp : p <+: e) (hne : p ≠ e) (hnil : p ≠ [])
    (h : segs.flatten = fs.flatMap wire ++ p) : readAll segs = fs.map .frame ++ [.reset] := by
  have hlen := wire_flatMap_length fs hw
  obtain ⟨k, hk⟩ : ∃ k, segs.flatten.length + 2 = fs.length + (k + 1) :=
    ⟨segs.flatten.length + 1 - fs.length, by rw [h]; simp only [List.length_append]; omega⟩
  obtain ⟨buf', segs', h1, h2⟩ := readAllF_frames fs (k+1) #[] segs p hw (by simpa using h)
  unfold readAll
  rw [hk, h2, readAllF]
  have hneed : ∀ q, q <+: p → parseFrame q.toArray = .need := by
    intro q hq
    apply parseFrame_need q.toArray f e hf he
    · simpa using List.IsPrefix.trans hq hp
    · show q ≠ e
      intro heq
      subst heq
      exact hne (List.IsPrefix.eq_of_length_le hp (List.IsPrefix.length_le hq))
  rw [readFrame_exhaust p hneed segs' buf' h1]
  simp [hnil]

/-! ### other ways to say "the concatenated encodings", and two special segmentations -/

theorem flatMap_wire_of_map (fs : List Frame) : ∀ (es : List (List UInt8)),
    fs.map encode = es.map some → fs.flatMap wire = es.flatten := by
  induction fs with
  | nil => intro es h; cases es <;> simp_all
  | cons f fs ih =>
    intro es h
    cases es with
    | nil => simp at h
    | cons e es =>
      simp only [List.map_cons, List.cons.injEq] at h
      simp only [List.flatMap_cons, List.flatten_cons, wire_eq f e h.1, ih es h.2]

theorem flatten_singletons (l : List UInt8) : (l.map fun b => [b]).flatten = l := by
  induction l with
  | nil => rfl
  | cons x l ih => simp only [List.map_cons, List.flatten_cons, ih, List.singleton_append]

theorem parseFrame_roundtrip (f : Frame) (e rest : List UInt8) (hw : WfFrame f)
    (he : encode f = some e) : parseFrame (e ++ rest).toArray = .frame f e.length :=
  parseFrame_full _ f e rest hw he rfl

end Resp
