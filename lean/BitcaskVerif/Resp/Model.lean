/-
  Faithful, index-based model of `src/net/frame.rs` (RESP codec).

  One Lean function per Rust function, same control flow, same index arithmetic.
  Every place where the Rust code can panic (slice index out of bounds, `Buf::advance`
  past the end, unchecked `i64` overflow in a debug build, `usize` underflow) is an explicit
  `.panic` outcome, so that "never panics" is a theorem about the model and not an artefact
  of Lean's totality.

  This file is import-free (core Lean only) so that the driver links as a `lean_exe`.
-/

namespace Resp

abbrev Buf := Array UInt8

inductive Err where
  | badEncoding
  | notInteger
  | notUtf8
  | incomplete     -- `Incomplete` surfacing where the caller treats it as a hard error
deriving DecidableEq, Repr

/-- Result of a parsing function. `incomplete` is `frame::Error::Incomplete`; `panic` is a Rust
    panic (never a value the Rust function returns). -/
inductive Out (α : Type) where
  | ok : α → Out α
  | incomplete : Out α
  | err : Err → Out α
  | panic : Out α
deriving Repr, DecidableEq

inductive Frame where
  | simple (s : List UInt8)
  | error (s : List UInt8)
  | integer (i : Int)
  | bulk (b : List UInt8)
  | null
  | array (xs : List Frame)
deriving Repr

/-- Nesting limit of `Frame::check` / `Frame::parse` (`MAX_DEPTH` in frame.rs). -/
def MAX_DEPTH : Nat := 32

def isDigit (b : UInt8) : Bool := 48 ≤ b && b ≤ 57
def dvalN (b : UInt8) : Nat := b.toNat - 48
def dval (b : UInt8) : Int := (dvalN b : Int)
def I64Min : Int := -9223372036854775808
def I64Max : Int := 9223372036854775807
def inI64 (x : Int) : Bool := I64Min ≤ x && x ≤ I64Max

/-! ### get_line -/

inductive LineRes where
  | cr (i : Nat)   -- found '\r' at index i
  | lf             -- found '\n' first
  | eof            -- reached `end`
  | oob            -- index out of bounds (Rust panic); proved unreachable
deriving Repr, DecidableEq

/-- the `for i in start..end` loop of `get_line` -/
def lineScan (buf : Buf) (stop i : Nat) : LineRes :=
  if _h : i < stop then
    if h2 : i < buf.size then
      if buf[i] = 13 then .cr i
      else if buf[i] = 10 then .lf
      else lineScan buf stop (i+1)
    else .oob
  else .eof
termination_by stop - i

/-- `get_line`: returns `(i, newpos)`; the line is `buf[pos..i)` and the cursor moves to `i+2`. -/
def getLine (buf : Buf) (pos : Nat) : Out (Nat × Nat) :=
  if buf.size = 0 then .panic            -- `len() - 1` underflows
  else
    match lineScan buf (buf.size - 1) pos with
    | .cr i => if i + 2 ≤ buf.size then .ok (i, i + 2) else .panic   -- `advance` past the end
    | .lf => .err .badEncoding
    | .eof => .incomplete
    | .oob => .panic

/-! ### get_integer -/

/-- phase 1: unchecked arithmetic; `none` = the Rust code would have panicked
    (index out of bounds, or overflow in a debug build / wrapped in release). -/
def phase1 (buf : Buf) (stop : Nat) (neg : Bool) (idx : Nat) (num : Int) : Option (Nat × Int) :=
  if _h : idx < stop then
    if h2 : idx < buf.size then
      if isDigit buf[idx] then
        let num' := if neg then num * 10 - dval buf[idx] else num * 10 + dval buf[idx]
        if inI64 num' then phase1 buf stop neg (idx+1) num' else none
      else some (idx, num)
    else none
  else some (idx, num)
termination_by stop - idx

/-- phase 2: checked arithmetic (`Option Int` = Rust's `Option<i64>`); outer `none` = index panic -/
def phase2 (buf : Buf) (stop : Nat) (neg : Bool) (idx : Nat) (num : Option Int) :
    Option (Nat × Option Int) :=
  if _h : idx < stop then
    if h2 : idx < buf.size then
      if isDigit buf[idx] then
        let step : Int → Option Int := fun v =>
          let m := v * 10
          if inI64 m then
            let r := if neg then m - dval buf[idx] else m + dval buf[idx]
            if inI64 r then some r else none
          else none
        phase2 buf stop neg (idx+1) (num.bind step)
      else some (idx, num)
    else none
  else some (idx, num)
termination_by stop - idx

/-- where the digits start and whether the number is negative -/
def signInfo (buf : Buf) (pos : Nat) : Bool × Nat :=
  let b := buf[pos]!
  (b == 45, if b == 45 || b == 43 then pos + 1 else pos)

/-- number of digits handled with unchecked arithmetic (`max_safe_digits`) -/
def maxSafeDigits : Nat := 18

def intBody (buf : Buf) (neg : Bool) (start : Nat) : Out (Int × Nat) :=
  match phase1 buf (min (buf.size - 1) (start + maxSafeDigits)) neg start 0 with
  | none => .panic
  | some (i1, n1) =>
    match phase2 buf (buf.size - 1) neg i1 (some n1) with
    | none => .panic
    | some (idx, num) =>
      if idx ≥ buf.size - 1 then .incomplete
      else if idx = start then .err .notInteger
      else if buf[idx]! ≠ 13 then .err .notInteger
      else match num with
        | some v => .ok (v, idx + 2)
        | none => .err .notInteger

/-- `get_integer`: returns (value, new cursor) -/
def getInteger (buf : Buf) (pos : Nat) : Out (Int × Nat) :=
  if pos < buf.size then intBody buf (signInfo buf pos).1 (signInfo buf pos).2 else .incomplete

/-! ### skip / peek -/

/-- `skip(n)`: `remaining < n → Incomplete`, else advance -/
def skip (buf : Buf) (pos n : Nat) : Out Nat :=
  if buf.size - pos < n then .incomplete else .ok (pos + n)

/-! ### UTF-8 validation (`String::from_utf8`, `std::str::from_utf8`) -/

def isCont (b : UInt8) : Bool := 0x80 ≤ b && b ≤ 0xBF

/-- Well-formed UTF-8 byte sequences, Unicode Standard Table 3-7. -/
def validUtf8 : List UInt8 → Bool
  | [] => true
  | b0 :: rest =>
    if b0 ≤ 0x7F then validUtf8 rest
    else if 0xC2 ≤ b0 && b0 ≤ 0xDF then
      match rest with
      | b1 :: r => isCont b1 && validUtf8 r
      | _ => false
    else if b0 = 0xE0 then
      match rest with
      | b1 :: b2 :: r => (0xA0 ≤ b1 && b1 ≤ 0xBF) && isCont b2 && validUtf8 r
      | _ => false
    else if (0xE1 ≤ b0 && b0 ≤ 0xEC) || b0 = 0xEE || b0 = 0xEF then
      match rest with
      | b1 :: b2 :: r => isCont b1 && isCont b2 && validUtf8 r
      | _ => false
    else if b0 = 0xED then
      match rest with
      | b1 :: b2 :: r => (0x80 ≤ b1 && b1 ≤ 0x9F) && isCont b2 && validUtf8 r
      | _ => false
    else if b0 = 0xF0 then
      match rest with
      | b1 :: b2 :: b3 :: r => (0x90 ≤ b1 && b1 ≤ 0xBF) && isCont b2 && isCont b3 && validUtf8 r
      | _ => false
    else if 0xF1 ≤ b0 && b0 ≤ 0xF3 then
      match rest with
      | b1 :: b2 :: b3 :: r => isCont b1 && isCont b2 && isCont b3 && validUtf8 r
      | _ => false
    else if b0 = 0xF4 then
      match rest with
      | b1 :: b2 :: b3 :: r => (0x80 ≤ b1 && b1 ≤ 0x8F) && isCont b2 && isCont b3 && validUtf8 r
      | _ => false
    else false

/-- bytes `buf[a..b)` as a list -/
def slice (buf : Buf) (a b : Nat) : List UInt8 := (buf.extract a b).toList

/-! ### Frame::check -/

mutual
/-- `Frame::check` at nesting depth `depth`, cursor `pos`; returns the cursor after one frame.
    `fuel` only makes the recursion structural; `check_np` shows it never runs out. -/
def checkF (buf : Buf) (fuel depth pos : Nat) : Out Nat :=
  match fuel with
  | 0 => .panic
  | fuel+1 =>
    if h : pos < buf.size then
      let t := buf[pos]
      if t = 43 || t = 45 then                      -- '+' | '-'
        match getLine buf (pos+1) with
        | .ok (_, q) => .ok q
        | .incomplete => .incomplete | .err e => .err e | .panic => .panic
      else if t = 58 then                           -- ':'
        match getInteger buf (pos+1) with
        | .ok (_, q) => .ok q
        | .incomplete => .incomplete | .err e => .err e | .panic => .panic
      else if t = 36 then                           -- '$'
        if h1 : pos + 1 < buf.size then
          if buf[pos+1] = 45 then skip buf (pos+1) 4      -- "-1\r\n" is not verified here
          else
            match getInteger buf (pos+1) with
            | .ok (n, q) => if n < 0 then .err .badEncoding else skip buf q (n.toNat + 2)
            | .incomplete => .incomplete | .err e => .err e | .panic => .panic
        else .incomplete
      else if t = 42 then                           -- '*'
        if depth ≥ MAX_DEPTH then .err .badEncoding else
        match getInteger buf (pos+1) with
        | .ok (n, q) => checkManyF buf fuel (depth+1) n.toNat q
        | .incomplete => .incomplete | .err e => .err e | .panic => .panic
      else .err .badEncoding
    else .incomplete
/-- the `for _ in 0..n` loop of `check` -/
def checkManyF (buf : Buf) (fuel depth n pos : Nat) : Out Nat :=
  match n with
  | 0 => .ok pos
  | n+1 =>
    match fuel with
    | 0 => .panic
    | fuel+1 =>
      match checkF buf fuel depth pos with
      | .ok q => checkManyF buf fuel depth n q
      | .incomplete => .incomplete | .err e => .err e | .panic => .panic
end

/-- fuel that provably suffices -/
def fuelFor (buf : Buf) : Nat := 2 * buf.size + 2

/-- `Frame::check` on a cursor at 0: the number of bytes of the first frame -/
def check (buf : Buf) : Out Nat := checkF buf (fuelFor buf) 0 0

/-! ### Frame::parse -/

mutual
def parseF (buf : Buf) (fuel depth pos : Nat) : Out (Frame × Nat) :=
  match fuel with
  | 0 => .panic
  | fuel+1 =>
    if h : pos < buf.size then
      let t := buf[pos]
      if t = 43 then
        match getLine buf (pos+1) with
        | .ok (i, q) =>
          let l := slice buf (pos+1) i
          if validUtf8 l then .ok (.simple l, q) else .err .notUtf8
        | .incomplete => .incomplete | .err e => .err e | .panic => .panic
      else if t = 45 then
        match getLine buf (pos+1) with
        | .ok (i, q) =>
          let l := slice buf (pos+1) i
          if validUtf8 l then .ok (.error l, q) else .err .notUtf8
        | .incomplete => .incomplete | .err e => .err e | .panic => .panic
      else if t = 58 then
        match getInteger buf (pos+1) with
        | .ok (v, q) => .ok (.integer v, q)
        | .incomplete => .incomplete | .err e => .err e | .panic => .panic
      else if t = 36 then
        if h1 : pos + 1 < buf.size then
          if buf[pos+1] = 45 then
            match getLine buf (pos+1) with
            | .ok (i, q) =>
              if slice buf (pos+1) i = [45, 49] then .ok (.null, q) else .err .badEncoding
            | .incomplete => .incomplete | .err e => .err e | .panic => .panic
          else
            match getInteger buf (pos+1) with
            | .ok (n, q) =>
              if n < 0 then .err .badEncoding
              else if n.toNat + 2 > buf.size - q then .incomplete
              else .ok (.bulk (slice buf q (q + n.toNat)), q + n.toNat + 2)
            | .incomplete => .incomplete | .err e => .err e | .panic => .panic
        else .incomplete
      else if t = 42 then
        if depth ≥ MAX_DEPTH then .err .badEncoding else
        match getInteger buf (pos+1) with
        | .ok (n, q) =>
          if n < 0 then .err .badEncoding
          else
            match parseManyF buf fuel (depth+1) n.toNat q with
            | .ok (xs, q') => .ok (.array xs, q')
            | .incomplete => .incomplete | .err e => .err e | .panic => .panic
        | .incomplete => .incomplete | .err e => .err e | .panic => .panic
      else .err .badEncoding
    else .incomplete
def parseManyF (buf : Buf) (fuel depth n pos : Nat) : Out (List Frame × Nat) :=
  match n with
  | 0 => .ok ([], pos)
  | n+1 =>
    match fuel with
    | 0 => .panic
    | fuel+1 =>
      match parseF buf fuel depth pos with
      | .ok (f, q) =>
        match parseManyF buf fuel depth n q with
        | .ok (fs, q') => .ok (f :: fs, q')
        | .incomplete => .incomplete | .err e => .err e | .panic => .panic
      | .incomplete => .incomplete | .err e => .err e | .panic => .panic
end

/-- `Frame::parse` on a cursor at 0 -/
def parse (buf : Buf) : Out (Frame × Nat) := parseF buf (fuelFor buf) 0 0

/-- what `Connection::parse_frame` does with its buffer: check, then parse from 0, then
    advance by the length `check` reported -/
inductive PF where
  | frame (f : Frame) (consumed : Nat)
  | need
  | err (e : Err)
  | panic
deriving Repr

def parseFrame (buf : Buf) : PF :=
  match check buf with
  | .ok n =>
    match parse buf with
    | .ok (f, _) => if n ≤ buf.size then .frame f n else .panic
    | .incomplete => .err .incomplete   -- frame::Error::Incomplete propagated as an error by `?`
    | .err e => .err e
    | .panic => .panic
  | .incomplete => .need
  | .err e => .err e
  | .panic => .panic

/-! ### encoding (`Connection::write_frame`) -/

/-- decimal digits of a natural number, most significant first -/
def natDigits (n : Nat) : List UInt8 :=
  if n < 10 then [UInt8.ofNat (48 + n)]
  else natDigits (n / 10) ++ [UInt8.ofNat (48 + n % 10)]
decreasing_by omega

/-- `write!("{}", value)` for an `i64` -/
def intRepr (v : Int) : List UInt8 :=
  if v < 0 then 45 :: natDigits v.natAbs else natDigits v.natAbs

def crlf : List UInt8 := [13, 10]

/-- bytes written for a non-array frame (`write_single_value`); `none` = `unimplemented!()` -/
def encodeSingle : Frame → Option (List UInt8)
  | .simple s => some (43 :: s ++ crlf)
  | .error s => some (45 :: s ++ crlf)
  | .integer i => some (58 :: intRepr i ++ crlf)
  | .null => some ([36, 45, 49] ++ crlf)
  | .bulk b => some (36 :: intRepr b.length ++ crlf ++ b ++ crlf)
  | .array _ => none

def encodeItems : List Frame → Option (List UInt8)
  | [] => some []
  | f :: fs =>
    match encodeSingle f, encodeItems fs with
    | some a, some b => some (a ++ b)
    | _, _ => none

/-- bytes written by `write_frame`; `none` = the call panics with `unimplemented!()` (nested array) -/
def encode : Frame → Option (List UInt8)
  | .array xs =>
    match encodeItems xs with
    | some b => some (42 :: intRepr xs.length ++ crlf ++ b)
    | none => none
  | f => encodeSingle f

end Resp
