/-
  A specification for the model's UTF-8 validator `Resp.validUtf8`.

  `isScalar` are the Unicode scalar values, `encodeCp` is the UTF-8 encoding form (Unicode Standard
  Table 3-6) written with natural-number arithmetic. The helper lemmas here say, branch by branch
  of `validUtf8`, that a head the validator accepts is the encoding of one scalar value and that
  the encoding of a scalar value is a head the validator accepts.
-/
import BitcaskVerif.Resp.Model

namespace Resp

/-- Unicode scalar values: code points below 0x110000 that are not surrogates. -/
def isScalar (c : Nat) : Prop := c < 0xD800 ∨ (0xE000 ≤ c ∧ c < 0x110000)

instance (c : Nat) : Decidable (isScalar c) := by unfold isScalar; infer_instance

/-- The UTF-8 encoding form of a code point (Unicode Standard Table 3-6), natural-number arithmetic. -/
def encodeCp (c : Nat) : List UInt8 :=
  if c < 0x80 then [UInt8.ofNat c]
  else if c < 0x800 then [UInt8.ofNat (0xC0 + c / 64), UInt8.ofNat (0x80 + c % 64)]
  else if c < 0x10000 then
    [UInt8.ofNat (0xE0 + c / 4096), UInt8.ofNat (0x80 + (c / 64) % 64), UInt8.ofNat (0x80 + c % 64)]
  else
    [UInt8.ofNat (0xF0 + c / 262144), UInt8.ofNat (0x80 + (c / 4096) % 64),
     UInt8.ofNat (0x80 + (c / 64) % 64), UInt8.ofNat (0x80 + c % 64)]

/-! ### `validUtf8` restated over the numeric values of the bytes -/

theorem isCont_iff (b : UInt8) : isCont b = true ↔ 0x80 ≤ b.toNat ∧ b.toNat ≤ 0xBF := by
  simp [isCont, UInt8.le_iff_toNat_le]

theorem ofNat_eq_of_toNat {b : UInt8} {n : Nat} (h : n = b.toNat) : UInt8.ofNat n = b := by
  subst h; exact UInt8.ofNat_toNat

theorem toNat_ofNat_small {n : Nat} (h : n < 256) : (UInt8.ofNat n).toNat = n := by
  rw [UInt8.toNat_ofNat']; omega

/-- `validUtf8` on a non-empty list, with every byte comparison restated on `Nat`. -/
theorem validUtf8_cons_nat (b0 : UInt8) (rest : List UInt8) : validUtf8 (b0 :: rest) =
    if b0.toNat ≤ 0x7F then validUtf8 rest
    else if 0xC2 ≤ b0.toNat ∧ b0.toNat ≤ 0xDF then
      match rest with
      | b1 :: r => isCont b1 && validUtf8 r
      | _ => false
    else if b0.toNat = 0xE0 then
      match rest with
      | b1 :: b2 :: r => (decide (0xA0 ≤ b1.toNat) && decide (b1.toNat ≤ 0xBF)) && isCont b2 && validUtf8 r
      | _ => false
    else if (0xE1 ≤ b0.toNat ∧ b0.toNat ≤ 0xEC) ∨ b0.toNat = 0xEE ∨ b0.toNat = 0xEF then
      match rest with
      | b1 :: b2 :: r => isCont b1 && isCont b2 && validUtf8 r
      | _ => false
    else if b0.toNat = 0xED then
      match rest with
      | b1 :: b2 :: r => (decide (0x80 ≤ b1.toNat) && decide (b1.toNat ≤ 0x9F)) && isCont b2 && validUtf8 r
      | _ => false
    else if b0.toNat = 0xF0 then
      match rest with
      | b1 :: b2 :: b3 :: r =>
        (decide (0x90 ≤ b1.toNat) && decide (b1.toNat ≤ 0xBF)) && isCont b2 && isCont b3 && validUtf8 r
      | _ => false
    else if 0xF1 ≤ b0.toNat ∧ b0.toNat ≤ 0xF3 then
      match rest with
      | b1 :: b2 :: b3 :: r => isCont b1 && isCont b2 && isCont b3 && validUtf8 r
      | _ => false
    else if b0.toNat = 0xF4 then
      match rest with
      | b1 :: b2 :: b3 :: r =>
        (decide (0x80 ≤ b1.toNat) && decide (b1.toNat ≤ 0x8F)) && isCont b2 && isCont b3 && validUtf8 r
      | _ => false
    else false := by
  rw [validUtf8.eq_def]
  simp only [UInt8.le_iff_toNat_le, ← UInt8.toNat_inj, UInt8.toNat_ofNat, Nat.reducePow, Nat.reduceMod,
    Bool.and_eq_true, Bool.or_eq_true, decide_eq_true_eq, or_assoc]
  rfl

/-! ### heads the validator accepts, one lemma per row of Table 3-7 -/

theorem valid_head1 (b0 : UInt8) (r : List UInt8) (h : b0.toNat ≤ 0x7F) :
    validUtf8 (b0 :: r) = validUtf8 r := by
  rw [validUtf8_cons_nat, if_pos h]

theorem valid_head2 (b0 b1 : UInt8) (r : List UInt8) (h : 0xC2 ≤ b0.toNat ∧ b0.toNat ≤ 0xDF) :
    validUtf8 (b0 :: b1 :: r) = (isCont b1 && validUtf8 r) := by
  rw [validUtf8_cons_nat, if_neg (by omega), if_pos h]

theorem valid_headE0 (b0 b1 b2 : UInt8) (r : List UInt8) (h : b0.toNat = 0xE0) :
    validUtf8 (b0 :: b1 :: b2 :: r) =
      ((decide (0xA0 ≤ b1.toNat) && decide (b1.toNat ≤ 0xBF)) && isCont b2 && validUtf8 r) := by
  rw [validUtf8_cons_nat, if_neg (by omega), if_neg (by omega), if_pos h]

theorem valid_head3 (b0 b1 b2 : UInt8) (r : List UInt8)
    (h : (0xE1 ≤ b0.toNat ∧ b0.toNat ≤ 0xEC) ∨ b0.toNat = 0xEE ∨ b0.toNat = 0xEF) :
    validUtf8 (b0 :: b1 :: b2 :: r) = (isCont b1 && isCont b2 && validUtf8 r) := by
  rw [validUtf8_cons_nat, if_neg (by omega), if_neg (by omega), if_neg (by omega), if_pos h]

theorem valid_headED (b0 b1 b2 : UInt8) (r : List UInt8) (h : b0.toNat = 0xED) :
    validUtf8 (b0 :: b1 :: b2 :: r) =
      ((decide (0x80 ≤ b1.toNat) && decide (b1.toNat ≤ 0x9F)) && isCont b2 && validUtf8 r) := by
  rw [validUtf8_cons_nat, if_neg (by omega), if_neg (by omega), if_neg (by omega), if_neg (by omega),
    if_pos h]

theorem valid_headF0 (b0 b1 b2 b3 : UInt8) (r : List UInt8) (h : b0.toNat = 0xF0) :
    validUtf8 (b0 :: b1 :: b2 :: b3 :: r) =
      ((decide (0x90 ≤ b1.toNat) && decide (b1.toNat ≤ 0xBF)) && isCont b2 && isCont b3 && validUtf8 r) := by
  rw [validUtf8_cons_nat, if_neg (by omega), if_neg (by omega), if_neg (by omega), if_neg (by omega),
    if_neg (by omega), if_pos h]

theorem valid_head4 (b0 b1 b2 b3 : UInt8) (r : List UInt8) (h : 0xF1 ≤ b0.toNat ∧ b0.toNat ≤ 0xF3) :
    validUtf8 (b0 :: b1 :: b2 :: b3 :: r) = (isCont b1 && isCont b2 && isCont b3 && validUtf8 r) := by
  rw [validUtf8_cons_nat, if_neg (by omega), if_neg (by omega), if_neg (by omega), if_neg (by omega),
    if_neg (by omega), if_neg (by omega), if_pos h]

theorem valid_headF4 (b0 b1 b2 b3 : UInt8) (r : List UInt8) (h : b0.toNat = 0xF4) :
    validUtf8 (b0 :: b1 :: b2 :: b3 :: r) =
      ((decide (0x80 ≤ b1.toNat) && decide (b1.toNat ≤ 0x8F)) && isCont b2 && isCont b3 && validUtf8 r) := by
  rw [validUtf8_cons_nat, if_neg (by omega), if_neg (by omega), if_neg (by omega), if_neg (by omega),
    if_neg (by omega), if_neg (by omega), if_neg (by omega), if_pos h]

/-! ### completeness, one code point -/

theorem isCont_ofNat (n : Nat) (h : n < 64) : isCont (UInt8.ofNat (0x80 + n)) = true := by
  rw [isCont_iff, toNat_ofNat_small (by omega)]; omega

/-- The encoding of a scalar value in front of any bytes is accepted exactly when those bytes are. -/
theorem valid_encodeCp_append (c : Nat) (hc : isScalar c) (r : List UInt8) :
    validUtf8 (encodeCp c ++ r) = validUtf8 r := by
  unfold isScalar at hc
  unfold encodeCp
  split
  · exact valid_head1 _ _ (by rw [toNat_ofNat_small (by omega)]; omega)
  split
  · simp only [List.cons_append, List.nil_append]
    rw [valid_head2 _ _ _ (by rw [toNat_ofNat_small (by omega)]; omega),
      isCont_ofNat _ (by omega), Bool.true_and]
  split
  · simp only [List.cons_append, List.nil_append]
    have e0 : (UInt8.ofNat (0xE0 + c / 4096)).toNat = 0xE0 + c / 4096 := toNat_ofNat_small (by omega)
    have e1 : (UInt8.ofNat (0x80 + c / 64 % 64)).toNat = 0x80 + c / 64 % 64 := toNat_ofNat_small (by omega)
    have c2 := isCont_ofNat (c % 64) (by omega)
    have c1 := isCont_ofNat (c / 64 % 64) (by omega)
    by_cases h0 : c / 4096 = 0
    · rw [valid_headE0 _ _ _ _ (by rw [e0]; omega), c2, e1]
      have : 0xA0 ≤ 0x80 + c / 64 % 64 ∧ 0x80 + c / 64 % 64 ≤ 0xBF := by omega
      simp [this]
    · by_cases hD : c / 4096 = 13
      · rw [valid_headED _ _ _ _ (by rw [e0]; omega), c2, e1]
        have : 0x80 ≤ 0x80 + c / 64 % 64 ∧ 0x80 + c / 64 % 64 ≤ 0x9F := by omega
        simp [this]
      · rw [valid_head3 _ _ _ _ (by rw [e0]; omega), c1, c2]
        simp
  · simp only [List.cons_append, List.nil_append]
    have e0 : (UInt8.ofNat (0xF0 + c / 262144)).toNat = 0xF0 + c / 262144 := toNat_ofNat_small (by omega)
    have e1 : (UInt8.ofNat (0x80 + c / 4096 % 64)).toNat = 0x80 + c / 4096 % 64 := toNat_ofNat_small (by omega)
    have c3 := isCont_ofNat (c % 64) (by omega)
    have c2 := isCont_ofNat (c / 64 % 64) (by omega)
    have c1 := isCont_ofNat (c / 4096 % 64) (by omega)
    by_cases h0 : c / 262144 = 0
    · rw [valid_headF0 _ _ _ _ _ (by rw [e0]; omega), c2, c3, e1]
      have : 0x90 ≤ 0x80 + c / 4096 % 64 ∧ 0x80 + c / 4096 % 64 ≤ 0xBF := by omega
      simp [this]
    · by_cases h4 : c / 262144 = 4
      · rw [valid_headF4 _ _ _ _ _ (by rw [e0]; omega), c2, c3, e1]
        have : 0x80 ≤ 0x80 + c / 4096 % 64 ∧ 0x80 + c / 4096 % 64 ≤ 0x8F := by omega
        simp [this]
      · rw [valid_head4 _ _ _ _ _ (by rw [e0]; omega), c1, c2, c3]
        simp
/-! ### soundness, one head -/

theorem sound_head1 (b0 : UInt8) (h : b0.toNat ≤ 0x7F) :
    ∃ c, isScalar c ∧ c < 0x80 ∧ encodeCp c = [b0] := by
  refine ⟨b0.toNat, ?_, ?_, ?_⟩
  · unfold isScalar; omega
  · omega
  · unfold encodeCp; rw [if_pos (by omega), UInt8.ofNat_toNat]

theorem sound_head2 (b0 b1 : UInt8) (h0 : 0xC2 ≤ b0.toNat ∧ b0.toNat ≤ 0xDF) (h1 : isCont b1 = true) :
    ∃ c, isScalar c ∧ 0x80 ≤ c ∧ c < 0x800 ∧ encodeCp c = [b0, b1] := by
  rw [isCont_iff] at h1
  refine ⟨(b0.toNat - 0xC0) * 64 + (b1.toNat - 0x80), ?_, ?_, ?_, ?_⟩
  · unfold isScalar; omega
  · omega
  · omega
  · unfold encodeCp
    rw [if_neg (by omega), if_pos (by omega), ofNat_eq_of_toNat (b := b0) (by omega),
      ofNat_eq_of_toNat (b := b1) (by omega)]

/-- Three-byte heads: all four rows of Table 3-7 at once, as numeric conditions. -/
theorem sound_head3 (b0 b1 b2 : UInt8)
    (h0 : 0xE0 ≤ b0.toNat ∧ b0.toNat ≤ 0xEF) (h1 : 0x80 ≤ b1.toNat ∧ b1.toNat ≤ 0xBF)
    (hE0 : b0.toNat = 0xE0 → 0xA0 ≤ b1.toNat) (hED : b0.toNat = 0xED → b1.toNat ≤ 0x9F)
    (h2 : isCont b2 = true) :
    ∃ c, isScalar c ∧ 0x800 ≤ c ∧ c < 0x10000 ∧ encodeCp c = [b0, b1, b2] := by
  rw [isCont_iff] at h2
  refine ⟨(b0.toNat - 0xE0) * 4096 + (b1.toNat - 0x80) * 64 + (b2.toNat - 0x80), ?_, ?_, ?_, ?_⟩
  · unfold isScalar; omega
  · omega
  · omega
  · unfold encodeCp
    rw [if_neg (by omega), if_neg (by omega), if_pos (by omega), ofNat_eq_of_toNat (b := b0) (by omega),
      ofNat_eq_of_toNat (b := b1) (by omega), ofNat_eq_of_toNat (b := b2) (by omega)]

theorem sound_head4 (b0 b1 b2 b3 : UInt8)
    (h0 : 0xF0 ≤ b0.toNat ∧ b0.toNat ≤ 0xF4) (h1 : 0x80 ≤ b1.toNat ∧ b1.toNat ≤ 0xBF)
    (hF0 : b0.toNat = 0xF0 → 0x90 ≤ b1.toNat) (hF4 : b0.toNat = 0xF4 → b1.toNat ≤ 0x8F)
    (h2 : isCont b2 = true) (h3 : isCont b3 = true) :
    ∃ c, isScalar c ∧ 0x10000 ≤ c ∧ encodeCp c = [b0, b1, b2, b3] := by
  rw [isCont_iff] at h2 h3
  refine ⟨(b0.toNat - 0xF0) * 262144 + (b1.toNat - 0x80) * 4096 + (b2.toNat - 0x80) * 64 + (b3.toNat - 0x80),
    ?_, ?_, ?_⟩
  · unfold isScalar; omega
  · omega
  · unfold encodeCp
    rw [if_neg (by omega), if_neg (by omega), if_neg (by omega), ofNat_eq_of_toNat (b := b0) (by omega),
      ofNat_eq_of_toNat (b := b1) (by omega), ofNat_eq_of_toNat (b := b2) (by omega),
      ofNat_eq_of_toNat (b := b3) (by omega)]
/-- An accepted non-empty byte string starts with the encoding of one scalar value, and what
    follows is accepted too. -/
theorem valid_cons_decomp (b0 : UInt8) (rest : List UInt8) (h : validUtf8 (b0 :: rest) = true) :
    ∃ c r, isScalar c ∧ b0 :: rest = encodeCp c ++ r ∧ validUtf8 r = true ∧ r.length ≤ rest.length := by
  rw [validUtf8_cons_nat] at h
  split at h
  · next h0 =>
    obtain ⟨c, hs, _, he⟩ := sound_head1 b0 h0
    exact ⟨c, rest, hs, by rw [he]; rfl, h, Nat.le_refl _⟩
  split at h
  · next h0 =>
    split at h
    · next b1 r =>
      simp only [Bool.and_eq_true] at h
      obtain ⟨c, hs, _, _, he⟩ := sound_head2 b0 b1 h0 h.1
      exact ⟨c, r, hs, by rw [he]; rfl, h.2, by simp⟩
    · exact absurd h (by simp)
  split at h
  · next h0 =>
    split at h
    · next b1 b2 r =>
      simp only [Bool.and_eq_true, decide_eq_true_eq] at h
      obtain ⟨c, hs, _, _, he⟩ := sound_head3 b0 b1 b2 (by omega) (by omega) (by omega) (by omega) h.1.2
      exact ⟨c, r, hs, by rw [he]; rfl, h.2, by simp; omega⟩
    · exact absurd h (by simp)
  split at h
  · next h0 =>
    split at h
    · next b1 b2 r =>
      simp only [Bool.and_eq_true, isCont_iff b1] at h
      obtain ⟨c, hs, _, _, he⟩ := sound_head3 b0 b1 b2 (by omega) (by omega) (by omega) (by omega) h.1.2
      exact ⟨c, r, hs, by rw [he]; rfl, h.2, by simp; omega⟩
    · exact absurd h (by simp)
  split at h
  · next h0 =>
    split at h
    · next b1 b2 r =>
      simp only [Bool.and_eq_true, decide_eq_true_eq] at h
      obtain ⟨c, hs, _, _, he⟩ := sound_head3 b0 b1 b2 (by omega) (by omega) (by omega) (by omega) h.1.2
      exact ⟨c, r, hs, by rw [he]; rfl, h.2, by simp; omega⟩
    · exact absurd h (by simp)
  split at h
  · next h0 =>
    split at h
    · next b1 b2 b3 r =>
      simp only [Bool.and_eq_true, decide_eq_true_eq] at h
      obtain ⟨c, hs, _, he⟩ :=
        sound_head4 b0 b1 b2 b3 (by omega) (by omega) (by omega) (by omega) h.1.1.2 h.1.2
      exact ⟨c, r, hs, by rw [he]; rfl, h.2, by simp; omega⟩
    · exact absurd h (by simp)
  split at h
  · next h0 =>
    split at h
    · next b1 b2 b3 r =>
      simp only [Bool.and_eq_true, isCont_iff b1] at h
      obtain ⟨c, hs, _, he⟩ :=
        sound_head4 b0 b1 b2 b3 (by omega) (by omega) (by omega) (by omega) h.1.1.2 h.1.2
      exact ⟨c, r, hs, by rw [he]; rfl, h.2, by simp; omega⟩
    · exact absurd h (by simp)
  split at h
  · next h0 =>
    split at h
    · next b1 b2 b3 r =>
      simp only [Bool.and_eq_true, decide_eq_true_eq] at h
      obtain ⟨c, hs, _, he⟩ :=
        sound_head4 b0 b1 b2 b3 (by omega) (by omega) (by omega) (by omega) h.1.1.2 h.1.2
      exact ⟨c, r, hs, by rw [he]; rfl, h.2, by simp; omega⟩
    · exact absurd h (by simp)
  · exact absurd h (by simp)

/-! ### whole strings -/

theorem valid_flatMap_append (cs : List Nat) (h : ∀ c ∈ cs, isScalar c) (r : List UInt8) :
    validUtf8 (cs.flatMap encodeCp ++ r) = validUtf8 r := by
  induction cs with
  | nil => rfl
  | cons c cs ih =>
    rw [List.flatMap_cons, List.append_assoc, valid_encodeCp_append c (h c (by simp)),
      ih (fun c hc => h c (by simp [hc]))]

theorem valid_decode_aux (n : Nat) : ∀ bs : List UInt8, bs.length ≤ n → validUtf8 bs = true →
    ∃ cs : List Nat, (∀ c ∈ cs, isScalar c) ∧ bs = cs.flatMap encodeCp := by
  induction n with
  | zero =>
    intro bs hl _
    cases bs with
    | nil => exact ⟨[], fun _ h => absurd h List.not_mem_nil, rfl⟩
    | cons b r => simp at hl
  | succ n ih =>
    intro bs hl hv
    cases bs with
    | nil => exact ⟨[], fun _ h => absurd h List.not_mem_nil, rfl⟩
    | cons b0 rest =>
      obtain ⟨c, r, hs, he, hr, hlen⟩ := valid_cons_decomp b0 rest hv
      obtain ⟨cs, hcs, hrs⟩ := ih r (by simp at hl; omega) hr
      refine ⟨c :: cs, ?_, ?_⟩
      · intro x hx
        cases hx with
        | head => exact hs
        | tail _ hx => exact hcs x hx
      · rw [he, hrs, List.flatMap_cons]

/-! ### agreement with Lean's own `Char` and `String` -/

theorem isScalar_iff_isValidChar (n : Nat) : isScalar n ↔ n.isValidChar := by
  unfold isScalar Nat.isValidChar; omega

theorem isScalar_char (c : Char) : isScalar c.toNat :=
  (isScalar_iff_isValidChar _).2 c.valid

theorem encodeCp_toNat (c : Char) : encodeCp c.toNat = String.utf8EncodeChar c := by
  have hv := isScalar_char c
  unfold isScalar at hv
  unfold encodeCp String.utf8EncodeChar
  simp only [Char.toNat] at hv ⊢
  generalize c.val.toNat = v at hv ⊢
  have e : ∀ a b : Nat, a = b → UInt8.ofNat a = UInt8.ofNat b := fun _ _ h => congrArg _ h
  by_cases h1 : v < 0x80
  · rw [if_pos h1, if_pos (show v ≤ 127 by omega)]
  rw [if_neg h1, if_neg (show ¬ v ≤ 127 by omega)]
  by_cases h2 : v < 0x800
  · rw [if_pos h2, if_pos (show v ≤ 2047 by omega)]
    simp only [List.cons.injEq, and_true]
    exact ⟨e _ _ (by omega), e _ _ (by omega)⟩
  rw [if_neg h2, if_neg (show ¬ v ≤ 2047 by omega)]
  by_cases h3 : v < 0x10000
  · rw [if_pos h3, if_pos (show v ≤ 65535 by omega)]
    simp only [List.cons.injEq, and_true]
    exact ⟨e _ _ (by omega), e _ _ (by omega), e _ _ (by omega)⟩
  rw [if_neg h3, if_neg (show ¬ v ≤ 65535 by omega)]
  simp only [List.cons.injEq, and_true]
  exact ⟨e _ _ (by omega), e _ _ (by omega), e _ _ (by omega), e _ _ (by omega)⟩

theorem flatMap_encodeCp_chars (l : List Char) :
    (l.map Char.toNat).flatMap encodeCp = l.flatMap String.utf8EncodeChar := by
  induction l with
  | nil => rfl
  | cons c l ih => simp only [List.map_cons, List.flatMap_cons, ih, encodeCp_toNat]

theorem toUTF8_data (s : String) :
    s.toUTF8.data.toList = (s.toList.map Char.toNat).flatMap encodeCp := by
  rw [flatMap_encodeCp_chars, String.toUTF8_eq_toByteArray, ← String.ofList_toList (s := s),
    String.toByteArray_ofList, String.toList_ofList, List.utf8Encode, List.data_toByteArray]

theorem scalars_are_chars (cs : List Nat) (h : ∀ c ∈ cs, isScalar c) :
    ∃ l : List Char, l.map Char.toNat = cs := by
  induction cs with
  | nil => exact ⟨[], rfl⟩
  | cons c cs ih =>
    obtain ⟨l, hl⟩ := ih (fun x hx => h x (by simp [hx]))
    refine ⟨Char.ofNatAux c ((isScalar_iff_isValidChar c).1 (h c (by simp))) :: l, ?_⟩
    rw [List.map_cons, hl]
    congr 1

/-! ### unique decoding -/

/-- the shape of `encodeCp c` for a scalar value, with the numeric value of every byte -/
theorem encodeCp_cases (c : Nat) (hc : isScalar c) :
    (c < 0x80 ∧ ∃ b0, encodeCp c = [b0] ∧ b0.toNat = c) ∨
    (0x80 ≤ c ∧ c < 0x800 ∧ ∃ b0 b1, encodeCp c = [b0, b1] ∧
      b0.toNat = 0xC0 + c / 64 ∧ b1.toNat = 0x80 + c % 64) ∨
    (0x800 ≤ c ∧ c < 0x10000 ∧ ∃ b0 b1 b2, encodeCp c = [b0, b1, b2] ∧
      b0.toNat = 0xE0 + c / 4096 ∧ b1.toNat = 0x80 + c / 64 % 64 ∧ b2.toNat = 0x80 + c % 64) ∨
    (0x10000 ≤ c ∧ c < 0x110000 ∧ ∃ b0 b1 b2 b3, encodeCp c = [b0, b1, b2, b3] ∧
      b0.toNat = 0xF0 + c / 262144 ∧ b1.toNat = 0x80 + c / 4096 % 64 ∧ b2.toNat = 0x80 + c / 64 % 64 ∧
      b3.toNat = 0x80 + c % 64) := by
  unfold isScalar at hc
  unfold encodeCp
  by_cases h1 : c < 0x80
  · exact Or.inl ⟨h1, _, by rw [if_pos h1], toNat_ofNat_small (by omega)⟩
  by_cases h2 : c < 0x800
  · exact Or.inr (Or.inl ⟨by omega, h2, _, _, by rw [if_neg h1, if_pos h2],
      toNat_ofNat_small (by omega), toNat_ofNat_small (by omega)⟩)
  by_cases h3 : c < 0x10000
  · exact Or.inr (Or.inr (Or.inl ⟨by omega, h3, _, _, _, by rw [if_neg h1, if_neg h2, if_pos h3],
      toNat_ofNat_small (by omega), toNat_ofNat_small (by omega), toNat_ofNat_small (by omega)⟩))
  · exact Or.inr (Or.inr (Or.inr ⟨by omega, by omega, _, _, _, _, by rw [if_neg h1, if_neg h2, if_neg h3],
      toNat_ofNat_small (by omega), toNat_ofNat_small (by omega), toNat_ofNat_small (by omega),
      toNat_ofNat_small (by omega)⟩))

/-- Encodings of scalar values are prefix-free and injective: if two byte strings that each start
    with an encoding are equal, the code points are equal and so are the remainders. -/
theorem encodeCp_append_inj (c c' : Nat) (hc : isScalar c) (hc' : isScalar c') (r r' : List UInt8)
    (h : encodeCp c ++ r = encodeCp c' ++ r') : c = c' ∧ r = r' := by
  rcases encodeCp_cases c hc with ⟨_, a0, e, _⟩ | ⟨_, _, a0, a1, e, _, _⟩ | ⟨_, _, a0, a1, a2, e, _, _, _⟩ |
      ⟨_, _, a0, a1, a2, a3, e, _, _, _, _⟩ <;>
  rcases encodeCp_cases c' hc' with ⟨_, b0, e', _⟩ | ⟨_, _, b0, b1, e', _, _⟩ | ⟨_, _, b0, b1, b2, e', _, _, _⟩ |
      ⟨_, _, b0, b1, b2, b3, e', _, _, _, _⟩ <;>
  rw [e, e'] at h <;>
  simp only [List.cons_append, List.nil_append, List.cons.injEq] at h <;>
  first
  | exact absurd (congrArg UInt8.toNat h.1) (by omega)
  | (obtain ⟨h0, h⟩ := h
     have h0 := congrArg UInt8.toNat h0
     first
     | exact ⟨by omega, h⟩
     | (obtain ⟨h1, h⟩ := h
        have h1 := congrArg UInt8.toNat h1
        first
        | exact ⟨by omega, h⟩
        | (obtain ⟨h2, h⟩ := h
           have h2 := congrArg UInt8.toNat h2
           first
           | exact ⟨by omega, h⟩
           | (obtain ⟨h3, h⟩ := h
              have h3 := congrArg UInt8.toNat h3
              exact ⟨by omega, h⟩))))

/-- Decoding is unique: two lists of scalar values with the same encoding are equal. -/
theorem flatMap_encodeCp_inj (cs cs' : List Nat) (h : ∀ c ∈ cs, isScalar c) (h' : ∀ c ∈ cs', isScalar c)
    (e : cs.flatMap encodeCp = cs'.flatMap encodeCp) : cs = cs' := by
  induction cs generalizing cs' with
  | nil =>
    cases cs' with
    | nil => rfl
    | cons c' cs' =>
      exfalso
      rcases encodeCp_cases c' (h' c' (by simp)) with ⟨_, b0, e', _⟩ | ⟨_, _, b0, b1, e', _, _⟩ |
        ⟨_, _, b0, b1, b2, e', _, _, _⟩ | ⟨_, _, b0, b1, b2, b3, e', _, _, _, _⟩ <;>
      simp [List.flatMap_cons, e'] at e
  | cons c cs ih =>
    cases cs' with
    | nil =>
      exfalso
      rcases encodeCp_cases c (h c (by simp)) with ⟨_, b0, e', _⟩ | ⟨_, _, b0, b1, e', _, _⟩ |
        ⟨_, _, b0, b1, b2, e', _, _, _⟩ | ⟨_, _, b0, b1, b2, b3, e', _, _, _, _⟩ <;>
      simp [List.flatMap_cons, e'] at e
    | cons c' cs' =>
      rw [List.flatMap_cons, List.flatMap_cons] at e
      obtain ⟨hc, hr⟩ := encodeCp_append_inj c c' (h c (by simp)) (h' c' (by simp)) _ _ e
      rw [hc, ih cs' (fun x hx => h x (by simp [hx])) (fun x hx => h' x (by simp [hx])) hr]

end Resp
