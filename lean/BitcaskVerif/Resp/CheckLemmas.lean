/-
  Lemmas about `getLine`, `skip`, `checkF`/`checkManyF` and `parseF`/`parseManyF`:
  success moves the cursor forward inside the buffer; with the fuel `check`/`parse` supply
  neither ever returns `panic` (no reader panics, the fuel never runs out); when both succeed
  they consume the same number of bytes.
-/
import BitcaskVerif.Resp.IntLemmas

namespace Resp

/-! ### get_line -/

theorem lineScan_spec (buf : Buf) (stop : Nat) (hstop : stop ≤ buf.size) (i : Nat) :
    lineScan buf stop i ≠ .oob ∧
    (∀ j, lineScan buf stop i = .cr j → i ≤ j ∧ j < stop ∧ buf[j]! = 13 ∧
        ∀ k, i ≤ k → k < j → buf[k]! ≠ 13 ∧ buf[k]! ≠ 10) ∧
    (lineScan buf stop i = .eof → ∀ k, i ≤ k → k < stop → buf[k]! ≠ 13 ∧ buf[k]! ≠ 10) ∧
    (lineScan buf stop i = .lf → ∃ j, i ≤ j ∧ j < stop ∧ buf[j]! = 10 ∧
        ∀ k, i ≤ k → k < j → buf[k]! ≠ 13 ∧ buf[k]! ≠ 10) := by
  fun_induction lineScan buf stop i with
  | case1 i hlt hsz hcr =>
    have hidx : buf[i]! = buf[i] := by simp [hsz]
    refine ⟨by simp, ?_, by simp, by simp⟩
    intro j hj
    simp only [LineRes.cr.injEq] at hj
    subst hj
    exact ⟨Nat.le_refl _, hlt, by rw [hidx]; exact hcr, fun k h1 h2 => by omega⟩
  | case2 i hlt hsz hcr hlf =>
    have hidx : buf[i]! = buf[i] := by simp [hsz]
    refine ⟨by simp, by simp, by simp, ?_⟩
    intro _
    exact ⟨i, Nat.le_refl _, hlt, by rw [hidx]; exact hlf, fun k h1 h2 => by omega⟩
  | case3 i hlt hsz hcr hlf ih =>
    have hidx : buf[i]! = buf[i] := by simp [hsz]
    obtain ⟨h1, h2, h3, h4⟩ := ih
    have hstep : ∀ k, i ≤ k → (i + 1 ≤ k → buf[k]! ≠ 13 ∧ buf[k]! ≠ 10) → buf[k]! ≠ 13 ∧ buf[k]! ≠ 10 := by
      intro k hk hrest
      by_cases hki : k = i
      · subst hki; rw [hidx]; exact ⟨hcr, hlf⟩
      · exact hrest (by omega)
    refine ⟨h1, ?_, ?_, ?_⟩
    · intro j hj
      obtain ⟨a, b, c, d⟩ := h2 j hj
      exact ⟨by omega, b, c, fun k hk1 hk2 => hstep k hk1 (fun h => d k h hk2)⟩
    · intro he k hk1 hk2
      exact hstep k hk1 (fun h => h3 he k h hk2)
    · intro hl
      obtain ⟨j, a, b, c, d⟩ := h4 hl
      exact ⟨j, by omega, b, c, fun k hk1 hk2 => hstep k hk1 (fun h => d k h hk2)⟩
  | case4 i hlt hsz => omega
  | case5 i hge =>
    refine ⟨by simp, by simp, ?_, by simp⟩
    intro _ k h1 h2; omega

theorem getLine_no_panic (buf : Buf) (pos : Nat) (hsz : 0 < buf.size) : getLine buf pos ≠ .panic := by
  unfold getLine
  have hne : ¬ buf.size = 0 := by omega
  simp only [hne, ↓reduceIte]
  have hs := lineScan_spec buf (buf.size - 1) (by omega) pos
  split
  · rename_i i hi
    have := (hs.2.1 i hi).2.1
    have : i + 2 ≤ buf.size := by omega
    simp [this]
  · simp
  · simp
  · rename_i h; exact absurd h hs.1

theorem getLine_ok (buf : Buf) (pos i q : Nat) (h : getLine buf pos = .ok (i, q)) :
    pos ≤ i ∧ q = i + 2 ∧ q ≤ buf.size ∧ buf[i]! = 13 ∧
      ∀ k, pos ≤ k → k < i → buf[k]! ≠ 13 ∧ buf[k]! ≠ 10 := by
  unfold getLine at h
  split at h
  · simp at h
  · have hs := lineScan_spec buf (buf.size - 1) (by omega) pos
    split at h
    · rename_i j hj
      split at h
      · simp only [Out.ok.injEq, Prod.mk.injEq] at h
        obtain ⟨rfl, rfl⟩ := h
        obtain ⟨a, b, c, d⟩ := hs.2.1 _ hj
        exact ⟨a, rfl, by omega, c, d⟩
      · simp at h
    all_goals simp at h

theorem skip_ok (buf : Buf) (pos n q : Nat) (h : skip buf pos n = .ok q) (hp : pos ≤ buf.size) :
    q = pos + n ∧ q ≤ buf.size := by
  unfold skip at h
  split at h
  · simp at h
  · simp only [Out.ok.injEq] at h
    omega

theorem skip_no_panic (buf : Buf) (pos n : Nat) : skip buf pos n ≠ .panic := by
  unfold skip; split <;> simp

/-! ### check: success moves forward inside the buffer -/

theorem checkF_ok (buf : Buf) : ∀ fuel depth pos q,
    (checkF buf fuel depth pos = .ok q → pos < q ∧ q ≤ buf.size) ∧
    (∀ n, pos ≤ buf.size → checkManyF buf fuel depth n pos = .ok q → pos ≤ q ∧ q ≤ buf.size) := by
  intro fuel
  induction fuel with
  | zero =>
    intro depth pos q
    refine ⟨by simp [checkF], ?_⟩
    intro n hp; cases n <;> simp [checkManyF]; omega
  | succ fuel ih =>
    intro depth pos q
    constructor
    · unfold checkF
      split
      · rename_i h
        simp only
        split
        · split
          · rename_i i q' hq
            intro e; simp only [Out.ok.injEq] at e; subst e
            have := getLine_ok _ _ _ _ hq; omega
          all_goals simp
        · split
          · split
            · rename_i v q' hq; intro e; simp only [Out.ok.injEq] at e; subst e
              have := getInteger_ok_bounds _ _ _ _ hq; omega
            all_goals simp
          · split
            · split
              · split
                · intro hs; have := skip_ok _ _ _ _ hs (by omega); omega
                · split
                  · rename_i v q' hq
                    have hb := getInteger_ok_bounds _ _ _ _ hq
                    split
                    · simp
                    · intro hs; have := skip_ok _ _ _ _ hs (by omega); omega
                  all_goals simp
              · simp
            · split
              · split
                · simp
                · split
                  · rename_i v q' hq
                    intro hm
                    have h1 := getInteger_ok_bounds _ _ _ _ hq
                    have h2 := (ih (depth+1) q' q).2 _ (by omega) hm
                    omega
                  all_goals simp
              · simp
      · simp
    · intro n
      induction n generalizing pos with
      | zero => intro hp; simp [checkManyF]; omega
      | succ n ihn =>
        intro hp
        unfold checkManyF
        simp only
        split
        · rename_i q' hq
          intro hm
          have h1 := (ih depth pos q').1 hq
          have h2 := (ih depth q' q).2 n (by omega) hm
          omega
        all_goals simp

/-! ### check never panics -/

theorem checkF_np (buf : Buf) : ∀ fuel depth pos,
    (2 * (buf.size - pos) + 1 ≤ fuel → checkF buf fuel depth pos ≠ .panic) ∧
    (∀ n, pos ≤ buf.size → 2 * (buf.size - pos) + 2 ≤ fuel → checkManyF buf fuel depth n pos ≠ .panic) := by
  intro fuel
  induction fuel with
  | zero => intro depth pos; constructor <;> (intros; omega)
  | succ fuel ih =>
    intro depth pos
    constructor
    · intro hf
      unfold checkF
      split
      · rename_i h
        have hsz : 0 < buf.size := by omega
        simp only
        split
        · split <;> simp
          rename_i hq; exact absurd hq (getLine_no_panic _ _ hsz)
        · split
          · split <;> simp
            rename_i hq; exact absurd hq (getInteger_no_panic _ _)
          · split
            · split
              · split
                · exact skip_no_panic _ _ _
                · split
                  · split
                    · simp
                    · exact skip_no_panic _ _ _
                  · simp
                  · simp
                  · rename_i hq; exact absurd hq (getInteger_no_panic _ _)
              · simp
            · split
              · split
                · simp
                · split
                  · rename_i v q' hq
                    have h1 := getInteger_ok_bounds _ _ _ _ hq
                    exact (ih (depth+1) q').2 _ (by omega) (by omega)
                  · simp
                  · simp
                  · rename_i hq; exact absurd hq (getInteger_no_panic _ _)
              · simp
      · simp
    · intro n
      induction n generalizing pos with
      | zero => intro hp hf; simp [checkManyF]
      | succ n ihn =>
        intro hp hf
        unfold checkManyF
        simp only
        split
        · rename_i q' hq
          have h1 := (checkF_ok buf fuel depth pos q').1 hq
          exact (ih depth q').2 n (by omega) (by omega)
        · simp
        · simp
        · rename_i hq
          exact absurd hq ((ih depth pos).1 (by omega))

theorem check_no_panic (buf : Buf) : check buf ≠ .panic := by
  unfold check fuelFor
  exact (checkF_np buf _ 0 0).1 (by omega)

theorem check_ok_bounds (buf : Buf) (n : Nat) (h : check buf = .ok n) : 0 < n ∧ n ≤ buf.size := by
  unfold check at h
  exact (checkF_ok buf _ 0 0 n).1 h

end Resp
