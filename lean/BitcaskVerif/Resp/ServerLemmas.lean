/-
  Lemmas about the connection reader and the handler model: `read_frame` never panics, a reader
  loop terminates within its fuel, the handler applies exactly the well-formed commands that
  precede the first error.
-/
import BitcaskVerif.Resp.Server
import BitcaskVerif.Resp.ParseLemmas

namespace Resp

/-- total number of bytes a connection still has (buffered + to be delivered) -/
def pendingBytes (buf : Buf) (segs : List (List UInt8)) : Nat := buf.size + segs.flatten.length

theorem readFrame_spec (buf : Buf) (segs : List (List UInt8)) :
    (readFrame buf segs).1 ≠ .panic ∧
    (∀ f, (readFrame buf segs).1 = .frame f →
      pendingBytes (readFrame buf segs).2.1 (readFrame buf segs).2.2 < pendingBytes buf segs) := by
  induction segs generalizing buf with
  | nil =>
    unfold readFrame
    cases hp : parseFrame buf with
    | frame f n =>
      simp only
      have hb : 0 < n ∧ n ≤ buf.size := by
        unfold parseFrame at hp
        split at hp
        · rename_i m hm
          have := check_ok_bounds buf m hm
          split at hp
          · split at hp
            · simp only [PF.frame.injEq] at hp; obtain ⟨_, rfl⟩ := hp; exact this
            · cases hp
          all_goals cases hp
        all_goals cases hp
      refine ⟨by simp, fun _ _ => ?_⟩
      simp only [pendingBytes, Array.size_extract, List.flatten_nil, List.length_nil]
      omega
    | need => simp only; split <;> simp
    | err e => simp
    | panic => exact absurd hp (parseFrame_no_panic buf)
  | cons sg rest ih =>
    unfold readFrame
    cases hp : parseFrame buf with
    | frame f n =>
      simp only
      have hb : 0 < n ∧ n ≤ buf.size := by
        unfold parseFrame at hp
        split at hp
        · rename_i m hm
          have := check_ok_bounds buf m hm
          split at hp
          · split at hp
            · simp only [PF.frame.injEq] at hp; obtain ⟨_, rfl⟩ := hp; exact this
            · cases hp
          all_goals cases hp
        all_goals cases hp
      refine ⟨by simp, fun _ _ => ?_⟩
      simp only [pendingBytes, Array.size_extract]
      omega
    | need =>
      simp only
      obtain ⟨a, b⟩ := ih (buf ++ sg.toArray)
      refine ⟨a, fun f hf => ?_⟩
      have := b f hf
      simp only [pendingBytes, Array.size_append, List.size_toArray, List.flatten_cons, List.length_append] at this ⊢
      omega
    | err e => simp
    | panic => exact absurd hp (parseFrame_no_panic buf)

/-- with fuel above the number of pending bytes the reader loop never reports `panic` -/
theorem readAllF_no_panic : ∀ (fuel : Nat) (buf : Buf) (segs : List (List UInt8)),
    pendingBytes buf segs < fuel → ReadRes.panic ∉ readAllF fuel buf segs := by
  intro fuel
  induction fuel with
  | zero => intro buf segs h; omega
  | succ fuel ih =>
    intro buf segs h
    unfold readAllF
    obtain ⟨hnp, hdec⟩ := readFrame_spec buf segs
    cases hr : readFrame buf segs with
    | mk r rest =>
      obtain ⟨buf', segs'⟩ := rest
      rw [hr] at hnp hdec
      simp only at hnp hdec
      cases r with
      | frame f =>
        simp only [List.mem_cons, reduceCtorEq, false_or]
        exact ih buf' segs' (by have := hdec f rfl; omega)
      | cleanEnd => simp
      | reset => simp
      | error e => simp
      | panic => exact absurd rfl hnp

theorem readAll_no_panic (segs : List (List UInt8)) : ReadRes.panic ∉ readAll segs := by
  unfold readAll
  apply readAllF_no_panic
  simp [pendingBytes]

/-- replies are never arrays, so `write_frame` never hits `unimplemented!()` -/
theorem encode_reply_some (m : KV) (c : Cmd) : ∃ b, encode (applyCmd m c).2 = some b := by
  cases c with
  | set k v => exact ⟨_, rfl⟩
  | get k =>
    simp only [applyCmd]
    cases m k <;> exact ⟨_, rfl⟩
  | del ks => simp only [applyCmd]; exact ⟨_, rfl⟩

/-- the handler never panics on read results that contain no `panic` -/
theorem serveFrames_no_panic (m : KV) (rs : List ReadRes) (h : ReadRes.panic ∉ rs) :
    (serveFrames m rs).2.2 ≠ .panic := by
  induction rs generalizing m with
  | nil => simp [serveFrames]
  | cons r rest ih =>
    cases r with
    | frame f =>
      simp only [serveFrames]
      cases hc : Cmd.ofFrame f with
      | error e => simp
      | ok c =>
        simp only
        obtain ⟨b, hb⟩ := encode_reply_some m c
        cases ha : applyCmd m c with
        | mk m1 reply =>
          rw [ha] at hb
          simp only at hb
          simp only [hb]
          exact ih m1 (fun hm => h (List.mem_cons_of_mem _ hm))
    | cleanEnd => simp [serveFrames]
    | reset => simp [serveFrames]
    | error e => simp [serveFrames]
    | panic => exact absurd List.mem_cons_self h

/-- the commands a handler applies: those of the leading frames, up to the first frame that is
    not a command (or the first non-frame result) -/
def goodPrefix : List ReadRes → List Cmd
  | .frame f :: rest =>
    match Cmd.ofFrame f with
    | .ok c => c :: goodPrefix rest
    | .error _ => []
  | _ => []

def applyAll (m : KV) (cs : List Cmd) : KV := cs.foldl (fun m c => (applyCmd m c).1) m

theorem serveFrames_store (m : KV) (rs : List ReadRes) (h : ReadRes.panic ∉ rs) :
    (serveFrames m rs).1 = applyAll m (goodPrefix rs) := by
  induction rs generalizing m with
  | nil => simp [serveFrames, goodPrefix, applyAll]
  | cons r rest ih =>
    cases r with
    | frame f =>
      simp only [serveFrames, goodPrefix]
      cases hc : Cmd.ofFrame f with
      | error e => simp [applyAll]
      | ok c =>
        simp only
        obtain ⟨b, hb⟩ := encode_reply_some m c
        cases ha : applyCmd m c with
        | mk m1 reply =>
          rw [ha] at hb
          simp only at hb
          simp only [hb, applyAll, List.foldl_cons, ha]
          exact ih m1 (fun hm => h (List.mem_cons_of_mem _ hm))
    | cleanEnd => simp [serveFrames, goodPrefix, applyAll]
    | reset => simp [serveFrames, goodPrefix, applyAll]
    | error e => simp [serveFrames, goodPrefix, applyAll]
    | panic => exact absurd List.mem_cons_self h

end Resp
