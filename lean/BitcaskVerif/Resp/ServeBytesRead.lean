/-
  Byte-level handler lemmas, part 2 (helpers for `Props/C06Bytes.lean`):
  the shape of what the reader loop returns on ARBITRARY bytes (complete frames, then exactly one
  non-frame result), where those frames sit in the byte stream, and the handler's complete result
  on such a run in terms of the map model.
-/
import BitcaskVerif.Resp.ServeBytes

namespace Resp

/-! ### commands decoded from a list of frames -/

/-- the commands decoded from the leading frames, up to (not including) the first frame that
    `Command::try_from` rejects -/
def decodedPrefix : List Frame → List Cmd
  | [] => []
  | f :: fs =>
    match Cmd.ofFrame f with
    | .ok c => c :: decodedPrefix fs
    | .error _ => []

/-- the error of the first frame that is not a command, if there is one -/
def firstCmdErr : List Frame → Option CmdErr
  | [] => none
  | f :: fs =>
    match Cmd.ofFrame f with
    | .ok _ => firstCmdErr fs
    | .error e => some e

/-- how the handler ends on a non-frame read result -/
def endOf : ReadRes → HEnd
  | .frame _ => .running
  | .cleanEnd => .peerClosed
  | .reset => .reset
  | .error e => .frameError e
  | .panic => .panic

/-- SET and DEL, the commands that can change the store -/
def Cmd.isWrite : Cmd → Bool
  | .get _ => false
  | _ => true

theorem goodPrefix_frames (fs : List Frame) (r : ReadRes) (hr : ∀ f, r ≠ .frame f) :
    goodPrefix (fs.map .frame ++ [r]) = decodedPrefix fs := by
  induction fs with
  | nil =>
    cases r with
    | frame f => exact absurd rfl (hr f)
    | _ => rfl
  | cons f fs ih =>
    simp only [List.map_cons, List.cons_append, goodPrefix, decodedPrefix]
    rw [ih]
    cases Cmd.ofFrame f <;> rfl

/-- `decodedPrefix fs` names a prefix of `fs`: its frames are exactly the request frames of the
    decoded commands, all of them well-formed, and the frame right after it (if any) is rejected -/
theorem decodedPrefix_spec (fs : List Frame) :
    fs.take (decodedPrefix fs).length = (decodedPrefix fs).map Cmd.toFrame ∧
      (∀ c, c ∈ decodedPrefix fs → WfCmd c) ∧
      (∀ h : (decodedPrefix fs).length < fs.length,
        ∃ e, Cmd.ofFrame fs[(decodedPrefix fs).length] = .error e ∧ firstCmdErr fs = some e) ∧
      ((decodedPrefix fs).length = fs.length → firstCmdErr fs = none) := by
  induction fs with
  | nil => simp [decodedPrefix, firstCmdErr]
  | cons f fs ih =>
    cases hc : Cmd.ofFrame f with
    | error e =>
      simp only [decodedPrefix, firstCmdErr, hc, List.length_nil, List.take_zero, List.map_nil,
        List.not_mem_nil, false_imp_iff, implies_true, List.length_cons, List.getElem_cons_zero,
        true_and]
      exact ⟨fun _ => ⟨e, rfl, rfl⟩, fun h => by omega⟩
    | ok c =>
      obtain ⟨h1, h2, h3, h4⟩ := ih
      obtain ⟨hf, hwf⟩ := ofFrame_ok f c hc
      simp only [decodedPrefix, firstCmdErr, hc, List.length_cons, List.take_succ_cons, h1,
        List.map_cons, List.mem_cons, forall_eq_or_imp, List.getElem_cons_succ,
        Nat.add_lt_add_iff_right, Nat.add_right_cancel_iff]
      exact ⟨by rw [hf], ⟨hwf, h2⟩, h3, h4⟩

theorem decodedPrefix_length_le (fs : List Frame) : (decodedPrefix fs).length ≤ fs.length := by
  induction fs with
  | nil => simp [decodedPrefix]
  | cons f fs ih =>
    cases hc : Cmd.ofFrame f with
    | error e => simp [decodedPrefix, hc]
    | ok c => simp only [decodedPrefix, hc, List.length_cons]; omega

/-- frames of well-formed requests all decode -/
theorem decodedPrefix_toFrames (reqs : List Cmd) (h : ∀ c, c ∈ reqs → WfCmd c) :
    decodedPrefix (reqs.map Cmd.toFrame) = reqs := by
  induction reqs with
  | nil => rfl
  | cons c cs ih =>
    simp only [List.map_cons, decodedPrefix, c06_cmd_roundtrip c (h c List.mem_cons_self),
      ih (fun x hx => h x (List.mem_cons_of_mem _ hx))]

/-! ### GETs do not change the store -/

theorem applyAll_cons (m : KV) (c : Cmd) (cs : List Cmd) :
    applyAll m (c :: cs) = applyAll (applyCmd m c).1 cs := by
  simp only [applyAll, List.foldl_cons]

theorem applyAll_filter_writes (m : KV) (cs : List Cmd) :
    applyAll m cs = applyAll m (cs.filter Cmd.isWrite) := by
  induction cs generalizing m with
  | nil => rfl
  | cons c cs ih =>
    cases c with
    | get k =>
      have : (applyCmd m (.get k)).1 = m := rfl
      simp only [applyAll_cons, this, ih, List.filter_cons, Cmd.isWrite, Bool.false_eq_true, ↓reduceIte]
    | set k v => simp only [applyAll_cons, ih, List.filter_cons, Cmd.isWrite, ↓reduceIte]
    | del ks => simp only [applyAll_cons, ih, List.filter_cons, Cmd.isWrite, ↓reduceIte]

theorem isWrite_iff (c : Cmd) :
    Cmd.isWrite c = true ↔ (∃ k v, c = .set k v) ∨ (∃ ks, c = .del ks) := by
  cases c <;> simp [Cmd.isWrite]

/-! ### shape of a reader run on arbitrary bytes -/

/-- `Forall₂`-style relation kept first-order: frame `fs[i]` was parsed from chunk `chunks[i]`,
    i.e. from a buffer that starts with that chunk, consuming exactly the chunk -/
def ParsedFrom : List Frame → List (List UInt8) → Prop
  | [], [] => True
  | f :: fs, ch :: chs =>
    (∃ more : List UInt8, parseFrame (ch ++ more).toArray = .frame f ch.length) ∧ ParsedFrom fs chs
  | _, _ => False

theorem parseFrame_frame_le (buf : Buf) (g : Frame) (n : Nat) (hp : parseFrame buf = .frame g n) :
    n ≤ buf.size := by
  unfold parseFrame at hp
  split at hp
  · rename_i k hk
    have := check_ok_bounds buf k hk
    split at hp
    · split at hp
      · simp only [PF.frame.injEq] at hp; obtain ⟨_, rfl⟩ := hp; exact this.2
      · cases hp
    all_goals cases hp
  all_goals cases hp

theorem extract_toList_drop (buf : Buf) (n : Nat) :
    (buf.extract n buf.size).toList = buf.toList.drop n := by
  simp only [Array.toList_extract, List.extract]
  apply List.take_of_length_le
  simp

theorem readFrame_frame_chunk : ∀ (segs : List (List UInt8)) (buf : Buf) (f : Frame) (buf' : Buf)
    (segs' : List (List UInt8)), readFrame buf segs = (.frame f, buf', segs') →
    ∃ ch more : List UInt8, parseFrame (ch ++ more).toArray = .frame f ch.length ∧
      buf.toList ++ segs.flatten = ch ++ (buf'.toList ++ segs'.flatten) := by
  intro segs
  induction segs with
  | nil =>
    intro buf f buf' segs' h
    unfold readFrame at h
    cases hp : parseFrame buf with
    | frame g n =>
      simp only [hp, Prod.mk.injEq, ReadRes.frame.injEq] at h
      obtain ⟨rfl, rfl, rfl⟩ := h
      have hn : n ≤ buf.size := parseFrame_frame_le buf g n hp
      refine ⟨buf.toList.take n, buf.toList.drop n, ?_, ?_⟩
      · have hl : (buf.toList.take n).length = n := by simp; omega
        rw [List.take_append_drop, hl]
        simpa using hp
      · rw [extract_toList_drop, List.flatten_nil, List.append_nil, List.append_nil,
          List.take_append_drop]
    | need =>
      simp only [hp] at h
      split at h <;> cases h
    | err e => simp [hp] at h
    | panic => simp [hp] at h
  | cons s rest ih =>
    intro buf f buf' segs' h
    rw [readFrame] at h
    cases hp : parseFrame buf with
    | frame g n =>
      simp only [hp, Prod.mk.injEq, ReadRes.frame.injEq] at h
      obtain ⟨rfl, rfl, rfl⟩ := h
      have hn : n ≤ buf.size := parseFrame_frame_le buf g n hp
      refine ⟨buf.toList.take n, buf.toList.drop n, ?_, ?_⟩
      · have hl : (buf.toList.take n).length = n := by simp; omega
        rw [List.take_append_drop, hl]
        simpa using hp
      · rw [extract_toList_drop, ← List.append_assoc, List.take_append_drop]
    | need =>
      simp only [hp] at h
      obtain ⟨ch, more, h1, h2⟩ := ih (buf ++ s.toArray) f buf' segs' h
      refine ⟨ch, more, h1, ?_⟩
      rw [← h2]; simp
    | err e => simp [hp] at h
    | panic => simp [hp] at h

/-- the reader loop returns complete frames and then exactly one non-frame result; the frames were
    parsed from consecutive chunks of the byte stream, starting at its first byte -/
theorem readAllF_shape : ∀ (fuel : Nat) (buf : Buf) (segs : List (List UInt8)),
    ∃ (fs : List Frame) (r : ReadRes) (chunks : List (List UInt8)) (rest : List UInt8),
      readAllF fuel buf segs = fs.map .frame ++ [r] ∧ (∀ f, r ≠ .frame f) ∧
      ParsedFrom fs chunks ∧ buf.toList ++ segs.flatten = chunks.flatten ++ rest := by
  intro fuel
  induction fuel with
  | zero =>
    intro buf segs
    exact ⟨[], .panic, [], buf.toList ++ segs.flatten, rfl, by simp, trivial, by simp⟩
  | succ fuel ih =>
    intro buf segs
    unfold readAllF
    cases hr : readFrame buf segs with
    | mk r rest =>
      obtain ⟨buf', segs'⟩ := rest
      cases r with
      | frame f =>
        obtain ⟨fs, r, chunks, tl, h1, h2, h3, h4⟩ := ih buf' segs'
        obtain ⟨ch, more, h5, h6⟩ := readFrame_frame_chunk segs buf f buf' segs' hr
        refine ⟨f :: fs, r, ch :: chunks, tl, by simp [h1], h2, ⟨⟨more, h5⟩, h3⟩, ?_⟩
        rw [h6, h4]; simp
      | cleanEnd => exact ⟨[], .cleanEnd, [], buf.toList ++ segs.flatten, rfl, by simp, trivial, by simp⟩
      | reset => exact ⟨[], .reset, [], buf.toList ++ segs.flatten, rfl, by simp, trivial, by simp⟩
      | error e => exact ⟨[], .error e, [], buf.toList ++ segs.flatten, rfl, by simp, trivial, by simp⟩
      | panic => exact ⟨[], .panic, [], buf.toList ++ segs.flatten, rfl, by simp, trivial, by simp⟩

theorem readAll_shape (segs : List (List UInt8)) :
    ∃ (fs : List Frame) (r : ReadRes) (chunks : List (List UInt8)) (rest : List UInt8),
      readAll segs = fs.map .frame ++ [r] ∧ (∀ f, r ≠ .frame f) ∧ r ≠ .panic ∧
      ParsedFrom fs chunks ∧ segs.flatten = chunks.flatten ++ rest := by
  obtain ⟨fs, r, chunks, rest, h1, h2, h3, h4⟩ := readAllF_shape (segs.flatten.length + 2) #[] segs
  refine ⟨fs, r, chunks, rest, h1, h2, ?_, h3, by simpa using h4⟩
  intro hp
  have := readAll_no_panic segs
  unfold readAll at this
  rw [h1, hp] at this
  exact this (by simp)

/-! ### what a reply looks like -/

/-- the frames a handler ever writes: `+OK`, a bulk string, null, or a non-negative count -/
def IsReply : Frame → Prop
  | .simple s => s = sOK
  | .bulk _ => True
  | .null => True
  | .integer i => 0 ≤ i
  | _ => False

theorem applyCmd_isReply (m : KV) (c : Cmd) : IsReply (applyCmd m c).2 := by
  cases c with
  | set k v => exact rfl
  | get k =>
    simp only [applyCmd]
    cases m k <;> exact trivial
  | del ks =>
    simp only [applyCmd, IsReply]
    exact Int.natCast_nonneg _

theorem specReplies_isReply (m : KV) (cs : List Cmd) : ∀ f, f ∈ (specReplies m cs).2 → IsReply f := by
  induction cs generalizing m with
  | nil => intro f hf; simp [specReplies] at hf
  | cons c cs ih =>
    intro f hf
    simp only [specReplies_cons, List.mem_cons] at hf
    rcases hf with rfl | hf
    · exact applyCmd_isReply m c
    · exact ih _ f hf

/-! ### the handler's complete result on such a run -/

theorem serveFrames_run (m : KV) (fs : List Frame) (r : ReadRes) (hr : ∀ f, r ≠ .frame f) :
    serveFrames m (fs.map .frame ++ [r]) =
      ((specReplies m (decodedPrefix fs)).1, encodeAll (specReplies m (decodedPrefix fs)).2,
        match firstCmdErr fs with
        | some e => .cmdError e
        | none => endOf r) := by
  induction fs generalizing m with
  | nil =>
    cases r with
    | frame f => exact absurd rfl (hr f)
    | _ => rfl
  | cons f fs ih =>
    simp only [List.map_cons, List.cons_append, serveFrames, decodedPrefix, firstCmdErr]
    cases hc : Cmd.ofFrame f with
    | error e => simp [specReplies, encodeAll]
    | ok c =>
      simp only
      obtain ⟨b, hb⟩ := encode_reply_some m c
      cases ha : applyCmd m c with
      | mk m1 reply =>
        rw [ha] at hb
        simp only at hb
        simp only [hb, ih m1, specReplies, ha, encodeAll, Option.getD_some]

/-- a run has only one decomposition into "frames, then one non-frame result" -/
theorem run_shape_unique : ∀ (fs fs' : List Frame) (r r' : ReadRes),
    (∀ f, r ≠ .frame f) → (∀ f, r' ≠ .frame f) →
    fs.map ReadRes.frame ++ [r] = fs'.map ReadRes.frame ++ [r'] → fs = fs' ∧ r = r' := by
  intro fs
  induction fs with
  | nil =>
    intro fs' r r' hr hr' h
    cases fs' with
    | nil => simpa using h
    | cons g gs =>
      simp only [List.map_nil, List.nil_append, List.map_cons, List.cons_append, List.cons.injEq] at h
      exact absurd h.1 (hr g)
  | cons f fs ih =>
    intro fs' r r' hr hr' h
    cases fs' with
    | nil =>
      simp only [List.map_nil, List.nil_append, List.map_cons, List.cons_append, List.cons.injEq] at h
      exact absurd h.1.symm (hr' f)
    | cons g gs =>
      simp only [List.map_cons, List.cons_append, List.cons.injEq, ReadRes.frame.injEq] at h
      obtain ⟨h1, h2⟩ := ih gs r r' hr hr' h.2
      exact ⟨by rw [h.1, h1], h2⟩

/-! ### well-formed requests followed by arbitrary bytes -/

/-- the reader loop on a stream that starts with the encodings of `fs` and continues with any
    bytes `tail`: it returns `fs` and then goes on with some panic-free continuation -/
theorem readAll_frames_then (fs : List Frame) (tail : List UInt8) (segs : List (List UInt8))
    (hw : ∀ f ∈ fs, WfFrame f) (h : segs.flatten = fs.flatMap wire ++ tail) :
    ∃ more : List ReadRes, readAll segs = fs.map .frame ++ more ∧ ReadRes.panic ∉ more := by
  have hlen := wire_flatMap_length fs hw
  obtain ⟨k, hk⟩ : ∃ k, segs.flatten.length + 2 = fs.length + (k + 1) :=
    ⟨segs.flatten.length + 1 - fs.length, by rw [h]; simp only [List.length_append]; omega⟩
  obtain ⟨buf', segs', h1, h2⟩ := readAllF_frames fs (k+1) #[] segs tail hw (by simpa using h)
  refine ⟨readAllF (k+1) buf' segs', by unfold readAll; rw [hk, h2], ?_⟩
  apply readAllF_no_panic
  have h3 := congrArg List.length h1
  have h4 := congrArg List.length h
  simp only [List.length_append, Array.length_toList] at h3 h4
  simp only [pendingBytes]
  omega

theorem goodPrefix_wf (rs : List ReadRes) : ∀ c, c ∈ goodPrefix rs → WfCmd c := by
  induction rs with
  | nil => intro c hc; simp [goodPrefix] at hc
  | cons r rs ih =>
    cases r with
    | frame f =>
      intro c hc
      simp only [goodPrefix] at hc
      cases hf : Cmd.ofFrame f with
      | error e => simp [hf] at hc
      | ok c' =>
        simp only [hf, List.mem_cons] at hc
        rcases hc with rfl | hc
        · exact (ofFrame_ok f c hf).2
        · exact ih c hc
    | _ => intro c hc; simp [goodPrefix] at hc

/-- well-formed requests followed by arbitrary bytes: every one of the requests is answered as the
    map model says, whatever follows; what follows contributes only further well-formed commands -/
theorem serve_reqs_then (m : KV) (reqs : List Cmd) (tail : List UInt8) (segs : List (List UInt8))
    (hwf : ∀ c, c ∈ reqs → WfCmd c) (hfit : ∀ c, c ∈ reqs → CmdFits c)
    (h : segs.flatten = (reqs.map Cmd.toFrame).flatMap wire ++ tail) :
    ∃ (more : List Cmd) (e : HEnd), (∀ c, c ∈ more → WfCmd c) ∧ e ≠ .panic ∧
      serve m segs =
        ((specReplies m (reqs ++ more)).1, encodeAll (specReplies m (reqs ++ more)).2, e) := by
  obtain ⟨rs, h1, h2⟩ := readAll_frames_then (reqs.map Cmd.toFrame) tail segs (toFrames_wf reqs hfit) h
  obtain ⟨h3, h4⟩ := serveFrames_spec (specReplies m reqs).1 rs h2
  refine ⟨goodPrefix rs, (serveFrames (specReplies m reqs).1 rs).2.2, goodPrefix_wf rs,
    serveFrames_no_panic _ rs h2, ?_⟩
  unfold serve
  rw [h1, List.map_map]
  have := serveFrames_reqs_append m reqs rs hwf
  simp only [Function.comp_def]
  rw [this, specReplies_append, encodeAll_append, h3, h4]

end Resp
