/-
  Model of `src/net/connection.rs` (`Connection::read_frame` over a stream delivered in
  arbitrary segments) and of `src/net/command.rs` (`Command::try_from(Frame)`).
  Core Lean only.
-/
import BitcaskVerif.Resp.Model

namespace Resp

/-- one result of `Connection::read_frame` -/
inductive ReadRes where
  | frame (f : Frame)     -- Ok(Some(frame))
  | cleanEnd              -- Ok(None): peer closed, buffer empty
  | reset                 -- Err(ConnectionReset): peer closed inside a frame
  | error (e : Err)       -- Err(Frame(e))
  | panic
deriving Repr

/-- `read_frame`: `buf` is the connection's read buffer, `segs` the segments the stream will still
    deliver (each `read_buf` returns one segment; an exhausted list is end-of-stream, i.e. a read
    of 0 bytes). Returns the result, the new buffer and the remaining segments. -/
def readFrame (buf : Buf) (segs : List (List UInt8)) : ReadRes × Buf × List (List UInt8) :=
  match parseFrame buf with
  | .frame f n => (.frame f, buf.extract n buf.size, segs)
  | .err e => (.error e, buf, segs)
  | .panic => (.panic, buf, segs)
  | .need =>
    match segs with
    | [] => if buf.size = 0 then (.cleanEnd, buf, []) else (.reset, buf, [])
    | s :: rest => readFrame (buf ++ s.toArray) rest
termination_by segs.length

/-- call `read_frame` until it stops returning frames (what a reader loop observes);
    `fuel` bounds the number of frames (each consumes at least one byte). -/
def readAllF : Nat → Buf → List (List UInt8) → List ReadRes
  | 0, _, _ => [.panic]
  | fuel+1, buf, segs =>
    match readFrame buf segs with
    | (.frame f, buf', segs') => .frame f :: readAllF fuel buf' segs'
    | (r, _, _) => [r]

def readAll (segs : List (List UInt8)) : List ReadRes :=
  readAllF (segs.flatten.length + 2) #[] segs

/-! ### commands -/

inductive Cmd where
  | set (k v : List UInt8)
  | get (k : List UInt8)
  | del (ks : List (List UInt8))
deriving Repr, DecidableEq

inductive CmdErr where
  | badFrame | badCommand | badArgs | notUtf8
deriving Repr, DecidableEq

/-- `Parser::get_string` over the remaining items -/
def getString : List Frame → Except CmdErr (Option (List UInt8) × List Frame)
  | [] => .ok (none, [])
  | .bulk s :: rest => if validUtf8 s then .ok (some s, rest) else .error .notUtf8
  | _ :: _ => .error .badFrame

/-- `Parser::get_bytes` -/
def getBytes : List Frame → Except CmdErr (Option (List UInt8) × List Frame)
  | [] => .ok (none, [])
  | .bulk s :: rest => .ok (some s, rest)
  | _ :: _ => .error .badFrame

/-- the `while let Some(key) = parser.get_string()?` loop of DEL -/
def delKeys : List Frame → Except CmdErr (List (List UInt8))
  | [] => .ok []
  | .bulk s :: rest =>
    if validUtf8 s then
      match delKeys rest with
      | .ok ks => .ok (s :: ks)
      | .error e => .error e
    else .error .notUtf8
  | _ :: _ => .error .badFrame

def sDEL : List UInt8 := [68, 69, 76]
def sGET : List UInt8 := [71, 69, 84]
def sSET : List UInt8 := [83, 69, 84]

/-- `Command::try_from(Frame)` -/
def Cmd.ofFrame : Frame → Except CmdErr Cmd
  | .array items =>
    match getBytes items with
    | .error e => .error e
    | .ok (none, _) => .error .badCommand
    | .ok (some name, rest) =>
      if name = sDEL then
        match delKeys rest with
        | .error e => .error e
        | .ok [] => .error .badArgs
        | .ok ks => .ok (.del ks)
      else if name = sGET then
        match getString rest with
        | .error e => .error e
        | .ok (none, _) => .error .badArgs
        | .ok (some k, rest') => if rest'.isEmpty then .ok (.get k) else .error .badArgs
      else if name = sSET then
        match getString rest with
        | .error e => .error e
        | .ok (none, _) => .error .badArgs
        | .ok (some k, rest') =>
          match getBytes rest' with
          | .error e => .error e
          | .ok (none, _) => .error .badArgs
          | .ok (some v, rest'') => if rest''.isEmpty then .ok (.set k v) else .error .badArgs
      else .error .badCommand
  | _ => .error .badFrame

/-- `From<Set|Get|Del> for Frame` (what the client sends) -/
def Cmd.toFrame : Cmd → Frame
  | .set k v => .array [.bulk sSET, .bulk k, .bulk v]
  | .get k => .array [.bulk sGET, .bulk k]
  | .del ks => .array (.bulk sDEL :: ks.map .bulk)

end Resp
