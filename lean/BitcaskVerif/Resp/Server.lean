/-
  Model of a connection handler (`src/net/server.rs` `Handler::run`, `command/{set,get,del}.rs`):
  read a frame, turn it into a command, apply it to the store, write one reply, repeat; any
  protocol or command error ends the connection without a reply. The store is the abstract map
  (the store's refinement to it is C01).
  Core Lean only.
-/
import BitcaskVerif.Resp.Conn

namespace Resp

abbrev KV := List UInt8 → Option (List UInt8)

def KV.empty : KV := fun _ => none
def KV.set (m : KV) (k v : List UInt8) : KV := fun k' => if k' = k then some v else m k'
def KV.del (m : KV) (k : List UInt8) : KV := fun k' => if k' = k then none else m k'

def sOK : List UInt8 := [79, 75]

/-- the DEL loop: each key is deleted in turn and counted if it was present at that moment -/
def delAll (m : KV) : List (List UInt8) → KV × Nat
  | [] => (m, 0)
  | k :: ks =>
    let present := (m k).isSome
    let (m', n) := delAll (m.del k) ks
    (m', if present then n + 1 else n)

/-- apply one command: new store, reply frame -/
def applyCmd (m : KV) : Cmd → KV × Frame
  | .set k v => (m.set k v, .simple sOK)
  | .get k => (m, match m k with | some v => .bulk v | none => .null)
  | .del ks => let (m', n) := delAll m ks; (m', .integer n)

/-- how a handler ends -/
inductive HEnd where
  | peerClosed                 -- clean end of stream between frames
  | reset                      -- stream ended inside a frame
  | frameError (e : Err)       -- malformed frame
  | cmdError (e : CmdErr)      -- not a supported command
  | panic                      -- proved unreachable
  | running                    -- input exhausted without end-of-stream (only for prefixes of a run)
deriving Repr, DecidableEq

/-- the handler loop over the results of successive `read_frame` calls: returns the store, the
    bytes written to the client (complete replies only) and how the handler ended -/
def serveFrames (m : KV) : List ReadRes → KV × List UInt8 × HEnd
  | [] => (m, [], .running)
  | .frame f :: rest =>
    match Cmd.ofFrame f with
    | .error e => (m, [], .cmdError e)
    | .ok c =>
      let (m1, reply) := applyCmd m c
      match encode reply with
      | none => (m1, [], .panic)            -- `unimplemented!()`: replies are never arrays
      | some bytes =>
        let (m2, out, e) := serveFrames m1 rest
        (m2, bytes ++ out, e)
  | .cleanEnd :: _ => (m, [], .peerClosed)
  | .reset :: _ => (m, [], .reset)
  | .error e :: _ => (m, [], .frameError e)
  | .panic :: _ => (m, [], .panic)

/-- one connection served from its first byte to its end, the client's bytes arriving in `segs` -/
def serve (m : KV) (segs : List (List UInt8)) : KV × List UInt8 × HEnd :=
  serveFrames m (readAll segs)

end Resp
