/-
  Lemmas about `getInteger` (the model of `get_integer`): it never panics, an accepted value is
  exactly the decimal value written wherever the number starts, out-of-range numbers are
  rejected, and success moves the cursor forward inside the buffer.
-/
import BitcaskVerif.Resp.Model

namespace Resp

/-- value of the digit string buf[i..i+n) read as a natural number -/
def decNat (buf : Buf) (i : Nat) : Nat → Nat
  | 0 => 0
  | n+1 => decNat buf i n * 10 + dvalN (buf[i+n]!)

def sgn (neg : Bool) : Int := if neg then -1 else 1

theorem dvalN_le {b : UInt8} (h : isDigit b = true) : dvalN b ≤ 9 := by
  simp only [isDigit, Bool.and_eq_true, decide_eq_true_eq] at h
  have h2 : b.toNat ≤ (57 : UInt8).toNat := UInt8.le_iff_toNat_le.mp h.2
  simp at h2
  unfold dvalN; omega

theorem decNat_lt (buf : Buf) (i n : Nat) (hd : ∀ j, j < n → isDigit (buf[i+j]!) = true) :
    decNat buf i n < 10 ^ n := by
  induction n with
  | zero => simp [decNat]
  | succ n ih =>
    have h1 := ih (fun j hj => hd j (by omega))
    have h2 := dvalN_le (hd n (by omega))
    simp only [decNat, Nat.pow_succ]; omega

theorem pow18 : (10:Nat)^18 ≤ 9223372036854775807 := by decide

theorem decNat_small (buf : Buf) (i n : Nat) (hn : n ≤ 18)
    (hd : ∀ j, j < n → isDigit (buf[i+j]!) = true) :
    decNat buf i n ≤ 9223372036854775807 := by
  have h1 := decNat_lt buf i n hd
  have h2 : (10:Nat)^n ≤ 10^18 := Nat.pow_le_pow_right (by decide) hn
  have := pow18
  omega

theorem inI64_of_small {neg : Bool} {m : Nat} (h : m ≤ 9223372036854775807) :
    inI64 (sgn neg * (m : Int)) = true := by
  unfold inI64 I64Min I64Max sgn
  cases neg <;> simp <;> omega

/-- Phase 1 never panics when it looks at no more than 18 positions inside the buffer, and it
    computes exactly the signed value of the digits it consumed. -/
theorem phase1_spec (buf : Buf) (stop : Nat) (neg : Bool) (start : Nat)
    (hstop : stop ≤ buf.size) (hsafe : stop ≤ start + 18) (idx : Nat) (num : Int) :
    start ≤ idx → idx ≤ stop →
    (∀ j, j < idx - start → isDigit (buf[start+j]!) = true) →
    num = sgn neg * (decNat buf start (idx - start) : Int) →
    ∃ i', phase1 buf stop neg idx num = some (i', sgn neg * (decNat buf start (i' - start) : Int))
      ∧ idx ≤ i' ∧ i' ≤ stop
      ∧ (∀ j, j < i' - start → isDigit (buf[start+j]!) = true)
      ∧ (i' < stop → isDigit (buf[i']!) = false) := by
  fun_induction phase1 buf stop neg idx num with
  | case1 idx num hlt hsz hdig num' hin ih =>
    intro hs hle hd hnum
    have hidx : buf[idx]! = buf[idx] := by simp [hsz]
    have hd' : ∀ j, j < idx + 1 - start → isDigit (buf[start+j]!) = true := by
      intro j hj
      by_cases hj' : j < idx - start
      · exact hd j hj'
      · have : start + j = idx := by omega
        rw [this, hidx]; exact hdig
    have hnum' : num' = sgn neg * (decNat buf start (idx + 1 - start) : Int) := by
      have e : idx + 1 - start = (idx - start) + 1 := by omega
      have e2 : start + (idx - start) = idx := by omega
      simp only [num', e, decNat, e2, hidx, hnum, dval, sgn]
      cases neg <;> simp <;> omega
    obtain ⟨i', h1, h2, h3, h4, h5⟩ := ih (by omega) (by omega) hd' hnum'
    exact ⟨i', h1, by omega, h3, h4, h5⟩
  | case2 idx num hlt hsz hdig num' hin =>
    intro hs hle hd hnum
    exfalso
    have hidx : buf[idx]! = buf[idx] := by simp [hsz]
    have hd' : ∀ j, j < idx + 1 - start → isDigit (buf[start+j]!) = true := by
      intro j hj
      by_cases hj' : j < idx - start
      · exact hd j hj'
      · have : start + j = idx := by omega
        rw [this, hidx]; exact hdig
    have hnum' : num' = sgn neg * (decNat buf start (idx + 1 - start) : Int) := by
      have e : idx + 1 - start = (idx - start) + 1 := by omega
      have e2 : start + (idx - start) = idx := by omega
      simp only [num', e, decNat, e2, hidx, hnum, dval, sgn]
      cases neg <;> simp <;> omega
    have := decNat_small buf start (idx + 1 - start) (by omega) hd'
    have := inI64_of_small (neg := neg) this
    rw [← hnum'] at this
    exact hin this
  | case3 idx num hlt hsz hdig =>
    intro hs hle hd hnum
    have hidx : buf[idx]! = buf[idx] := by simp [hsz]
    exact ⟨idx, by simp [hnum], by omega, hle, hd, fun _ => by rw [hidx]; simpa using hdig⟩
  | case4 idx num hlt hsz =>
    intro hs hle hd hnum
    omega
  | case5 idx num hge =>
    intro hs hle hd hnum
    exact ⟨idx, by simp [hnum], by omega, hle, hd, fun h => by omega⟩

def chk (x : Int) : Option Int := if inI64 x then some x else none

theorem step_chk (neg : Bool) (D d : Nat) (hd : d ≤ 9) :
    (chk (sgn neg * (D : Int))).bind (fun v =>
        let m := v * 10
        if inI64 m then
          let r := if neg then m - (d : Int) else m + (d : Int)
          if inI64 r then some r else none
        else none)
      = chk (sgn neg * ((D * 10 + d : Nat) : Int)) := by
  unfold chk inI64 I64Min I64Max sgn
  cases neg <;> simp only [Bool.false_eq_true, ↓reduceIte, Int.one_mul, Int.neg_mul] <;>
    (repeat' split) <;> simp_all <;> omega

theorem phase2_spec (buf : Buf) (stop : Nat) (neg : Bool) (start : Nat)
    (hstop : stop ≤ buf.size) (idx : Nat) (num : Option Int) :
    start ≤ idx → idx ≤ stop →
    (∀ j, j < idx - start → isDigit (buf[start+j]!) = true) →
    num = chk (sgn neg * (decNat buf start (idx - start) : Int)) →
    ∃ i', phase2 buf stop neg idx num = some (i', chk (sgn neg * (decNat buf start (i' - start) : Int)))
      ∧ idx ≤ i' ∧ i' ≤ stop
      ∧ (∀ j, j < i' - start → isDigit (buf[start+j]!) = true)
      ∧ (i' < stop → isDigit (buf[i']!) = false) := by
  fun_induction phase2 buf stop neg idx num with
  | case1 idx num hlt hsz hdig step ih =>
    intro hs hle hd hnum
    have hidx : buf[idx]! = buf[idx] := by simp [hsz]
    have hd' : ∀ j, j < idx + 1 - start → isDigit (buf[start+j]!) = true := by
      intro j hj
      by_cases hj' : j < idx - start
      · exact hd j hj'
      · have : start + j = idx := by omega
        rw [this, hidx]; exact hdig
    have hnum' : num.bind step = chk (sgn neg * (decNat buf start (idx + 1 - start) : Int)) := by
      have e : idx + 1 - start = (idx - start) + 1 := by omega
      have e2 : start + (idx - start) = idx := by omega
      rw [hnum, e]
      simp only [decNat, e2, hidx]
      exact step_chk neg _ _ (dvalN_le hdig)
    obtain ⟨i', h1, h2, h3, h4, h5⟩ := ih (by omega) (by omega) hd' hnum'
    exact ⟨i', h1, by omega, h3, h4, h5⟩
  | case2 idx num hlt hsz hdig =>
    intro hs hle hd hnum
    have hidx : buf[idx]! = buf[idx] := by simp [hsz]
    exact ⟨idx, by simp [hnum], by omega, hle, hd, fun _ => by rw [hidx]; simpa using hdig⟩
  | case3 idx num hlt hsz =>
    intro hs hle hd hnum
    omega
  | case4 idx num hge =>
    intro hs hle hd hnum
    exact ⟨idx, by simp [hnum], by omega, hle, hd, fun h => by omega⟩

theorem signInfo_start (buf : Buf) (pos : Nat) :
    pos ≤ (signInfo buf pos).2 ∧ (signInfo buf pos).2 ≤ pos + 1 := by
  unfold signInfo; simp only; split <;> omega

/-- the shape of every result of `intBody` -/
def intResult (buf : Buf) (neg : Bool) (start idx : Nat) : Out (Int × Nat) :=
  if idx ≥ buf.size - 1 then .incomplete
  else if idx = start then .err .notInteger
  else if buf[idx]! ≠ 13 then .err .notInteger
  else match chk (sgn neg * (decNat buf start (idx - start) : Int)) with
    | some v => .ok (v, idx + 2)
    | none => .err .notInteger

theorem intBody_cases (buf : Buf) (neg : Bool) (start : Nat) (hs : start ≤ buf.size) :
    ∃ idx, start ≤ idx ∧ (start ≤ buf.size - 1 → idx ≤ buf.size - 1)
      ∧ (∀ j, j < idx - start → isDigit (buf[start+j]!) = true)
      ∧ (idx < buf.size - 1 → isDigit (buf[idx]!) = false)
      ∧ intBody buf neg start = intResult buf neg start idx := by
  by_cases hse : start ≤ buf.size - 1
  · obtain ⟨i1, e1, l1, u1, d1, n1⟩ :=
      phase1_spec buf (min (buf.size - 1) (start + maxSafeDigits)) neg start (by omega)
        (by unfold maxSafeDigits; omega) start 0
        (by omega) (by unfold maxSafeDigits; omega) (by intro j hj; omega) (by simp [decNat])
    obtain ⟨idx, e2, l2, u2, d2, n2⟩ :=
      phase2_spec buf (buf.size - 1) neg start (by omega) i1
        (some (sgn neg * (decNat buf start (i1 - start) : Int)))
        l1 (by omega) d1 (by
          have hle : i1 - start ≤ 18 := by
            have : i1 ≤ start + maxSafeDigits := by omega
            unfold maxSafeDigits at this; omega
          have := inI64_of_small (neg := neg) (decNat_small buf start (i1 - start) hle d1)
          simp [chk, this])
    refine ⟨idx, by omega, fun _ => u2, d2, n2, ?_⟩
    unfold intBody intResult
    simp only [e1, e2]
    split
    · rfl
    · split
      · rfl
      · split
        · rfl
        · cases chk (sgn neg * (decNat buf start (idx - start) : Int)) <;> rfl
  · -- the sign was the last byte: start = buf.size, nothing to scan
    refine ⟨start, by omega, fun h => absurd h hse, by intro j hj; omega, by intro h; omega, ?_⟩
    have hp1 : phase1 buf (min (buf.size - 1) (start + maxSafeDigits)) neg start 0 = some (start, 0) := by
      unfold phase1; simp; omega
    have hp2 : phase2 buf (buf.size - 1) neg start (some 0) = some (start, some 0) := by
      unfold phase2; simp; omega
    unfold intBody intResult
    simp only [hp1, hp2]
    have : start ≥ buf.size - 1 := by omega
    simp [this]

theorem getInteger_cases (buf : Buf) (pos : Nat) (hp : pos < buf.size) :
    ∃ idx, (signInfo buf pos).2 ≤ idx ∧ ((signInfo buf pos).2 ≤ buf.size - 1 → idx ≤ buf.size - 1)
      ∧ (∀ j, j < idx - (signInfo buf pos).2 → isDigit (buf[(signInfo buf pos).2+j]!) = true)
      ∧ (idx < buf.size - 1 → isDigit (buf[idx]!) = false)
      ∧ getInteger buf pos = intResult buf (signInfo buf pos).1 (signInfo buf pos).2 idx := by
  have := signInfo_start buf pos
  obtain ⟨idx, h1, h2, h3, h4, h5⟩ := intBody_cases buf (signInfo buf pos).1 (signInfo buf pos).2 (by omega)
  refine ⟨idx, h1, h2, h3, h4, ?_⟩
  unfold getInteger; simp only [hp, ↓reduceIte]; exact h5

theorem intResult_ne_panic (buf : Buf) (neg : Bool) (start idx : Nat) :
    intResult buf neg start idx ≠ .panic := by
  unfold intResult
  repeat' split
  all_goals simp

theorem getInteger_no_panic (buf : Buf) (pos : Nat) : getInteger buf pos ≠ .panic := by
  by_cases hp : pos < buf.size
  · obtain ⟨idx, _, _, _, _, e⟩ := getInteger_cases buf pos hp
    rw [e]; exact intResult_ne_panic _ _ _ _
  · unfold getInteger; simp [hp]

/-- Every accepted integer has exactly the value written, wherever it starts, and is in range;
    the cursor ends after the terminator, inside the buffer. -/
theorem getInteger_exact (buf : Buf) (pos : Nat) (v : Int) (p' : Nat)
    (h : getInteger buf pos = .ok (v, p')) :
    pos < buf.size ∧
    ∃ idx, (signInfo buf pos).2 < idx ∧ p' = idx + 2 ∧ p' ≤ buf.size
      ∧ (∀ j, j < idx - (signInfo buf pos).2 → isDigit (buf[(signInfo buf pos).2+j]!) = true)
      ∧ buf[idx]! = 13
      ∧ v = sgn (signInfo buf pos).1 * (decNat buf (signInfo buf pos).2 (idx - (signInfo buf pos).2) : Int)
      ∧ inI64 v = true := by
  by_cases hp : pos < buf.size
  · refine ⟨hp, ?_⟩
    obtain ⟨idx, hle, hub, hd, hnd, e⟩ := getInteger_cases buf pos hp
    rw [e] at h
    unfold intResult at h
    split at h; · simp at h
    split at h; · simp at h
    split at h; · simp at h
    rename_i h1 h2 h3
    split at h
    · rename_i v' hv
      simp only [Out.ok.injEq, Prod.mk.injEq] at h
      obtain ⟨rfl, rfl⟩ := h
      unfold chk at hv
      split at hv
      · rename_i hin
        simp only [Option.some.injEq] at hv
        refine ⟨idx, by omega, rfl, by omega, hd, by simpa using h3, hv.symm, by rw [← hv]; exact hin⟩
      · simp at hv
    · simp at h
  · unfold getInteger at h; simp [hp] at h

/-- success moves the cursor forward and keeps it inside the buffer -/
theorem getInteger_ok_bounds (buf : Buf) (pos : Nat) (v : Int) (q : Nat)
    (h : getInteger buf pos = .ok (v, q)) : pos < q ∧ q ≤ buf.size := by
  obtain ⟨_, idx, h1, h2, h3, _⟩ := getInteger_exact buf pos v q h
  have := signInfo_start buf pos
  omega

/-- Out-of-range numbers are rejected (never wrapped). -/
theorem getInteger_reject (buf : Buf) (pos : Nat) (hp : pos < buf.size) :
    ∀ idx, (signInfo buf pos).2 < idx → idx < buf.size - 1 →
      (∀ j, j < idx - (signInfo buf pos).2 → isDigit (buf[(signInfo buf pos).2+j]!) = true) →
      buf[idx]! = 13 →
      inI64 (sgn (signInfo buf pos).1 * (decNat buf (signInfo buf pos).2 (idx - (signInfo buf pos).2) : Int)) = false →
      getInteger buf pos = .err .notInteger := by
  intro idx hlt hub hd hcr hout
  obtain ⟨idx', hle', hub', hd', hnd', e⟩ := getInteger_cases buf pos hp
  have hcrnd : isDigit (buf[idx]!) = false := by rw [hcr]; decide
  have : idx' = idx := by
    rcases Nat.lt_trichotomy idx' idx with h | h | h
    · have h1 := hd (idx' - (signInfo buf pos).2) (by omega)
      have e2 : (signInfo buf pos).2 + (idx' - (signInfo buf pos).2) = idx' := by omega
      rw [e2] at h1
      have h2 := hnd' (by omega)
      simp_all
    · exact h
    · have h1 := hd' (idx - (signInfo buf pos).2) (by omega)
      have e2 : (signInfo buf pos).2 + (idx - (signInfo buf pos).2) = idx := by omega
      rw [e2] at h1
      simp_all
  subst this
  rw [e]
  unfold intResult
  have h1 : ¬ idx' ≥ buf.size - 1 := by omega
  have h2 : ¬ idx' = (signInfo buf pos).2 := by omega
  simp [h1, h2, hcr, chk, hout]

/-- the same scan read as "accept": digits then CR, in range ⇒ that value and that cursor -/
theorem getInteger_accept (buf : Buf) (pos : Nat) (hp : pos < buf.size) :
    ∀ idx, (signInfo buf pos).2 < idx → idx < buf.size - 1 →
      (∀ j, j < idx - (signInfo buf pos).2 → isDigit (buf[(signInfo buf pos).2+j]!) = true) →
      buf[idx]! = 13 →
      inI64 (sgn (signInfo buf pos).1 * (decNat buf (signInfo buf pos).2 (idx - (signInfo buf pos).2) : Int)) = true →
      getInteger buf pos = .ok (sgn (signInfo buf pos).1 *
        (decNat buf (signInfo buf pos).2 (idx - (signInfo buf pos).2) : Int), idx + 2) := by
  intro idx hlt hub hd hcr hin
  obtain ⟨idx', hle', hub', hd', hnd', e⟩ := getInteger_cases buf pos hp
  have hcrnd : isDigit (buf[idx]!) = false := by rw [hcr]; decide
  have : idx' = idx := by
    rcases Nat.lt_trichotomy idx' idx with h | h | h
    · have h1 := hd (idx' - (signInfo buf pos).2) (by omega)
      have e2 : (signInfo buf pos).2 + (idx' - (signInfo buf pos).2) = idx' := by omega
      rw [e2] at h1
      have h2 := hnd' (by omega)
      simp_all
    · exact h
    · have h1 := hd' (idx - (signInfo buf pos).2) (by omega)
      have e2 : (signInfo buf pos).2 + (idx - (signInfo buf pos).2) = idx := by omega
      rw [e2] at h1
      simp_all
  subst this
  rw [e]
  unfold intResult
  have h1 : ¬ idx' ≥ buf.size - 1 := by omega
  have h2 : ¬ idx' = (signInfo buf pos).2 := by omega
  simp [h1, h2, hcr, chk, hin]

end Resp
