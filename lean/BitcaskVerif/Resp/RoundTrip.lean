/-
  C08 helper lemmas, part 1: what the readers do on a buffer that holds an encoded frame at
  some offset (`At buf pos e`), leading to `parse (encode f ++ rest) = ok (f, |encode f|)`.
-/
import BitcaskVerif.Resp.ParseLemmas

namespace Resp

/-! ### "the buffer holds the list `e` at offset `pos`" -/

def At (buf : Buf) (pos : Nat) (e : List UInt8) : Prop :=
  pos + e.length ≤ buf.size ∧ ∀ j (h : j < e.length), buf[pos+j]! = e[j]

theorem At_nil (buf : Buf) (pos : Nat) (h : pos ≤ buf.size) : At buf pos [] :=
  ⟨by simpa using h, fun j h => by simp at h⟩

theorem At_append (buf : Buf) (pos : Nat) (a b : List UInt8) :
    At buf pos (a ++ b) ↔ At buf pos a ∧ At buf (pos + a.length) b := by
  constructor
  · rintro ⟨hb, hj⟩
    simp only [List.length_append] at hb
    refine ⟨⟨by omega, fun j h => ?_⟩, ⟨by omega, fun j h => ?_⟩⟩
    · have := hj j (by simp; omega)
      rw [this, List.getElem_append_left h]
    · have := hj (a.length + j) (by simp; omega)
      rw [← Nat.add_assoc] at this
      rw [this, List.getElem_append_right (by omega)]
      simp
  · rintro ⟨⟨ha, hja⟩, ⟨hb, hjb⟩⟩
    refine ⟨by simp only [List.length_append]; omega, fun j h => ?_⟩
    by_cases hlt : j < a.length
    · rw [List.getElem_append_left hlt]; exact hja j hlt
    · rw [List.getElem_append_right (by omega)]
      simp only [List.length_append] at h
      have := hjb (j - a.length) (by omega)
      rw [← this]
      congr 1; omega

theorem At_cons (buf : Buf) (pos : Nat) (x : UInt8) (e : List UInt8) :
    At buf pos (x :: e) ↔ pos < buf.size ∧ buf[pos]! = x ∧ At buf (pos + 1) e := by
  have := At_append buf pos [x] e
  simp only [List.singleton_append, List.length_singleton] at this
  rw [this]
  constructor
  · rintro ⟨⟨h1, h2⟩, h3⟩
    have := h2 0 (by simp)
    simp at h1 this
    exact ⟨by omega, this, h3⟩
  · rintro ⟨h1, h2, h3⟩
    refine ⟨⟨by simp; omega, fun j h => ?_⟩, h3⟩
    have : j = 0 := by simp at h; omega
    subst this; simpa using h2

theorem At_toArray (pre e post : List UInt8) : At (pre ++ e ++ post).toArray pre.length e := by
  refine ⟨by simp, fun j h => ?_⟩
  simp only [List.getElem!_toArray]
  rw [List.getElem!_eq_getElem?_getD, List.getElem?_append_left (by simp; omega),
    List.getElem?_append_right (by omega)]
  simp [h]

theorem At_slice (buf : Buf) (pos : Nat) (e : List UInt8) (h : At buf pos e) :
    slice buf pos (pos + e.length) = e := by
  obtain ⟨hb, hj⟩ := h
  apply List.ext_getElem
  · simp [slice]; omega
  · intro j h1 h2
    rw [← hj j h2]
    simp only [slice, Array.toList_extract] at h1 ⊢
    simp at h1
    have : pos + j < buf.size := by omega
    simp [this]

/-! ### decimal digits written by the encoder -/

theorem digit_ofNat : ∀ k, k < 10 →
    isDigit (UInt8.ofNat (48 + k)) = true ∧ dvalN (UInt8.ofNat (48 + k)) = k := by decide

theorem natDigits_pos (n : Nat) : 0 < (natDigits n).length := by
  fun_induction natDigits n with
  | case1 n h => simp
  | case2 n h ih => simp

theorem natDigits_digit (n : Nat) : ∀ d ∈ natDigits n, isDigit d = true := by
  fun_induction natDigits n with
  | case1 n h =>
    intro d hd
    simp only [List.mem_singleton] at hd
    subst hd; exact (digit_ofNat n h).1
  | case2 n h ih =>
    intro d hd
    simp only [List.mem_append, List.mem_singleton] at hd
    rcases hd with hd | hd
    · exact ih d hd
    · subst hd; exact (digit_ofNat (n % 10) (by omega)).1

/-- the digits the encoder writes, read back by the decoder's accumulation, give the number -/
theorem decNat_natDigits (buf : Buf) (i n : Nat) :
    At buf i (natDigits n) → decNat buf i (natDigits n).length = n := by
  fun_induction natDigits n with
  | case1 n h =>
    intro hat
    have := hat.2 0 (by simp)
    simp only [Nat.add_zero, List.getElem_cons_zero] at this
    simp only [List.length_singleton, decNat, Nat.add_zero, this, (digit_ofNat n h).2]
    omega
  | case2 n h ih =>
    intro hat
    rw [At_append] at hat
    obtain ⟨h1, h2⟩ := hat
    have := h2.2 0 (by simp)
    simp only [Nat.add_zero, List.getElem_cons_zero] at this
    simp only [List.length_append, List.length_singleton, decNat, ih h1, this,
      (digit_ofNat (n % 10) (by omega)).2]
    omega

/-! ### get_line on a buffer that holds a CR-terminated line -/

theorem lineScan_at (buf : Buf) (stop : Nat) (s : List UInt8) :
    ∀ pos, At buf pos (s ++ [13]) → pos + s.length < stop → (∀ b ∈ s, b ≠ 13 ∧ b ≠ 10) →
      lineScan buf stop pos = .cr (pos + s.length) := by
  induction s with
  | nil =>
    intro pos hat hlt _
    rw [List.nil_append, At_cons] at hat
    obtain ⟨h1, h2, _⟩ := hat
    have hidx : buf[pos]! = buf[pos] := by simp [h1]
    rw [hidx] at h2
    simp only [List.length_nil, Nat.add_zero] at hlt ⊢
    unfold lineScan
    simp only [hlt, h1, h2, ↓reduceDIte, ↓reduceIte]
  | cons x s ih =>
    intro pos hat hlt hs
    rw [List.cons_append, At_cons] at hat
    obtain ⟨h1, h2, h3⟩ := hat
    have hidx : buf[pos]! = buf[pos] := by simp [h1]
    rw [hidx] at h2
    simp only [List.length_cons] at hlt ⊢
    have hx := hs x (by simp)
    have hlt' : pos < stop := by omega
    unfold lineScan
    simp only [hlt', h1, h2, hx.1, hx.2, ↓reduceDIte, ↓reduceIte]
    rw [ih (pos + 1) h3 (by omega) (fun b hb => hs b (by simp [hb]))]
    congr 1; omega

/-- a line without CR/LF followed by CR and at least one more byte is found by `get_line` -/
theorem getLine_at (buf : Buf) (pos : Nat) (s : List UInt8) (y : UInt8)
    (hat : At buf pos (s ++ [13, y])) (hs : ∀ b ∈ s, b ≠ 13 ∧ b ≠ 10) :
    getLine buf pos = .ok (pos + s.length, pos + s.length + 2) := by
  have hb := hat.1
  simp only [List.length_append, List.length_cons, List.length_nil] at hb
  have hat' : At buf pos (s ++ [13]) := by
    have : s ++ [13, y] = (s ++ [13]) ++ [y] := by simp
    rw [this, At_append] at hat
    exact hat.1
  unfold getLine
  have hne : ¬ buf.size = 0 := by omega
  simp only [hne, ↓reduceIte, lineScan_at buf (buf.size - 1) s pos hat' (by omega) hs]
  have : pos + s.length + 2 ≤ buf.size := by omega
  simp only [this, ↓reduceIte]

/-! ### get_integer on a buffer that holds `intRepr v` followed by CR and one more byte -/

theorem isDigit_ne_sign {b : UInt8} (h : isDigit b = true) : b ≠ 45 ∧ b ≠ 43 := by
  constructor <;> (intro e; subst e; revert h; decide)

theorem isDigit_ne_crlf {b : UInt8} (h : isDigit b = true) : b ≠ 13 ∧ b ≠ 10 := by
  constructor <;> (intro e; subst e; revert h; decide)

theorem intRepr_nonneg (v : Int) (h : 0 ≤ v) : intRepr v = natDigits v.natAbs := by
  unfold intRepr; simp only [Int.not_lt.mpr h, ↓reduceIte]

theorem intRepr_neg (v : Int) (h : v < 0) : intRepr v = 45 :: natDigits v.natAbs := by
  unfold intRepr; simp only [h, ↓reduceIte]

theorem At_natDigits_digit (buf : Buf) (start n : Nat) (hat : At buf start (natDigits n)) :
    ∀ j, j < (natDigits n).length → isDigit (buf[start + j]!) = true := by
  intro j hj
  rw [hat.2 j hj]
  exact natDigits_digit n _ (List.getElem_mem hj)

theorem getInteger_at_aux (buf : Buf) (pos : Nat) (neg : Bool) (start n : Nat) (y : UInt8)
    (hp : pos < buf.size) (hsi : signInfo buf pos = (neg, start))
    (hat : At buf start (natDigits n ++ [13, y]))
    (hin : inI64 (sgn neg * (n : Int)) = true) :
    getInteger buf pos = .ok (sgn neg * (n : Int), start + (natDigits n).length + 2) := by
  rw [At_append, At_cons] at hat
  obtain ⟨h1, h2, h3, h4⟩ := hat
  have hb := h4.1
  simp only [List.length_cons, List.length_nil] at hb
  have hpos := natDigits_pos n
  have hdec := decNat_natDigits buf start n h1
  have e : start + (natDigits n).length - start = (natDigits n).length := by omega
  have := getInteger_accept buf pos hp (start + (natDigits n).length)
  rw [hsi] at this
  simp only [e, hdec] at this
  exact this (by omega) (by omega) (At_natDigits_digit buf start n h1) h3 hin

theorem getInteger_at (buf : Buf) (pos : Nat) (v : Int) (y : UInt8)
    (hv : inI64 v = true) (hat : At buf pos (intRepr v ++ [13, y])) :
    getInteger buf pos = .ok (v, pos + (intRepr v).length + 2) := by
  by_cases hneg : v < 0
  · rw [intRepr_neg v hneg] at hat ⊢
    rw [List.cons_append, At_cons] at hat
    obtain ⟨hp, h45, hat⟩ := hat
    have hsi : signInfo buf pos = (true, pos + 1) := by
      unfold signInfo; simp [h45]
    have hval : sgn true * ((v.natAbs : Nat) : Int) = v := by
      unfold sgn; simp only [↓reduceIte]; omega
    have := getInteger_at_aux buf pos true (pos + 1) v.natAbs y hp hsi hat (by rw [hval]; exact hv)
    rw [hval] at this
    rw [this]
    simp only [List.length_cons]
    congr 2; omega
  · have hnn : 0 ≤ v := Int.not_lt.mp hneg
    rw [intRepr_nonneg v hnn] at hat ⊢
    have hp : pos < buf.size := by
      have := hat.1; simp only [List.length_append, List.length_cons, List.length_nil] at this; omega
    have hd : isDigit (buf[pos]!) = true := by
      have h1 : At buf pos (natDigits v.natAbs) := ((At_append _ _ _ _).mp hat).1
      simpa using At_natDigits_digit buf pos v.natAbs h1 0 (natDigits_pos _)
    have hsi : signInfo buf pos = (false, pos) := by
      have := isDigit_ne_sign hd
      unfold signInfo; simp [this.1, this.2]
    have hval : sgn false * ((v.natAbs : Nat) : Int) = v := by
      unfold sgn; simp only [Bool.false_eq_true, ↓reduceIte]; omega
    have := getInteger_at_aux buf pos false pos v.natAbs y hp hsi hat (by rw [hval]; exact hv)
    rw [hval] at this
    exact this

/-! ### well-formed frames (what `write_frame` accepts and the peer decodes back) -/

/-- non-array frames the connection can write and that survive a round trip: simple strings and
    errors are UTF-8 without CR/LF, integers fit `i64`, bulk lengths fit `i64` -/
def WfSingle : Frame → Prop
  | .simple s => validUtf8 s = true ∧ ∀ b ∈ s, b ≠ 13 ∧ b ≠ 10
  | .error s => validUtf8 s = true ∧ ∀ b ∈ s, b ≠ 13 ∧ b ≠ 10
  | .integer i => I64Min ≤ i ∧ i ≤ I64Max
  | .bulk b => (b.length : Int) ≤ I64Max
  | .null => True
  | .array _ => False

instance (f : Frame) : Decidable (WfSingle f) := by
  cases f <;> unfold WfSingle <;> infer_instance

/-- frames `write_frame` can write: a non-array frame, or one array level of non-array frames -/
def WfFrame (f : Frame) : Prop :=
  WfSingle f ∨ ∃ xs, f = .array xs ∧ (∀ x ∈ xs, WfSingle x) ∧ (xs.length : Int) ≤ I64Max

theorem WfFrame_array (xs : List Frame) :
    WfFrame (.array xs) ↔ (∀ x ∈ xs, WfSingle x) ∧ (xs.length : Int) ≤ I64Max := by
  constructor
  · rintro (h | ⟨ys, h, h1, h2⟩)
    · exact absurd h (by simp [WfSingle])
    · cases h; exact ⟨h1, h2⟩
  · rintro ⟨h1, h2⟩; exact .inr ⟨xs, rfl, h1, h2⟩

theorem WfFrame_iff_single (f : Frame) (h : ∀ xs, f ≠ .array xs) : WfFrame f ↔ WfSingle f := by
  constructor
  · rintro (h' | ⟨ys, h', _⟩)
    · exact h'
    · exact absurd h' (h ys)
  · exact .inl

instance (f : Frame) : Decidable (WfFrame f) := by
  cases f with
  | array xs => exact decidable_of_iff _ (WfFrame_array xs).symm
  | simple s => exact decidable_of_iff _ (WfFrame_iff_single _ (by simp)).symm
  | error s => exact decidable_of_iff _ (WfFrame_iff_single _ (by simp)).symm
  | integer i => exact decidable_of_iff _ (WfFrame_iff_single _ (by simp)).symm
  | bulk b => exact decidable_of_iff _ (WfFrame_iff_single _ (by simp)).symm
  | null => exact decidable_of_iff _ (WfFrame_iff_single _ (by simp)).symm

theorem inI64_iff (v : Int) : inI64 v = true ↔ I64Min ≤ v ∧ v ≤ I64Max := by
  simp [inI64]

theorem crlf_eq : crlf = [13, 10] := rfl

theorem parseF_single_at (buf : Buf) (fuel depth pos : Nat) (f : Frame) (e : List UInt8)
    (hw : WfSingle f) (he : encodeSingle f = some e) (hat : At buf pos e) :
    parseF buf (fuel+1) depth pos = .ok (f, pos + e.length) := by
  cases f with
  | simple s =>
    simp only [encodeSingle, Option.some.injEq, crlf_eq] at he
    subst he
    obtain ⟨hu, hs⟩ := hw
    rw [List.cons_append, At_cons] at hat
    obtain ⟨hp, ht, hat⟩ := hat
    have hidx : buf[pos]! = buf[pos] := by simp [hp]
    rw [hidx] at ht
    have hsl := At_slice buf (pos+1) s ((At_append _ _ _ _).mp hat).1
    unfold parseF
    simp only [hp, ↓reduceDIte, ht, ↓reduceIte, getLine_at buf (pos+1) s 10 hat hs, hsl, hu]
    simp only [List.length_cons, List.length_append, List.length_nil]
    congr 2; omega
  | error s =>
    simp only [encodeSingle, Option.some.injEq, crlf_eq] at he
    subst he
    obtain ⟨hu, hs⟩ := hw
    rw [List.cons_append, At_cons] at hat
    obtain ⟨hp, ht, hat⟩ := hat
    have hidx : buf[pos]! = buf[pos] := by simp [hp]
    rw [hidx] at ht
    have hsl := At_slice buf (pos+1) s ((At_append _ _ _ _).mp hat).1
    unfold parseF
    simp only [hp, ↓reduceDIte, ht, getLine_at buf (pos+1) s 10 hat hs, hsl, hu]
    simp only [List.length_cons, List.length_append, List.length_nil]
    simp; omega
  | integer i =>
    simp only [encodeSingle, Option.some.injEq, crlf_eq] at he
    subst he
    rw [List.cons_append, At_cons] at hat
    obtain ⟨hp, ht, hat⟩ := hat
    have hidx : buf[pos]! = buf[pos] := by simp [hp]
    rw [hidx] at ht
    unfold parseF
    simp only [hp, ↓reduceDIte, ht, getInteger_at buf (pos+1) i 10 ((inI64_iff i).mpr hw) hat]
    simp only [List.length_cons, List.length_append, List.length_nil]
    simp; omega
  | bulk b =>
    have hE : e = 36 :: ((intRepr (b.length : Int) ++ [13, 10]) ++ (b ++ [13, 10])) := by
      simp only [encodeSingle, Option.some.injEq, crlf_eq] at he
      rw [← he]; simp
    subst hE
    rw [At_cons, At_append] at hat
    obtain ⟨hp, ht, hat1, hat2⟩ := hat
    have hidx : buf[pos]! = buf[pos] := by simp [hp]
    rw [hidx] at ht
    have hin : inI64 (b.length : Int) = true := by
      rw [inI64_iff]; exact ⟨by unfold I64Min; omega, hw⟩
    have hgi := getInteger_at buf (pos+1) (b.length : Int) 10 hin hat1
    have hp1 : pos + 1 < buf.size := by
      have := hat1.1; simp only [List.length_append, List.length_cons, List.length_nil] at this
      omega
    have hne : ¬ buf[pos+1] = 45 := by
      have hidx1 : buf[pos+1]! = buf[pos+1] := by simp [hp1]
      rw [← hidx1]
      rw [intRepr_nonneg _ (by omega)] at hat1
      have h1 : At buf (pos+1) (natDigits (b.length : Int).natAbs) := ((At_append _ _ _ _).mp hat1).1
      have := At_natDigits_digit buf (pos+1) _ h1 0 (natDigits_pos _)
      exact (isDigit_ne_sign this).1
    have hb2 := hat2.1
    simp only [List.length_append, List.length_cons, List.length_nil] at hb2
    have hsl := At_slice buf _ b ((At_append _ _ _ _).mp hat2).1
    simp only [List.length_append, List.length_cons, List.length_nil] at hsl
    have e1 : pos + 1 + ((intRepr (b.length : Int)).length + (0 + 1 + 1))
        = pos + 1 + (intRepr (b.length : Int)).length + 2 := by omega
    rw [e1] at hsl
    unfold parseF
    simp only [hp, ↓reduceDIte, ht, hp1, hne, hgi]
    have hnn : ¬ ((b.length : Int) < 0) := by omega
    have hfit : ¬ ((b.length : Int).toNat + 2 > buf.size - (pos + 1 + (intRepr (b.length : Int)).length + 2)) := by
      simp only [Int.toNat_natCast]; omega
    simp only [Int.toNat_natCast] at hfit ⊢
    simp [hnn, hfit, hsl]
    omega
  | null =>
    simp only [encodeSingle, Option.some.injEq, crlf_eq] at he
    subst he
    have hat' := hat
    simp only [List.cons_append, List.nil_append] at hat'
    rw [At_cons] at hat'
    obtain ⟨hp, ht, hat1⟩ := hat'
    have hidx : buf[pos]! = buf[pos] := by simp [hp]
    rw [hidx] at ht
    have hgl := getLine_at buf (pos+1) [45, 49] 10 hat1 (by decide)
    have hp1 : pos + 1 < buf.size := by
      have := hat1.1; simp only [List.length_cons, List.length_nil] at this
      omega
    have h45 : buf[pos+1] = 45 := by
      have hidx1 : buf[pos+1]! = buf[pos+1] := by simp [hp1]
      rw [← hidx1]
      simpa using hat1.2 0 (by simp)
    have hsl := At_slice buf (pos+1) [45, 49] ((At_append _ _ [45, 49] [13, 10]).mp hat1).1
    unfold parseF
    simp only [hp, ↓reduceDIte, ht, hp1, h45, hgl, hsl]
    simp
  | array xs => exact absurd hw (by simp [WfSingle])

/-! ### arrays -/

theorem encodeItems_cons_some (x : Frame) (xs : List Frame) (b : List UInt8)
    (h : encodeItems (x :: xs) = some b) :
    ∃ a b', encodeSingle x = some a ∧ encodeItems xs = some b' ∧ b = a ++ b' := by
  unfold encodeItems at h
  split at h
  · rename_i a b' ha hb
    simp only [Option.some.injEq] at h
    exact ⟨a, b', ha, hb, h.symm⟩
  · simp at h

theorem encodeSingle_length (f : Frame) (e : List UInt8) (he : encodeSingle f = some e) :
    3 ≤ e.length := by
  cases f <;> simp only [encodeSingle, Option.some.injEq, crlf_eq, reduceCtorEq] at he <;>
    (subst he; simp only [List.length_cons, List.length_append, List.length_nil]; omega)

theorem encodeItems_length (xs : List Frame) : ∀ (b : List UInt8), encodeItems xs = some b →
    3 * xs.length ≤ b.length := by
  induction xs with
  | nil => intro b h; simp
  | cons x xs ih =>
    intro b h
    obtain ⟨a, b', ha, hb, rfl⟩ := encodeItems_cons_some x xs b h
    have := encodeSingle_length x a ha
    have := ih b' hb
    simp only [List.length_cons, List.length_append]; omega

theorem parseManyF_at (buf : Buf) (depth : Nat) : ∀ (xs : List Frame) (b : List UInt8) (fuel pos : Nat),
    (∀ x ∈ xs, WfSingle x) → encodeItems xs = some b → At buf pos b → xs.length + 1 ≤ fuel →
    parseManyF buf fuel depth xs.length pos = .ok (xs, pos + b.length) := by
  intro xs
  induction xs with
  | nil =>
    intro b fuel pos _ hb _ _
    simp only [encodeItems, Option.some.injEq] at hb
    subst hb
    simp [parseManyF]
  | cons x xs ih =>
    intro b fuel pos hw hb hat hf
    obtain ⟨a, b', ha, hb', rfl⟩ := encodeItems_cons_some x xs b hb
    rw [At_append] at hat
    obtain ⟨hat1, hat2⟩ := hat
    simp only [List.length_cons] at hf ⊢
    obtain ⟨fuel', rfl⟩ : ∃ f', fuel = f' + 1 + 1 := ⟨fuel - 2, by omega⟩
    have h1 := parseF_single_at buf fuel' depth pos x a (hw x (by simp)) ha hat1
    have h2 := ih b' (fuel' + 1) (pos + a.length) (fun y hy => hw y (by simp [hy])) hb' hat2 (by omega)
    unfold parseManyF
    simp only [h1, h2, List.length_append, Nat.add_assoc]

theorem parseF_array_at (buf : Buf) (fuel depth pos : Nat) (xs : List Frame) (b : List UInt8)
    (hd : depth < MAX_DEPTH) (hw : ∀ x ∈ xs, WfSingle x) (hl : (xs.length : Int) ≤ I64Max)
    (hb : encodeItems xs = some b)
    (hat : At buf pos (42 :: ((intRepr (xs.length : Int) ++ [13, 10]) ++ b)))
    (hf : xs.length + 1 ≤ fuel) :
    parseF buf (fuel+1) depth pos
      = .ok (.array xs, pos + (42 :: ((intRepr (xs.length : Int) ++ [13, 10]) ++ b)).length) := by
  rw [At_cons, At_append] at hat
  obtain ⟨hp, ht, hat1, hat2⟩ := hat
  have hidx : buf[pos]! = buf[pos] := by simp [hp]
  rw [hidx] at ht
  have hin : inI64 (xs.length : Int) = true := by
    rw [inI64_iff]; exact ⟨by unfold I64Min; omega, hl⟩
  have hgi := getInteger_at buf (pos+1) (xs.length : Int) 10 hin hat1
  have hnd : ¬ depth ≥ MAX_DEPTH := by omega
  have hnn : ¬ ((xs.length : Int) < 0) := by omega
  simp only [List.length_append, List.length_cons, List.length_nil] at hat2
  have e1 : pos + 1 + ((intRepr (xs.length : Int)).length + (0 + 1 + 1))
      = pos + 1 + (intRepr (xs.length : Int)).length + 2 := by omega
  rw [e1] at hat2
  have hpm := parseManyF_at buf (depth+1) xs b fuel _ hw hb hat2 hf
  unfold parseF
  simp only [hp, ↓reduceDIte, ht, hnd, hgi, hnn, Int.toNat_natCast, hpm]
  simp only [List.length_append, List.length_cons, List.length_nil]
  simp; omega

/-! ### the encoder is total on well-formed frames; whole-frame round trip -/

theorem encodeSingle_total (f : Frame) (h : WfSingle f) : ∃ e, encodeSingle f = some e := by
  cases f with
  | array xs => exact absurd h (by simp [WfSingle])
  | _ => exact ⟨_, rfl⟩

theorem encodeItems_total (xs : List Frame) (h : ∀ x ∈ xs, WfSingle x) :
    ∃ b, encodeItems xs = some b := by
  induction xs with
  | nil => exact ⟨[], rfl⟩
  | cons x xs ih =>
    obtain ⟨a, ha⟩ := encodeSingle_total x (h x (by simp))
    obtain ⟨b, hb⟩ := ih (fun y hy => h y (by simp [hy]))
    exact ⟨a ++ b, by simp [encodeItems, ha, hb]⟩

theorem encode_of_single (f : Frame) (h : WfSingle f) : encode f = encodeSingle f := by
  cases f with
  | array xs => exact absurd h (by simp [WfSingle])
  | _ => rfl

theorem encode_array (xs : List Frame) (b : List UInt8) (hb : encodeItems xs = some b) :
    encode (.array xs) = some (42 :: ((intRepr (xs.length : Int) ++ [13, 10]) ++ b)) := by
  simp [encode, hb, crlf_eq]

theorem encode_total (f : Frame) (h : WfFrame f) : ∃ e, encode f = some e := by
  rcases h with h | ⟨xs, rfl, hw, _⟩
  · rw [encode_of_single f h]; exact encodeSingle_total f h
  · obtain ⟨b, hb⟩ := encodeItems_total xs hw
    exact ⟨_, encode_array xs b hb⟩

theorem parseF_frame_at (buf : Buf) (fuel depth pos : Nat) (f : Frame) (e : List UInt8)
    (hd : depth < MAX_DEPTH) (hw : WfFrame f) (he : encode f = some e) (hat : At buf pos e)
    (hf : e.length ≤ fuel) :
    parseF buf (fuel+1) depth pos = .ok (f, pos + e.length) := by
  rcases hw with h | ⟨xs, rfl, hw, hl⟩
  · rw [encode_of_single f h] at he
    exact parseF_single_at buf fuel depth pos f e h he hat
  · obtain ⟨b, hb⟩ := encodeItems_total xs hw
    rw [encode_array xs b hb, Option.some.injEq] at he
    subst he
    have := encodeItems_length xs b hb
    simp only [List.length_append, List.length_cons, List.length_nil] at hf
    exact parseF_array_at buf fuel depth pos xs b hd hw hl hb hat (by omega)

theorem roundtrip (f : Frame) (e rest : List UInt8) (hw : WfFrame f) (he : encode f = some e) :
    parse (e ++ rest).toArray = .ok (f, e.length) ∧ check (e ++ rest).toArray = .ok e.length := by
  have hp : parse (e ++ rest).toArray = .ok (f, e.length) := by
    have hat : At (e ++ rest).toArray 0 e := by simpa using At_toArray [] e rest
    have := parseF_frame_at (e ++ rest).toArray (2 * (e ++ rest).toArray.size + 1) 0 0 f e
      (by decide) hw he hat (by simp; omega)
    simpa [parse, fuelFor] using this
  exact ⟨hp, parse_ok_check _ _ _ hp⟩

end Resp
