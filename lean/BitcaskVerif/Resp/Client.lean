import BitcaskVerif.Resp.Server

/-!
  The client library (`src/net/client.rs`): what `Client::{get,set,del}` send and what they make of
  the reply that comes back.  Each call writes the command's frame (`Cmd.toFrame`, the same encoder
  as everywhere else), reads ONE frame with `Connection::read_frame` and interprets it.
-/

namespace Resp

/-- how a client call fails -/
inductive CliErr where
  | storage (msg : List UInt8)   -- the server answered with an error frame
  | badFrame                     -- a reply frame of a kind the call does not expect
  | reset                        -- end of stream instead of a reply (clean or inside a frame)
  | frameError (e : Err)         -- the reply bytes are not a frame
  | panic                        -- proved unreachable
deriving Repr, DecidableEq

/-- `Client::read_response` on the result of `read_frame` -/
def readResponse : ReadRes → Except CliErr Frame
  | .frame (.error s) => .error (.storage s)
  | .frame f => .ok f
  | .cleanEnd => .error .reset
  | .reset => .error .reset
  | .error e => .error (.frameError e)
  | .panic => .error .panic

@[simp] theorem readResponse_error (s : List UInt8) : readResponse (.frame (.error s)) = .error (.storage s) := rfl
@[simp] theorem readResponse_simple (s : List UInt8) : readResponse (.frame (.simple s)) = .ok (.simple s) := rfl
@[simp] theorem readResponse_integer (n : Int) : readResponse (.frame (.integer n)) = .ok (.integer n) := rfl
@[simp] theorem readResponse_bulk (s : List UInt8) : readResponse (.frame (.bulk s)) = .ok (.bulk s) := rfl
@[simp] theorem readResponse_null : readResponse (.frame .null) = .ok .null := rfl
@[simp] theorem readResponse_array (xs : List Frame) : readResponse (.frame (.array xs)) = .ok (.array xs) := rfl
@[simp] theorem readResponse_cleanEnd : readResponse .cleanEnd = .error .reset := rfl
@[simp] theorem readResponse_reset : readResponse .reset = .error .reset := rfl

/-- `Client::get` -/
def cliGet (r : ReadRes) : Except CliErr (Option (List UInt8)) :=
  match readResponse r with
  | .error e => .error e
  | .ok (.bulk s) => .ok (some s)
  | .ok .null => .ok none
  | .ok _ => .error .badFrame

/-- `Client::set` -/
def cliSet (r : ReadRes) : Except CliErr Unit :=
  match readResponse r with
  | .error e => .error e
  | .ok (.simple s) => if s = sOK then .ok () else .error .badFrame
  | .ok _ => .error .badFrame

/-- `Client::del` -/
def cliDel (r : ReadRes) : Except CliErr Int :=
  match readResponse r with
  | .error e => .error e
  | .ok (.integer n) => .ok n
  | .ok _ => .error .badFrame

/-- what the abstract map answers to a command, in the client's vocabulary -/
inductive CliOut where
  | unit | value (v : Option (List UInt8)) | count (n : Int) | failed (e : CliErr)
deriving Repr, DecidableEq

/-- one client call against a server that holds `m`: the request frame is `Cmd.toFrame c`, the server
    applies it (`applyCmd`) and its reply frame comes back whole -/
def cliCall (m : KV) (c : Cmd) : KV × CliOut :=
  let (m', reply) := applyCmd m c
  (m', match c with
    | .get _ => (match cliGet (.frame reply) with | .ok v => .value v | .error e => .failed e)
    | .set _ _ => (match cliSet (.frame reply) with | .ok () => .unit | .error e => .failed e)
    | .del _ => (match cliDel (.frame reply) with | .ok n => .count n | .error e => .failed e))

end Resp
