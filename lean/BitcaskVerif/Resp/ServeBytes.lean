/-
  Byte-level handler lemmas, part 1 (helpers for `Props/C06Bytes.lean`):
  the size side-condition under which a request can be put on the wire, what `Command::try_from`
  accepts (exactly the frames of well-formed requests), and `serveFrames` expressed through the map
  model's `specReplies`.
-/
import BitcaskVerif.Props.C06
import BitcaskVerif.Resp.StreamLemmas

namespace Resp

/-! ### requests that fit on the wire -/

/-- the size side-condition of the byte-level theorems: every length that `write_frame` prints for
    the request (each key, the value, the number of array items) is at most `i64::MAX`. Without it
    the printed length would not be read back by `get_integer` (it rejects anything beyond `i64`). -/
def CmdFits : Cmd → Prop
  | .set k v => (k.length : Int) ≤ I64Max ∧ (v.length : Int) ≤ I64Max
  | .get k => (k.length : Int) ≤ I64Max
  | .del ks => (∀ k, k ∈ ks → (k.length : Int) ≤ I64Max) ∧ ((ks.length + 1 : Nat) : Int) ≤ I64Max

instance decCmdFits (c : Cmd) : Decidable (CmdFits c) := by
  cases c <;> unfold CmdFits <;> infer_instance

instance decWfCmd (c : Cmd) : Decidable (WfCmd c) := by
  cases c <;> unfold WfCmd <;> infer_instance

/-- `CmdFits` is exactly "the request frame is one `write_frame` can write and the peer reads back" -/
theorem cmdFits_iff_wfFrame (c : Cmd) : CmdFits c ↔ WfFrame (Cmd.toFrame c) := by
  cases c with
  | set k v =>
    simp only [CmdFits, Cmd.toFrame, WfFrame_array, List.mem_cons, List.not_mem_nil, or_false,
      forall_eq_or_imp, forall_eq, WfSingle, List.length_cons, List.length_nil]
    constructor
    · rintro ⟨h1, h2⟩; exact ⟨⟨by decide, h1, h2⟩, by decide⟩
    · rintro ⟨⟨_, h1, h2⟩, _⟩; exact ⟨h1, h2⟩
  | get k =>
    simp only [CmdFits, Cmd.toFrame, WfFrame_array, List.mem_cons, List.not_mem_nil, or_false,
      forall_eq_or_imp, forall_eq, WfSingle, List.length_cons, List.length_nil]
    constructor
    · intro h1; exact ⟨⟨by decide, h1⟩, by decide⟩
    · rintro ⟨⟨_, h1⟩, _⟩; exact h1
  | del ks =>
    simp only [CmdFits, Cmd.toFrame, WfFrame_array, List.mem_cons, List.mem_map,
      forall_eq_or_imp, WfSingle, List.length_cons, List.length_map]
    constructor
    · rintro ⟨h1, h2⟩
      refine ⟨⟨by decide, ?_⟩, h2⟩
      rintro x ⟨k, hk, rfl⟩
      exact h1 k hk
    · rintro ⟨⟨_, h1⟩, h2⟩
      exact ⟨fun k hk => h1 (.bulk k) ⟨k, hk, rfl⟩, h2⟩

theorem toFrame_wf (c : Cmd) (h : CmdFits c) : WfFrame (Cmd.toFrame c) :=
  (cmdFits_iff_wfFrame c).mp h

theorem toFrames_wf (reqs : List Cmd) (h : ∀ c, c ∈ reqs → CmdFits c) :
    ∀ f ∈ reqs.map Cmd.toFrame, WfFrame f := by
  intro f hf
  obtain ⟨c, hc, rfl⟩ := List.mem_map.mp hf
  exact toFrame_wf c (h c hc)

/-- the bytes a client writes for a sequence of requests -/
def reqWire (reqs : List Cmd) : List UInt8 := (reqs.map Cmd.toFrame).flatMap wire

theorem reqWire_nil : reqWire [] = [] := rfl

theorem reqWire_cons (c : Cmd) (cs : List Cmd) :
    reqWire (c :: cs) = wire (Cmd.toFrame c) ++ reqWire cs := by
  simp [reqWire]

theorem reqWire_append (as bs : List Cmd) : reqWire (as ++ bs) = reqWire as ++ reqWire bs := by
  simp [reqWire]

/-! ### `Command::try_from` accepts exactly the frames of well-formed requests -/

theorem delKeys_ok : ∀ (l : List Frame) (ks : List (List UInt8)), delKeys l = .ok ks →
    l = ks.map .bulk ∧ ∀ k, k ∈ ks → validUtf8 k = true := by
  intro l
  induction l with
  | nil =>
    intro ks h
    simp only [delKeys, Except.ok.injEq] at h
    subst h; simp
  | cons x l ih =>
    intro ks h
    cases x with
    | bulk s =>
      simp only [delKeys] at h
      split at h
      · rename_i hs
        cases hd : delKeys l with
        | error e => rw [hd] at h; cases h
        | ok ks' =>
          rw [hd] at h
          simp only [Except.ok.injEq] at h
          subst h
          obtain ⟨h1, h2⟩ := ih ks' hd
          refine ⟨by rw [h1]; simp, ?_⟩
          intro k hk
          rcases List.mem_cons.mp hk with rfl | hk
          · exact hs
          · exact h2 k hk
      · cases h
    | _ => simp [delKeys] at h

theorem getString_some (l : List Frame) (k : List UInt8) (rest : List Frame)
    (h : getString l = .ok (some k, rest)) : l = .bulk k :: rest ∧ validUtf8 k = true := by
  cases l with
  | nil => simp [getString] at h
  | cons x l =>
    cases x with
    | bulk s =>
      simp only [getString] at h
      split at h
      · rename_i hs
        simp only [Except.ok.injEq, Prod.mk.injEq, Option.some.injEq] at h
        obtain ⟨rfl, rfl⟩ := h
        exact ⟨rfl, hs⟩
      · cases h
    | _ => simp [getString] at h

theorem getBytes_some (l : List Frame) (k : List UInt8) (rest : List Frame)
    (h : getBytes l = .ok (some k, rest)) : l = .bulk k :: rest := by
  cases l with
  | nil => simp [getBytes] at h
  | cons x l =>
    cases x with
    | bulk s =>
      simp only [getBytes, Except.ok.injEq, Prod.mk.injEq, Option.some.injEq] at h
      obtain ⟨rfl, rfl⟩ := h
      rfl
    | _ => simp [getBytes] at h

/-- whatever `Command::try_from` accepts is the frame of a well-formed request -/
theorem ofFrame_ok (f : Frame) (c : Cmd) (h : Cmd.ofFrame f = .ok c) :
    f = Cmd.toFrame c ∧ WfCmd c := by
  cases f with
  | array items =>
    simp only [Cmd.ofFrame] at h
    split at h
    · cases h
    · cases h
    · rename_i name rest hg
      have hi := getBytes_some items name rest hg
      subst hi
      split at h
      · -- DEL
        rename_i hn
        subst hn
        split at h
        · cases h
        · cases h
        · rename_i ks hne hd
          simp only [Except.ok.injEq] at h
          subst h
          obtain ⟨h1, h2⟩ := delKeys_ok rest ks hd
          subst h1
          refine ⟨rfl, ?_, h2⟩
          intro hnil; subst hnil; exact hne rfl
      · split at h
        · -- GET
          rename_i _ hn
          subst hn
          split at h
          · cases h
          · cases h
          · rename_i k rest' hs
            obtain ⟨h1, h2⟩ := getString_some rest k rest' hs
            subst h1
            split at h
            · rename_i hemp
              simp only [Except.ok.injEq] at h
              subst h
              have : rest' = [] := by simpa using hemp
              subst this
              exact ⟨rfl, h2⟩
            · cases h
        · split at h
          · -- SET
            rename_i _ _ hn
            subst hn
            split at h
            · cases h
            · cases h
            · rename_i k rest' hs
              obtain ⟨h1, h2⟩ := getString_some rest k rest' hs
              subst h1
              split at h
              · cases h
              · cases h
              · rename_i v rest'' hb
                have h3 := getBytes_some rest' v rest'' hb
                subst h3
                split at h
                · rename_i hemp
                  simp only [Except.ok.injEq] at h
                  subst h
                  have : rest'' = [] := by simpa using hemp
                  subst this
                  exact ⟨rfl, h2⟩
                · cases h
          · cases h
  | _ => simp [Cmd.ofFrame] at h

/-- `Command::try_from f` succeeds with `c` iff `f` is the request frame of the well-formed `c` -/
theorem ofFrame_ok_iff (f : Frame) (c : Cmd) :
    Cmd.ofFrame f = .ok c ↔ f = Cmd.toFrame c ∧ WfCmd c :=
  ⟨ofFrame_ok f c, fun ⟨h1, h2⟩ => by rw [h1]; exact c06_cmd_roundtrip c h2⟩

/-! ### the map model's replies -/

theorem specReplies_cons (m : KV) (c : Cmd) (cs : List Cmd) :
    specReplies m (c :: cs) =
      ((specReplies (applyCmd m c).1 cs).1, (applyCmd m c).2 :: (specReplies (applyCmd m c).1 cs).2) := by
  simp only [specReplies]

theorem specReplies_append (m : KV) (as bs : List Cmd) :
    specReplies m (as ++ bs) =
      ((specReplies (specReplies m as).1 bs).1,
        (specReplies m as).2 ++ (specReplies (specReplies m as).1 bs).2) := by
  induction as generalizing m with
  | nil => simp [specReplies]
  | cons a as ih => simp only [List.cons_append, specReplies_cons, ih, List.cons_append]

theorem specReplies_fst (m : KV) (cs : List Cmd) : (specReplies m cs).1 = applyAll m cs := by
  induction cs generalizing m with
  | nil => rfl
  | cons c cs ih => simp only [specReplies_cons, ih, applyAll, List.foldl_cons]

theorem specReplies_length (m : KV) (cs : List Cmd) : (specReplies m cs).2.length = cs.length := by
  induction cs generalizing m with
  | nil => rfl
  | cons c cs ih => simp only [specReplies_cons, List.length_cons, ih]

theorem specReplies_encodes (m : KV) (cs : List Cmd) :
    ∀ f, f ∈ (specReplies m cs).2 → ∃ b, encode f = some b := by
  induction cs generalizing m with
  | nil => intro f hf; simp [specReplies] at hf
  | cons c cs ih =>
    intro f hf
    simp only [specReplies_cons, List.mem_cons] at hf
    rcases hf with rfl | hf
    · exact encode_reply_some m c
    · exact ih _ f hf

theorem encodeAll_append (as bs : List Frame) : encodeAll (as ++ bs) = encodeAll as ++ encodeAll bs := by
  induction as with
  | nil => rfl
  | cons a as ih => simp only [List.cons_append, encodeAll, ih, List.append_assoc]

theorem encodeAll_eq_flatMap (fs : List Frame) : encodeAll fs = fs.flatMap wire := by
  induction fs with
  | nil => rfl
  | cons f fs ih => simp only [encodeAll, ih, List.flatMap_cons, wire]

/-- when every frame encodes, `encodeAll` is the concatenation of the complete encodings -/
theorem encodeAll_whole (fs : List Frame) (h : ∀ f, f ∈ fs → ∃ b, encode f = some b) :
    ∃ bs : List (List UInt8), fs.map encode = bs.map some ∧ encodeAll fs = bs.flatten := by
  induction fs with
  | nil => exact ⟨[], rfl, rfl⟩
  | cons f fs ih =>
    obtain ⟨b, hb⟩ := h f List.mem_cons_self
    obtain ⟨bs, h1, h2⟩ := ih (fun g hg => h g (List.mem_cons_of_mem _ hg))
    refine ⟨b :: bs, by simp [hb, h1], ?_⟩
    simp only [encodeAll, hb, Option.getD_some, h2, List.flatten_cons]

/-! ### the handler loop through the map model -/

/-- the handler on the frames of well-formed requests followed by anything -/
theorem serveFrames_reqs_append (m : KV) (reqs : List Cmd) (rest : List ReadRes)
    (h : ∀ c, c ∈ reqs → WfCmd c) :
    serveFrames m (reqs.map (fun c => .frame (Cmd.toFrame c)) ++ rest) =
      ((serveFrames (specReplies m reqs).1 rest).1,
        encodeAll (specReplies m reqs).2 ++ (serveFrames (specReplies m reqs).1 rest).2.1,
        (serveFrames (specReplies m reqs).1 rest).2.2) := by
  induction reqs generalizing m with
  | nil => simp [specReplies, encodeAll]
  | cons c cs ih =>
    simp only [List.map_cons, List.cons_append, serveFrames, c06_cmd_roundtrip c (h c List.mem_cons_self)]
    obtain ⟨b, hb⟩ := encode_reply_some m c
    cases ha : applyCmd m c with
    | mk m1 reply =>
      rw [ha] at hb
      simp only at hb
      simp only [hb, ih m1 (fun x hx => h x (List.mem_cons_of_mem _ hx)), specReplies, ha, encodeAll,
        Option.getD_some, List.append_assoc]

/-- on any read results: the store and the bytes written are those the map model gives for the
    commands of `goodPrefix` — one complete reply per applied command, nothing else -/
theorem serveFrames_spec (m : KV) (rs : List ReadRes) (h : ReadRes.panic ∉ rs) :
    (serveFrames m rs).1 = (specReplies m (goodPrefix rs)).1 ∧
      (serveFrames m rs).2.1 = encodeAll (specReplies m (goodPrefix rs)).2 := by
  induction rs generalizing m with
  | nil => simp [serveFrames, goodPrefix, specReplies, encodeAll]
  | cons r rest ih =>
    cases r with
    | frame f =>
      simp only [serveFrames, goodPrefix]
      cases hc : Cmd.ofFrame f with
      | error e => simp [specReplies, encodeAll]
      | ok c =>
        simp only
        obtain ⟨b, hb⟩ := encode_reply_some m c
        cases ha : applyCmd m c with
        | mk m1 reply =>
          rw [ha] at hb
          simp only at hb
          obtain ⟨i1, i2⟩ := ih m1 (fun hm => h (List.mem_cons_of_mem _ hm))
          simp only [hb, specReplies, ha, encodeAll, Option.getD_some, i1, i2, and_self]
    | cleanEnd => simp [serveFrames, goodPrefix, specReplies, encodeAll]
    | reset => simp [serveFrames, goodPrefix, specReplies, encodeAll]
    | error e => simp [serveFrames, goodPrefix, specReplies, encodeAll]
    | panic => exact absurd List.mem_cons_self h

end Resp
