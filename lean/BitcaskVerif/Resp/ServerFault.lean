/-
  The connection handler over a store whose calls can fail (`src/net/command/{set,get,del}.rs` with
  `KeyValueStorage` calls returning `Err`; `Handler::run` propagates the error with `?`: the connection ends
  and no reply is written for that command).

  The store is seen from outside as two maps: what the running process reads (`live`, the index) and what a
  restart would recover (`disk`). A call that succeeds changes both. A call that fails never changes `live`
  (the writer returns before it touches the index) and either has or has not left its entry in the file.
  Which of the three happens is an input (`CallRes`); the refinement of the real store's failing calls to
  these outcomes is C20's store-level model (`Store/FaultModel.lean`, `Store/FaultRun.lean`).
  Core Lean only.
-/
import BitcaskVerif.Resp.Server

namespace Resp

/-- what one store call made on behalf of a command does -/
inductive CallRes where
  | ok            -- succeeds
  | failKept      -- fails, nothing of it is in the files
  | failApplied   -- fails, its entry is in the file (a restart sees it)
deriving Repr, DecidableEq

/-- the store as a client can observe it -/
structure SF where
  live : KV
  disk : KV

/-- `storage.set(k, v)`; `true` = `Ok(())` -/
def storeSetF (s : SF) (k v : List UInt8) : CallRes → SF × Bool
  | .ok => (⟨s.live.set k v, s.disk.set k v⟩, true)
  | .failKept => (s, false)
  | .failApplied => (⟨s.live, s.disk.set k v⟩, false)

/-- `storage.del(k)`; `some present` = `Ok(present)`, `none` = `Err` -/
def storeDelF (s : SF) (k : List UInt8) : CallRes → SF × Option Bool
  | .ok => (⟨s.live.del k, s.disk.del k⟩, some (s.live k).isSome)
  | .failKept => (s, none)
  | .failApplied => (⟨s.live, s.disk.del k⟩, none)

/-- the DEL loop of `Del::apply`: the first failing call ends it with the error; `rs` gives the outcomes of the
    successive calls (a missing outcome is a success) -/
def delAllF (s : SF) : List (List UInt8) → List CallRes → SF × Option Nat
  | [], _ => (s, some 0)
  | k :: ks, rs =>
    match storeDelF s k (rs.headD .ok) with
    | (s1, none) => (s1, none)
    | (s1, some present) =>
      match delAllF s1 ks rs.tail with
      | (s2, n) => (s2, n.map fun n => if present then n + 1 else n)

/-- one command: the store afterwards and the reply frame, `none` when a store call failed (no reply is written
    and the handler returns the error) -/
def applyCmdF (s : SF) (c : Cmd) (rs : List CallRes) : SF × Option Frame :=
  match c with
  | .set k v =>
    match storeSetF s k v (rs.headD .ok) with
    | (s1, true) => (s1, some (.simple sOK))
    | (s1, false) => (s1, none)
  | .get k =>
    match rs.headD .ok with
    | .ok => (s, some (match s.live k with | some v => .bulk v | none => .null))
    | _ => (s, none)
  | .del ks =>
    match delAllF s ks rs with
    | (s1, n) => (s1, n.map fun (n : Nat) => Frame.integer n)

/-- the keys a command names -/
def Cmd.keys : Cmd → List (List UInt8)
  | .set k _ => [k]
  | .get k => [k]
  | .del ks => ks

/-- number of store calls a command makes when none fails -/
def Cmd.calls : Cmd → Nat
  | .set _ _ => 1
  | .get _ => 1
  | .del ks => ks.length

/-- the handler loop over already-decoded commands, with the outcomes of the store calls of each command:
    replies written so far, the store, and whether the handler is still running (`false`: a store call failed
    and the connection has been dropped) -/
def serveCmdsF (s : SF) : List (Cmd × List CallRes) → SF × List Frame × Bool
  | [] => (s, [], true)
  | (c, rs) :: rest =>
    match applyCmdF s c rs with
    | (s1, none) => (s1, [], false)
    | (s1, some f) =>
      match serveCmdsF s1 rest with
      | (s2, fs, r) => (s2, f :: fs, r)

end Resp
