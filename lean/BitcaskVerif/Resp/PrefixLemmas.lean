/-
  C08 helper lemmas, part 2: a buffer that ends strictly inside an encoded frame
  (`PartAt buf pos e`) makes `check` report `incomplete`.
-/
import BitcaskVerif.Resp.RoundTrip

namespace Resp

/-- the buffer ends strictly inside the list `e` that starts at offset `pos` -/
def PartAt (buf : Buf) (pos : Nat) (e : List UInt8) : Prop :=
  pos ≤ buf.size ∧ buf.size < pos + e.length ∧
    ∀ j (h : j < e.length), pos + j < buf.size → buf[pos+j]! = e[j]

theorem PartAt_append (buf : Buf) (pos : Nat) (a b : List UInt8) (h : PartAt buf pos (a ++ b)) :
    PartAt buf pos a ∨ (At buf pos a ∧ PartAt buf (pos + a.length) b) := by
  obtain ⟨hle, hlt, hj⟩ := h
  simp only [List.length_append] at hlt
  by_cases hc : buf.size < pos + a.length
  · left
    refine ⟨hle, hc, fun j h hjs => ?_⟩
    rw [hj j (by simp; omega) hjs, List.getElem_append_left h]
  · right
    refine ⟨⟨by omega, fun j h => ?_⟩, ⟨by omega, by omega, fun j h hjs => ?_⟩⟩
    · rw [hj j (by simp; omega) (by omega), List.getElem_append_left h]
    · have := hj (a.length + j) (by simp; omega) (by omega)
      rw [← Nat.add_assoc] at this
      rw [this, List.getElem_append_right (by omega)]
      simp

theorem PartAt_cons (buf : Buf) (pos : Nat) (x : UInt8) (e : List UInt8)
    (h : PartAt buf pos (x :: e)) :
    pos = buf.size ∨ (pos < buf.size ∧ buf[pos]! = x ∧ PartAt buf (pos + 1) e) := by
  have h' : PartAt buf pos ([x] ++ e) := by simpa using h
  rcases PartAt_append buf pos [x] e h' with h1 | ⟨h1, h2⟩
  · left
    have := h1.2.1; have := h1.1
    simp only [List.length_cons, List.length_nil] at *
    omega
  · right
    have hb := h1.1
    have h0 := h1.2 0 (by simp)
    simp only [List.length_cons, List.length_nil] at hb h2
    exact ⟨by omega, by simpa using h0, h2⟩

theorem PartAt_nil (buf : Buf) (pos : Nat) : ¬ PartAt buf pos [] := by
  rintro ⟨h1, h2, _⟩
  simp only [List.length_nil] at h2
  omega

theorem PartAt_of_prefix (p e : List UInt8) (hp : p <+: e) (hne : p ≠ e) : PartAt p.toArray 0 e := by
  obtain ⟨t, rfl⟩ := hp
  have ht : t ≠ [] := by intro h; subst h; simp at hne
  have : 0 < t.length := List.length_pos_iff.mpr ht
  refine ⟨by simp, by simp; omega, fun j h hjs => ?_⟩
  simp only [Nat.zero_add, List.size_toArray] at hjs
  simp only [Nat.zero_add, List.getElem!_toArray]
  rw [List.getElem!_eq_getElem?_getD, List.getElem_append_left hjs]
  simp [hjs]

/-! ### get_line / get_integer on a truncated line -/

theorem lineScan_eof (buf : Buf) (stop pos : Nat) (hstop : stop ≤ buf.size)
    (h : ∀ k, pos ≤ k → k < stop → buf[k]! ≠ 13 ∧ buf[k]! ≠ 10) :
    lineScan buf stop pos = .eof := by
  obtain ⟨h1, h2, _, h4⟩ := lineScan_spec buf stop hstop pos
  cases hr : lineScan buf stop pos with
  | cr j =>
    obtain ⟨a, b, c, _⟩ := h2 j hr
    exact absurd c (h j a b).1
  | lf =>
    obtain ⟨j, a, b, c, _⟩ := h4 hr
    exact absurd c (h j a b).2
  | eof => rfl
  | oob => exact absurd hr h1

theorem getLine_part (buf : Buf) (pos : Nat) (s : List UInt8) (hsz : 0 < buf.size)
    (h : PartAt buf pos (s ++ [13, 10])) (hs : ∀ b ∈ s, b ≠ 13 ∧ b ≠ 10) :
    getLine buf pos = .incomplete := by
  obtain ⟨hle, hlt, hj⟩ := h
  simp only [List.length_append, List.length_cons, List.length_nil] at hlt
  have hscan : lineScan buf (buf.size - 1) pos = .eof := by
    apply lineScan_eof buf _ _ (by omega)
    intro k hk1 hk2
    have hjs : k - pos < s.length := by omega
    have := hj (k - pos) (by simp; omega) (by omega)
    rw [List.getElem_append_left hjs] at this
    have e : pos + (k - pos) = k := by omega
    rw [e] at this
    rw [this]
    exact hs _ (List.getElem_mem hjs)
  unfold getLine
  have hne : ¬ buf.size = 0 := by omega
  simp only [hne, ↓reduceIte, hscan]

theorem signInfo_neg (buf : Buf) (pos : Nat) (h : buf[pos]! = 45) : signInfo buf pos = (true, pos + 1) := by
  unfold signInfo; simp [h]

theorem intRepr_digit_from (v : Int) (j : Nat) (h : j < (intRepr v).length) (hj : v < 0 → 1 ≤ j) :
    isDigit (intRepr v)[j] = true := by
  by_cases hneg : v < 0
  · have e := intRepr_neg v hneg
    have h1 : 1 ≤ j := hj hneg
    obtain ⟨j', rfl⟩ : ∃ j', j = j' + 1 := ⟨j - 1, by omega⟩
    have hl : j' < (natDigits v.natAbs).length := by
      rw [e] at h; simpa using h
    have : (intRepr v)[j' + 1] = (natDigits v.natAbs)[j'] := by
      simp only [e, List.getElem_cons_succ]
    rw [this]
    exact natDigits_digit _ _ (List.getElem_mem hl)
  · have e := intRepr_nonneg v (Int.not_lt.mp hneg)
    have hl : j < (natDigits v.natAbs).length := by rw [e] at h; exact h
    have : (intRepr v)[j] = (natDigits v.natAbs)[j] := by simp only [e]
    rw [this]
    exact natDigits_digit _ _ (List.getElem_mem hl)

theorem getInteger_part (buf : Buf) (pos : Nat) (v : Int)
    (h : PartAt buf pos (intRepr v ++ [13, 10])) : getInteger buf pos = .incomplete := by
  obtain ⟨hle, hlt, hj⟩ := h
  simp only [List.length_append, List.length_cons, List.length_nil] at hlt
  by_cases hp : pos < buf.size
  · obtain ⟨idx, h1, h2, h3, h4, e⟩ := getInteger_cases buf pos hp
    have hsi := signInfo_start buf pos
    rw [e]; unfold intResult
    have hge : idx ≥ buf.size - 1 := by
      apply Classical.byContradiction
      intro hc
      have hlt' : idx < buf.size - 1 := by omega
      have hnd := h4 hlt'
      have hjs : idx - pos < (intRepr v).length := by omega
      have hb := hj (idx - pos) (by simp; omega) (by omega)
      rw [List.getElem_append_left hjs] at hb
      have e1 : pos + (idx - pos) = idx := by omega
      rw [e1] at hb
      have hd : isDigit (intRepr v)[idx - pos] = true := by
        apply intRepr_digit_from
        intro hneg
        have hpos := hj 0 (by simp) (by omega)
        have hl0 : 0 < (intRepr v).length := by omega
        rw [List.getElem_append_left hl0] at hpos
        have h45 : (intRepr v)[0] = 45 := by simp only [intRepr_neg v hneg, List.getElem_cons_zero]
        rw [h45, Nat.add_zero] at hpos
        rw [signInfo_neg buf pos hpos] at h1
        simp only at h1
        omega
      rw [hb, hd] at hnd
      cases hnd
    simp only [hge, ↓reduceIte]
  · unfold getInteger; simp only [hp, ↓reduceIte]

/-! ### check on a truncated non-array frame -/

/-- a decimal header followed by `rest`, truncated: either the header itself is incomplete, or it
    is read in full and the truncation is inside `rest` -/
theorem header_part (buf : Buf) (p : Nat) (v : Int) (rest : List UInt8) (hv : inI64 v = true)
    (h : PartAt buf p ((intRepr v ++ [13, 10]) ++ rest)) :
    getInteger buf p = .incomplete ∨
      (getInteger buf p = .ok (v, p + (intRepr v).length + 2) ∧
        PartAt buf (p + (intRepr v).length + 2) rest) := by
  rcases PartAt_append _ _ _ _ h with h1 | ⟨h1, h2⟩
  · exact .inl (getInteger_part buf p v h1)
  · right
    refine ⟨getInteger_at buf p v 10 hv h1, ?_⟩
    simp only [List.length_append, List.length_cons, List.length_nil] at h2
    have e1 : p + ((intRepr v).length + (0 + 1 + 1)) = p + (intRepr v).length + 2 := by omega
    rw [e1] at h2
    exact h2

theorem header_first (buf : Buf) (p : Nat) (v : Int) (rest : List UInt8) (hv : 0 ≤ v)
    (h : PartAt buf p ((intRepr v ++ [13, 10]) ++ rest)) (hp : p < buf.size) :
    isDigit (buf[p]!) = true := by
  have hl : 0 < (intRepr v).length := by
    rw [intRepr_nonneg v hv]; exact natDigits_pos _
  have := h.2.2 0 (by simp; omega) (by omega)
  rw [Nat.add_zero, List.getElem_append_left (by simp), List.getElem_append_left hl] at this
  rw [this]
  exact intRepr_digit_from v 0 hl (by omega)

theorem checkF_end (buf : Buf) (fuel depth : Nat) : checkF buf (fuel+1) depth buf.size = .incomplete := by
  unfold checkF; simp

theorem checkF_single_part (buf : Buf) (fuel depth pos : Nat) (f : Frame) (e : List UInt8)
    (hw : WfSingle f) (he : encodeSingle f = some e) (hpa : PartAt buf pos e) :
    checkF buf (fuel+1) depth pos = .incomplete := by
  cases f with
  | simple s =>
    simp only [encodeSingle, Option.some.injEq, crlf_eq] at he
    subst he
    rw [List.cons_append] at hpa
    rcases PartAt_cons _ _ _ _ hpa with rfl | ⟨hp, ht, hpa⟩
    · exact checkF_end buf fuel depth
    · have hidx : buf[pos]! = buf[pos] := by simp [hp]
      rw [hidx] at ht
      have := getLine_part buf (pos+1) s (by omega) hpa hw.2
      unfold checkF
      simp [hp, ht, this]
  | error s =>
    simp only [encodeSingle, Option.some.injEq, crlf_eq] at he
    subst he
    rw [List.cons_append] at hpa
    rcases PartAt_cons _ _ _ _ hpa with rfl | ⟨hp, ht, hpa⟩
    · exact checkF_end buf fuel depth
    · have hidx : buf[pos]! = buf[pos] := by simp [hp]
      rw [hidx] at ht
      have := getLine_part buf (pos+1) s (by omega) hpa hw.2
      unfold checkF
      simp [hp, ht, this]
  | integer i =>
    simp only [encodeSingle, Option.some.injEq, crlf_eq] at he
    subst he
    rw [List.cons_append] at hpa
    rcases PartAt_cons _ _ _ _ hpa with rfl | ⟨hp, ht, hpa⟩
    · exact checkF_end buf fuel depth
    · have hidx : buf[pos]! = buf[pos] := by simp [hp]
      rw [hidx] at ht
      have := getInteger_part buf (pos+1) i hpa
      unfold checkF
      simp [hp, ht, this]
  | bulk b =>
    have hE : e = 36 :: ((intRepr (b.length : Int) ++ [13, 10]) ++ (b ++ [13, 10])) := by
      simp only [encodeSingle, Option.some.injEq, crlf_eq] at he
      rw [← he]; simp
    subst hE
    rcases PartAt_cons _ _ _ _ hpa with rfl | ⟨hp, ht, hpa⟩
    · exact checkF_end buf fuel depth
    · have hidx : buf[pos]! = buf[pos] := by simp [hp]
      rw [hidx] at ht
      by_cases hp1 : pos + 1 < buf.size
      · have hne : ¬ buf[pos+1] = 45 := by
          have hidx1 : buf[pos+1]! = buf[pos+1] := by simp [hp1]
          rw [← hidx1]
          exact (isDigit_ne_sign (header_first buf (pos+1) _ _ (by omega) hpa hp1)).1
        have hin : inI64 (b.length : Int) = true := by
          rw [inI64_iff]; exact ⟨by unfold I64Min; omega, hw⟩
        rcases header_part buf (pos+1) _ _ hin hpa with hgi | ⟨hgi, hpa2⟩
        · unfold checkF
          simp [hp, ht, hp1, hne, hgi]
        · have hlt := hpa2.2.1
          simp only [List.length_append, List.length_cons, List.length_nil] at hlt
          have hsk : skip buf (pos + 1 + (intRepr (b.length : Int)).length + 2) (b.length + 2) = .incomplete := by
            unfold skip
            have : buf.size - (pos + 1 + (intRepr (b.length : Int)).length + 2) < b.length + 2 := by omega
            simp only [this, ↓reduceIte]
          unfold checkF
          simp [hp, ht, hp1, hne, hgi, hsk]
      · unfold checkF
        simp [hp, ht, hp1]
  | null =>
    simp only [encodeSingle, Option.some.injEq, crlf_eq] at he
    subst he
    simp only [List.cons_append, List.nil_append] at hpa
    rcases PartAt_cons _ _ _ _ hpa with rfl | ⟨hp, ht, hpa⟩
    · exact checkF_end buf fuel depth
    · have hidx : buf[pos]! = buf[pos] := by simp [hp]
      rw [hidx] at ht
      rcases PartAt_cons _ _ _ _ hpa with hp1 | ⟨hp1, ht1, hpa1⟩
      · have : ¬ pos + 1 < buf.size := by omega
        unfold checkF
        simp [hp, ht, this]
      · have hidx1 : buf[pos+1]! = buf[pos+1] := by simp [hp1]
        rw [hidx1] at ht1
        have hlt := hpa1.2.1
        simp only [List.length_cons, List.length_nil] at hlt
        have hsk : skip buf (pos + 1) 4 = .incomplete := by
          unfold skip
          have : buf.size - (pos + 1) < 4 := by omega
          simp only [this, ↓reduceIte]
        unfold checkF
        simp [hp, ht, hp1, ht1, hsk]
  | array xs => exact absurd hw (by simp [WfSingle])

/-! ### check on a truncated array, and on any truncated well-formed frame -/

theorem checkF_single_at (buf : Buf) (fuel depth pos : Nat) (f : Frame) (e : List UInt8)
    (hw : WfSingle f) (he : encodeSingle f = some e) (hat : At buf pos e) :
    checkF buf (fuel+1) depth pos = .ok (pos + e.length) :=
  (parse_check buf (fuel+1) depth pos).1 f _ (parseF_single_at buf fuel depth pos f e hw he hat)

theorem checkManyF_part (buf : Buf) (depth : Nat) : ∀ (xs : List Frame) (b : List UInt8) (fuel pos : Nat),
    (∀ x ∈ xs, WfSingle x) → encodeItems xs = some b → PartAt buf pos b →
    buf.size - pos + 2 ≤ fuel →
    checkManyF buf fuel depth xs.length pos = .incomplete := by
  intro xs
  induction xs with
  | nil =>
    intro b fuel pos _ hb hpa _
    simp only [encodeItems, Option.some.injEq] at hb
    subst hb
    exact absurd hpa (PartAt_nil buf pos)
  | cons x xs ih =>
    intro b fuel pos hw hb hpa hf
    obtain ⟨a, b', ha, hb', rfl⟩ := encodeItems_cons_some x xs b hb
    obtain ⟨fuel', rfl⟩ : ∃ f', fuel = f' + 1 + 1 := ⟨fuel - 2, by omega⟩
    simp only [List.length_cons]
    rcases PartAt_append _ _ _ _ hpa with h1 | ⟨h1, h2⟩
    · have := checkF_single_part buf fuel' depth pos x a (hw x (by simp)) ha h1
      unfold checkManyF
      simp only [this]
    · have hc := checkF_single_at buf fuel' depth pos x a (hw x (by simp)) ha h1
      have hlen := encodeSingle_length x a ha
      have hle := h1.1
      have := ih b' (fuel' + 1) (pos + a.length) (fun y hy => hw y (by simp [hy])) hb' h2 (by omega)
      unfold checkManyF
      simp only [hc, this]

theorem checkF_array_part (buf : Buf) (fuel depth pos : Nat) (xs : List Frame) (b : List UInt8)
    (hd : depth < MAX_DEPTH) (hw : ∀ x ∈ xs, WfSingle x) (hl : (xs.length : Int) ≤ I64Max)
    (hb : encodeItems xs = some b)
    (hpa : PartAt buf pos (42 :: ((intRepr (xs.length : Int) ++ [13, 10]) ++ b)))
    (hf : buf.size - pos ≤ fuel) :
    checkF buf (fuel+1) depth pos = .incomplete := by
  rcases PartAt_cons _ _ _ _ hpa with rfl | ⟨hp, ht, hpa⟩
  · exact checkF_end buf fuel depth
  · have hidx : buf[pos]! = buf[pos] := by simp [hp]
    rw [hidx] at ht
    have hnd : ¬ depth ≥ MAX_DEPTH := by omega
    have hin : inI64 (xs.length : Int) = true := by
      rw [inI64_iff]; exact ⟨by unfold I64Min; omega, hl⟩
    rcases header_part buf (pos+1) _ _ hin hpa with hgi | ⟨hgi, hpa2⟩
    · unfold checkF
      simp [hp, ht, hnd, hgi]
    · have hq := hpa2.1
      have := checkManyF_part buf (depth+1) xs b fuel _ hw hb hpa2 (by omega)
      unfold checkF
      simp [hp, ht, hnd, hgi, this]

theorem checkF_frame_part (buf : Buf) (fuel depth pos : Nat) (f : Frame) (e : List UInt8)
    (hd : depth < MAX_DEPTH) (hw : WfFrame f) (he : encode f = some e) (hpa : PartAt buf pos e)
    (hf : buf.size - pos ≤ fuel) :
    checkF buf (fuel+1) depth pos = .incomplete := by
  rcases hw with h | ⟨xs, rfl, hw, hl⟩
  · rw [encode_of_single f h] at he
    exact checkF_single_part buf fuel depth pos f e h he hpa
  · obtain ⟨b, hb⟩ := encodeItems_total xs hw
    rw [encode_array xs b hb, Option.some.injEq] at he
    subst he
    exact checkF_array_part buf fuel depth pos xs b hd hw hl hb hpa hf

/-- the buffer is a strict prefix of the encoding ⇒ `check` says incomplete -/
theorem check_part (buf : Buf) (f : Frame) (e : List UInt8) (hw : WfFrame f) (he : encode f = some e)
    (hpa : PartAt buf 0 e) : check buf = .incomplete := by
  have := checkF_frame_part buf (2 * buf.size + 1) 0 0 f e (by decide) hw he hpa (by omega)
  simpa [check, fuelFor] using this

theorem check_prefix (f : Frame) (e p : List UInt8) (hw : WfFrame f) (he : encode f = some e)
    (hp : p <+: e) (hne : p ≠ e) : check p.toArray = .incomplete :=
  check_part p.toArray f e hw he (PartAt_of_prefix p e hp hne)

end Resp
