/-
  `parseF` against `checkF`: whenever parsing succeeds, the completeness check succeeds on the
  same input with the same cursor (so the lengths can never differ); parsing never panics.
-/
import BitcaskVerif.Resp.CheckLemmas

namespace Resp

theorem slice_length (buf : Buf) (a b : Nat) : (slice buf a b).length = min b buf.size - a := by
  simp [slice]; omega

/-- If parsing succeeds, the completeness check succeeds with the same cursor. -/
theorem parse_check (buf : Buf) : ∀ fuel depth pos,
    (∀ f q, parseF buf fuel depth pos = .ok (f, q) → checkF buf fuel depth pos = .ok q) ∧
    (∀ n fs q, parseManyF buf fuel depth n pos = .ok (fs, q) → checkManyF buf fuel depth n pos = .ok q) := by
  intro fuel
  induction fuel with
  | zero =>
    intro depth pos
    refine ⟨by simp [parseF], ?_⟩
    intro n; cases n <;> simp [parseManyF, checkManyF]
  | succ fuel ih =>
    intro depth pos
    constructor
    · intro f q
      unfold parseF checkF
      split
      · rename_i h
        simp only
        by_cases h43 : buf[pos] = 43
        · simp only [h43, ↓reduceIte]
          split
          · split
            · intro e; simp only [Out.ok.injEq, Prod.mk.injEq] at e; simp [e.2]
            · simp
          all_goals simp
        · by_cases h45 : buf[pos] = 45
          · simp only [h45, ↓reduceIte]
            have : ¬ ((45 : UInt8) = 43) := by decide
            simp only [this, ↓reduceIte]
            split
            · split
              · intro e; simp only [Out.ok.injEq, Prod.mk.injEq] at e; simp [e.2]
              · simp
            all_goals simp
          · simp only [h43, h45, ↓reduceIte, Bool.or_self]
            by_cases h58 : buf[pos] = 58
            · simp only [h58, ↓reduceIte]
              split
              · intro e; simp only [Out.ok.injEq, Prod.mk.injEq] at e; simp [e.2]
              all_goals simp
            · simp only [h58, ↓reduceIte]
              by_cases h36 : buf[pos] = 36
              · simp only [h36, ↓reduceIte]
                split
                · rename_i h1
                  split
                  · -- null
                    split
                    · rename_i i q' hq
                      split
                      · rename_i hsl
                        intro e; simp only [Out.ok.injEq, Prod.mk.injEq] at e
                        obtain ⟨_, rfl⟩ := e
                        obtain ⟨a, b, c, d, _⟩ := getLine_ok _ _ _ _ hq
                        have hl := slice_length buf (pos+1) i
                        rw [hsl] at hl
                        simp only [List.length_cons, List.length_nil] at hl
                        have hi : min i buf.size = i := Nat.min_eq_left (by omega)
                        rw [hi] at hl
                        unfold skip
                        have : ¬ (buf.size - (pos + 1) < 4) := by omega
                        simp only [this, ↓reduceIte]
                        simp only [decide_false, Bool.false_eq_true, ↓reduceIte, Out.ok.injEq]
                        omega
                      · simp
                    all_goals simp
                  · split
                    · rename_i n q' hq
                      split
                      · simp
                      · split
                        · simp
                        · rename_i hneg hfit
                          intro e; simp only [Out.ok.injEq, Prod.mk.injEq] at e
                          obtain ⟨_, rfl⟩ := e
                          unfold skip
                          have : ¬ (buf.size - q' < n.toNat + 2) := by omega
                          simp only [this, ↓reduceIte]
                          congr 1
                    all_goals simp
                · simp
              · simp only [h36, ↓reduceIte]
                by_cases h42 : buf[pos] = 42
                · simp only [h42, ↓reduceIte]
                  split
                  · simp
                  · split
                    · rename_i n q' hq
                      split
                      · simp
                      · split
                        · rename_i xs q'' hm
                          intro e; simp only [Out.ok.injEq, Prod.mk.injEq] at e
                          obtain ⟨_, rfl⟩ := e
                          exact (ih (depth+1) q').2 _ _ _ hm
                        all_goals simp
                    all_goals simp
                · simp [h42]
      · simp
    · intro n
      induction n generalizing pos with
      | zero =>
        intro fs q; simp only [parseManyF, checkManyF, Out.ok.injEq, Prod.mk.injEq]
        intro e; exact e.2
      | succ n ihn =>
        intro fs q
        unfold parseManyF checkManyF
        simp only
        split
        · rename_i f q' hq
          rw [(ih depth pos).1 f q' hq]
          simp only
          split
          · rename_i fs' q'' hm
            intro e; simp only [Out.ok.injEq, Prod.mk.injEq] at e
            obtain ⟨_, rfl⟩ := e
            exact (ih depth q').2 n _ _ hm
          all_goals simp
        all_goals simp

theorem parseF_ok_bounds (buf : Buf) (fuel depth pos : Nat) (f : Frame) (q : Nat)
    (h : parseF buf fuel depth pos = .ok (f, q)) : pos < q ∧ q ≤ buf.size :=
  (checkF_ok buf fuel depth pos q).1 ((parse_check buf fuel depth pos).1 f q h)

theorem parseF_np (buf : Buf) : ∀ fuel depth pos,
    (2 * (buf.size - pos) + 1 ≤ fuel → parseF buf fuel depth pos ≠ .panic) ∧
    (∀ n, pos ≤ buf.size → 2 * (buf.size - pos) + 2 ≤ fuel → parseManyF buf fuel depth n pos ≠ .panic) := by
  intro fuel
  induction fuel with
  | zero => intro depth pos; constructor <;> (intros; omega)
  | succ fuel ih =>
    intro depth pos
    constructor
    · intro hf
      unfold parseF
      split
      · rename_i h
        have hsz : 0 < buf.size := by omega
        simp only
        split
        · split
          · split <;> simp
          · simp
          · simp
          · rename_i hq; exact absurd hq (getLine_no_panic _ _ hsz)
        · split
          · split
            · split <;> simp
            · simp
            · simp
            · rename_i hq; exact absurd hq (getLine_no_panic _ _ hsz)
          · split
            · split <;> simp
              rename_i hq; exact absurd hq (getInteger_no_panic _ _)
            · split
              · split
                · split
                  · split
                    · split <;> simp
                    · simp
                    · simp
                    · rename_i hq; exact absurd hq (getLine_no_panic _ _ hsz)
                  · split
                    · split
                      · simp
                      · split <;> simp
                    · simp
                    · simp
                    · rename_i hq; exact absurd hq (getInteger_no_panic _ _)
                · simp
              · split
                · split
                  · simp
                  · split
                    · rename_i v q' hq
                      split
                      · simp
                      · have h1 := getInteger_ok_bounds _ _ _ _ hq
                        have := (ih (depth+1) q').2 v.toNat (by omega) (by omega)
                        split <;> simp
                        rename_i hm; exact absurd hm this
                    · simp
                    · simp
                    · rename_i hq; exact absurd hq (getInteger_no_panic _ _)
                · simp
      · simp
    · intro n
      induction n generalizing pos with
      | zero => intro hp hf; simp [parseManyF]
      | succ n ihn =>
        intro hp hf
        unfold parseManyF
        simp only
        split
        · rename_i f q' hq
          have h1 := parseF_ok_bounds buf fuel depth pos f q' hq
          have := (ih depth q').2 n (by omega) (by omega)
          split <;> simp
          rename_i hm; exact absurd hm this
        · simp
        · simp
        · rename_i hq
          exact absurd hq ((ih depth pos).1 (by omega))

theorem parse_no_panic (buf : Buf) : parse buf ≠ .panic := by
  unfold parse fuelFor
  exact (parseF_np buf _ 0 0).1 (by omega)

theorem parse_ok_check (buf : Buf) (f : Frame) (q : Nat) (h : parse buf = .ok (f, q)) :
    check buf = .ok q := by
  unfold parse at h; unfold check
  exact (parse_check buf _ 0 0).1 f q h

theorem parseFrame_no_panic (buf : Buf) : parseFrame buf ≠ .panic := by
  unfold parseFrame
  split
  · rename_i n hn
    have hb := check_ok_bounds buf n hn
    split
    · simp [hb.2]
    · simp
    · simp
    · rename_i hp; exact absurd hp (parse_no_panic buf)
  · simp
  · simp
  · rename_i hc; exact absurd hc (check_no_panic buf)

end Resp
