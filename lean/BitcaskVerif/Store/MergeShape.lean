/-
  C19 / C13 helper lemmas: the shape of a merge pass — the loop as a fold with a generic
  induction principle, the removal of the selected files characterised file by file, and the
  decomposition of `mergeWith` into loop, removal and the new active file.
-/
import BitcaskVerif.Store.ALSum

namespace Store.Stats
open Store

/-- the loop state before the first key -/
def m0 (s : St) : MergeSt :=
  { s := { s with disk := rollDisk s.disk (s.active + 1) }, mid := s.active + 1, mpos := 0,
    calls := [Call.create ⟨.data, s.active + 1⟩, Call.create ⟨.hint, s.active + 1⟩] }

/-- the loop state after the last key -/
def mergeLoop (cfg : Cfg) (s : St) (sel : List Nat) (order : List Key) : MergeSt :=
  order.foldl (mergeStep cfg sel) (m0 s)

/-- the loop state after copying one record, without / with an output rollover -/
def movedM (m : MergeSt) (k : Key) (loc : Loc) (r : Rec) : MergeSt :=
  { s := moveSt m k loc r, mid := m.mid, mpos := m.mpos + loc.len, calls := moveCalls m k loc r }

def rolledM (m : MergeSt) (k : Key) (loc : Loc) (r : Rec) : MergeSt :=
  { s := { moveSt m k loc r with disk := rollDisk (moveDisk m k loc r) (m.mid + 1) },
    mid := m.mid + 1, mpos := 0,
    calls := moveCalls m k loc r ++ [Call.fsync ⟨.data, m.mid⟩, Call.fsync ⟨.hint, m.mid⟩,
                                     Call.create ⟨.data, m.mid + 1⟩, Call.create ⟨.hint, m.mid + 1⟩] }

/-- case analysis of one loop iteration under the loop invariant: either nothing happens, or the
    key's record (a value record of that key, of the recorded length, in a selected file) is
    copied, with or without an output rollover -/
theorem mergeStep_cases {A : Nat} {abs0 : Map} (cfg : Cfg) (sel : List Nat) (m : MergeSt) (k : Key)
    (h : MInv A abs0 m) (P : MergeSt → Prop) (hskip : P m)
    (hmove : ∀ loc r, AL.get k m.s.keydir = some loc → loc.fid ∈ sel →
      recAt (dataOf m.s.disk loc.fid) loc.pos = some r → r.key = k → r.val.isSome → r.len = loc.len →
      (AL.get loc.fid m.s.disk.data).isSome →
      P (movedM m k loc r) ∧ P (rolledM m k loc r)) : P (mergeStep cfg sel m k) := by
  cases hk : AL.get k m.s.keydir with
  | none => rw [mergeStep_skip_none cfg sel m k hk]; exact hskip
  | some loc =>
    by_cases hsel : loc.fid ∈ sel
    · obtain ⟨r, h1, h2, h3, h4, h5⟩ := h.locs k loc hk
      rw [mergeStep_move cfg sel m k loc r hk hsel h1]
      obtain ⟨p1, p2⟩ := hmove loc r hk hsel h1 h2 h3 h4 h5
      by_cases hroll : m.mpos + loc.len > cfg.maxFile
      · simp only [hroll, ↓reduceIte]; exact p2
      · simp only [hroll, ↓reduceIte]; exact p1
    · rw [mergeStep_skip_unsel cfg sel m k loc hk hsel]; exact hskip

/-- induction over the merge loop, with the loop invariant `MInv` available at every step -/
theorem mergeFold_induct {A : Nat} {abs0 : Map} (cfg : Cfg) (sel : List Nat)
    (hselA : ∀ id, id ∈ sel → id ≤ A) (P : MergeSt → Prop)
    (hstep : ∀ m k, MInv A abs0 m → P m → P (mergeStep cfg sel m k)) (order : List Key) :
    ∀ m, MInv A abs0 m → P m → P (order.foldl (mergeStep cfg sel) m) := by
  induction order with
  | nil => intro m _ hp; exact hp
  | cons k ks ih =>
    intro m hm hp
    simp only [List.foldl_cons]
    exact ih _ (mergeStep_spec cfg sel A abs0 hselA m k hm).1 (hstep m k hm hp)

/-- the loop invariant holds before the first key -/
theorem m0_minv {s : St} (h : Inv s) : MInv s.active s.abs (m0 s) := by
  have hK0 : Keeps s.active s.disk (rollDisk s.disk (s.active + 1)) := keeps_create _ _ _ (by omega) _ _
  constructor
  · intro k loc hk
    have hl := h.locs k loc hk
    exact hl.keeps (LocOk.fid_le h hl) hK0
  · intro id hid
    simp only [m0, rollDisk] at hid ⊢
    rcases mem_keys_set hid with e | e
    · omega
    · have := h.ids id e; omega
  · intro id hid
    simp only [m0, rollDisk] at hid ⊢
    rcases mem_keys_set hid with e | e
    · omega
    · have := h.hids id e; omega
  · simp [m0]
  · simp [m0, rollDisk, dataOf, AL.get_set_same]
  · simp [m0, rollDisk, AL.get_set_same]
  · funext k
    apply abs_keeps (b := s.active)
    · intro l hl; have := h.locs k l hl; exact ⟨this, LocOk.fid_le h this⟩
    · rfl
    · exact hK0

/-- after the loop: the loop invariant holds and no KeyDir entry is left in a selected file -/
theorem mergeLoop_spec (cfg : Cfg) (s : St) (sel : List Nat) (order : List Key) (h : Inv s)
    (hsel : ∀ id, id ∈ sel → id ≤ s.active) (hcov : Covers order s) :
    MInv s.active s.abs (mergeLoop cfg s sel order) ∧
    (∀ k loc, AL.get k (mergeLoop cfg s sel order).s.keydir = some loc → loc.fid ∉ sel) := by
  obtain ⟨f1, f2, f3, _⟩ := mergeFold_spec cfg sel s.active s.abs hsel order _ (m0_minv h)
  refine ⟨f1, ?_⟩
  intro k loc hk
  apply f3 k _ loc hk
  left
  apply hcov
  have := f2 k
  unfold mergeLoop at hk
  rw [hk] at this
  simp only [Option.isSome_some] at this
  cases hg : AL.get k s.keydir with
  | none => simp only [m0] at this; rw [hg] at this; cases this
  | some l => exact AL.mem_keys_of_get hg

/-! ### removing the selected files -/

theorem unlinkOne_fst (st : St × List Call) (id : Nat) :
    (unlinkOne st id).1 =
      { st.1 with stats := AL.del id st.1.stats,
                  disk := { st.1.disk with data := AL.del id st.1.disk.data, hint := AL.del id st.1.disk.hint } } := by
  obtain ⟨s, c⟩ := st; rfl

theorem unlinkFold_stats (l : List Nat) (f : Nat) : ∀ (st : St × List Call),
    AL.get f (l.foldl unlinkOne st).1.stats = if f ∈ l then none else AL.get f st.1.stats := by
  induction l with
  | nil => intro st; simp
  | cons id ids ih =>
    intro st
    simp only [List.foldl_cons, ih, unlinkOne_fst, AL.get_del, List.mem_cons]
    by_cases e : f = id
    · simp [e]
    · simp [e]

theorem unlinkFold_data (l : List Nat) (f : Nat) : ∀ (st : St × List Call),
    AL.get f (l.foldl unlinkOne st).1.disk.data = if f ∈ l then none else AL.get f st.1.disk.data := by
  induction l with
  | nil => intro st; simp
  | cons id ids ih =>
    intro st
    simp only [List.foldl_cons, ih, unlinkOne_fst, AL.get_del, List.mem_cons]
    by_cases e : f = id
    · simp [e]
    · simp [e]

theorem unlinkFold_hint (l : List Nat) (f : Nat) : ∀ (st : St × List Call),
    AL.get f (l.foldl unlinkOne st).1.disk.hint = if f ∈ l then none else AL.get f st.1.disk.hint := by
  induction l with
  | nil => intro st; simp
  | cons id ids ih =>
    intro st
    simp only [List.foldl_cons, ih, unlinkOne_fst, AL.get_del, List.mem_cons]
    by_cases e : f = id
    · simp [e]
    · simp [e]

theorem unlinkFold_tails (l : List Nat) : ∀ (st : St × List Call),
    (l.foldl unlinkOne st).1.disk.tails = st.1.disk.tails := by
  induction l with
  | nil => intro st; rfl
  | cons id ids ih => intro st; simp only [List.foldl_cons, ih, unlinkOne_fst]

theorem unlinkFold_bad (l : List Nat) : ∀ (st : St × List Call),
    (l.foldl unlinkOne st).1.bad = st.1.bad := by
  induction l with
  | nil => intro st; rfl
  | cons id ids ih => intro st; simp only [List.foldl_cons, ih, unlinkOne_fst]

theorem unlinkFold_dnodup (l : List Nat) : ∀ (st : St × List Call), (AL.keys st.1.disk.data).Nodup →
    (AL.keys (l.foldl unlinkOne st).1.disk.data).Nodup := by
  induction l with
  | nil => intro st h; exact h
  | cons id ids ih =>
    intro st h
    simp only [List.foldl_cons]
    apply ih
    rw [unlinkOne_fst]
    exact nodup_del h

theorem unlinkFold_snodup (l : List Nat) : ∀ (st : St × List Call), (AL.keys st.1.stats).Nodup →
    (AL.keys (l.foldl unlinkOne st).1.stats).Nodup := by
  induction l with
  | nil => intro st h; exact h
  | cons id ids ih =>
    intro st h
    simp only [List.foldl_cons]
    apply ih
    rw [unlinkOne_fst]
    exact nodup_del h

theorem unlinkFold_dataOf (l : List Nat) (f : Nat) (st : St × List Call) :
    dataOf (l.foldl unlinkOne st).1.disk f = if f ∈ l then [] else dataOf st.1.disk f := by
  unfold dataOf
  rw [unlinkFold_data]
  by_cases e : f ∈ l <;> simp [e]

/-- a data-file id survives the removal iff it is not selected -/
theorem unlinkFold_keys (l : List Nat) (f : Nat) (st : St × List Call)
    (h : f ∈ AL.keys (l.foldl unlinkOne st).1.disk.data) : f ∉ l ∧ f ∈ AL.keys st.1.disk.data := by
  obtain ⟨v, hv⟩ := AL.get_of_mem_keys h
  rw [unlinkFold_data] at hv
  by_cases e : f ∈ l
  · simp [e] at hv
  · simp only [e, ↓reduceIte] at hv
    exact ⟨e, AL.mem_keys_of_get hv⟩

theorem unlinkFold_hkeys (l : List Nat) (f : Nat) (st : St × List Call)
    (h : f ∈ AL.keys (l.foldl unlinkOne st).1.disk.hint) : f ∉ l ∧ f ∈ AL.keys st.1.disk.hint := by
  obtain ⟨v, hv⟩ := AL.get_of_mem_keys h
  rw [unlinkFold_hint] at hv
  by_cases e : f ∈ l
  · simp [e] at hv
  · simp only [e, ↓reduceIte] at hv
    exact ⟨e, AL.mem_keys_of_get hv⟩

/-- the state a merge pass ends in: loop, removal of the selected files, new active file -/
theorem mergeWith_fst (cfg : Cfg) (s : St) (sel : List Nat) (order : List Key) :
    ∃ sy : List Call, (mergeWith cfg s sel order).1 =
      (newActive (sel.foldl unlinkOne ((mergeLoop cfg s sel order).s, sy)).1
        ((mergeLoop cfg s sel order).mid + 1)).1 := by
  refine ⟨(mergeLoop cfg s sel order).calls ++
    [Call.fsync ⟨.data, (mergeLoop cfg s sel order).mid⟩, Call.fsync ⟨.hint, (mergeLoop cfg s sel order).mid⟩], ?_⟩
  unfold mergeWith mergeLoop m0 rollDisk
  rfl

end Store.Stats
