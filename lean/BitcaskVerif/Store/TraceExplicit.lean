/-
  The C14 statements in explicit form (positions in the trace), derived from the coupling
  invariant (`run_coup`, `runX_coup`) and the meaning of the monitor verdicts (`mon_*`).
  `Props/C14.lean` restates them under their property names.
-/
import BitcaskVerif.Store.SizeAll
import BitcaskVerif.Store.TraceDir
import BitcaskVerif.Store.TraceFault

namespace Store.Tr
/-- the monitor of a store in state `s`, at the start of the observation -/
def Mon.start (a : Nat) : Mon := { bound := a + 1, created := [⟨.data, a⟩] }

theorem monOk_start (a : Nat) : MonOk a (Mon.start a) := by
  constructor <;> simp [Mon.start]

theorem mem_callsOf {c : Call} {evs : List TEv} : c ∈ callsOf evs ↔ TEv.call c ∈ evs := by
  induction evs with
  | nil => simp [callsOf]
  | cons e es ih =>
    cases e with
    | restart => simp only [callsOf, List.filterMap_cons] at ih ⊢; simp [ih]
    | call d =>
      simp only [callsOf, List.filterMap_cons] at ih ⊢
      simp only [List.mem_cons, ih, TEv.call.injEq]

/-- **C14 (monitor form).** From every state satisfying the id invariant, the trace monitor accepts
    the annotated trace of every valid run: all three verdicts stay `true`, and at the end the
    bound (one above the largest id ever used) is one above the active id, whose file exists. -/
theorem trace_monitor (cfg : Cfg) (s : St) (ops : List TOp) (h : IdInv s) (hv : ValidC cfg s ops) :
    ((Mon.start s.active).run (evsOf cfg s ops)).okFresh = true ∧
    ((Mon.start s.active).run (evsOf cfg s ops)).okOwn = true ∧
    ((Mon.start s.active).run (evsOf cfg s ops)).okTop = true ∧
    ((Mon.start s.active).run (evsOf cfg s ops)).bound = (runC cfg s ops).active + 1 ∧
    (AL.get (runC cfg s ops).active (runC cfg s ops).disk.data).isSome := by
  have hc := run_coup cfg ops s (Mon.start s.active) ⟨h, monOk_start _⟩ hv
  exact ⟨hc.mon.okF, hc.mon.okO, hc.mon.okT, hc.mon.bound, hc.inv.act⟩

/-- **C14 (fresh ids, data files).** Every `create` of a data file in the trace uses an id greater
    than every data and hint id present at the start and greater than the id of every file created
    earlier in the trace. -/
theorem trace_fresh_id (cfg : Cfg) (s : St) (ops : List TOp) (h : IdInv s) (hv : ValidC cfg s ops)
    (pre post : List Call) (id : Nat) (ht : traceOf cfg s ops = pre ++ Call.create ⟨.data, id⟩ :: post) :
    (∀ id0, id0 ∈ AL.keys s.disk.data → id0 < id) ∧ (∀ id0, id0 ∈ AL.keys s.disk.hint → id0 < id) ∧
    (∀ g, Call.create g ∈ pre → g.id < id) := by
  obtain ⟨okF, _⟩ := trace_monitor cfg s ops h hv
  rw [← callsOf_evsOf] at ht
  obtain ⟨pre', post', he, hp, _⟩ := callsOf_split _ _ _ _ ht
  obtain ⟨h1, h2⟩ := mon_fresh_data _ _ okF pre' post' id he
  have hb : s.active + 1 ≤ id := h1
  refine ⟨?_, ?_, ?_⟩
  · intro id0 h0; have := h.ids id0 h0; omega
  · intro id0 h0; have := h.ids id0 (h.hsub id0 h0); omega
  · intro g hg
    rw [← hp] at hg
    exact h2 g (mem_callsOf.mp hg)

/-- **C14 (fresh ids, hint files).** Every `create` of a hint file directly follows the `create`
    of the data file with the same id (so, by `trace_fresh_id`, that id is fresh as well). -/
theorem trace_fresh_hint (cfg : Cfg) (s : St) (ops : List TOp) (h : IdInv s) (hv : ValidC cfg s ops)
    (pre post : List Call) (id : Nat) (ht : traceOf cfg s ops = pre ++ Call.create ⟨.hint, id⟩ :: post) :
    ∃ pre', pre = pre' ++ [Call.create ⟨.data, id⟩] := by
  obtain ⟨okF, _⟩ := trace_monitor cfg s ops h hv
  rw [← callsOf_evsOf] at ht
  obtain ⟨pre', post', he, hp, _⟩ := callsOf_split _ _ _ _ ht
  rcases mon_fresh_hint _ _ okF pre' post' id he with ⟨_, hl⟩ | ⟨p, hp'⟩
  · cases hl
  · refine ⟨callsOf p, ?_⟩
    rw [← hp, hp', callsOf_append]; rfl

/-- the id of a created hint file is fresh too: above every id present at the start and above the
    id of every file created before its data file -/
theorem trace_fresh_hint_id (cfg : Cfg) (s : St) (ops : List TOp) (h : IdInv s) (hv : ValidC cfg s ops)
    (pre post : List Call) (id : Nat) (ht : traceOf cfg s ops = pre ++ Call.create ⟨.hint, id⟩ :: post) :
    ∃ pre', pre = pre' ++ [Call.create ⟨.data, id⟩] ∧
      (∀ id0, id0 ∈ AL.keys s.disk.data → id0 < id) ∧ (∀ id0, id0 ∈ AL.keys s.disk.hint → id0 < id) ∧
      (∀ g, Call.create g ∈ pre' → g.id < id) := by
  obtain ⟨pre', hp⟩ := trace_fresh_hint cfg s ops h hv pre post id ht
  refine ⟨pre', hp, ?_⟩
  apply trace_fresh_id cfg s ops h hv pre' (Call.create ⟨.hint, id⟩ :: post) id
  rw [ht, hp]; simp

/-- **C14 (own appends).** In the trace that starts with the creation of the active file of the
    current life, every `append f` is preceded, since the last restart, by `create f` and by no
    `unlink f`: a file is only ever extended by the process that created it, and never after it
    was removed. -/
theorem trace_appends_own (cfg : Cfg) (s : St) (ops : List TOp) (h : IdInv s) (hv : ValidC cfg s ops)
    (pre post : List TEv) (f : FName) (p : Payload)
    (ht : TEv.call (.create ⟨.data, s.active⟩) :: evsOf cfg s ops = pre ++ TEv.call (.append f p) :: post) :
    TEv.call (.create f) ∈ lastLife pre ∧ TEv.call (.unlink f) ∉ lastLife pre := by
  have hc := run_coup cfg ops s (Mon.init s.active) (coup_init h) hv
  have hok : (({} : Mon).run (TEv.call (.create ⟨.data, s.active⟩) :: evsOf cfg s ops)).okOwn = true := hc.mon.okO
  exact mon_own {} rfl rfl _ hok pre post f p ht

/-- **C14 (the largest id is never removed).** Every `unlink f` in the trace removes a file whose id
    is below the active id at the start or below the id of a file created earlier in the trace:
    the file with the largest id ever used stays in the directory, so `max + 1` at any later
    open is fresh. -/
theorem trace_top_never_removed (cfg : Cfg) (s : St) (ops : List TOp) (h : IdInv s) (hv : ValidC cfg s ops)
    (pre post : List TEv) (f : FName) (ht : evsOf cfg s ops = pre ++ TEv.call (.unlink f) :: post) :
    f.id < s.active ∨ ∃ g, TEv.call (.create g) ∈ pre ∧ f.id < g.id := by
  obtain ⟨_, _, okT, _⟩ := trace_monitor cfg s ops h hv
  have h1 := mon_top _ _ okT pre post f ht
  rcases Mon.run_bound_witness pre (Mon.start s.active) with e | ⟨g, hg, e⟩
  · left; rw [e] at h1; simp only [Mon.start] at h1; omega
  · right; exact ⟨g, hg, by omega⟩

/-- **C14 (exclusive creation).** No file name is created twice in a trace, and no created name
    has an id that was in the directory at the start: every `create` is the creation of a new
    file. -/
theorem trace_create_once (cfg : Cfg) (s : St) (ops : List TOp) (h : IdInv s) (hv : ValidC cfg s ops)
    (pre post : List Call) (f : FName) (ht : traceOf cfg s ops = pre ++ Call.create f :: post) :
    Call.create f ∉ pre ∧ f.id ∉ AL.keys s.disk.data ∧ f.id ∉ AL.keys s.disk.hint := by
  obtain ⟨kd, id⟩ := f
  cases kd with
  | data =>
    obtain ⟨h1, h2, h3⟩ := trace_fresh_id cfg s ops h hv pre post id ht
    exact ⟨fun hc => Nat.lt_irrefl _ (h3 _ hc), fun hc => Nat.lt_irrefl _ (h1 _ hc),
      fun hc => Nat.lt_irrefl _ (h2 _ hc)⟩
  | hint =>
    obtain ⟨pre', hp, h1, h2, h3⟩ := trace_fresh_hint_id cfg s ops h hv pre post id ht
    refine ⟨?_, fun hc => Nat.lt_irrefl _ (h1 _ hc), fun hc => Nat.lt_irrefl _ (h2 _ hc)⟩
    intro hc
    rw [hp] at hc
    rcases List.mem_append.mp hc with e | e
    · exact Nat.lt_irrefl _ (h3 _ e)
    · simp at e

/-- **C14 (crashes).** At every call boundary of a run — wherever a crash may cut it — the
    directory (the data-file ids at the start, plus those created, minus those unlinked so far)
    contains a data file `top` whose id is at least every id in the directory, every id created
    so far and every id present at the start.  Whatever the crash leaves of the file contents, the
    next open therefore chooses `top + 1`, greater than every id ever used. -/
theorem trace_crash_top (cfg : Cfg) (s : St) (ops : List TOp) (h : IdInv s) (hv : ValidC cfg s ops)
    (pre post : List TEv) (ht : evsOf cfg s ops = pre ++ post) :
    ∃ top, top ∈ dirAfter (AL.keys s.disk.data) pre ∧
      (∀ x, x ∈ dirAfter (AL.keys s.disk.data) pre → x ≤ top) ∧
      (∀ g, TEv.call (.create g) ∈ pre → g.id ≤ top) ∧
      (∀ id0, id0 ∈ AL.keys s.disk.data → id0 ≤ top) ∧ (∀ id0, id0 ∈ AL.keys s.disk.hint → id0 ≤ top) := by
  obtain ⟨okF, _, okT, _⟩ := trace_monitor cfg s ops h hv
  have hd : DirOk (Mon.start s.active) (AL.keys s.disk.data) := by
    constructor
    · simp [Mon.start]
    · simp only [Mon.start, Nat.add_sub_cancel]
      cases hg : AL.get s.active s.disk.data with
      | none => have := h.act; simp [hg] at this
      | some v => exact AL.mem_keys_of_get hg
    · intro x hx; have := h.ids x hx; simp only [Mon.start]; omega
    · intro id hl; cases hl
  obtain ⟨top, t1, t2, t3, t4⟩ := mon_dir_top _ _ hd _ pre post ht okF okT
  have hb : s.active ≤ top := by simp only [Mon.start] at t4; omega
  refine ⟨top, t1, t2, t3, ?_, ?_⟩
  · intro id0 h0; have := h.ids id0 h0; omega
  · intro id0 h0; have := h.ids id0 (h.hsub id0 h0); omega

/-! ### from a freshly created store -/

theorem open_empty_calls : (openDisk {}).2 = [Call.create ⟨.data, 0⟩] := by
  simp [openDisk, rebuild, sortedIds, AL.keys]

/-- the complete trace of a store created on an empty directory, with life boundaries -/
def fullEvs (cfg : Cfg) (ops : List TOp) : List TEv := (openDisk {}).2.map TEv.call ++ evsOf cfg fresh ops

/-- **C14 from an empty directory**: ids are fresh over the whole history, including the very
    first file. -/
theorem trace_fresh_id_full (cfg : Cfg) (ops : List TOp) (hv : ValidC cfg fresh ops)
    (pre post : List TEv) (id : Nat) (ht : fullEvs cfg ops = pre ++ TEv.call (.create ⟨.data, id⟩) :: post) :
    ∀ g, TEv.call (.create g) ∈ pre → g.id < id := by
  have hc := run_coup cfg ops fresh (Mon.init 0) (coup_init fresh_idinv) hv
  have hok : (({} : Mon).run (fullEvs cfg ops)).okFresh = true := by
    simp only [fullEvs, open_empty_calls]; exact hc.mon.okF
  exact (mon_fresh_data {} _ hok pre post id ht).2

theorem trace_appends_own_full (cfg : Cfg) (ops : List TOp) (hv : ValidC cfg fresh ops)
    (pre post : List TEv) (f : FName) (p : Payload)
    (ht : fullEvs cfg ops = pre ++ TEv.call (.append f p) :: post) :
    TEv.call (.create f) ∈ lastLife pre ∧ TEv.call (.unlink f) ∉ lastLife pre := by
  apply trace_appends_own cfg fresh ops fresh_idinv hv pre post f p
  rw [← ht]; simp only [fullEvs, open_empty_calls]; rfl

/-! ### sizes -/

/-- states reachable from a freshly created store -/
def Reach (cfg : Cfg) (s : St) : Prop := ∃ ops, ValidC cfg fresh ops ∧ s = runC cfg fresh ops

/-- **C14 (size bound).** In every reachable state — i.e. at the start of every write — the byte
    counter is at most the configured maximum and is the real length of the active file, which has
    no crash tail; so a data file exceeds the maximum by at most the one entry that triggers the
    rollover. -/
theorem trace_size_bound (cfg : Cfg) (s : St) (h : Reach cfg s) :
    s.written ≤ cfg.maxFile ∧ s.written = fileSize (dataOf s.disk s.active) ∧
      (AL.get s.active s.disk.tails).getD 0 = 0 := by
  obtain ⟨ops, hv, rfl⟩ := h
  have h1 := run_sz cfg ops fresh (fresh_sz cfg)
  exact ⟨h1.le, h1.eq, (run_idinv cfg ops fresh fresh_idinv hv).no_tail⟩

/-- the same from any state satisfying the invariants (e.g. after recovery) -/
theorem trace_size_bound_from (cfg : Cfg) (s : St) (ops : List TOp) (h : IdInv s) (hs : SzInv cfg s)
    (hv : ValidC cfg s ops) :
    (runC cfg s ops).written ≤ cfg.maxFile ∧
      (runC cfg s ops).written = fileSize (dataOf (runC cfg s ops).disk (runC cfg s ops).active) ∧
      (AL.get (runC cfg s ops).active (runC cfg s ops).disk.tails).getD 0 = 0 :=
  ⟨(run_sz cfg ops s hs).le, (run_sz cfg ops s hs).eq, (run_idinv cfg ops s h hv).no_tail⟩

/-- **C14 (merge outputs).** Before every copy of a merge pass the bytes written to the current
    output are at most the configured maximum. -/
theorem trace_merge_output_bound (cfg : Cfg) (s : St) (sel : List Nat) (order ks1 ks2 : List Key) (k : Key)
    (_hk : order = ks1 ++ k :: ks2) :
    (ks1.foldl (mergeStep cfg sel) (mergeInit s)).mpos ≤ cfg.maxFile :=
  mergeFold_mpos_le cfg sel ks1 _ (Nat.zero_le _)

/-- **C14 (no file grows beyond the maximum by more than one entry).** After every history of
    put / delete / get / merge from a fresh store, every data file in the directory — active,
    rolled over, or merge output — is at most `maxFile` bytes long without its last entry. -/
theorem trace_size_all (cfg : Cfg) (ops : List Op) (hv : ValidFrom cfg fresh ops)
    (id : Nat) (rs : List Rec) (hf : AL.get id (run cfg fresh ops).1.disk.data = some rs) :
    fileSize rs.dropLast ≤ cfg.maxFile :=
  run_allSz cfg ops fresh fresh_inv (fresh_sz cfg) (fresh_allSz cfg) hv id rs hf

/-- the same from any state that satisfies the invariants, e.g. a recovered one -/
theorem trace_size_all_from (cfg : Cfg) (s : St) (ops : List Op) (h : Inv s) (hs : SzInv cfg s)
    (ha : AllSz cfg s.disk.data) (hv : ValidFrom cfg s ops) : AllSz cfg (run cfg s ops).1.disk.data :=
  run_allSz cfg ops s h hs ha hv

/- With `reopen` in the history the statement of `trace_size_all` needs `Inv` after the reopen (the
   startup scan rebuilds a valid index: the recovery theory, not part of this task): a merge copies
   `loc.len` bytes per entry and the bound on its outputs uses that this is the record's length.
   `stepC_allSz` is the per-operation form that only asks for `Inv` at the start of each merge;
   `reopen` itself keeps `AllSz` and `SzInv` unconditionally (`reopen_allSz`, `reopen_sz`). -/

/-! ### across failed writes (the fault model of C20) -/

/-- **C14 across faults.** The same holds when any of the writes of a run fails with any of the
    faults of `Store/FaultModel.lean` (the writer then continues in a fresh file `active + 1`, or
    in the same file): ids are fresh, hint files follow their data files, every append goes to a
    file created in the same life and not removed, the newest file is never removed. -/
theorem trace_faults (cfg : Cfg) (s : St) (ops : List XOp) (h : IdInv s) (hv : ValidX cfg s ops) :
    (∀ pre post id, TEv.call (.create ⟨.data, s.active⟩) :: evsOfX cfg s ops = pre ++ TEv.call (.create ⟨.data, id⟩) :: post →
      ∀ g, TEv.call (.create g) ∈ pre → g.id < id) ∧
    (∀ pre post id, TEv.call (.create ⟨.data, s.active⟩) :: evsOfX cfg s ops = pre ++ TEv.call (.create ⟨.hint, id⟩) :: post →
      ∃ pre', pre = pre' ++ [TEv.call (.create ⟨.data, id⟩)]) ∧
    (∀ pre post f p, TEv.call (.create ⟨.data, s.active⟩) :: evsOfX cfg s ops = pre ++ TEv.call (.append f p) :: post →
      TEv.call (.create f) ∈ lastLife pre ∧ TEv.call (.unlink f) ∉ lastLife pre) ∧
    (∀ pre post f, TEv.call (.create ⟨.data, s.active⟩) :: evsOfX cfg s ops = pre ++ TEv.call (.unlink f) :: post →
      ∃ g, TEv.call (.create g) ∈ pre ∧ f.id < g.id) ∧
    IdInv (runX cfg s ops) := by
  have hc := runX_coup cfg ops s (Mon.init s.active) (coup_init h) hv
  have hF : (({} : Mon).run (TEv.call (.create ⟨.data, s.active⟩) :: evsOfX cfg s ops)).okFresh = true := hc.mon.okF
  have hO : (({} : Mon).run (TEv.call (.create ⟨.data, s.active⟩) :: evsOfX cfg s ops)).okOwn = true := hc.mon.okO
  have hT : (({} : Mon).run (TEv.call (.create ⟨.data, s.active⟩) :: evsOfX cfg s ops)).okTop = true := hc.mon.okT
  refine ⟨?_, ?_, ?_, ?_, hc.inv⟩
  · intro pre post id ht
    exact (mon_fresh_data {} _ hF pre post id ht).2
  · intro pre post id ht
    rcases mon_fresh_hint {} _ hF pre post id ht with ⟨_, hl⟩ | hp
    · cases hl
    · exact hp
  · intro pre post f p ht
    exact mon_own {} rfl rfl _ hO pre post f p ht
  · intro pre post f ht
    have h1 := mon_top {} _ hT pre post f ht
    rcases Mon.run_bound_witness pre ({} : Mon) with e | ⟨g, hg, e⟩
    · rw [e] at h1; simp at h1
    · exact ⟨g, hg, by omega⟩

end Store.Tr