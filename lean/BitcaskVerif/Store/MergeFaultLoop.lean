/-
  Fault-aware merge pass (C20), part 2: the three phases of `mergeF` (copy loop, fsyncs, removal
  of the inputs) keep the invariants, and as long as no call has failed they are the fault-free
  phases.
-/
import BitcaskVerif.Store.MergeFaultInv

namespace Store

variable {hintFirst : Bool}

/-! ### the copy loop -/

/-- invariant of the fault-aware loop: after a failure `FInv`; before, the loop invariant of the
    fault-free pass, and all calls issued so far have indices below `j` -/
def FMOk (A : Nat) (abs0 : Map) (j : Nat) (x : FM) : Prop :=
  (x.failed = true → FInv A abs0 x.m.mid x.m.s) ∧
  (x.failed = false → MInv A abs0 x.m ∧ x.m.calls.length ≤ j)

theorem mergeStepF_of_failed (cfg : Cfg) (sel : List Nat) (j torn : Nat) {x : FM} (h : x.failed = true) (k : Key) :
    mergeStepF hintFirst cfg sel j torn x k = x := by
  unfold mergeStepF; simp only [h, ↓reduceIte]

theorem foldF_of_failed (cfg : Cfg) (sel : List Nat) (j torn : Nat) (order : List Key) :
    ∀ {x : FM}, x.failed = true → order.foldl (mergeStepF hintFirst cfg sel j torn) x = x := by
  induction order with
  | nil => intro x _; rfl
  | cons k ks ih =>
    intro x h
    simp only [List.foldl_cons]
    rw [mergeStepF_of_failed cfg sel j torn h k]
    exact ih h

theorem mergeStepF_ok (cfg : Cfg) (sel : List Nat) (A : Nat) (abs0 : Map) (hselA : ∀ id, id ∈ sel → id ≤ A)
    (j torn : Nat) (x : FM) (k : Key) (h : FMOk A abs0 j x) : FMOk A abs0 j (mergeStepF hintFirst cfg sel j torn x k) := by
  cases hf : x.failed with
  | true => rw [mergeStepF_of_failed cfg sel j torn hf k]; exact h
  | false =>
    obtain ⟨hm, hlen⟩ := h.2 hf
    unfold mergeStepF
    simp only [hf, Bool.false_eq_true, ↓reduceIte]
    by_cases hle : (mergeStep cfg sel x.m k).calls.length ≤ j
    · simp only [hle, ↓reduceIte]
      exact ⟨(fun e => by cases e), fun _ => ⟨(mergeStep_spec cfg sel A abs0 hselA x.m k hm).1, hle⟩⟩
    · simp only [hle, ↓reduceIte]
      cases hk : AL.get k x.m.s.keydir with
      | none => exact ⟨fun _ => hm.finv, fun e => by cases e⟩
      | some loc =>
        simp only
        cases hr : recAt (dataOf x.m.s.disk loc.fid) loc.pos with
        | none => exact ⟨fun _ => hm.finv, fun e => by cases e⟩
        | some r =>
          simp only
          by_cases hsel : loc.fid ∈ sel
          · exact ⟨fun _ => failMove_finv sel A abs0 hselA x.m k loc r hm hk hsel hr _ _, fun e => by cases e⟩
          · exfalso
            rw [mergeStep_skip_unsel cfg sel x.m k loc hk hsel] at hle
            exact hle hlen

theorem foldF_ok (cfg : Cfg) (sel : List Nat) (A : Nat) (abs0 : Map) (hselA : ∀ id, id ∈ sel → id ≤ A)
    (j torn : Nat) (order : List Key) : ∀ (x : FM), FMOk A abs0 j x →
      FMOk A abs0 j (order.foldl (mergeStepF hintFirst cfg sel j torn) x) := by
  induction order with
  | nil => intro x h; exact h
  | cons k ks ih => intro x h; exact ih _ (mergeStepF_ok cfg sel A abs0 hselA j torn x k h)

/-- an iteration that does not fail is the fault-free iteration -/
theorem mergeStepF_not_failed {cfg : Cfg} {sel : List Nat} {j torn : Nat} {x : FM} {k : Key}
    (h : (mergeStepF hintFirst cfg sel j torn x k).failed = false) :
    x.failed = false ∧ (mergeStepF hintFirst cfg sel j torn x k).m = mergeStep cfg sel x.m k ∧
      (mergeStep cfg sel x.m k).calls.length ≤ j := by
  cases hf : x.failed with
  | true => rw [mergeStepF_of_failed cfg sel j torn hf k, hf] at h; cases h
  | false =>
    unfold mergeStepF at h ⊢
    simp only [hf, Bool.false_eq_true, ↓reduceIte] at h ⊢
    by_cases hle : (mergeStep cfg sel x.m k).calls.length ≤ j
    · simp only [hle, ↓reduceIte, and_self]
    · simp only [hle, ↓reduceIte] at h
      split at h
      · cases h
      · split at h <;> cases h

theorem mergeStepF_no_fault {cfg : Cfg} {sel : List Nat} {j torn : Nat} {x : FM} {k : Key}
    (hf : x.failed = false) (hle : (mergeStep cfg sel x.m k).calls.length ≤ j) :
    mergeStepF hintFirst cfg sel j torn x k = { m := mergeStep cfg sel x.m k, failed := false } := by
  unfold mergeStepF
  simp only [hf, Bool.false_eq_true, ↓reduceIte, hle]

/-- a loop that does not fail is the fault-free loop -/
theorem foldF_not_failed {cfg : Cfg} {sel : List Nat} {j torn : Nat} (order : List Key) :
    ∀ {x : FM}, (order.foldl (mergeStepF hintFirst cfg sel j torn) x).failed = false →
      x.failed = false ∧
      (order.foldl (mergeStepF hintFirst cfg sel j torn) x).m = order.foldl (mergeStep cfg sel) x.m := by
  induction order with
  | nil => intro x h; exact ⟨h, rfl⟩
  | cons k ks ih =>
    intro x h
    simp only [List.foldl_cons] at h ⊢
    obtain ⟨h1, h2⟩ := ih h
    obtain ⟨h3, h4, _⟩ := mergeStepF_not_failed h1
    exact ⟨h3, by rw [h2, h4]⟩

/-! ### calls only grow -/

theorem mergeStep_calls_le (cfg : Cfg) (sel : List Nat) (m : MergeSt) (k : Key) :
    m.calls.length ≤ (mergeStep cfg sel m k).calls.length := by
  cases hk : AL.get k m.s.keydir with
  | none => rw [mergeStep_skip_none cfg sel m k hk]; exact Nat.le_refl _
  | some loc =>
    by_cases hsel : loc.fid ∈ sel
    · cases hr : recAt (dataOf m.s.disk loc.fid) loc.pos with
      | none =>
        have : mergeStep cfg sel m k = { m with s := { m.s with bad := true } } := by
          unfold mergeStep; simp only [hk, hsel, ↓reduceIte, hr]
        rw [this]; exact Nat.le_refl _
      | some r =>
        rw [mergeStep_move cfg sel m k loc r hk hsel hr]
        split <;> simp only [moveCalls, List.length_append] <;> omega
    · rw [mergeStep_skip_unsel cfg sel m k loc hk hsel]; exact Nat.le_refl _

theorem mergeFold_calls_le (cfg : Cfg) (sel : List Nat) (order : List Key) : ∀ (m : MergeSt),
    m.calls.length ≤ (order.foldl (mergeStep cfg sel) m).calls.length := by
  induction order with
  | nil => intro m; exact Nat.le_refl _
  | cons k ks ih =>
    intro m
    exact Nat.le_trans (mergeStep_calls_le cfg sel m k) (ih _)

/-- if `j` is beyond the calls of the fault-free loop, the loop does not fail -/
theorem foldF_no_fault {cfg : Cfg} {sel : List Nat} {j torn : Nat} (order : List Key) :
    ∀ {x : FM}, x.failed = false → (order.foldl (mergeStep cfg sel) x.m).calls.length ≤ j →
      order.foldl (mergeStepF hintFirst cfg sel j torn) x = { m := order.foldl (mergeStep cfg sel) x.m, failed := false } := by
  induction order with
  | nil => intro x hf _; cases x; simp only at hf; subst hf; rfl
  | cons k ks ih =>
    intro x hf hle
    simp only [List.foldl_cons] at hle ⊢
    have h1 : (mergeStep cfg sel x.m k).calls.length ≤ j :=
      Nat.le_trans (mergeFold_calls_le cfg sel ks _) hle
    rw [mergeStepF_no_fault hf h1]
    exact ih rfl hle

/-! ### the fsyncs after the loop -/

theorem syncF_ok {A : Nat} {abs0 : Map} {j : Nat} {x : FM} (h : FMOk A abs0 j x) :
    (syncF j x).m.s = x.m.s ∧ (syncF j x).m.mid = x.m.mid ∧
    ((syncF j x).failed = true → FInv A abs0 x.m.mid x.m.s) ∧
    ((syncF j x).failed = false → x.failed = false ∧ MInv A abs0 x.m ∧
      (syncF j x).m.calls = x.m.calls ++ [Call.fsync ⟨.data, x.m.mid⟩, Call.fsync ⟨.hint, x.m.mid⟩] ∧
      (syncF j x).m.calls.length ≤ j) := by
  cases hf : x.failed with
  | true =>
    have e : syncF j x = x := by unfold syncF; simp only [hf, ↓reduceIte]
    rw [e]
    exact ⟨rfl, rfl, fun _ => h.1 hf, fun e => by rw [hf] at e; cases e⟩
  | false =>
    obtain ⟨hm, hlen⟩ := h.2 hf
    by_cases h1 : j = x.m.calls.length
    · have e : syncF j x = { m := x.m, failed := true } := by
        unfold syncF; simp only [hf, Bool.false_eq_true, ↓reduceIte, h1]
      rw [e]
      exact ⟨rfl, rfl, fun _ => hm.finv, fun e => by cases e⟩
    · by_cases h2 : j = x.m.calls.length + 1
      · have e : syncF j x = { m := { x.m with calls := x.m.calls ++ [Call.fsync ⟨.data, x.m.mid⟩] }, failed := true } := by
          unfold syncF; simp only [hf, Bool.false_eq_true, ↓reduceIte, h1]
          rw [if_pos h2]
        rw [e]
        exact ⟨rfl, rfl, fun _ => hm.finv, fun e => by cases e⟩
      · have e : syncF j x = { m := { x.m with calls := x.m.calls ++
            [Call.fsync ⟨.data, x.m.mid⟩, Call.fsync ⟨.hint, x.m.mid⟩] }, failed := false } := by
          unfold syncF; simp only [hf, Bool.false_eq_true, ↓reduceIte, h1, h2]
        rw [e]
        refine ⟨rfl, rfl, (fun e => by cases e), fun _ => ⟨rfl, hm, rfl, ?_⟩⟩
        simp only [List.length_append, List.length_cons, List.length_nil]
        omega

/-! ### the removal of the inputs -/

theorem unlinkOneF_of_failed (j : Nat) {x : (St × List Call) × Bool} (h : x.2 = true) (id : Nat) :
    unlinkOneF j x id = x := by
  unfold unlinkOneF; simp only [h, ↓reduceIte]

theorem unlinkFoldF_of_failed (j : Nat) (l : List Nat) : ∀ {x : (St × List Call) × Bool}, x.2 = true →
    l.foldl (unlinkOneF j) x = x := by
  induction l with
  | nil => intro x _; rfl
  | cons id ids ih =>
    intro x h
    simp only [List.foldl_cons]
    rw [unlinkOneF_of_failed j h id]
    exact ih h

/-- removing only the hint file of an input keeps the removal invariant -/
theorem UInv.dropHint {sel : List Nat} {abs0 : Map} {mid : Nat} {s : St} (h : UInv sel abs0 mid s) (id : Nat) :
    UInv sel abs0 mid { s with disk := { s.disk with hint := AL.del id s.disk.hint } } := by
  constructor
  · intro k loc hk
    exact locOk_congr_data rfl (h.locs k loc hk)
  · exact h.unsel
  · exact h.ids
  · intro i hi
    exact h.hids i (mem_keys_del hi).2
  · rw [← h.abs]; exact abs_congr_data rfl rfl

/-- whether or not one of its calls fails, the removal of one input keeps the removal invariant;
    while nothing has failed all calls issued have indices below `j` -/
theorem unlinkOneF_spec (sel : List Nat) (abs0 : Map) (mid j : Nat) (x : (St × List Call) × Bool) (id : Nat)
    (hid : id ∈ sel) (h : UInv sel abs0 mid x.1.1) :
    UInv sel abs0 mid (unlinkOneF j x id).1.1 ∧
    ((unlinkOneF j x id).2 = false → x.2 = false ∧ (unlinkOneF j x id).1 = unlinkOne x.1 id ∧
      (unlinkOne x.1 id).2.length ≤ j) := by
  cases hf : x.2 with
  | true =>
    rw [unlinkOneF_of_failed j hf id]
    exact ⟨h, fun e => by rw [hf] at e; cases e⟩
  | false =>
    by_cases hle : (unlinkOne x.1 id).2.length ≤ j
    · have e : unlinkOneF j x id = (unlinkOne x.1 id, false) := by
        unfold unlinkOneF; simp only [hf, Bool.false_eq_true, ↓reduceIte, hle]
      rw [e]
      exact ⟨unlinkOne_spec sel abs0 mid x.1 id hid h, fun _ => ⟨rfl, rfl, hle⟩⟩
    · unfold unlinkOneF
      simp only [hf, Bool.false_eq_true, ↓reduceIte, hle]
      split
      · exact ⟨h.dropHint id, fun e => by cases e⟩
      · exact ⟨h, fun e => by cases e⟩

theorem unlinkFoldF_spec (sel : List Nat) (abs0 : Map) (mid j : Nat) (l : List Nat) (hl : ∀ id, id ∈ l → id ∈ sel) :
    ∀ (x : (St × List Call) × Bool), UInv sel abs0 mid x.1.1 →
      UInv sel abs0 mid (l.foldl (unlinkOneF j) x).1.1 ∧
      ((l.foldl (unlinkOneF j) x).2 = false → x.2 = false ∧
        (l.foldl (unlinkOneF j) x).1 = l.foldl unlinkOne x.1 ∧
        (x.1.2.length ≤ j → (l.foldl unlinkOne x.1).2.length ≤ j)) := by
  induction l with
  | nil => intro x h; exact ⟨h, fun e => ⟨e, rfl, fun h => h⟩⟩
  | cons id ids ih =>
    intro x h
    simp only [List.foldl_cons]
    obtain ⟨s1, s2⟩ := unlinkOneF_spec sel abs0 mid j x id (hl id List.mem_cons_self) h
    obtain ⟨i1, i2⟩ := ih (fun i hi => hl i (List.mem_cons_of_mem _ hi)) _ s1
    refine ⟨i1, fun e => ?_⟩
    obtain ⟨j1, j2, j3⟩ := i2 e
    obtain ⟨k1, k2, k3⟩ := s2 j1
    refine ⟨k1, by rw [j2, k2], fun _ => ?_⟩
    rw [k2] at j3
    exact j3 k3

theorem unlinkOne_calls_le (st : St × List Call) (id : Nat) : st.2.length ≤ (unlinkOne st id).2.length := by
  obtain ⟨s, c⟩ := st
  simp only [unlinkOne, List.length_append]
  omega

theorem unlinkFold_calls_le (l : List Nat) : ∀ (st : St × List Call), st.2.length ≤ (l.foldl unlinkOne st).2.length := by
  induction l with
  | nil => intro st; exact Nat.le_refl _
  | cons id ids ih => intro st; exact Nat.le_trans (unlinkOne_calls_le st id) (ih _)

/-- if `j` is beyond the calls of the fault-free removal, the removal does not fail -/
theorem unlinkFoldF_no_fault {j : Nat} (l : List Nat) : ∀ {x : (St × List Call) × Bool}, x.2 = false →
    (l.foldl unlinkOne x.1).2.length ≤ j → l.foldl (unlinkOneF j) x = (l.foldl unlinkOne x.1, false) := by
  induction l with
  | nil => intro x hf _; obtain ⟨a, b⟩ := x; simp only at hf; subst hf; rfl
  | cons id ids ih =>
    intro x hf hle
    simp only [List.foldl_cons] at hle ⊢
    have h1 : (unlinkOne x.1 id).2.length ≤ j := Nat.le_trans (unlinkFold_calls_le ids _) hle
    have : unlinkOneF j x id = (unlinkOne x.1 id, false) := by
      unfold unlinkOneF; simp only [hf, Bool.false_eq_true, ↓reduceIte, h1]
    rw [this]
    exact ih rfl hle

end Store
