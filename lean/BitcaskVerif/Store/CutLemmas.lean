/-
  Crash cuts at record level (C03).

  `applyCalls d cs` is the directory after the file-system calls `cs` have been applied to `d`;
  `Cut cs c` says that `c` is what a process killed while issuing `cs` has really done: a prefix
  of `cs`, the last append of which may have been torn (replaced by `Payload.raw bs` with fewer
  bytes than the entry).  The frame lemmas show that the calls an operation returns are exactly
  its effect on the directory, so cuts of the call list are cuts of the real effect sequence.

  This file: definitions, the structure of cuts, the frame lemmas for `write` / `put` /
  `delete` / `openDisk` / `mergeWith`.
-/
import BitcaskVerif.Store.Reach
import BitcaskVerif.Store.TraceMerge

namespace Store

/-! ### the effect of calls on a directory -/

/-- number of bytes of a payload -/
def payLen : Payload → Nat
  | .ofRec r => r.len
  | .ofHint h => h.size
  | .raw bs => bs.length

/-- one call applied to the directory.  A torn write (`Payload.raw`) at the end of a data file
    only lengthens the invisible tail of that file; at the end of a hint file it is not recorded
    at all (the hint scanner stops silently at a truncated entry, `scanHintsBytes_truncated`, and
    nothing else looks at the length of a hint file). -/
def applyCall (d : Disk) : Call → Disk
  | .create f =>
    match f.kind with
    | .data => { d with data := AL.set f.id [] d.data }
    | .hint => { d with hint := AL.set f.id [] d.hint }
  | .append f p =>
    match f.kind, p with
    | .data, .ofRec r => { d with data := AL.set f.id (dataOf d f.id ++ [r]) d.data }
    | .hint, .ofHint h => { d with hint := AL.set f.id ((AL.get f.id d.hint).getD [] ++ [h]) d.hint }
    | .data, .raw bs => { d with tails := AL.set f.id ((AL.get f.id d.tails).getD 0 + bs.length) d.tails }
    | _, _ => d
  | .fsync _ => d
  | .unlink f =>
    match f.kind with
    | .data => { d with data := AL.del f.id d.data }
    | .hint => { d with hint := AL.del f.id d.hint }

def applyCalls (d : Disk) (cs : List Call) : Disk := cs.foldl applyCall d

@[simp] theorem applyCalls_nil (d : Disk) : applyCalls d [] = d := rfl
@[simp] theorem applyCalls_cons (d : Disk) (c : Call) (cs : List Call) :
    applyCalls d (c :: cs) = applyCalls (applyCall d c) cs := rfl
theorem applyCalls_append (d : Disk) (a b : List Call) :
    applyCalls d (a ++ b) = applyCalls (applyCalls d a) b := by
  simp [applyCalls, List.foldl_append]

@[simp] theorem applyCall_createData (d : Disk) (id : Nat) :
    applyCall d (.create ⟨.data, id⟩) = { d with data := AL.set id [] d.data } := rfl
@[simp] theorem applyCall_createHint (d : Disk) (id : Nat) :
    applyCall d (.create ⟨.hint, id⟩) = { d with hint := AL.set id [] d.hint } := rfl
@[simp] theorem applyCall_appendRec (d : Disk) (id : Nat) (r : Rec) :
    applyCall d (.append ⟨.data, id⟩ (.ofRec r)) =
      { d with data := AL.set id (dataOf d id ++ [r]) d.data } := rfl
@[simp] theorem applyCall_appendHint (d : Disk) (id : Nat) (h : Hint) :
    applyCall d (.append ⟨.hint, id⟩ (.ofHint h)) =
      { d with hint := AL.set id ((AL.get id d.hint).getD [] ++ [h]) d.hint } := rfl
@[simp] theorem applyCall_rawData (d : Disk) (id : Nat) (bs : List UInt8) :
    applyCall d (.append ⟨.data, id⟩ (.raw bs)) =
      { d with tails := AL.set id ((AL.get id d.tails).getD 0 + bs.length) d.tails } := rfl
@[simp] theorem applyCall_rawHint (d : Disk) (id : Nat) (bs : List UInt8) :
    applyCall d (.append ⟨.hint, id⟩ (.raw bs)) = d := rfl
@[simp] theorem applyCall_fsync (d : Disk) (f : FName) : applyCall d (.fsync f) = d := rfl
@[simp] theorem applyCall_unlinkData (d : Disk) (id : Nat) :
    applyCall d (.unlink ⟨.data, id⟩) = { d with data := AL.del id d.data } := rfl
@[simp] theorem applyCall_unlinkHint (d : Disk) (id : Nat) :
    applyCall d (.unlink ⟨.hint, id⟩) = { d with hint := AL.del id d.hint } := rfl

/-! ### cuts -/

/-- `Cut cs c`: a process killed while issuing the calls `cs` has performed `c` — a prefix of
    `cs`, or a prefix followed by a torn version of the next call if that is an append: fewer
    bytes than the entry has (possibly none) reached the file. -/
def Cut (cs c : List Call) : Prop :=
  (∃ post, cs = c ++ post) ∨
  (∃ pre f p post bs, cs = pre ++ Call.append f p :: post ∧ bs.length < payLen p ∧
    c = pre ++ [Call.append f (.raw bs)])

theorem Cut.boundary {cs : List Call} (pre post : List Call) (e : cs = pre ++ post) : Cut cs pre :=
  .inl ⟨post, e⟩

theorem Cut.torn {cs : List Call} (pre : List Call) (f : FName) (p : Payload) (post : List Call)
    (bs : List UInt8) (e : cs = pre ++ Call.append f p :: post) (hb : bs.length < payLen p) :
    Cut cs (pre ++ [Call.append f (.raw bs)]) :=
  .inr ⟨pre, f, p, post, bs, e, hb, rfl⟩

theorem Cut.nil (cs : List Call) : Cut cs [] := .boundary [] cs rfl
theorem Cut.all (cs : List Call) : Cut cs cs := .boundary cs [] (by simp)

theorem cut_nil {c : List Call} (h : Cut [] c) : c = [] := by
  rcases h with ⟨post, e⟩ | ⟨pre, f, p, post, bs, e, _, _⟩
  · have := congrArg List.length e
    simp at this
    exact List.eq_nil_of_length_eq_zero (by omega)
  · have := congrArg List.length e
    simp at this

/-- a torn version of the call `x`, if it is an append -/
def TornOf (x : Call) (y : Call) : Prop :=
  ∃ f p bs, x = Call.append f p ∧ bs.length < payLen p ∧ y = Call.append f (.raw bs)

theorem cut_cons {x : Call} {cs c : List Call} (h : Cut (x :: cs) c) :
    c = [] ∨ (∃ y, TornOf x y ∧ c = [y]) ∨ ∃ c', c = x :: c' ∧ Cut cs c' := by
  rcases h with ⟨post, e⟩ | ⟨pre, f, p, post, bs, e, hb, rfl⟩
  · cases c with
    | nil => exact .inl rfl
    | cons y pre =>
      simp only [List.cons_append, List.cons.injEq] at e
      obtain ⟨rfl, e⟩ := e
      exact .inr (.inr ⟨pre, rfl, .boundary pre post e⟩)
  · cases pre with
    | nil =>
      simp only [List.nil_append, List.cons.injEq] at e
      exact .inr (.inl ⟨_, ⟨f, p, bs, e.1, hb, rfl⟩, rfl⟩)
    | cons y pre =>
      simp only [List.cons_append, List.cons.injEq] at e
      obtain ⟨rfl, e⟩ := e
      exact .inr (.inr ⟨pre ++ [Call.append f (.raw bs)], rfl, .torn pre f p post bs e hb⟩)

theorem Cut.cons (x : Call) {cs c : List Call} (h : Cut cs c) : Cut (x :: cs) (x :: c) := by
  rcases h with ⟨post, e⟩ | ⟨pre, f, p, post, bs, e, hb, rfl⟩
  · exact .boundary (x :: c) post (by rw [e]; rfl)
  · exact .torn (x :: pre) f p post bs (by rw [e]; rfl) hb

/-- a cut of `a ++ b` is a cut of `a`, or all of `a` followed by a cut of `b` -/
theorem cut_append {a b c : List Call} (h : Cut (a ++ b) c) :
    Cut a c ∨ ∃ c', c = a ++ c' ∧ Cut b c' := by
  induction a generalizing c with
  | nil => exact .inr ⟨c, rfl, h⟩
  | cons x a ih =>
    rcases cut_cons h with rfl | ⟨y, ⟨f, p, bs, hx, hb, rfl⟩, rfl⟩ | ⟨c', rfl, hc'⟩
    · exact .inl (Cut.nil _)
    · exact .inl (.torn [] f p a bs (by rw [hx]; rfl) hb)
    · rcases ih hc' with h1 | ⟨c'', rfl, h2⟩
      · exact .inl (h1.cons x)
      · exact .inr ⟨c'', rfl, h2⟩

theorem Cut.append_left {a c : List Call} (h : Cut a c) (b : List Call) : Cut (a ++ b) c := by
  rcases h with ⟨post, e⟩ | ⟨pre, f, p, post, bs, e, hb, rfl⟩
  · exact .boundary c (post ++ b) (by rw [e]; simp)
  · exact .torn pre f p (post ++ b) bs (by rw [e]; simp) hb

theorem Cut.append_right (a : List Call) {b c : List Call} (h : Cut b c) : Cut (a ++ b) (a ++ c) := by
  induction a with
  | nil => exact h
  | cons x a ih => exact ih.cons x

/-- a call that is not an append cannot be torn -/
theorem cut_single_noappend {x : Call} (hx : ∀ f p, x ≠ Call.append f p) {c : List Call}
    (h : Cut [x] c) : c = [] ∨ c = [x] := by
  rcases cut_cons h with rfl | ⟨y, ⟨f, p, bs, e, _, _⟩, _⟩ | ⟨c', rfl, hc'⟩
  · exact .inl rfl
  · exact absurd e (hx f p)
  · rw [cut_nil hc']; exact .inr rfl

/-- cuts of a list without appends are its prefixes -/
theorem cut_noappend {cs : List Call} (hx : ∀ x ∈ cs, ∀ f p, x ≠ Call.append f p) {c : List Call}
    (h : Cut cs c) : ∃ post, cs = c ++ post := by
  rcases h with ⟨post, e⟩ | ⟨pre, f, p, post, bs, e, _, _⟩
  · exact ⟨post, e⟩
  · exact absurd rfl (hx (Call.append f p) (by rw [e]; simp) f p)

/-! ### frame lemmas: the calls of an operation are its effect on the directory -/

theorem write_frame (cfg : Cfg) (s : St) (r : Rec) :
    applyCalls s.disk (write cfg s r).2.2 = (write cfg s r).1.disk := by
  by_cases hroll : s.written + r.len > cfg.maxFile
  · rw [write_roll cfg s r hroll]
    cases cfg.syncAlways <;> rfl
  · rw [write_noroll cfg s r hroll]
    cases cfg.syncAlways <;> rfl

theorem put_frame (cfg : Cfg) (s : St) (ts : Int) (k : Key) (v : Val) :
    applyCalls s.disk (put cfg s ts k v).2 = (put cfg s ts k v).1.disk := by
  rw [put_disk]; exact write_frame cfg s _

theorem delete_frame (cfg : Cfg) (s : St) (ts : Int) (k : Key) :
    applyCalls s.disk (delete cfg s ts k).2.2 = (delete cfg s ts k).1.disk := by
  rw [delete_disk]; exact write_frame cfg s _

theorem openDisk_frame (d : Disk) : applyCalls d (openDisk d).2 = (openDisk d).1.disk := rfl

theorem reopen_frame (s : St) : applyCalls s.disk (reopen s).2 = (reopen s).1.disk := rfl

/-! ### the merge pass -/

theorem del_of_get_none {κ β : Type} [DecidableEq κ] {k : κ} {l : List (κ × β)} (h : AL.get k l = none) :
    AL.del k l = l := by
  induction l with
  | nil => rfl
  | cons x xs ih =>
    obtain ⟨k', v'⟩ := x
    by_cases e : k' = k
    · simp [AL.get, e] at h
    · simp only [AL.get, e, ↓reduceIte] at h
      simp only [AL.del, e, ↓reduceIte, ih h]

theorem move_frame (m : MergeSt) (k : Key) (loc : Loc) (r : Rec) :
    applyCalls m.s.disk [Call.append ⟨.data, m.mid⟩ (.ofRec r),
      Call.append ⟨.hint, m.mid⟩ (.ofHint { ts := loc.ts, len := loc.len, pos := m.mpos, key := k })] =
      moveDisk m k loc r := rfl

theorem roll_frame (d : Disk) (mid' : Nat) :
    applyCalls d [Call.create ⟨.data, mid'⟩, Call.create ⟨.hint, mid'⟩] = rollDisk d mid' := rfl

open Tr in
theorem mergeStep_frame (cfg : Cfg) (sel : List Nat) (d0 : Disk) (m : MergeSt) (k : Key)
    (h : applyCalls d0 m.calls = m.s.disk) :
    applyCalls d0 (mergeStep cfg sel m k).calls = (mergeStep cfg sel m k).s.disk := by
  apply mergeStep_ind (fun m' => applyCalls d0 m'.calls = m'.s.disk) cfg sel m k
  · exact h
  · exact h
  · intro loc r _ _ _
    simp only [moveNoRoll, moveCalls, moveSt]
    rw [applyCalls_append, h]; rfl
  · intro loc r _ _ _
    simp only [moveRoll, moveCalls, moveSt]
    rw [applyCalls_append, applyCalls_append, h]; rfl

theorem mergeFold_frame (cfg : Cfg) (sel : List Nat) (d0 : Disk) (order : List Key) :
    ∀ (m : MergeSt), applyCalls d0 m.calls = m.s.disk →
      applyCalls d0 (order.foldl (mergeStep cfg sel) m).calls = (order.foldl (mergeStep cfg sel) m).s.disk := by
  induction order with
  | nil => intro m h; exact h
  | cons k ks ih => intro m h; exact ih _ (mergeStep_frame cfg sel d0 m k h)

theorem mergeStart_frame (s : St) : applyCalls s.disk (mergeStart s).calls = (mergeStart s).s.disk := rfl

theorem mergeLoop_frame (cfg : Cfg) (s : St) (sel : List Nat) (order : List Key) :
    applyCalls s.disk (mergeLoop cfg s sel order).calls = (mergeLoop cfg s sel order).s.disk :=
  mergeFold_frame cfg sel s.disk order _ (mergeStart_frame s)

/-- the calls one `unlinkOne` adds -/
def unlinkCalls (d : Disk) (id : Nat) : List Call :=
  (if (AL.get id d.hint).isSome then [Call.unlink ⟨.hint, id⟩] else []) ++
  (if (AL.get id d.data).isSome then [Call.unlink ⟨.data, id⟩] else [])

theorem unlinkOne_calls (st : St × List Call) (id : Nat) :
    (unlinkOne st id).2 = st.2 ++ unlinkCalls st.1.disk id := by
  obtain ⟨s, c⟩ := st
  simp [unlinkOne, unlinkCalls]

theorem unlinkCalls_frame (d : Disk) (id : Nat) :
    applyCalls d (unlinkCalls d id) =
      { data := AL.del id d.data, hint := AL.del id d.hint, tails := d.tails } := by
  unfold unlinkCalls
  cases hh : AL.get id d.hint with
  | none =>
    cases hd : AL.get id d.data with
    | none => simp [del_of_get_none hh, del_of_get_none hd]
    | some v => simp [del_of_get_none hh]
  | some w =>
    cases hd : AL.get id d.data with
    | none => simp [del_of_get_none hd]
    | some v => simp

theorem unlinkOne_frame (d0 : Disk) (st : St × List Call) (id : Nat) (h : applyCalls d0 st.2 = st.1.disk) :
    applyCalls d0 (unlinkOne st id).2 = (unlinkOne st id).1.disk := by
  rw [unlinkOne_calls, applyCalls_append, h, unlinkCalls_frame, unlinkOne_disk]

theorem unlinkFold_frame (d0 : Disk) (l : List Nat) : ∀ (st : St × List Call),
    applyCalls d0 st.2 = st.1.disk → applyCalls d0 (l.foldl unlinkOne st).2 = (l.foldl unlinkOne st).1.disk := by
  induction l with
  | nil => intro st h; exact h
  | cons id ids ih => intro st h; exact ih _ (unlinkOne_frame d0 st id h)

/-- the calls of a merge pass, phase by phase -/
theorem mergeWith_calls (cfg : Cfg) (s : St) (sel : List Nat) (order : List Key) :
    (mergeWith cfg s sel order).2 =
      (sel.foldl unlinkOne ((mergeLoop cfg s sel order).s,
        (mergeLoop cfg s sel order).calls ++
          [Call.fsync ⟨.data, (mergeLoop cfg s sel order).mid⟩,
           Call.fsync ⟨.hint, (mergeLoop cfg s sel order).mid⟩])).2 ++
      [Call.create ⟨.data, (mergeLoop cfg s sel order).mid + 1⟩] := rfl

/-- **frame lemma for the merge pass** -/
theorem mergeWith_frame (cfg : Cfg) (s : St) (sel : List Nat) (order : List Key) :
    applyCalls s.disk (mergeWith cfg s sel order).2 = (mergeWith cfg s sel order).1.disk := by
  rw [mergeWith_calls, mergeWith_fst, applyCalls_append, unlinkFold_frame]
  · rfl
  · simp only [applyCalls_append, mergeLoop_frame]; rfl

end Store
