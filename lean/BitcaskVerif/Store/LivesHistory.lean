/-
  Lives after a crash inside a merge, part 10: histories.

  `ReachL`: the states reachable from a fresh store by sets, deletes, reads, reopens, hazard-free
  merge passes, and kills at ANY cut of ANY of these operations — merge passes included —
  followed by recovery.  Every such state satisfies the lives invariant `LJ`, so the crash
  theorems compose over any number of lives.
-/
import BitcaskVerif.Store.LivesMerge

namespace Store

open Tr

/-- one operation (with its side conditions) keeps the lives invariant and acts on the contents
    as on the abstract map -/
theorem stepC_lj (cfg : Cfg) {s : St} (h : LJ s) (op : TOp) (hop : opOk s op) :
    LJ (stepC cfg s op).1 ∧ (stepC cfg s op).1.abs = specOp s.abs op := by
  obtain ⟨d1, w⟩ := h
  cases op with
  | put ts k v => exact ⟨⟨_, put_lj cfg w ts k v⟩, put_abs cfg s ts k v w.inv⟩
  | del ts k => exact ⟨⟨_, delete_lj cfg w ts k⟩, (delete_abs cfg s ts k w.inv).1⟩
  | get k => exact ⟨⟨_, w⟩, rfl⟩
  | merge sel order =>
    obtain ⟨h1, h2, _, h4⟩ := hop
    obtain ⟨a, b⟩ := mergeWith_lj cfg w sel order h1 h2 h4
    exact ⟨⟨_, a⟩, b⟩
  | reopen => exact reopen_lj ⟨_, w⟩

/-- **a kill inside any operation** (merge passes included), in a store satisfying the lives
    invariant: the directory has a clean visible part and opens to a store that again satisfies
    the lives invariant and reads as before the operation or as after it -/
theorem stepC_cut_recW (cfg : Cfg) {s : St} (h : LJ s) (op : TOp) (hop : opOk s op) {c : List Call}
    (hc : Cut (stepC cfg s op).2 c) :
    RecW (applyCalls s.disk c) s.abs ∨ RecW (applyCalls s.disk c) (specOp s.abs op) := by
  cases op with
  | put ts k v => exact put_cut_recW cfg h ts k v hc
  | del ts k => exact delete_cut_recW cfg h ts k hc
  | get k => rw [cut_nil hc]; exact .inl h.recW
  | merge sel order =>
    obtain ⟨d1, w⟩ := h
    obtain ⟨h1, h2, h3, h4⟩ := hop
    exact .inl (mergeWith_cut_recW cfg w sel order h1 h2
      (fun _ hd => noHazard_prefix_of_sorted w.asc w.fullA h3 h4 hd) hc)
  | reopen => exact .inl (reopen_cut_recW h hc)

theorem stepC_cut_recJ (cfg : Cfg) {s : St} (h : LJ s) (op : TOp) (hop : opOk s op) {c : List Call}
    (hc : Cut (stepC cfg s op).2 c) :
    RecJ (applyCalls s.disk c) s.abs ∨ RecJ (applyCalls s.disk c) (specOp s.abs op) := by
  rcases stepC_cut_recW cfg h op hop hc with r | r
  · exact .inl r.recJ
  · exact .inr r.recJ

theorem runC_lj (cfg : Cfg) (ops : List TOp) : ∀ {s : St}, LJ s → ValidOps cfg s ops →
    LJ (runC cfg s ops) ∧ (runC cfg s ops).abs = specRun s.abs ops := by
  induction ops with
  | nil => intro s h _; exact ⟨h, rfl⟩
  | cons op ops ih =>
    intro s h hv
    obtain ⟨a, c⟩ := stepC_lj cfg h op hv.1
    obtain ⟨a', c'⟩ := ih a hv.2
    refine ⟨a', ?_⟩
    show (runC cfg (stepC cfg s op).1 ops).abs = specRun (specOp s.abs op) ops
    rw [c', c]

/-- states reachable by sets, deletes, reads, reopens, hazard-free merge passes, and kills at any
    cut of any of these operations followed by recovery -/
inductive ReachL (cfg : Cfg) : St → Prop
  | fresh : ReachL cfg fresh
  | step {s : St} (op : TOp) : ReachL cfg s → opOk s op → ReachL cfg (stepC cfg s op).1
  | crash {s : St} (op : TOp) (c : List Call) : ReachL cfg s → opOk s op → Cut (stepC cfg s op).2 c →
      ReachL cfg (openDisk (applyCalls s.disk c)).1

theorem reachL_lj {cfg : Cfg} {s : St} (h : ReachL cfg s) : LJ s := by
  induction h with
  | fresh => exact lj_fresh
  | step op _ hop ih => exact (stepC_lj cfg ih op hop).1
  | crash op c _ hop hc ih =>
    rcases stepC_cut_recJ cfg ih op hop hc with r | r
    · exact r.1
    · exact r.1

/-- the states of the crash-free-merge theory (`ReachM`: kills only inside merge-free operations)
    are among them -/
theorem ReachM.toReachL {cfg : Cfg} {s : St} (h : ReachM cfg s) : ReachL cfg s := by
  induction h with
  | fresh => exact .fresh
  | step op _ hop ih => exact .step op ih hop
  | crash op c _ hop hc ih =>
    refine .crash op c ih ?_ hc
    cases op <;> first | trivial | exact absurd hop (by simp [mergeFree])

theorem reachL_runC {cfg : Cfg} (ops : List TOp) : ∀ {s : St}, ReachL cfg s → ValidOps cfg s ops →
    ReachL cfg (runC cfg s ops) := by
  induction ops with
  | nil => intro s h _; exact h
  | cons op ops ih => intro s h hv; exact ih (.step op h hv.1) hv.2

/-! ### several lives, each ended by a kill inside any operation -/

/-- a life whose acknowledged operations and operation in flight satisfy their side conditions
    (merge passes: existing files in ascending order, covering iteration order, `NoHazard`) -/
def ValidLifeM (cfg : Cfg) (s : St) (l : Life) : Prop :=
  ValidOps cfg s l.acked ∧ opOk (runC cfg s l.acked) l.inflight ∧
    Cut (stepC cfg (runC cfg s l.acked) l.inflight).2 l.cut

def ValidLivesM (cfg : Cfg) : St → List Life → Prop
  | _, [] => True
  | s, l :: ls => ValidLifeM cfg s l ∧ ValidLivesM cfg (crashLife cfg s l) ls

theorem crashLife_specM (cfg : Cfg) {s : St} (h : ReachL cfg s) (l : Life) (hv : ValidLifeM cfg s l) :
    ReachL cfg (crashLife cfg s l) ∧
    ((crashLife cfg s l).abs = specRun s.abs l.acked ∨
     (crashLife cfg s l).abs = specOp (specRun s.abs l.acked) l.inflight) := by
  obtain ⟨h1, h2, h3⟩ := hv
  have hr := reachL_runC l.acked h h1
  obtain ⟨a, c⟩ := runC_lj cfg l.acked (reachL_lj h) h1
  refine ⟨.crash l.inflight l.cut hr h2 h3, ?_⟩
  rcases stepC_cut_recJ cfg a l.inflight h2 h3 with r | r
  · left; rw [← c]; exact r.2
  · right; rw [← c]; exact r.2

theorem runLives_specM (cfg : Cfg) (ls : List Life) : ∀ {s : St}, ReachL cfg s → ValidLivesM cfg s ls →
    ReachL cfg (runLives cfg s ls) ∧ SpecLives s.abs ls (runLives cfg s ls).abs := by
  induction ls with
  | nil => intro s h _; exact ⟨h, rfl⟩
  | cons l ls ih =>
    intro s h hv
    obtain ⟨a, b⟩ := crashLife_specM cfg h l hv.1
    obtain ⟨c, d⟩ := ih a hv.2
    refine ⟨c, ?_⟩
    rcases b with b | b
    · left; rw [← b]; exact d
    · right; rw [← b]; exact d

end Store
