/-
  Lives after a crash inside a merge, part 9: every cut of a complete merge pass, and the pass
  itself, in a store that satisfies the lives invariant.
-/
import BitcaskVerif.Store.LivesUnlink

namespace Store

/-- all events of the real directory after the calls of a loop state: the old events, then
    value events of keys that are present -/
theorem LX.evs {s : St} {d1 : Disk} (w : LJw s d1) {mB : MergeSt} (h : LX { s with disk := d1 } mB) :
    ∃ extra, allEvs (applyCalls s.disk mB.calls).data = allEvs s.disk.data ++ extra ∧
      ∀ e ∈ extra, (AL.get e.key s.keydir).isSome = true := by
  have hout : ∀ c ∈ mB.calls, OutCall s.active c := h.out
  have e1 : mB.s.disk = dapp d1 (newFiles s.disk.tails mB.calls) := by
    have := h.li.frame
    simp only at this
    rw [← this, applyCalls_out w.below1 hout, w.sim.tl]
  have eR : applyCalls s.disk mB.calls = dapp s.disk (newFiles s.disk.tails mB.calls) :=
    applyCalls_out w.below hout
  obtain ⟨extra, x1, x2⟩ := h.li.evs
  rw [e1] at x1
  have x1' : allEvs d1.data ++ allEvs (newFiles s.disk.tails mB.calls).data = allEvs d1.data ++ extra := by
    rw [← x1]; exact (allEvs_append _ _).symm
  have hx' := List.append_cancel_left x1'
  refine ⟨extra, ?_, x2⟩
  rw [eR, ← hx']
  exact allEvs_append _ _

/-- **after the removal of the files `done`** (all selected, hazard-free): the real directory has
    the corresponding directory of the pass on the visible part as clean visible part -/
theorem LX.cjU {s : St} {d1 : Disk} (w : LJw s d1) {sel : List Nat} (hsel : ∀ id, id ∈ sel → id ≤ s.active)
    {L : MergeSt} (lx : LX { s with disk := d1 } L)
    (hunsel : ∀ k loc, AL.get k L.s.keydir = some loc → loc.fid ∉ sel)
    {done : List Nat} (hd : ∀ id, id ∈ done → id ∈ sel) (hz : NoHazard s done) :
    CJ (unlinkedDisk L.s.disk done) (unlinkedDisk (applyCalls s.disk L.calls) done) L.s.keydir L.mid s.abs := by
  obtain ⟨cj, _, _⟩ := lx.cj w
  have hz1 : NoHazard { s with disk := d1 } done := noHazard_visible w.sim w.rinv.asc w.junk.vals hz
  refine ⟨clean_unlinked lx.li hsel hunsel hd hz1, (lx.li.absOf_unlinked hd hunsel).trans w.abs, cj.sim.unlinked done,
    ?_, ?_⟩
  · refine cj.junk.mono ?_ ?_ ?_
    · intro fid p j h1 h2
      have hq : fid ∉ done := fun hc => by
        rw [dataOf_unlinked_mem hc] at h1; simp [recAt] at h1
      rw [dataOf_unlinked hq] at h1 h2
      exact ⟨h1, h2⟩
    · intro key loc j hl hr
      have hq : loc.fid ∉ done := fun hc => hunsel key loc hl (hd _ hc)
      rw [dataOf_unlinked hq]
      exact hr
    · intro fid p j key loc _ _ hl _
      exact hl
  · intro k hk
    have hks : AL.get k s.keydir = none := by
      have := lx.li.dom k
      unfold kdF at hk
      rw [hk] at this
      cases hs : AL.get k s.keydir with
      | none => rfl
      | some l => simp only at this; rw [hs] at this; cases this
    obtain ⟨extra, x1, x2⟩ := lx.evs w
    show replay (allEvs ((applyCalls s.disk L.calls).data.filter (fun p => decide (p.1 ∉ done)))) k = none
    rw [allEvs_filter (fun f => decide (f ∉ done)), x1, List.filter_append, replay_append_of_no_key]
    · exact hz k hks
    · intro e he hek
      have := x2 e (List.mem_filter.mp he).1
      rw [hek, hks] at this
      cases this

/-- **a kill anywhere in the removal phase** (`st0`: the state after the copy phase and the
    fsyncs, on the real directory `DL`; `dL`: the directory of the pass on the visible part) -/
theorem unlinkFold_cuts_J {s : St} {sel : List Nat} {dL DL : Disk} {kdL : List (Key × Loc)} {aL : Nat}
    (hcj : ∀ done, done <+: sel → CJ (unlinkedDisk dL done) (unlinkedDisk DL done) kdL aL s.abs)
    (st0 : St × List Call) (hd0 : st0.1.disk = DL) (hf0 : applyCalls s.disk st0.2 = st0.1.disk) :
    ∀ (l done : List Nat), done ++ l = sel → ∀ {c : List Call},
      Cut (l.foldl unlinkOne (done.foldl unlinkOne st0)).2 c →
      Cut (done.foldl unlinkOne st0).2 c ∨ RecW (applyCalls s.disk c) s.abs := by
  intro l
  induction l with
  | nil => intro done _ c hc; exact .inl hc
  | cons id l ih =>
    intro done hsplit c hc
    have hstep : unlinkOne (done.foldl unlinkOne st0) id = (done ++ [id]).foldl unlinkOne st0 := by
      rw [List.foldl_append]; rfl
    have hsplit' : (done ++ [id]) ++ l = sel := by rw [← hsplit]; simp
    simp only [List.foldl_cons] at hc
    rw [hstep] at hc
    rcases ih (done ++ [id]) hsplit' hc with h1 | h1
    · rw [← hstep, unlinkOne_calls] at h1
      rcases cut_append h1 with h2 | ⟨c', rfl, h2⟩
      · exact .inl h2
      · right
        have hfr := unlinkFold_frame s.disk done st0 hf0
        have hdisk : (done.foldl unlinkOne st0).1.disk = unlinkedDisk DL done := by
          rw [unlinkFold_disk', hd0]
        have cj := hcj done ⟨id :: l, hsplit⟩
        rw [applyCalls_append, hfr]
        obtain ⟨post, e⟩ := cut_noappend (unlinkCalls_noappend _ _) h2
        rcases unlinkCalls_prefix e with rfl | e' | rfl
        · rw [applyCalls_nil, hdisk]
          exact cj.recW
        · rw [e', hdisk]
          by_cases heq : dataOf (unlinkedDisk DL done) id = dataOf (unlinkedDisk dL done) id
          · exact (cj.dropHintSame id heq).recW
          · exact cj.dropHintStale id heq
        · have hfr' : applyCalls (done.foldl unlinkOne st0).1.disk (unlinkCalls (done.foldl unlinkOne st0).1.disk id) =
              unlinkedDisk DL (done ++ [id]) := by
            rw [unlinkCalls_frame, ← unlinkOne_disk, hstep, unlinkFold_disk', hd0]
          rw [hfr']
          exact (hcj (done ++ [id]) ⟨l, hsplit'⟩).recW
    · exact .inr h1

/-- **a kill anywhere in a merge pass**, in a store satisfying the lives invariant.  The hazard
    hypothesis is the one of the crash-free theorem (`mergeWith_cut_recovers`), stated for the
    real directory — i.e. for ALL its records, including those of stale merge outputs that the
    scan does not see. -/
theorem mergeWith_cut_recW (cfg : Cfg) {s : St} {d1 : Disk} (w : LJw s d1) (sel : List Nat) (order : List Key)
    (hsel : ∀ id, id ∈ sel → id ≤ s.active) (hcov : Covers order s)
    (hz : ∀ done, done <+: sel → NoHazard s done) {c : List Call}
    (hc : Cut (mergeWith cfg s sel order).2 c) : RecW (applyCalls s.disk c) s.abs := by
  have hl := mergeLoop_sim cfg w hsel order
  have lx := mergeLoop_lx cfg w.rinv w.full1 sel hsel order
  have hunsel := mergeLoop_unsel cfg w.rinv sel hsel order hcov
  have hcalls : (mergeLoop cfg { s with disk := d1 } sel order).calls = (mergeLoop cfg s sel order).calls :=
    hl.ms.calls
  have hmid : (mergeLoop cfg { s with disk := d1 } sel order).mid = (mergeLoop cfg s sel order).mid := hl.ms.mid
  have hDL : (mergeLoop cfg s sel order).s.disk =
      applyCalls s.disk (mergeLoop cfg { s with disk := d1 } sel order).calls := by
    rw [hcalls]; exact hl.fr.symm
  have hcj : ∀ done, done <+: sel →
      CJ (unlinkedDisk (mergeLoop cfg { s with disk := d1 } sel order).s.disk done)
        (unlinkedDisk (mergeLoop cfg s sel order).s.disk done)
        (mergeLoop cfg { s with disk := d1 } sel order).s.keydir (mergeLoop cfg { s with disk := d1 } sel order).mid
        s.abs := by
    intro done hd
    rw [hDL]
    exact lx.cjU w hsel hunsel (fun i hi => hd.subset hi) (hz done hd)
  have hf0 : applyCalls s.disk ((mergeLoop cfg s sel order).calls ++
      [Call.fsync ⟨.data, (mergeLoop cfg s sel order).mid⟩, Call.fsync ⟨.hint, (mergeLoop cfg s sel order).mid⟩]) =
      (mergeLoop cfg s sel order).s.disk := by
    rw [applyCalls_append, hl.fr]; rfl
  rw [mergeWith_calls] at hc
  rcases cut_append hc with h1 | ⟨c', rfl, h2⟩
  · rcases unlinkFold_cuts_J hcj (_, _) rfl hf0 sel [] rfl h1 with h3 | h3
    · simp only [List.foldl_nil] at h3
      rcases cut_append h3 with h4 | ⟨c', rfl, h5⟩
      · exact mergeLoop_cut_recW cfg w sel hsel order (by rw [hcalls]; exact h4)
      · obtain ⟨post, e⟩ := cut_noappend (by
          intro x hx f p
          simp only [List.mem_cons, List.not_mem_nil, or_false] at hx
          rcases hx with rfl | rfl <;> simp) h5
        rw [← hcalls]
        rcases prefix_cases2 e with rfl | rfl | rfl <;>
          exact tail_recW w hsel lx (.same (fun _ => rfl))
    · exact h3
  · rw [applyCalls_append, unlinkFold_frame _ _ _ hf0, unlinkFold_disk']
    have cj := hcj sel (List.prefix_refl _)
    rcases cut_single_noappend (by intro f p; simp) h2 with rfl | rfl
    · exact cj.recW
    · rw [← hmid]
      exact (cj.addData (Nat.lt_succ_self _)).recW

/-- **a complete merge pass keeps the lives invariant and the contents** -/
theorem mergeWith_lj (cfg : Cfg) {s : St} {d1 : Disk} (w : LJw s d1) (sel : List Nat) (order : List Key)
    (hsel : ∀ id, id ∈ sel → id ≤ s.active) (hcov : Covers order s) (hz : NoHazard s sel) :
    LJw (mergeWith cfg s sel order).1 (mergeWith cfg { s with disk := d1 } sel order).1.disk ∧
    (mergeWith cfg s sel order).1.abs = s.abs := by
  have hl := mergeLoop_sim cfg w hsel order
  have lx := mergeLoop_lx cfg w.rinv w.full1 sel hsel order
  have hunsel := mergeLoop_unsel cfg w.rinv sel hsel order hcov
  have hz1 : NoHazard { s with disk := d1 } sel := noHazard_visible w.sim w.rinv.asc w.junk.vals hz
  obtain ⟨e1, _⟩ := mergeWith_withDisk cfg w hsel order
  have hcalls : (mergeLoop cfg { s with disk := d1 } sel order).calls = (mergeLoop cfg s sel order).calls :=
    hl.ms.calls
  have hmid : (mergeLoop cfg { s with disk := d1 } sel order).mid = (mergeLoop cfg s sel order).mid := hl.ms.mid
  have hDL : (mergeLoop cfg s sel order).s.disk =
      applyCalls s.disk (mergeLoop cfg { s with disk := d1 } sel order).calls := by
    rw [hcalls]; exact hl.fr.symm
  have cj := (lx.cjU w hsel hunsel (fun _ hi => hi) hz).addData (Nat.lt_succ_self _)
  rw [← hDL] at cj
  -- the directories of the two final states
  have hd1 : (mergeWith cfg { s with disk := d1 } sel order).1.disk =
      { unlinkedDisk (mergeLoop cfg { s with disk := d1 } sel order).s.disk sel with
        data := AL.set ((mergeLoop cfg { s with disk := d1 } sel order).mid + 1) []
          (unlinkedDisk (mergeLoop cfg { s with disk := d1 } sel order).s.disk sel).data } := by
    rw [mergeWith_fst]
    simp only [newActive]
    rw [unlinkFold_disk']
  have hd : (mergeWith cfg s sel order).1.disk =
      { unlinkedDisk (mergeLoop cfg s sel order).s.disk sel with
        data := AL.set ((mergeLoop cfg { s with disk := d1 } sel order).mid + 1) []
          (unlinkedDisk (mergeLoop cfg s sel order).s.disk sel).data } := by
    rw [mergeWith_fst, hmid]
    simp only [newActive]
    rw [unlinkFold_disk']
  have hkd : (mergeWith cfg s sel order).1.keydir = (mergeLoop cfg { s with disk := d1 } sel order).s.keydir := by
    rw [mergeWith_fst]
    simp only [newActive]
    rw [unlinkFold_keydir]
    exact hl.ms.kd.symm
  refine ⟨⟨?_, ?_, ?_, ?_, ?_⟩, (mergeWith_inv_abs cfg s sel order w.inv hsel hcov).2⟩
  · rw [e1]; exact (mergeWith_rinv cfg _ sel order w.rinv hsel hcov).1
  · rw [e1]; exact (mergeWith_full_iff cfg _ sel order w.rinv hsel hcov).mpr hz1
  · rw [hd1, hd]; exact cj.sim
  · rw [hd1, hd, hkd]; exact cj.junk
  · rw [full_iff_fullAll, hd, hkd]; exact cj.fullA

end Store
