/-
  Crash cuts of the merge pass (C03), part 2: the removal of the merged files and the creation
  of the new active file; the theorem for the whole merge pass.

  A kill in the unlink phase leaves the directory without a prefix `done` of the selected files
  (possibly with the hint file of the next one removed as well).  Keys that are present are
  found in an output or an unselected file; for keys that are absent the scan of the remaining
  files must not resurrect an old value, which is the hazard hypothesis `NoHazard s done`.
-/
import BitcaskVerif.Store.CutMerge

namespace Store

/-- the directory without the files `done` -/
def unlinkedDisk (d : Disk) (done : List Nat) : Disk :=
  { data := d.data.filter (fun p => decide (p.1 ∉ done)),
    hint := d.hint.filter (fun p => decide (p.1 ∉ done)),
    tails := d.tails }

theorem unlinkFold_disk' (l : List Nat) (st : St × List Call) :
    (l.foldl unlinkOne st).1.disk = unlinkedDisk st.1.disk l := unlinkFold_disk l st

theorem get_data_unlinked {d : Disk} {done : List Nat} {fid : Nat} (h : fid ∉ done) :
    AL.get fid (unlinkedDisk d done).data = AL.get fid d.data := by
  simp only [unlinkedDisk]
  rw [get_filter (fun f => decide (f ∉ done))]
  simp [h]

theorem dataOf_unlinked {d : Disk} {done : List Nat} {fid : Nat} (h : fid ∉ done) :
    dataOf (unlinkedDisk d done) fid = dataOf d fid := by
  simp only [dataOf, get_data_unlinked h]

/-- after the files `done` (all selected) have been removed, the directory is clean for the
    index the merge loop has built, provided the remaining files do not resurrect an absent key -/
theorem clean_unlinked {s : St} {m : MergeSt} (h : LI s m) {sel : List Nat}
    (hsel : ∀ id, id ∈ sel → id ≤ s.active)
    (hunsel : ∀ k loc, AL.get k m.s.keydir = some loc → loc.fid ∉ sel)
    {done : List Nat} (hd : ∀ id, id ∈ done → id ∈ sel) (hz : NoHazard s done) :
    Clean (unlinkedDisk m.s.disk done) m.s.keydir m.mid := by
  have hmid : m.mid ∉ done := fun hc => by
    have := hsel _ (hd _ hc); have := h.minv.midgt; omega
  have hev : allEvs (unlinkedDisk m.s.disk done).data =
      (allEvs m.s.disk.data).filter (fun e => decide (e.loc.fid ∉ done)) :=
    allEvs_filter (fun f => decide (f ∉ done)) _
  constructor
  · exact asc_filter _ h.mr.asc
  · intro fid hs hg
    simp only [unlinkedDisk] at hg
    rw [get_filter (fun f => decide (f ∉ done))] at hg
    by_cases hq : fid ∈ done
    · simp [hq] at hg
    · simp only [hq, not_false_eq_true, decide_true, ↓reduceIte] at hg
      rw [dataOf_unlinked hq]
      exact h.mr.hx fid hs hg
  · have := h.minv.midex
    rw [← get_data_unlinked hmid] at this
    cases hg : AL.get m.mid (unlinkedDisk m.s.disk done).data with
    | none => simp [hg] at this
    | some v => exact AL.mem_keys_of_get hg
  · intro id hid; exact h.minv.ids id (mem_keys_filter hid)
  · intro id hid; exact h.minv.hids id (mem_keys_filter hid)
  · intro k loc hk
    obtain ⟨x, h1, h2, h3, h4, h5⟩ := h.minv.locs k loc hk
    have hq : loc.fid ∉ done := fun hc => hunsel k loc hk (hd _ hc)
    exact ⟨x, by rw [dataOf_unlinked hq]; exact h1, h2, h3, h4, by rw [get_data_unlinked hq]; exact h5⟩
  · funext k
    rw [hev]
    unfold kdF
    cases hg : AL.get k m.s.keydir with
    | some loc =>
      symm
      apply replay_filter_keep
      · rw [← congrFun h.kd k]; exact hg
      · simp only [decide_eq_true_eq]
        exact fun hc => hunsel k loc hg (hd _ hc)
    | none =>
      symm
      have hks : AL.get k s.keydir = none := by
        have := h.dom k
        rw [hg] at this
        cases hs : AL.get k s.keydir with
        | none => rfl
        | some l => rw [hs] at this; cases this
      obtain ⟨extra, e1, e2⟩ := h.evs
      rw [e1, List.filter_append, replay_append_of_no_key]
      · exact hz k hks
      · intro e he hek
        have := e2 e (List.mem_filter.mp he).1
        rw [hek, hks] at this
        cases this

/-- reading through the merge loop's index does not touch the removed files -/
theorem LI.absOf_unlinked {s : St} {m : MergeSt} (h : LI s m) {sel done : List Nat}
    (hd : ∀ id, id ∈ done → id ∈ sel)
    (hunsel : ∀ k loc, AL.get k m.s.keydir = some loc → loc.fid ∉ sel) :
    Store.absOf (unlinkedDisk m.s.disk done) m.s.keydir = s.abs := by
  rw [← h.absOf]
  funext k
  show St.abs { disk := unlinkedDisk m.s.disk done, keydir := m.s.keydir } k =
    St.abs { disk := m.s.disk, keydir := m.s.keydir } k
  cases hg : AL.get k m.s.keydir with
  | none =>
    rw [abs_none_of_none (s := { disk := unlinkedDisk m.s.disk done, keydir := m.s.keydir }) hg,
      abs_none_of_none (s := { disk := m.s.disk, keydir := m.s.keydir }) hg]
  | some loc =>
    obtain ⟨x, h1, h2, h3, h4, h5⟩ := h.minv.locs k loc hg
    have hq : loc.fid ∉ done := fun hc => hunsel k loc hg (hd _ hc)
    rw [abs_of_locOk (s := { disk := m.s.disk, keydir := m.s.keydir }) hg h1 h4 h5]
    exact abs_of_locOk (s := { disk := unlinkedDisk m.s.disk done, keydir := m.s.keydir }) hg
      (by rw [dataOf_unlinked hq]; exact h1) h4 (by rw [get_data_unlinked hq]; exact h5)

/-- removing a hint file keeps a directory clean -/
theorem Clean.dropHint {d : Disk} {kd : List (Key × Loc)} {a : Nat} (h : Clean d kd a) (id : Nat) :
    Clean { d with hint := AL.del id d.hint } kd a := by
  refine ⟨h.asc, ?_, h.mem, h.max, ?_, h.locs, h.kd⟩
  · intro fid hs hg
    simp only at hg
    rw [AL.get_del] at hg
    by_cases e : fid = id
    · simp [e] at hg
    · simp only [e, ↓reduceIte] at hg
      exact h.hx fid hs hg
  · intro i hi
    exact h.hmax i (mem_keys_del hi).2

theorem prefix_cases1 {α : Type} {a : α} {x post : List α} (h : [a] = x ++ post) : x = [] ∨ x = [a] := by
  rcases x with _ | ⟨x1, _ | ⟨x2, x⟩⟩ <;> simp_all

/-- the prefixes of the calls that remove one file: nothing yet, the hint file only, or all -/
theorem unlinkCalls_prefix {d : Disk} {id : Nat} {x post : List Call} (h : unlinkCalls d id = x ++ post) :
    x = [] ∨ applyCalls d x = { d with hint := AL.del id d.hint } ∨ x = unlinkCalls d id := by
  unfold unlinkCalls at h ⊢
  cases hh : (AL.get id d.hint).isSome <;> cases hd : (AL.get id d.data).isSome <;>
    simp only [hh, hd, Bool.false_eq_true, ↓reduceIte, List.append_nil, List.nil_append] at h ⊢
  · left
    have := congrArg List.length h
    simp at this
    exact List.eq_nil_of_length_eq_zero (by omega)
  · rcases prefix_cases1 h with rfl | rfl
    · exact .inl rfl
    · exact .inr (.inr rfl)
  · rcases prefix_cases1 h with rfl | rfl
    · exact .inl rfl
    · exact .inr (.inr rfl)
  · rcases prefix_cases2 h with rfl | rfl | rfl
    · exact .inl rfl
    · exact .inr (.inl rfl)
    · exact .inr (.inr rfl)

theorem unlinkCalls_noappend (d : Disk) (id : Nat) : ∀ x ∈ unlinkCalls d id, ∀ f p, x ≠ Call.append f p := by
  intro x hx f p
  unfold unlinkCalls at hx
  simp only [List.mem_append] at hx
  rcases hx with hx | hx
  · split at hx
    · simp only [List.mem_singleton] at hx; subst hx; simp
    · cases hx
  · split at hx
    · simp only [List.mem_singleton] at hx; subst hx; simp
    · cases hx

/-- `d` is a clean directory whose index reads as `m` -/
def CleanAbs (d : Disk) (m : Map) : Prop := ∃ kd a, Clean d kd a ∧ absOf d kd = m

theorem CleanAbs.recovers {d : Disk} {m : Map} (h : CleanAbs d m) : Recovers d m := by
  obtain ⟨kd, a, hc, rfl⟩ := h
  exact hc.recovers

/-- crash tails are invisible in a clean directory -/
theorem CleanAbs.tails {d : Disk} {m : Map} (h : CleanAbs d m) (T : List (Nat × Nat)) :
    CleanAbs { d with tails := T } m := by
  obtain ⟨kd, a, hc, rfl⟩ := h
  exact ⟨kd, a, hc.tails T, rfl⟩

/-- **a kill anywhere in the unlink phase** (`st0` is the state after the copy phase) -/
theorem unlinkFold_cuts {s : St} {m : MergeSt} (h : LI s m) {sel : List Nat}
    (hsel : ∀ id, id ∈ sel → id ≤ s.active)
    (hunsel : ∀ k loc, AL.get k m.s.keydir = some loc → loc.fid ∉ sel)
    (hz : ∀ done, done <+: sel → NoHazard s done)
    (st0 : St × List Call) (hd0 : st0.1.disk = m.s.disk) (hf0 : applyCalls s.disk st0.2 = st0.1.disk) :
    ∀ (l done : List Nat), done ++ l = sel → ∀ {c : List Call},
      Cut (l.foldl unlinkOne (done.foldl unlinkOne st0)).2 c →
      Cut (done.foldl unlinkOne st0).2 c ∨ CleanAbs (applyCalls s.disk c) s.abs := by
  intro l
  induction l with
  | nil => intro done _ c hc; exact .inl hc
  | cons id l ih =>
    intro done hsplit c hc
    have hstep : unlinkOne (done.foldl unlinkOne st0) id = (done ++ [id]).foldl unlinkOne st0 := by
      rw [List.foldl_append]; rfl
    have hsplit' : (done ++ [id]) ++ l = sel := by rw [← hsplit]; simp
    simp only [List.foldl_cons] at hc
    rw [hstep] at hc
    rcases ih (done ++ [id]) hsplit' hc with h1 | h1
    · rw [← hstep, unlinkOne_calls] at h1
      rcases cut_append h1 with h2 | ⟨c', rfl, h2⟩
      · exact .inl h2
      · right
        have hfr := unlinkFold_frame s.disk done st0 hf0
        have hdisk : (done.foldl unlinkOne st0).1.disk = unlinkedDisk m.s.disk done := by
          rw [unlinkFold_disk', hd0]
        have hsub : ∀ i, i ∈ done → i ∈ sel := fun i hi => by rw [← hsplit]; exact List.mem_append_left _ hi
        have hcl := clean_unlinked h hsel hunsel hsub (hz done ⟨id :: l, hsplit⟩)
        rw [applyCalls_append, hfr]
        obtain ⟨post, e⟩ := cut_noappend (unlinkCalls_noappend _ _) h2
        rcases unlinkCalls_prefix e with rfl | e' | rfl
        · rw [applyCalls_nil, hdisk]
          exact ⟨_, _, hcl, h.absOf_unlinked hsub hunsel⟩
        · rw [e', hdisk]
          exact ⟨_, _, hcl.dropHint id, h.absOf_unlinked hsub hunsel⟩
        · have hsub' : ∀ i, i ∈ done ++ [id] → i ∈ sel := fun i hi => by rw [← hsplit']; exact List.mem_append_left _ hi
          have hcl' := clean_unlinked h hsel hunsel hsub' (hz (done ++ [id]) ⟨l, hsplit'⟩)
          have hfr' : applyCalls (done.foldl unlinkOne st0).1.disk (unlinkCalls (done.foldl unlinkOne st0).1.disk id) =
              unlinkedDisk m.s.disk (done ++ [id]) := by
            rw [unlinkCalls_frame, ← unlinkOne_disk, hstep, unlinkFold_disk', hd0]
          rw [hfr']
          exact ⟨_, _, hcl', h.absOf_unlinked hsub' hunsel⟩
    · exact .inr h1

/-! ### the whole merge pass -/

theorem noHazard_nil_iff (s : St) : NoHazard s [] ↔ Full s := by
  have e : (allEvs s.disk.data).filter (fun e => decide (e.loc.fid ∉ ([] : List Nat))) = allEvs s.disk.data := by
    rw [List.filter_eq_self]; intro a _; simp
  unfold NoHazard Full
  rw [e]

/-- after the merge loop no index entry points into a selected file -/
theorem mergeLoop_unsel (cfg : Cfg) {s : St} (h : RInv s) (sel : List Nat)
    (hsel : ∀ id, id ∈ sel → id ≤ s.active) (order : List Key) (hcov : Covers order s) :
    ∀ k loc, AL.get k (mergeLoop cfg s sel order).s.keydir = some loc → loc.fid ∉ sel := by
  obtain ⟨h0, _, _⟩ := mergeStart_spec s h
  have hF := mergeFold_spec cfg sel s.active s.abs hsel order _ h0
  have f2 : ∀ k', (AL.get k' (mergeLoop cfg s sel order).s.keydir).isSome = (AL.get k' s.keydir).isSome := hF.2.1
  have f3 : ∀ k', (k' ∈ order ∨ ∀ loc, AL.get k' (mergeStart s).s.keydir = some loc → loc.fid ∉ sel) →
      ∀ loc, AL.get k' (mergeLoop cfg s sel order).s.keydir = some loc → loc.fid ∉ sel := hF.2.2.1
  intro k loc hk
  apply f3 k _ loc hk
  left
  apply hcov
  have := f2 k
  rw [hk] at this
  simp only [Option.isSome_some] at this
  cases hg : AL.get k s.keydir with
  | none => rw [hg] at this; cases this
  | some l => exact AL.mem_keys_of_get hg

/-- the calls of the copy phase are a prefix of the calls of the merge pass -/
theorem mergeWith_calls_prefix (cfg : Cfg) (s : St) (sel : List Nat) (order : List Key) :
    ∃ post, (mergeWith cfg s sel order).2 = (mergeLoop cfg s sel order).calls ++ post := by
  rw [mergeWith_calls]
  have : ∀ (l : List Nat) (st : St × List Call), ∃ post, (l.foldl unlinkOne st).2 = st.2 ++ post := by
    intro l
    induction l with
    | nil => intro st; exact ⟨[], by simp⟩
    | cons id l ih =>
      intro st
      obtain ⟨post, e⟩ := ih (unlinkOne st id)
      exact ⟨unlinkCalls st.1.disk id ++ post, by
        simp only [List.foldl_cons]; rw [e, unlinkOne_calls, List.append_assoc]⟩
  obtain ⟨post, e⟩ := this sel (_, _)
  exact ⟨[Call.fsync ⟨.data, (mergeLoop cfg s sel order).mid⟩, Call.fsync ⟨.hint, (mergeLoop cfg s sel order).mid⟩] ++
    post ++ [Call.create ⟨.data, (mergeLoop cfg s sel order).mid + 1⟩], by
    rw [e]; simp only [List.append_assoc]⟩

theorem Clean.absOf_addData {d : Disk} {kd : List (Key × Loc)} {a : Nat} (h : Clean d kd a) {b : Nat}
    (hb : a < b) : absOf { d with data := AL.set b [] d.data } kd = absOf d kd := by
  funext k
  show St.abs { disk := { d with data := AL.set b [] d.data }, keydir := kd } k =
    St.abs { disk := d, keydir := kd } k
  apply abs_keeps (b := a)
  · intro loc hl; exact ⟨h.locs k loc hl, h.fid_le (h.locs k loc hl)⟩
  · rfl
  · exact keeps_create _ _ _ hb _ _

theorem LI.cleanAbs {s : St} {m : MergeSt} (h : LI s m) : CleanAbs m.s.disk s.abs :=
  ⟨_, _, h.clean, h.absOf⟩

/-- every cut of a merge pass is a cut of the copy phase, or leaves a clean directory (fsyncs
    after the loop, unlinks, creation of the new active file) -/
theorem mergeWith_cut_cases (cfg : Cfg) {s : St} (h : RInv s) (sel : List Nat) (order : List Key)
    (hsel : ∀ id, id ∈ sel → id ≤ s.active) (hcov : Covers order s)
    (hz : ∀ done, done <+: sel → NoHazard s done) {c : List Call}
    (hc : Cut (mergeWith cfg s sel order).2 c) :
    Cut (mergeLoop cfg s sel order).calls c ∨
    (CleanAbs (applyCalls s.disk c) s.abs ∧ ∃ c', c = (mergeLoop cfg s sel order).calls ++ c') := by
  have hf : Full s := (noHazard_nil_iff s).mp (hz [] (List.nil_prefix))
  have li := mergeLoop_li cfg h hf sel hsel order
  have hunsel := mergeLoop_unsel cfg h sel hsel order hcov
  have hf0 : applyCalls s.disk ((mergeLoop cfg s sel order).calls ++
      [Call.fsync ⟨.data, (mergeLoop cfg s sel order).mid⟩, Call.fsync ⟨.hint, (mergeLoop cfg s sel order).mid⟩]) =
      (mergeLoop cfg s sel order).s.disk := by
    rw [applyCalls_append, li.frame]; rfl
  obtain ⟨allpost, hall⟩ := mergeWith_calls_prefix cfg s sel order
  have hpre : ∀ {x : List Call}, Cut (mergeWith cfg s sel order).2 x → ¬ Cut (mergeLoop cfg s sel order).calls x →
      ∃ c', x = (mergeLoop cfg s sel order).calls ++ c' := by
    intro x hx hn
    rw [hall] at hx
    rcases cut_append hx with h1 | ⟨c', e, _⟩
    · exact absurd h1 hn
    · exact ⟨c', e⟩
  by_cases hcl : Cut (mergeLoop cfg s sel order).calls c
  · exact .inl hcl
  · right
    refine ⟨?_, hpre hc hcl⟩
    rw [mergeWith_calls] at hc
    rcases cut_append hc with h1 | ⟨c', rfl, h2⟩
    · rcases unlinkFold_cuts li hsel hunsel hz (_, _) rfl hf0 sel [] rfl h1 with h3 | h3
      · simp only [List.foldl_nil] at h3
        rcases cut_append h3 with h4 | ⟨c', rfl, h5⟩
        · exact absurd h4 hcl
        · rw [applyCalls_append, li.frame]
          obtain ⟨post, e⟩ := cut_noappend (by
            intro x hx f p
            simp only [List.mem_cons, List.not_mem_nil, or_false] at hx
            rcases hx with rfl | rfl <;> simp) h5
          rcases prefix_cases2 e with rfl | rfl | rfl <;> exact li.cleanAbs
      · exact h3
    · rw [applyCalls_append, unlinkFold_frame _ _ _ hf0, unlinkFold_disk']
      have hcu := clean_unlinked li hsel hunsel (fun _ hi => hi) (hz sel (List.prefix_refl _))
      have habs := li.absOf_unlinked (sel := sel) (done := sel) (fun _ hi => hi) hunsel
      rcases cut_single_noappend (by intro f p; simp) h2 with rfl | rfl
      · exact ⟨_, _, hcu, habs⟩
      · exact ⟨_, _, hcu.addData (Nat.lt_succ_self _), (hcu.absOf_addData (Nat.lt_succ_self _)).trans habs⟩

/-- **a kill anywhere in a merge pass**: creation of the outputs, copy loop (data append, hint
    append, output rollover, each append torn at any byte), fsyncs, removal of the merged files
    (hint file, then data file, in the order of `sel`), creation of the new active file.
    The hazard hypothesis is needed for every prefix `done` of `sel` (the files already removed
    when the process is killed); `done = []` is `Full s`. -/
theorem mergeWith_cut_recovers (cfg : Cfg) {s : St} (h : RInv s) (sel : List Nat) (order : List Key)
    (hsel : ∀ id, id ∈ sel → id ≤ s.active) (hcov : Covers order s)
    (hz : ∀ done, done <+: sel → NoHazard s done) {c : List Call}
    (hc : Cut (mergeWith cfg s sel order).2 c) : RecoversW (applyCalls s.disk c) s.abs := by
  have hf : Full s := (noHazard_nil_iff s).mp (hz [] (List.nil_prefix))
  rcases mergeWith_cut_cases cfg h sel order hsel hcov hz hc with h1 | ⟨h1, _⟩
  · exact mergeLoop_cuts cfg h hf sel hsel order h1
  · exact h1.recovers.weak

end Store
