/-
  States reachable from a fresh store by sets, deletes and close/reopen cycles (no merges), and
  the recovery invariant for them.
-/
import BitcaskVerif.Store.RecInv
import BitcaskVerif.Props.C01

namespace Store

/-- reachable by put / delete / reopen, any configuration, any timestamps -/
inductive ReachPD (cfg : Cfg) : St → Prop
  | fresh : ReachPD cfg fresh
  | put {s : St} (ts : Int) (k : Key) (v : Val) : ReachPD cfg s → ReachPD cfg (put cfg s ts k v).1
  | delete {s : St} (ts : Int) (k : Key) : ReachPD cfg s → ReachPD cfg (delete cfg s ts k).1
  | reopen {s : St} : ReachPD cfg s → ReachPD cfg (reopen s).1

theorem fresh_rinv : RInv fresh ∧ Full fresh := by
  refine ⟨⟨fresh_inv, ?_, ?_, ?_, rfl⟩, ?_⟩
  · simp [Asc, fresh, AL.keys]
  · intro k loc hk; simp [fresh] at hk
  · intro fid hs hg; simp [fresh] at hg
  · intro k _; rfl

theorem reachPD_rinv {cfg : Cfg} {s : St} (h : ReachPD cfg s) : RInv s ∧ Full s := by
  induction h with
  | fresh => exact fresh_rinv
  | put ts k v _ ih => exact ⟨(put_rinv cfg _ ts k v ih.1).1, (put_rinv cfg _ ts k v ih.1).2 ih.2⟩
  | delete ts k _ ih => exact ⟨(delete_rinv cfg _ ts k ih.1).1, (delete_rinv cfg _ ts k ih.1).2 ih.2⟩
  | reopen _ ih => exact ⟨(reopen_rinv ih.1).1, (reopen_rinv ih.1).2.1⟩

/-- `n` close/reopen cycles -/
def reopenN : Nat → St → St
  | 0, s => s
  | n + 1, s => reopenN n (reopen s).1

/-- any number of reopen cycles changes nothing when nothing absent is resurrectable -/
theorem reopenN_abs (n : Nat) : ∀ (t : St), RInv t → Full t →
    (reopenN n t).abs = t.abs ∧ RInv (reopenN n t) ∧ Full (reopenN n t) := by
  induction n with
  | zero => intro t ht hf; exact ⟨rfl, ht, hf⟩
  | succ n ih =>
    intro t ht hf
    obtain ⟨a, b, _⟩ := reopen_rinv ht
    obtain ⟨c, d, e⟩ := ih _ a b
    exact ⟨by rw [reopenN, c, reopen_abs ht hf], d, e⟩

theorem reachPD_reopenN {cfg : Cfg} (n : Nat) : ∀ {s : St}, ReachPD cfg s → ReachPD cfg (reopenN n s) := by
  induction n with
  | zero => intro s h; exact h
  | succ n ih => intro s h; exact ih (ReachPD.reopen h)

/-- a history without merge passes -/
def NoMerge : List Op → Prop
  | [] => True
  | .merge _ _ :: _ => False
  | _ :: ops => NoMerge ops

theorem reachPD_run (cfg : Cfg) (ops : List Op) : ∀ {s : St}, ReachPD cfg s → NoMerge ops →
    ReachPD cfg (run cfg s ops).1 := by
  induction ops with
  | nil => intro s h _; exact h
  | cons op ops ih =>
    intro s h hn
    cases op with
    | put k v => exact ih (ReachPD.put 0 k v h) hn
    | del k => exact ih (ReachPD.delete 0 k h) hn
    | get k => exact ih h hn
    | merge sel order => exact absurd hn (by simp [NoMerge])

theorem validFrom_of_noMerge (cfg : Cfg) (ops : List Op) : ∀ (s : St), NoMerge ops → ValidFrom cfg s ops := by
  induction ops with
  | nil => intro s _; trivial
  | cons op ops ih =>
    intro s hn
    cases op with
    | put k v => exact ⟨trivial, ih _ hn⟩
    | del k => exact ⟨trivial, ih _ hn⟩
    | get k => exact ⟨trivial, ih _ hn⟩
    | merge sel order => exact absurd hn (by simp [NoMerge])

end Store
