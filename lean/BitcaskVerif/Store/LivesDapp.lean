/-
  Lives after a crash inside a merge, part 5: calls that only touch NEW files.

  The copy phase of a merge pass creates and appends to files with ids above the active id `A`
  only.  Applied to a directory all of whose files have ids `≤ A`, such calls leave the old files
  untouched and build the new files independently of the old ones:
    `applyCalls d cs = dapp d (applyCalls ⟨[], [], d.tails⟩ cs)`   (`applyCalls_dapp`).
  So the real directory and its visible part — which differ in old files only — get the SAME new
  files.
-/
import BitcaskVerif.Store.LivesWrite

namespace Store

/-! ### association lists: append -/

theorem AL.get_append_left {β : Type} {k : Nat} {l : List (Nat × β)} (n : List (Nat × β)) (h : k ∈ AL.keys l) :
    AL.get k (l ++ n) = AL.get k l := by
  induction l with
  | nil => simp [AL.keys] at h
  | cons x xs ih =>
    obtain ⟨k', v'⟩ := x
    by_cases e : k' = k
    · simp [AL.get, e]
    · simp only [AL.keys, List.map_cons, List.mem_cons] at h
      have hk : k ∈ AL.keys xs := by
        rcases h with h | h
        · exact absurd h.symm e
        · exact h
      simp only [List.cons_append, AL.get, e, ↓reduceIte]
      exact ih hk

theorem AL.get_append_right {β : Type} {k : Nat} {l : List (Nat × β)} (n : List (Nat × β)) (h : k ∉ AL.keys l) :
    AL.get k (l ++ n) = AL.get k n := by
  induction l with
  | nil => rfl
  | cons x xs ih =>
    obtain ⟨k', v'⟩ := x
    simp only [AL.keys, List.map_cons, List.mem_cons, not_or] at h
    have e : ¬ k' = k := fun e => h.1 e.symm
    simp only [List.cons_append, AL.get, e, ↓reduceIte]
    exact ih h.2

theorem AL.set_append_right {β : Type} {k : Nat} (v : β) {l : List (Nat × β)} (n : List (Nat × β))
    (h : k ∉ AL.keys l) : AL.set k v (l ++ n) = l ++ AL.set k v n := by
  induction l with
  | nil => rfl
  | cons x xs ih =>
    obtain ⟨k', v'⟩ := x
    simp only [AL.keys, List.map_cons, List.mem_cons, not_or] at h
    have e : ¬ k' = k := fun e => h.1 e.symm
    simp only [List.cons_append, AL.set, e, ↓reduceIte, List.cons.injEq, true_and]
    exact ih h.2

/-! ### calls on new files -/

def callId : Call → Nat
  | .create f => f.id
  | .append f _ => f.id
  | .fsync f => f.id
  | .unlink f => f.id

/-- the call touches a file above `A` and removes nothing -/
def OutCall (A : Nat) (c : Call) : Prop := A < callId c ∧ ∀ f, c ≠ Call.unlink f

/-- `d` followed by the new files `n` (whose tails are the tails of the whole directory) -/
def dapp (d n : Disk) : Disk := { data := d.data ++ n.data, hint := d.hint ++ n.hint, tails := n.tails }

/-- the ids of `d` are at most `A` -/
structure Below (A : Nat) (d : Disk) : Prop where
  ids : ∀ id ∈ AL.keys d.data, id ≤ A
  hids : ∀ id ∈ AL.keys d.hint, id ≤ A

theorem dapp_nil (d : Disk) : dapp d ⟨[], [], d.tails⟩ = d := by
  cases d; simp [dapp]

theorem applyCall_dapp {A : Nat} {d : Disk} (hb : Below A d) (n : Disk) {c : Call} (hc : OutCall A c) :
    applyCall (dapp d n) c = dapp d (applyCall n c) := by
  obtain ⟨hlt, hnu⟩ := hc
  cases c with
  | create f =>
    obtain ⟨kd, id⟩ := f
    simp only [callId] at hlt
    have h1 : id ∉ AL.keys d.data := fun hm => by have := hb.ids id hm; omega
    have h2 : id ∉ AL.keys d.hint := fun hm => by have := hb.hids id hm; omega
    cases kd
    · simp only [applyCall, dapp, AL.set_append_right _ _ h1]
    · simp only [applyCall, dapp, AL.set_append_right _ _ h2]
  | append f p =>
    obtain ⟨kd, id⟩ := f
    simp only [callId] at hlt
    have h1 : id ∉ AL.keys d.data := fun hm => by have := hb.ids id hm; omega
    have h2 : id ∉ AL.keys d.hint := fun hm => by have := hb.hids id hm; omega
    cases kd <;> cases p
    · simp only [applyCall, dapp, dataOf, AL.set_append_right _ _ h1, AL.get_append_right _ h1]
    · rfl
    · rfl
    · rfl
    · simp only [applyCall, dapp, AL.set_append_right _ _ h2, AL.get_append_right _ h2]
    · rfl
  | fsync f => rfl
  | unlink f => exact absurd rfl (hnu f)

theorem applyCalls_dapp {A : Nat} {d : Disk} (hb : Below A d) : ∀ (cs : List Call) (n : Disk),
    (∀ c ∈ cs, OutCall A c) → applyCalls (dapp d n) cs = dapp d (applyCalls n cs) := by
  intro cs
  induction cs with
  | nil => intro n _; rfl
  | cons c cs ih =>
    intro n h
    simp only [applyCalls_cons]
    rw [applyCall_dapp hb n (h c List.mem_cons_self)]
    exact ih _ (fun x hx => h x (List.mem_cons_of_mem _ hx))

/-- the new files built by `cs` on top of a directory with tails `T` -/
def newFiles (T : List (Nat × Nat)) (cs : List Call) : Disk := applyCalls ⟨[], [], T⟩ cs

theorem applyCalls_out {A : Nat} {d : Disk} (hb : Below A d) {cs : List Call} (h : ∀ c ∈ cs, OutCall A c) :
    applyCalls d cs = dapp d (newFiles d.tails cs) := by
  have := applyCalls_dapp hb cs ⟨[], [], d.tails⟩ h
  rw [dapp_nil] at this
  exact this

/-- the new files have ids above `A`, and the tails of the old files are unchanged -/
structure NewOk (A : Nat) (T : List (Nat × Nat)) (n : Disk) : Prop where
  ids : ∀ id ∈ AL.keys n.data, A < id
  hids : ∀ id ∈ AL.keys n.hint, A < id
  tails : ∀ id, id ≤ A → AL.get id n.tails = AL.get id T

theorem newOk_step {A : Nat} {T : List (Nat × Nat)} {n : Disk} (h : NewOk A T n) {c : Call} (hc : OutCall A c) :
    NewOk A T (applyCall n c) := by
  obtain ⟨hlt, hnu⟩ := hc
  cases c with
  | create f =>
    obtain ⟨kd, id⟩ := f
    simp only [callId] at hlt
    cases kd
    · refine ⟨?_, h.hids, h.tails⟩
      intro i hi
      rcases mem_keys_set hi with e | e
      · have e' : i = id := e
        omega
      · exact h.ids i e
    · refine ⟨h.ids, ?_, h.tails⟩
      intro i hi
      rcases mem_keys_set hi with e | e
      · have e' : i = id := e
        omega
      · exact h.hids i e
  | append f p =>
    obtain ⟨kd, id⟩ := f
    simp only [callId] at hlt
    cases kd <;> cases p
    · refine ⟨?_, h.hids, h.tails⟩
      intro i hi
      rcases mem_keys_set hi with e | e
      · have e' : i = id := e
        omega
      · exact h.ids i e
    · exact h
    · refine ⟨h.ids, h.hids, ?_⟩
      intro i hi
      show AL.get i (AL.set id _ n.tails) = _
      rw [AL.get_set_other (by omega)]
      exact h.tails i hi
    · exact h
    · refine ⟨h.ids, ?_, h.tails⟩
      intro i hi
      rcases mem_keys_set hi with e | e
      · have e' : i = id := e
        omega
      · exact h.hids i e
    · exact h
  | fsync f => exact h
  | unlink f => exact absurd rfl (hnu f)

theorem newOk_newFiles {A : Nat} (T : List (Nat × Nat)) {cs : List Call} (h : ∀ c ∈ cs, OutCall A c) :
    NewOk A T (newFiles T cs) := by
  unfold newFiles
  have h0 : NewOk A T ⟨[], [], T⟩ := ⟨by simp [AL.keys], by simp [AL.keys], fun _ _ => rfl⟩
  generalize (⟨[], [], T⟩ : Disk) = n at h0
  induction cs generalizing n with
  | nil => exact h0
  | cons c cs ih =>
    exact ih (fun x hx => h x (List.mem_cons_of_mem _ hx)) _ (newOk_step h0 (h c List.mem_cons_self))

/-! ### looking files up in `dapp d n` -/

section
variable {A : Nat} {T : List (Nat × Nat)} {d n : Disk}

theorem get_data_dapp_le (hn : NewOk A T n) {fid : Nat} (h : fid ≤ A) :
    AL.get fid (dapp d n).data = AL.get fid d.data := by
  by_cases hm : fid ∈ AL.keys d.data
  · exact AL.get_append_left _ hm
  · show AL.get fid (d.data ++ n.data) = _
    rw [AL.get_append_right _ hm, AL.get_eq_none_iff.mpr hm]
    apply AL.get_eq_none_iff.mpr
    intro hc; have := hn.ids fid hc; omega

theorem get_data_dapp_gt (hb : Below A d) {fid : Nat} (h : A < fid) :
    AL.get fid (dapp d n).data = AL.get fid n.data :=
  AL.get_append_right _ (fun hm => by have := hb.ids fid hm; omega)

theorem get_hint_dapp_le (hn : NewOk A T n) {fid : Nat} (h : fid ≤ A) :
    AL.get fid (dapp d n).hint = AL.get fid d.hint := by
  by_cases hm : fid ∈ AL.keys d.hint
  · exact AL.get_append_left _ hm
  · show AL.get fid (d.hint ++ n.hint) = _
    rw [AL.get_append_right _ hm, AL.get_eq_none_iff.mpr hm]
    apply AL.get_eq_none_iff.mpr
    intro hc; have := hn.hids fid hc; omega

theorem get_hint_dapp_gt (hb : Below A d) {fid : Nat} (h : A < fid) :
    AL.get fid (dapp d n).hint = AL.get fid n.hint :=
  AL.get_append_right _ (fun hm => by have := hb.hids fid hm; omega)

theorem dataOf_dapp_le (hn : NewOk A T n) {fid : Nat} (h : fid ≤ A) : dataOf (dapp d n) fid = dataOf d fid := by
  simp only [dataOf, get_data_dapp_le hn h]

theorem dataOf_dapp_gt (hb : Below A d) {fid : Nat} (h : A < fid) : dataOf (dapp d n) fid = dataOf n fid := by
  simp only [dataOf, get_data_dapp_gt hb h]

end

/-- the real directory and its visible part with the same new files -/
theorem Sim.dapp {A : Nat} {d1 d n : Disk} (h : Sim d1 d) (hb : Below A d) (hb1 : Below A d1)
    (hn : NewOk A d.tails n) (hfile : ∀ fid, A < fid → FileSim n n fid) : Sim (dapp d1 n) (dapp d n) := by
  refine ⟨?_, ?_, rfl, ?_⟩
  · show AL.keys (d.data ++ n.data) = AL.keys (d1.data ++ n.data)
    rw [keys_append, keys_append, h.keys]
  · show AL.keys (d.hint ++ n.hint) = AL.keys (d1.hint ++ n.hint)
    rw [keys_append, keys_append, h.hkeys]
  · intro fid
    by_cases hf : fid ≤ A
    · exact (h.file fid).congr (dataOf_dapp_le hn hf) (dataOf_dapp_le hn hf) (get_hint_dapp_le hn hf)
        (get_hint_dapp_le hn hf) (hn.tails fid hf)
    · have hf' : A < fid := by omega
      exact (hfile fid hf').congr (dataOf_dapp_gt hb1 hf') (dataOf_dapp_gt hb hf') (get_hint_dapp_gt hb1 hf')
        (get_hint_dapp_gt hb hf') rfl

end Store
