/-
  C19 / C13 helper lemmas: well-formedness of the directory in crash-free histories (`DiskWf`):
  data-file ids are distinct, no file has a cut-off tail, every hint file lists exactly the
  records of its data file (all of them values), and the active file has no hint file.
  Preservation by `put` / `delete`; the ground-truth list `truth` read as a finite map.
-/
import BitcaskVerif.Store.StatsOps
import BitcaskVerif.Store.StatsTruth

namespace Store.Stats
open Store

/-- the hint entries `hs` describe exactly the records `rs` laid out from byte `pos` on, and all
    of them are value records -/
def HintsMatch : List Hint → List Rec → Nat → Prop
  | [], [], _ => True
  | h :: hs, r :: rs, pos =>
    h.pos = pos ∧ h.len = r.len ∧ h.key = r.key ∧ r.val.isSome ∧ HintsMatch hs rs (pos + r.len)
  | _, _, _ => False

theorem HintsMatch.append {hs : List Hint} {rs : List Rec} {pos : Nat} (h : HintsMatch hs rs pos)
    (x : Hint) (r : Rec) (h1 : x.pos = pos + fileSize rs) (h2 : x.len = r.len) (h3 : x.key = r.key)
    (h4 : r.val.isSome) : HintsMatch (hs ++ [x]) (rs ++ [r]) pos := by
  induction hs generalizing rs pos with
  | nil =>
    cases rs with
    | nil => simp only [fileSize_nil, Nat.add_zero] at h1; exact ⟨h1, h2, h3, h4, trivial⟩
    | cons r' rs' => exact h.elim
  | cons y ys ih =>
    cases rs with
    | nil => exact h.elim
    | cons r' rs' =>
      obtain ⟨a, b, c, d, e⟩ := h
      refine ⟨a, b, c, d, ?_⟩
      apply ih e
      simp only [fileSize_cons] at h1; omega

/-- well-formed directory of a crash-free history -/
structure DiskWf (s : St) : Prop where
  dnodup : (AL.keys s.disk.data).Nodup
  tails : s.disk.tails = []
  hints : ∀ f hs, AL.get f s.disk.hint = some hs → HintsMatch hs (dataOf s.disk f) 0
  actNoHint : AL.get s.active s.disk.hint = none

/-! ### `write` -/

theorem write_hint (cfg : Cfg) (s : St) (r : Rec) : (write cfg s r).1.disk.hint = s.disk.hint := by
  by_cases hroll : s.written + r.len > cfg.maxFile
  · rw [write_roll cfg s r hroll]
  · rw [write_noroll cfg s r hroll]

theorem write_tails (cfg : Cfg) (s : St) (r : Rec) : (write cfg s r).1.disk.tails = s.disk.tails := by
  by_cases hroll : s.written + r.len > cfg.maxFile
  · rw [write_roll cfg s r hroll]
  · rw [write_noroll cfg s r hroll]

theorem write_active (cfg : Cfg) (s : St) (r : Rec) :
    (write cfg s r).1.active = s.active ∨ (write cfg s r).1.active = s.active + 1 := by
  by_cases hroll : s.written + r.len > cfg.maxFile
  · rw [write_roll cfg s r hroll]; exact .inr rfl
  · rw [write_noroll cfg s r hroll]; exact .inl rfl

theorem write_dnodup (cfg : Cfg) (s : St) (r : Rec) (h : (AL.keys s.disk.data).Nodup) :
    (AL.keys (write cfg s r).1.disk.data).Nodup := by
  by_cases hroll : s.written + r.len > cfg.maxFile
  · rw [write_roll cfg s r hroll]; exact nodup_set (nodup_set h)
  · rw [write_noroll cfg s r hroll]; exact nodup_set h

/-- a state that shares directory and active id with the result of `write` is well-formed -/
theorem write_wf (cfg : Cfg) (s : St) (r : Rec) (hi : Inv s) (h : DiskWf s) (s' : St)
    (hd : s'.disk = (write cfg s r).1.disk) (ha : s'.active = (write cfg s r).1.active) : DiskWf s' := by
  have hnone : AL.get (s.active + 1) s.disk.hint = none :=
    get_none_of_not_mem (fun hm => by have := hi.hids _ hm; omega)
  constructor
  · rw [hd]; exact write_dnodup cfg s r h.dnodup
  · rw [hd, write_tails]; exact h.tails
  · intro f hs hf
    rw [hd, write_hint] at hf
    rw [hd, write_dataOf cfg s r hi f]
    have hne : f ≠ s.active := by
      intro e; rw [e, h.actNoHint] at hf; cases hf
    simp only [hne, ↓reduceIte]
    exact h.hints f hs hf
  · rw [ha, hd, write_hint]
    rcases write_active cfg s r with e | e
    · rw [e]; exact h.actNoHint
    · rw [e]; exact hnone

theorem put_active (cfg : Cfg) (s : St) (ts : Int) (k : Key) (v : Val) :
    (put cfg s ts k v).1.active = (write cfg s ⟨ts, k, some v⟩).1.active := by
  unfold put; simp only [accountPrev_active]

theorem delete_active (cfg : Cfg) (s : St) (ts : Int) (k : Key) :
    (delete cfg s ts k).1.active = (write cfg s ⟨ts, k, none⟩).1.active := by
  unfold delete; simp only [accountPrev_active]

theorem put_wf (cfg : Cfg) (s : St) (ts : Int) (k : Key) (v : Val) (hi : Inv s) (h : DiskWf s) :
    DiskWf (put cfg s ts k v).1 :=
  write_wf cfg s _ hi h _ (put_disk cfg s ts k v) (put_active cfg s ts k v)

theorem delete_wf (cfg : Cfg) (s : St) (ts : Int) (k : Key) (hi : Inv s) (h : DiskWf s) :
    DiskWf (delete cfg s ts k).1 :=
  write_wf cfg s _ hi h _ (delete_disk cfg s ts k) (delete_active cfg s ts k)

theorem fresh_wf : DiskWf fresh := by
  constructor
  · simp [fresh, AL.keys]
  · rfl
  · intro f hs hf; simp [fresh] at hf
  · simp [fresh]

/-! ### the ground-truth list as a finite map -/

theorem get_truthList (g : Nat → List Rec → Stat) (f : Nat) (l : List (Nat × List Rec))
    (hnd : (AL.keys l).Nodup) :
    AL.get f ((l.filter fun (_, rs) => !rs.isEmpty).map fun (fid, rs) => (fid, g fid rs)) =
      (if (AL.get f l).getD [] = [] then none else some (g f ((AL.get f l).getD []))) := by
  induction l with
  | nil => simp [AL.get]
  | cons x xs ih =>
    obtain ⟨f', rs⟩ := x
    simp only [keys_cons, List.nodup_cons] at hnd
    have ih' := ih hnd.2
    by_cases e : f' = f
    · subst e
      have hn : AL.get f' xs = none := get_none_of_not_mem hnd.1
      rw [hn] at ih'
      simp only [Option.getD_none, ↓reduceIte] at ih'
      cases rs with
      | nil =>
        simp only [List.filter_cons, List.isEmpty_nil, Bool.not_true, Bool.false_eq_true, ↓reduceIte,
          AL.get, Option.getD_some]
        exact ih'
      | cons r rs' =>
        simp [AL.get]
    · cases rs with
      | nil =>
        simp only [List.filter_cons, List.isEmpty_nil, Bool.not_true, Bool.false_eq_true, ↓reduceIte,
          AL.get, e]
        exact ih'
      | cons r rs' =>
        simp only [List.filter_cons, List.isEmpty_cons, Bool.not_false, ↓reduceIte, List.map_cons,
          AL.get, e]
        exact ih'

/-- `truth s`, looked up at file `f` -/
theorem get_truth (s : St) (hnd : (AL.keys s.disk.data).Nodup) (f : Nat) :
    AL.get f (truth s) =
      (if dataOf s.disk f = [] then none else some (truthFile s.keydir f (dataOf s.disk f))) := by
  unfold truth dataOf
  exact get_truthList (truthFile s.keydir) f s.disk.data hnd

/-- every KeyDir entry of file `f` addresses a record of the file -/
theorem addr_of_inv {s : St} (hi : Inv s) (f : Nat) : Addr s.keydir f 0 (dataOf s.disk f) := by
  intro k l hg hf _
  obtain ⟨r, h1, h2, _, h4, _⟩ := hi.locs k l hg
  rw [hf] at h1
  exact ⟨r, h1, h2, h4⟩

/-- **counting invariant ⇒ the counters are the ground truth**, file by file -/
theorem stats_eq_truthFile {s : St} (hi : Inv s) (h : AccInv s) (f : Nat) :
    AL.get f s.stats =
      (if dataOf s.disk f = [] then none else some (truthFile s.keydir f (dataOf s.disk f))) := by
  have hf := h.files f
  by_cases e : dataOf s.disk f = []
  · simp only [e, ↓reduceIte]; exact hf.dom.mpr e
  · simp only [e, ↓reduceIte]
    have ht := hf.truth h.kdNodup (addr_of_inv hi f)
    cases hg : AL.get f s.stats with
    | none => exact absurd (hf.dom.mp hg) e
    | some st => simp only [statOf, hg, Option.getD_some] at ht; rw [ht]

/-- … and as a finite map the counters are `Store.truth` -/
theorem stats_eq_truth {s : St} (hi : Inv s) (h : AccInv s) (hw : DiskWf s) (f : Nat) :
    AL.get f s.stats = AL.get f (truth s) := by
  rw [get_truth s hw.dnodup f, stats_eq_truthFile hi h f]

/-! ### … and as a list, up to order -/

theorem nodup_of_keys {κ β : Type} {l : List (κ × β)} (h : (AL.keys l).Nodup) : l.Nodup :=
  List.Pairwise.of_map (fun x => x.1) (fun _ _ hab e => hab (congrArg _ e)) h

theorem truth_keys_nodup (s : St) (hnd : (AL.keys s.disk.data).Nodup) : (AL.keys (truth s)).Nodup := by
  have e : AL.keys (truth s) = AL.keys (s.disk.data.filter fun (_, rs) => !rs.isEmpty) := by
    unfold truth AL.keys
    rw [List.map_map]
    apply List.map_congr_left
    intro x _; rfl
  rw [e]
  exact List.Nodup.sublist (List.Sublist.map _ List.filter_sublist) hnd

/-- the counter list is the ground-truth list, up to the order of the files -/
theorem stats_perm_truth {s : St} (hi : Inv s) (h : AccInv s) (hw : DiskWf s) :
    s.stats.Perm (truth s) := by
  have ht := truth_keys_nodup s hw.dnodup
  apply (List.perm_ext_iff_of_nodup (nodup_of_keys h.statsNodup) (nodup_of_keys ht)).mpr
  intro x
  obtain ⟨f, st⟩ := x
  constructor
  · intro hm
    have := get_of_mem h.statsNodup hm
    rw [stats_eq_truth hi h hw] at this
    exact mem_of_get this
  · intro hm
    have := get_of_mem ht hm
    rw [← stats_eq_truth hi h hw] at this
    exact mem_of_get this

end Store.Stats
