/-
  Fault-aware merge pass (C20), part 10: with the order of the day in `merge_files` (copy the
  record — append the hint entry — re-point the index entry; commit 924dfa8, `hintFirst = true`)
  the running store satisfies the LIVES INVARIANT `LJ` after a pass that failed at ANY call.

  Idea: whatever call fails, the index of the running process is exactly the index the crash
  theory of the merge pass (Store/LivesLoop.lean, LivesUnlink.lean) associates with the
  directory the failed pass leaves: `CJ dB D kd a abs` — `D` has the clean visible part `dB` from
  which a scan recovers `kd` — holds with `kd` = the index IN MEMORY.  (With the old order this
  fails exactly for a failing hint append: the index is ahead of the hint file.)  A store whose
  directory has a clean visible part for its own index satisfies `LJ` (`CJ.toLJw`).

  One case needs a side condition: the removal of the DATA file of a selected file fails after
  its hint file has been removed, and that file was a stale merge output holding records its
  hint file did not list (left by an earlier killed or failed pass).  These records become
  visible to a scan and can be recovered at a different (later) position than the one the running
  index holds — same record, different entry — so `LJ` (index = what the scan recovers) does not
  hold literally.  `hvis` excludes it: every selected file is completely visible.  It holds
  whenever the store has no stale outputs (`RInv`, `Full`: every history without a kill or a fault
  inside a merge pass), and for selections that contain no stale output.
-/
import BitcaskVerif.Store.MergeFaultDir
import BitcaskVerif.Store.LivesHistory

namespace Store

/-- **a store whose directory has a clean visible part for its own index satisfies the lives
    invariant** -/
theorem CJ.toLJw {dB DB : Disk} {kd : List (Key × Loc)} {a : Nat} {m : Map} (h : CJ dB DB kd a m) {s : St}
    (hd : s.disk = DB) (hk : s.keydir = kd) (ha : s.active = a) (hh : AL.get a dB.hint = none) : LJw s dB := by
  subst hd hk ha
  have hkd : ∀ k, AL.get k s.keydir = replay (allEvs dB.data) k := fun k => congrFun h.clean.kd k
  refine ⟨⟨⟨?_, ?_, ?_, ?_⟩, h.clean.asc, ?_, h.clean.hx, hh⟩, ?_, h.sim, h.junk, h.fullA⟩
  · exact h.clean.locs
  · exact h.clean.max
  · exact h.clean.hmax
  · obtain ⟨v, hv⟩ := AL.get_of_mem_keys h.clean.mem
    show (AL.get s.active dB.data).isSome
    rw [hv]; rfl
  · intro k loc hg
    show replay (allEvs dB.data) k = some loc
    rw [← hkd]; exact hg
  · intro k hg
    show replay (allEvs dB.data) k = none
    rw [← hkd]; exact hg

/-- the state `sF` in which a failed pass (with `merge_fileid = mid`) leaves the store of a pass
    started in `s`: its directory has a clean visible part for ITS index, reading as before -/
def PJ (s : St) (mid : Nat) (sF : St) : Prop := ∃ dB a, CJ dB sF.disk sF.keydir a s.abs ∧ a ≤ mid

theorem PJ.of_cj {s : St} {mid : Nat} {sF : St} {dB DB : Disk} {kd : List (Key × Loc)} {a : Nat}
    (hd : sF.disk = DB) (hk : sF.keydir = kd) (h : CJ dB DB kd a s.abs) (ha : a ≤ mid) : PJ s mid sF :=
  ⟨dB, a, by rw [hd, hk]; exact h, ha⟩

/-- the move of the active file above every id the pass has used -/
theorem PJ.finish {s : St} {mid : Nat} {sF : St} (h : PJ s mid sF) : LJ (newActive sF (mid + 1)).1 := by
  obtain ⟨dB, a, cj, hle⟩ := h
  have hab : a < mid + 1 := by omega
  have cj' := cj.addData hab
  refine ⟨_, cj'.toLJw (s := (newActive sF (mid + 1)).1) rfl rfl rfl ?_⟩
  show AL.get (mid + 1) dB.hint = none
  cases hg : AL.get (mid + 1) dB.hint with
  | none => rfl
  | some v => have := cj.clean.hmax _ (AL.mem_keys_of_get hg); omega

/-! ### the copy loop -/

section
variable {s : St} {d1 : Disk}

/-- the loop on the visible part and on the real directory after the same fault-free iterations -/
theorem loopSim_cj (w : LJw s d1) {m1 m : MergeSt} (ls : LoopSim s d1 m1 m) (lx : LX { s with disk := d1 } m1) :
    CJ m1.s.disk m.s.disk m.s.keydir m.mid s.abs ∧
    dataOf m.s.disk m.mid = dataOf m1.s.disk m.mid ∧
    AL.get m.mid m.s.disk.hint = AL.get m.mid m1.s.disk.hint := by
  obtain ⟨cj, hd, hh⟩ := lx.cj w
  have eD : applyCalls s.disk m1.calls = m.s.disk := by rw [ls.ms.calls]; exact ls.fr
  rw [eD, ls.ms.kd, ls.ms.mid] at cj
  rw [eD, ls.ms.mid] at hd hh
  exact ⟨cj, hd, hh⟩

/-- **a failing iteration, order of the day**: whichever of its calls fails, the directory has a
    clean visible part for the index in memory -/
theorem failMove_pj (w : LJw s d1) {sel : List Nat} (hsel : ∀ id, id ∈ sel → id ≤ s.active)
    {m1 m : MergeSt} (ls : LoopSim s d1 m1 m) (lx : LX { s with disk := d1 } m1) (k : Key) (loc : Loc) (r : Rec)
    (hk : AL.get k m.s.keydir = some loc) (hs : loc.fid ∈ sel)
    (hr : recAt (dataOf m.s.disk loc.fid) loc.pos = some r) (i torn : Nat) :
    PJ s (failMove true m k loc r i torn).mid (failMove true m k loc r i torn).s := by
  obtain ⟨cj, hd, hh⟩ := loopSim_cj w ls lx
  have hk1 : AL.get k m1.s.keydir = some loc := by rw [ls.ms.kd]; exact hk
  have hle : loc.fid ≤ s.active := hsel _ hs
  -- the record on the visible side is the same record
  obtain ⟨r', g1, g2, g3, _, _⟩ := ls.minv.locs k loc hk1
  have hrr : r' = r := by
    have h1 := g1
    rw [ls.disk1 w, dataOf_dapp_le ls.newOk hle] at h1
    have h2 := w.sim.recAt h1
    rw [ls.disk w, dataOf_dapp_le ls.newOk hle] at hr
    rw [hr] at h2
    exact (Option.some.inj h2).symm
  subst hrr
  have hgt : s.active < m.mid := by have := ls.minv.midgt; rw [ls.ms.mid] at this; exact this
  -- the loop states after the complete copy (no rollover)
  have hNR1 : mergeStep { maxFile := m1.mpos + loc.len } sel m1 k =
      { s := moveSt m1 k loc r', mid := m1.mid, mpos := m1.mpos + loc.len, calls := moveCalls m1 k loc r' } := by
    rw [mergeStep_move _ sel m1 k loc r' hk1 hs g1]; simp
  have hNR : mergeStep { maxFile := m1.mpos + loc.len } sel m k =
      { s := moveSt m k loc r', mid := m.mid, mpos := m.mpos + loc.len, calls := moveCalls m k loc r' } := by
    rw [mergeStep_move _ sel m k loc r' hk hs hr, ls.ms.mpos]; simp
  have ls' := ls.step { maxFile := m1.mpos + loc.len } w hsel k
  have lx' := mergeStep_lx { maxFile := m1.mpos + loc.len } sel (s := { s with disk := d1 }) hsel lx k
  obtain ⟨cj', _, _⟩ := loopSim_cj w ls' lx'
  rw [hNR] at cj'
  simp only at cj'
  rcases i with _ | _ | _ | _ | _ | i
  · exact ⟨_, _, cj.setTail m.mid _ hd hh, Nat.le_refl _⟩
  · have hmid : (AL.get m.mid m1.s.disk.hint).isSome := by
      have := lx.li.mr.hmid; rw [ls.ms.mid] at this; exact this
    exact ⟨_, _, cj.half hmid hd hh hk (by omega) g1 g2 g3, Nat.le_refl _⟩
  · exact ⟨_, _, cj', Nat.le_refl _⟩
  · exact ⟨_, _, cj', Nat.le_refl _⟩
  · exact ⟨_, _, cj', Nat.le_succ _⟩
  · exact ⟨_, _, cj'.addData (Nat.lt_succ_self _), Nat.le_refl _⟩

/-- invariant of the fault-aware loop, order of the day -/
def QJ (s : St) (d1 : Disk) (j : Nat) (x : FM) : Prop :=
  (x.failed = true → PJ s x.m.mid x.m.s) ∧
  (x.failed = false → x.m.calls.length ≤ j ∧ ∃ m1, LoopSim s d1 m1 x.m ∧ LX { s with disk := d1 } m1)

theorem mergeStepF_qj (w : LJw s d1) (cfg : Cfg) {sel : List Nat} (hsel : ∀ id, id ∈ sel → id ≤ s.active)
    (j torn : Nat) (x : FM) (k : Key) (h : QJ s d1 j x) : QJ s d1 j (mergeStepF true cfg sel j torn x k) := by
  cases hf : x.failed with
  | true => rw [mergeStepF_of_failed cfg sel j torn hf k]; exact h
  | false =>
    obtain ⟨hlen, m1, ls, lx⟩ := h.2 hf
    by_cases hle : (mergeStep cfg sel x.m k).calls.length ≤ j
    · rw [mergeStepF_no_fault hf hle]
      exact ⟨(fun e => by cases e), fun _ => ⟨hle, _, ls.step cfg w hsel k,
        mergeStep_lx cfg sel (s := { s with disk := d1 }) hsel lx k⟩⟩
    · have hself : PJ s x.m.mid x.m.s := ⟨_, _, (loopSim_cj w ls lx).1, Nat.le_refl _⟩
      unfold mergeStepF
      simp only [hf, Bool.false_eq_true, ↓reduceIte, hle]
      cases hk : AL.get k x.m.s.keydir with
      | none => exact ⟨fun _ => hself, fun e => by cases e⟩
      | some loc =>
        simp only
        cases hr : recAt (dataOf x.m.s.disk loc.fid) loc.pos with
        | none => exact ⟨fun _ => hself, fun e => by cases e⟩
        | some r =>
          simp only
          by_cases hs : loc.fid ∈ sel
          · exact ⟨fun _ => failMove_pj w hsel ls lx k loc r hk hs hr _ _, fun e => by cases e⟩
          · exfalso
            rw [mergeStep_skip_unsel cfg sel x.m k loc hk hs] at hle
            exact hle hlen

theorem foldF_qj (w : LJw s d1) (cfg : Cfg) {sel : List Nat} (hsel : ∀ id, id ∈ sel → id ≤ s.active)
    (j torn : Nat) (order : List Key) : ∀ (x : FM), QJ s d1 j x →
      QJ s d1 j (order.foldl (mergeStepF true cfg sel j torn) x) := by
  induction order with
  | nil => intro x h; exact h
  | cons k ks ih => intro x h; exact ih _ (mergeStepF_qj w cfg hsel j torn x k h)

theorem startF_qj (w : LJw s d1) (j : Nat) : QJ s d1 j (startF s j) := by
  rcases j with _ | _ | j
  · exact ⟨fun _ => ⟨_, _, w.cj, Nat.le_succ _⟩, fun e => by cases e⟩
  · exact ⟨fun _ => ⟨_, _, w.cj.addData (Nat.lt_succ_self _), Nat.le_refl _⟩, fun e => by cases e⟩
  · refine ⟨(fun e => by cases e), fun _ => ⟨?_, mergeStart { s with disk := d1 }, LoopSim.start w,
      mergeStart_lx w.rinv w.full1⟩⟩
    show 2 ≤ j + 1 + 1
    omega

/-! ### the fsyncs -/

theorem syncF_qj (w : LJw s d1) {j : Nat} {x : FM} (h : QJ s d1 j x) :
    ((syncF j x).failed = true → PJ s (syncF j x).m.mid (syncF j x).m.s) ∧
    ((syncF j x).failed = false → x.failed = false ∧ (syncF j x).m.s = x.m.s ∧ (syncF j x).m.mid = x.m.mid ∧
      ∃ m1, LoopSim s d1 m1 x.m ∧ LX { s with disk := d1 } m1) := by
  cases hf : x.failed with
  | true =>
    have e : syncF j x = x := by unfold syncF; simp only [hf, ↓reduceIte]
    rw [e]
    exact ⟨fun _ => h.1 hf, fun e => by rw [hf] at e; cases e⟩
  | false =>
    obtain ⟨_, m1, ls, lx⟩ := h.2 hf
    have hself : PJ s x.m.mid x.m.s := ⟨_, _, (loopSim_cj w ls lx).1, Nat.le_refl _⟩
    by_cases h1 : j = x.m.calls.length
    · have e : syncF j x = { m := x.m, failed := true } := by
        unfold syncF; simp only [hf, Bool.false_eq_true, ↓reduceIte, h1]
      rw [e]
      exact ⟨fun _ => hself, fun e => by cases e⟩
    · by_cases h2 : j = x.m.calls.length + 1
      · have e : syncF j x = { m := { x.m with calls := x.m.calls ++ [Call.fsync ⟨.data, x.m.mid⟩] }, failed := true } := by
          unfold syncF; simp only [hf, Bool.false_eq_true, ↓reduceIte, h1]
          rw [if_pos h2]
        rw [e]
        exact ⟨fun _ => hself, fun e => by cases e⟩
      · have e : syncF j x = { m := { x.m with calls := x.m.calls ++
            [Call.fsync ⟨.data, x.m.mid⟩, Call.fsync ⟨.hint, x.m.mid⟩] }, failed := false } := by
          unfold syncF; simp only [hf, Bool.false_eq_true, ↓reduceIte, h1, h2]
        rw [e]
        exact ⟨(fun e => by cases e), fun _ => ⟨rfl, rfl, rfl, m1, ls, lx⟩⟩

/-! ### the removal of the inputs -/

/-- after the files `done` have been removed (state of the fault-free removal) -/
theorem unlinked_cj (w : LJw s d1) {sel : List Nat} (hsel : ∀ id, id ∈ sel → id ≤ s.active)
    {m1 L : MergeSt} (ls : LoopSim s d1 m1 L) (lx : LX { s with disk := d1 } m1)
    (hunsel : ∀ k loc, AL.get k L.s.keydir = some loc → loc.fid ∉ sel)
    {done : List Nat} (hd : ∀ id, id ∈ done → id ∈ sel) (hz : NoHazard s done) :
    CJ (unlinkedDisk m1.s.disk done) (unlinkedDisk L.s.disk done) L.s.keydir L.mid s.abs := by
  have hunsel1 : ∀ k loc, AL.get k m1.s.keydir = some loc → loc.fid ∉ sel := by
    intro k loc hk; rw [ls.ms.kd] at hk; exact hunsel k loc hk
  have := lx.cjU w hsel hunsel1 hd hz
  have eD : applyCalls s.disk m1.calls = L.s.disk := by rw [ls.ms.calls]; exact ls.fr
  rw [eD, ls.ms.kd, ls.ms.mid] at this
  exact this

/-- **the removal phase, failing or not**: the directory has a clean visible part for the index
    in memory.  `hvis`: the selected files are completely visible. -/
theorem unlinkFoldF_pj (w : LJw s d1) {sel : List Nat} (hsel : ∀ id, id ∈ sel → id ≤ s.active)
    {m1 L : MergeSt} (ls : LoopSim s d1 m1 L) (lx : LX { s with disk := d1 } m1)
    (hunsel : ∀ k loc, AL.get k L.s.keydir = some loc → loc.fid ∉ sel)
    (hz : ∀ done, done <+: sel → NoHazard s done) (hvis : ∀ id, id ∈ sel → dataOf s.disk id = dataOf d1 id)
    (c0 : List Call) (j : Nat) :
    ∀ (l done : List Nat), done ++ l = sel → ∀ (x : (St × List Call) × Bool),
      (x.2 = true → PJ s L.mid x.1.1) → (x.2 = false → x.1 = done.foldl unlinkOne (L.s, c0)) →
      PJ s L.mid (l.foldl (unlinkOneF j) x).1.1 := by
  -- the state after the fault-free removal of a prefix
  have hbase : ∀ done, done <+: sel →
      (done.foldl unlinkOne (L.s, c0)).1.disk = unlinkedDisk L.s.disk done ∧
      (done.foldl unlinkOne (L.s, c0)).1.keydir = L.s.keydir ∧
      CJ (unlinkedDisk m1.s.disk done) (unlinkedDisk L.s.disk done) L.s.keydir L.mid s.abs := by
    intro done hd
    exact ⟨unlinkFold_disk' done _, unlinkFold_keydir done _,
      unlinked_cj w hsel ls lx hunsel (fun i hi => hd.subset hi) (hz done hd)⟩
  intro l
  induction l with
  | nil =>
    intro done hsplit x h1 h2
    simp only [List.append_nil] at hsplit
    simp only [List.foldl_nil]
    cases hf : x.2 with
    | true => exact h1 hf
    | false =>
      obtain ⟨b1, b2, b3⟩ := hbase done (hsplit ▸ List.prefix_refl _)
      rw [h2 hf]
      exact PJ.of_cj b1 b2 b3 (Nat.le_refl _)
  | cons id l ih =>
    intro done hsplit x h1 h2
    simp only [List.foldl_cons]
    have hpre : done <+: sel := ⟨id :: l, hsplit⟩
    have hidsel : id ∈ sel := by rw [← hsplit]; simp
    apply ih (done ++ [id]) (by rw [← hsplit]; simp)
    · -- after a failure
      intro hf'
      cases hf : x.2 with
      | true => rw [unlinkOneF_of_failed j hf id]; exact h1 hf
      | false =>
        obtain ⟨b1, b2, b3⟩ := hbase done hpre
        have hx := h2 hf
        by_cases hle : (unlinkOne x.1 id).2.length ≤ j
        · have e : unlinkOneF j x id = (unlinkOne x.1 id, false) := by
            unfold unlinkOneF; simp only [hf, Bool.false_eq_true, ↓reduceIte, hle]
          rw [e] at hf'; cases hf'
        · unfold unlinkOneF
          simp only [hf, Bool.false_eq_true, ↓reduceIte, hle]
          split
          · -- the hint file of `id` is gone, its data file is not
            refine PJ.of_cj (DB := { unlinkedDisk L.s.disk done with hint := AL.del id (unlinkedDisk L.s.disk done).hint })
              (by simp only; rw [hx, b1]) (by simp only; rw [hx, b2]) (b3.dropHintSame id ?_) (Nat.le_refl _)
            by_cases hq : id ∈ done
            · rw [dataOf_unlinked_mem hq, dataOf_unlinked_mem hq]
            · rw [dataOf_unlinked hq, dataOf_unlinked hq, ls.disk w, ls.disk1 w,
                dataOf_dapp_le ls.newOk (hsel _ hidsel), dataOf_dapp_le ls.newOk (hsel _ hidsel)]
              exact hvis id hidsel
          · exact PJ.of_cj (by simp only; rw [hx, b1]) (by simp only; rw [hx, b2]) b3 (Nat.le_refl _)
    · -- no failure so far
      intro hf'
      cases hf : x.2 with
      | true => rw [unlinkOneF_of_failed j hf id, hf] at hf'; cases hf'
      | false =>
        obtain ⟨_, e2⟩ := unlinkOneF_not_failed hf'
        rw [e2, h2 hf, List.foldl_append]
        rfl

/-- after the fault-free loop no index entry points into a selected file -/
theorem loop0_unsel (cfg : Cfg) {s : St} (h : Inv s) {sel : List Nat} (hsel : ∀ id, id ∈ sel → id ≤ s.active)
    {order : List Key} (hcov : Covers order s) :
    ∀ k loc, AL.get k (loop0 cfg s sel order).s.keydir = some loc → loc.fid ∉ sel := by
  obtain ⟨_, f2, f3, _⟩ := mergeFold_spec cfg sel s.active s.abs hsel order (start0 s) (mergeStart_minv h _)
  intro k loc hk
  apply f3 k _ loc hk
  left
  apply hcov
  have : (AL.get k (List.foldl (mergeStep cfg sel) (start0 s) order).s.keydir).isSome =
      (AL.get k s.keydir).isSome := f2 k
  unfold loop0 at hk
  rw [hk] at this
  simp only [Option.isSome_some] at this
  cases hg : AL.get k s.keydir with
  | none => rw [hg] at this; cases this
  | some l => exact AL.mem_keys_of_get hg

/-! ### the pass -/

/-- **when `merge_files` returns — failed at any call, or not at all — the directory has a clean
    visible part for the index in memory** (order of the day) -/
theorem mfZ_pj (w : LJw s d1) (cfg : Cfg) (sel : List Nat) (order : List Key) (j torn : Nat)
    (hsel : ∀ id, id ∈ sel → id ≤ s.active) (hcov : Covers order s)
    (hz : ∀ done, done <+: sel → NoHazard s done) (hvis : ∀ id, id ∈ sel → dataOf s.disk id = dataOf d1 id) :
    PJ s (mfY true cfg s sel order j torn).m.mid (mfZ true cfg s sel order j torn).1.1 := by
  have hx : QJ s d1 j (mfX true cfg s sel order j torn) := foldF_qj w cfg hsel j torn order _ (startF_qj w j)
  obtain ⟨y1, y2⟩ := syncF_qj w hx
  cases hyf : (mfY true cfg s sel order j torn).failed with
  | true =>
    have hz' : mfZ true cfg s sel order j torn =
        (((mfY true cfg s sel order j torn).m.s, (mfY true cfg s sel order j torn).m.calls), true) := by
      unfold mfZ; rw [hyf]; exact unlinkFoldF_of_failed j sel rfl
    rw [hz']
    exact y1 hyf
  | false =>
    obtain ⟨hxf, ys, ym, m1, ls, lx⟩ := y2 hyf
    obtain ⟨sf, xe⟩ := foldF_not_failed order hxf
    obtain ⟨_, se⟩ := startF_not_failed sf
    have hxm : (mfX true cfg s sel order j torn).m = loop0 cfg s sel order := by
      unfold mfX loop0; rw [xe, se]
    have hunsel : ∀ k loc, AL.get k (mfX true cfg s sel order j torn).m.s.keydir = some loc → loc.fid ∉ sel := by
      rw [hxm]; exact loop0_unsel cfg w.inv hsel hcov
    have hys : (mfY true cfg s sel order j torn).m.s = (mfX true cfg s sel order j torn).m.s := ys
    have hym : (mfY true cfg s sel order j torn).m.mid = (mfX true cfg s sel order j torn).m.mid := ym
    rw [hym]
    unfold mfZ
    rw [hyf]
    apply unlinkFoldF_pj w hsel ls lx hunsel hz hvis (mfY true cfg s sel order j torn).m.calls j sel [] rfl
    · intro e; cases e
    · intro _; rw [hys]; rfl

/-- **the lives invariant after a merge pass that failed at ANY call (or at none)**, order of the
    day, after the possibly pending move of the active file -/
theorem mergeF_lj (w : LJw s d1) (cfg : Cfg) (sel : List Nat) (order : List Key) (j torn : Nat)
    (hsel : ∀ id, id ∈ sel → id ≤ s.active) (hcov : Covers order s)
    (hz : ∀ done, done <+: sel → NoHazard s done) (hvis : ∀ id, id ∈ sel → dataOf s.disk id = dataOf d1 id) :
    LJ (mergeF true cfg s sel order j torn).p.move.1 := by
  have hp := (mfZ_pj w cfg sel order j torn hsel hcov hz hvis).finish
  rw [mergeF_eq]
  split
  · exact hp
  · split
    · exact hp
    · exact hp

end

/-! ### the statements without the visible part -/

/-- the lives invariant, and every selected file is completely visible to a scan: no selected
    file is a stale merge output holding records that its hint file does not list -/
def LJsel (s : St) (sel : List Nat) : Prop :=
  ∃ d1, LJw s d1 ∧ ∀ id, id ∈ sel → dataOf s.disk id = dataOf d1 id

theorem LJsel.lj {s : St} {sel : List Nat} (h : LJsel s sel) : LJ s := let ⟨d1, w, _⟩ := h; ⟨d1, w⟩

/-- stores without stale merge outputs (every history without a kill or a fault inside a pass) -/
theorem ljsel_of_rinv {s : St} (h : RInv s) (hf : Full s) (sel : List Nat) : LJsel s sel :=
  ⟨s.disk, LJw.of_rinv h hf, fun _ _ => rfl⟩

/-- selections of files without hint files (files written by puts and deletes) -/
theorem ljsel_of_unhinted {s : St} (h : LJ s) {sel : List Nat} (hu : ∀ id, id ∈ sel → AL.get id s.disk.hint = none) :
    LJsel s sel := by
  obtain ⟨d1, w⟩ := h
  exact ⟨d1, w, fun id hid => (w.sim.file id).unh (hu id hid)⟩

/-- in a store satisfying the lives invariant the index is the index a restart would build -/
theorem LJ.keydir_open {s : St} (h : LJ s) : kdF (openDisk s.disk).1.keydir = kdF s.keydir := by
  obtain ⟨d1, w⟩ := h
  rw [w.wit.keydir, w.kd_eq]

/-- **the lives invariant after a pass that failed at ANY call**, order of the day -/
theorem mergeF_ljsel {s : St} {sel : List Nat} (h : LJsel s sel) (cfg : Cfg) (order : List Key) (j torn : Nat)
    (hsel : ∀ id, id ∈ sel → id ≤ s.active) (hcov : Covers order s)
    (hsorted : sel.Pairwise (· ≤ ·)) (hz : NoHazard s sel) :
    LJ (mergeF true cfg s sel order j torn).p.move.1 := by
  obtain ⟨d1, w, hvis⟩ := h
  exact mergeF_lj w cfg sel order j torn hsel hcov
    (fun _ hd => noHazard_prefix_of_sorted w.asc w.fullA hsorted hz hd) hvis

open Tr in
/-- **failed pass, then any valid operation sequence, then a restart** -/
theorem mergeF_then_ops {s : St} {sel : List Nat} (h : LJsel s sel) (cfg : Cfg) (order : List Key) (j torn : Nat)
    (hsel : ∀ id, id ∈ sel → id ≤ s.active) (hcov : Covers order s)
    (hsorted : sel.Pairwise (· ≤ ·)) (hz : NoHazard s sel)
    (cfg' : Cfg) (ops : List TOp) (hv : ValidOps cfg' (mergeF true cfg s sel order j torn).p.move.1 ops) :
    LJ (runC cfg' (mergeF true cfg s sel order j torn).p.move.1 ops) ∧
    (runC cfg' (mergeF true cfg s sel order j torn).p.move.1 ops).abs = specRun s.abs ops ∧
    RecJ (runC cfg' (mergeF true cfg s sel order j torn).p.move.1 ops).disk (specRun s.abs ops) := by
  have hl := mergeF_ljsel h cfg order j torn hsel hcov hsorted hz
  obtain ⟨hp, ha⟩ := mergeF_ok (hintFirst := true) cfg s sel order j torn h.lj.inv hsel hcov
  obtain ⟨a, b⟩ := runC_lj cfg' ops hl hv
  rw [hp.move_abs, ha] at b
  refine ⟨a, b, ?_⟩
  have := a.recovers
  rw [b] at this
  exact this

end Store
