/-
  The merge pass and the recovery invariant: `mergeWith` keeps `RInv` (so hint files stay exact
  and every index entry stays recoverable), and it keeps `Full` exactly when no absent key is
  resurrected by the unselected files alone (`NoHazard`; its failure is defect D3).
-/
import BitcaskVerif.Store.RecInv

namespace Store

/-- No key that is absent from the index (never written, or deleted) would be recovered by a
    startup scan of the files that are NOT selected for the merge.  (The merge drops every
    tombstone of the selected files; a deleted key whose deciding tombstone is selected and that
    still has a value record in an unselected file violates this: defect D3.) -/
def NoHazard (s : St) (sel : List Nat) : Prop :=
  ∀ k, AL.get k s.keydir = none →
    replay ((allEvs s.disk.data).filter (fun e => decide (e.loc.fid ∉ sel))) k = none

/-- loop invariant of the merge for recovery (in addition to `MInv`) -/
structure MR (m : MergeSt) : Prop where
  asc : Asc m.s.disk.data
  wkd : ∀ k loc, AL.get k m.s.keydir = some loc → replay (allEvs m.s.disk.data) k = some loc
  hx : HintsExact m.s.disk
  hmid : (AL.get m.mid m.s.disk.hint).isSome

/-! ### association-list filters -/

theorem get_filter {β : Type} (q : Nat → Bool) (k : Nat) (l : List (Nat × β)) :
    AL.get k (l.filter (fun p => q p.1)) = if q k then AL.get k l else none := by
  induction l with
  | nil => simp [AL.get]
  | cons x xs ih =>
    obtain ⟨f, w⟩ := x
    by_cases hq : q f = true
    · simp only [List.filter, hq, AL.get]
      by_cases hf : f = k
      · subst hf; simp [hq]
      · simp only [hf, ↓reduceIte]; exact ih
    · simp only [List.filter, hq, AL.get]
      by_cases hf : f = k
      · subst hf; simp only [↓reduceIte, hq] at ih ⊢; rw [ih]; simp
      · simp only [hf, ↓reduceIte]; exact ih

theorem mem_keys_filter {β : Type} {p : Nat × β → Bool} {l : List (Nat × β)} {id : Nat}
    (h : id ∈ AL.keys (l.filter p)) : id ∈ AL.keys l := by
  simp only [AL.keys, List.mem_map] at h ⊢
  obtain ⟨y, hy, rfl⟩ := h
  exact ⟨y, (List.mem_filter.mp hy).1, rfl⟩

/-! ### the two directory updates of the merge -/

theorem hintsExact_roll {d : Disk} (h : HintsExact d) (mid' : Nat) : HintsExact (rollDisk d mid') := by
  intro fid hs hg
  simp only [rollDisk] at hg ⊢
  by_cases hf : fid = mid'
  · subst hf
    rw [AL.get_set_same] at hg
    cases hg
    simp [dataOf, AL.get_set_same, hintEvs, evData]
  · rw [AL.get_set_other hf] at hg
    rw [dataOf_set_other' d hf]
    exact h fid hs hg

theorem roll_events {d : Disk} (ha : Asc d.data) {mid' : Nat} (hlt : ∀ id ∈ AL.keys d.data, id < mid') :
    Asc (rollDisk d mid').data ∧ allEvs (rollDisk d mid').data = allEvs d.data :=
  ⟨(asc_set_new ha hlt).2, allEvs_set_new ha hlt⟩

/-- the event of the record a merge step copies -/
theorem move_event {A : Nat} {abs0 : Map} {m : MergeSt} (h : MInv A abs0 m) (hr : MR m) {k : Key} {loc : Loc}
    {r : Rec} (hk : AL.get k m.s.keydir = some loc)
    (h1 : recAt (dataOf m.s.disk loc.fid) loc.pos = some r) (h2 : r.key = k) (h3 : r.val.isSome)
    (h4 : r.len = loc.len) :
    mkEv m.mid (fileSize (dataOf m.s.disk m.mid)) r = ⟨k, newLocOf m loc, false⟩ := by
  obtain ⟨r', g1, _, _, _, g5, _⟩ := locOk_of_replay hr.asc (hr.wkd k loc hk)
  rw [h1] at g1
  cases g1
  have hv : r.val.isNone = false := by
    cases hv : r.val with
    | none => simp [hv] at h3
    | some v => rfl
  simp only [mkEv, newLocOf, h2, h4, g5, hv, ← h.pos]

theorem move_events {A : Nat} {abs0 : Map} {m : MergeSt} (h : MInv A abs0 m) (hr : MR m) (k : Key) (loc : Loc)
    (r : Rec) :
    Asc (moveDisk m k loc r).data ∧
    allEvs (moveDisk m k loc r).data =
      allEvs m.s.disk.data ++ [mkEv m.mid (fileSize (dataOf m.s.disk m.mid)) r] := by
  have hmem : m.mid ∈ AL.keys m.s.disk.data := by
    have := h.midex
    cases hg : AL.get m.mid m.s.disk.data with
    | none => simp [hg] at this
    | some v => exact AL.mem_keys_of_get hg
  exact ⟨asc_set_mem hr.asc hmem, allEvs_set_max hr.asc h.ids h.midex r⟩

theorem move_hintsExact {A : Nat} {abs0 : Map} {m : MergeSt} (_h : MInv A abs0 m) (hr : MR m) {k : Key} {loc : Loc}
    {r : Rec} (hev : mkEv m.mid (fileSize (dataOf m.s.disk m.mid)) r = ⟨k, newLocOf m loc, false⟩) :
    HintsExact (moveDisk m k loc r) := by
  intro fid hs hg
  simp only [moveDisk] at hg ⊢
  by_cases hf : fid = m.mid
  · subst hf
    rw [AL.get_set_same] at hg
    cases hg
    obtain ⟨hs0, hhs0⟩ := Option.isSome_iff_exists.mp hr.hmid
    have h0 := hr.hx m.mid hs0 hhs0
    simp only [dataOf, AL.get_set_same, Option.getD_some, hhs0]
    have := evData_snoc m.mid (dataOf m.s.disk m.mid) r
    simp only [dataOf] at this h0 hev
    rw [this, hev, ← h0]
    simp [hintEvs, hintEv, newLocOf]
  · rw [AL.get_set_other hf] at hg
    rw [dataOf_set_other' m.s.disk hf]
    exact hr.hx fid hs hg

/-! ### one merge iteration -/

theorem mergeStep_cases (cfg : Cfg) (sel : List Nat) {A : Nat} {abs0 : Map} (m : MergeSt) (k : Key)
    (h : MInv A abs0 m) :
    mergeStep cfg sel m k = m ∨
    ∃ loc r, AL.get k m.s.keydir = some loc ∧ loc.fid ∈ sel ∧
      recAt (dataOf m.s.disk loc.fid) loc.pos = some r ∧ r.key = k ∧ r.val.isSome ∧ r.len = loc.len ∧
      (mergeStep cfg sel m k).s.keydir = AL.set k (newLocOf m loc) m.s.keydir ∧
      (((mergeStep cfg sel m k).s.disk = moveDisk m k loc r ∧ (mergeStep cfg sel m k).mid = m.mid) ∨
       ((mergeStep cfg sel m k).s.disk = rollDisk (moveDisk m k loc r) (m.mid + 1) ∧
         (mergeStep cfg sel m k).mid = m.mid + 1)) := by
  cases hk : AL.get k m.s.keydir with
  | none => exact .inl (mergeStep_skip_none cfg sel m k hk)
  | some loc =>
    by_cases hsel : loc.fid ∈ sel
    · obtain ⟨r, h1, h2, h3, h4, _⟩ := h.locs k loc hk
      right
      refine ⟨loc, r, rfl, hsel, h1, h2, h3, h4, ?_⟩
      rw [mergeStep_move cfg sel m k loc r hk hsel h1]
      by_cases hroll : m.mpos + loc.len > cfg.maxFile
      · rw [if_pos hroll]
        exact ⟨rfl, .inr ⟨rfl, rfl⟩⟩
      · rw [if_neg hroll]
        exact ⟨rfl, .inl ⟨rfl, rfl⟩⟩
    · exact .inl (mergeStep_skip_unsel cfg sel m k loc hk hsel)

/-- the events after a merge step: unchanged, or one value event of the visited key appended
    (which the index now points to) -/
theorem mergeStep_events (cfg : Cfg) (sel : List Nat) {A : Nat} {abs0 : Map} (m : MergeSt) (k : Key)
    (h : MInv A abs0 m) (hr : MR m) :
    mergeStep cfg sel m k = m ∨
    ∃ loc, AL.get k m.s.keydir = some loc ∧
      (mergeStep cfg sel m k).s.keydir = AL.set k (newLocOf m loc) m.s.keydir ∧
      allEvs (mergeStep cfg sel m k).s.disk.data =
        allEvs m.s.disk.data ++ [⟨k, newLocOf m loc, false⟩] ∧
      Asc (mergeStep cfg sel m k).s.disk.data ∧ HintsExact (mergeStep cfg sel m k).s.disk ∧
      (AL.get (mergeStep cfg sel m k).mid (mergeStep cfg sel m k).s.disk.hint).isSome := by
  rcases mergeStep_cases cfg sel m k h with e | ⟨loc, r, hk, hsel, h1, h2, h3, h4, hkd, hd⟩
  · exact .inl e
  · right
    have hev := move_event h hr hk h1 h2 h3 h4
    obtain ⟨ma, me⟩ := move_events h hr k loc r
    rw [hev] at me
    have mh := move_hintsExact h hr hev
    refine ⟨loc, hk, hkd, ?_⟩
    rcases hd with ⟨hd, hmid⟩ | ⟨hd, hmid⟩
    · rw [hd, hmid]
      exact ⟨me, ma, mh, by simp [moveDisk, AL.get_set_same]⟩
    · have hlt : ∀ id ∈ AL.keys (moveDisk m k loc r).data, id < m.mid + 1 := by
        intro id hid
        simp only [moveDisk] at hid
        rcases mem_keys_set hid with e | e
        · omega
        · have := h.ids id e; omega
      obtain ⟨ra, re⟩ := roll_events ma hlt
      rw [hd, hmid]
      exact ⟨by rw [re, me], ra, hintsExact_roll mh _, by simp [rollDisk, AL.get_set_same]⟩

theorem mergeStep_mr (cfg : Cfg) (sel : List Nat) {A : Nat} {abs0 : Map} (m : MergeSt) (k : Key)
    (h : MInv A abs0 m) (hr : MR m) : MR (mergeStep cfg sel m k) := by
  rcases mergeStep_events cfg sel m k h hr with e | ⟨loc, hk, hkd, hev, ha, hh, hm⟩
  · rw [e]; exact hr
  · constructor
    · exact ha
    · intro k' l hk'
      rw [hev]
      rw [hkd, AL.get_set] at hk'
      by_cases hkk : k' = k
      · subst hkk
        simp only [↓reduceIte, Option.some.injEq] at hk'
        subst hk'
        have := replay_snoc_same (allEvs m.s.disk.data) ⟨k', newLocOf m loc, false⟩
        simpa using this
      · simp only [hkk, ↓reduceIte] at hk'
        rw [replay_snoc_other _ _ (fun e => hkk e.symm)]
        exact hr.wkd k' l hk'
    · exact hh
    · exact hm

/-- for a key that is absent after a merge step: it was absent before, and the scan of the
    unselected files decides it as before -/
theorem mergeStep_absent (cfg : Cfg) (sel : List Nat) {A : Nat} {abs0 : Map} (m : MergeSt) (k : Key)
    (h : MInv A abs0 m) (hr : MR m) (k' : Key) (hk' : AL.get k' (mergeStep cfg sel m k).s.keydir = none) :
    AL.get k' m.s.keydir = none ∧
    replay ((allEvs (mergeStep cfg sel m k).s.disk.data).filter (fun e => decide (e.loc.fid ∉ sel))) k' =
      replay ((allEvs m.s.disk.data).filter (fun e => decide (e.loc.fid ∉ sel))) k' := by
  rcases mergeStep_events cfg sel m k h hr with e | ⟨loc, hk, hkd, hev, _⟩
  · rw [e] at hk' ⊢; exact ⟨hk', rfl⟩
  · rw [hkd, AL.get_set] at hk'
    by_cases hkk : k' = k
    · simp [hkk] at hk'
    · simp only [hkk, ↓reduceIte] at hk'
      refine ⟨hk', ?_⟩
      rw [hev, List.filter_append, replay_append_of_no_key]
      intro e he
      have := (List.mem_filter.mp he).1
      simp only [List.mem_singleton] at this
      subst this
      exact fun e => hkk e.symm

/-- the whole merge loop -/
theorem mergeFold_mr (cfg : Cfg) (sel : List Nat) (A : Nat) (abs0 : Map) (hselA : ∀ id, id ∈ sel → id ≤ A)
    (order : List Key) : ∀ (m : MergeSt), MInv A abs0 m → MR m →
    MR (order.foldl (mergeStep cfg sel) m) ∧
      (∀ k', AL.get k' (order.foldl (mergeStep cfg sel) m).s.keydir = none →
        AL.get k' m.s.keydir = none ∧
        replay ((allEvs (order.foldl (mergeStep cfg sel) m).s.disk.data).filter
            (fun e => decide (e.loc.fid ∉ sel))) k' =
          replay ((allEvs m.s.disk.data).filter (fun e => decide (e.loc.fid ∉ sel))) k') := by
  induction order with
  | nil => intro m _ hr; exact ⟨hr, fun k' hk' => ⟨hk', rfl⟩⟩
  | cons k ks ih =>
    intro m h hr
    have h' := (mergeStep_spec cfg sel A abs0 hselA m k h).1
    obtain ⟨i1, i2⟩ := ih (mergeStep cfg sel m k) h' (mergeStep_mr cfg sel m k h hr)
    simp only [List.foldl_cons]
    refine ⟨i1, fun k' hk' => ?_⟩
    obtain ⟨j1, j2⟩ := i2 k' hk'
    obtain ⟨j3, j4⟩ := mergeStep_absent cfg sel m k h hr k' j1
    exact ⟨j3, by rw [j2, j4]⟩

/-! ### removal of the merged files -/

theorem unlinkOne_disk (st : St × List Call) (id : Nat) :
    (unlinkOne st id).1.disk =
      { data := AL.del id st.1.disk.data, hint := AL.del id st.1.disk.hint, tails := st.1.disk.tails } := by
  obtain ⟨s, c⟩ := st; rfl

theorem unlinkFold_disk (l : List Nat) : ∀ (st : St × List Call),
    (l.foldl unlinkOne st).1.disk =
      { data := st.1.disk.data.filter (fun p => decide (p.1 ∉ l)),
        hint := st.1.disk.hint.filter (fun p => decide (p.1 ∉ l)),
        tails := st.1.disk.tails } := by
  induction l with
  | nil =>
    intro st
    have e : ∀ {β : Type} (l : List (Nat × β)), l.filter (fun _ => true) = l := fun l => by simp
    simp [e]
  | cons id ids ih =>
    intro st
    simp only [List.foldl_cons]
    rw [ih, unlinkOne_disk]
    simp only [del_eq_filter, List.filter_filter, List.mem_cons, not_or]
    congr 1
    · congr 1; funext p; simp [Bool.and_comm]
    · congr 1; funext p; simp [Bool.and_comm]

/-- the state in which the merge loop starts -/
def mergeStart (s : St) : MergeSt :=
  { s := { s with disk := rollDisk s.disk (s.active + 1) }, mid := s.active + 1, mpos := 0,
    calls := [Call.create ⟨.data, s.active + 1⟩, Call.create ⟨.hint, s.active + 1⟩] }

/-- the state after the merge loop -/
def mergeLoop (cfg : Cfg) (s : St) (sel : List Nat) (order : List Key) : MergeSt :=
  order.foldl (mergeStep cfg sel) (mergeStart s)

theorem mergeWith_fst (cfg : Cfg) (s : St) (sel : List Nat) (order : List Key) :
    (mergeWith cfg s sel order).1 =
      (newActive (sel.foldl unlinkOne ((mergeLoop cfg s sel order).s,
        (mergeLoop cfg s sel order).calls ++
          [Call.fsync ⟨.data, (mergeLoop cfg s sel order).mid⟩,
           Call.fsync ⟨.hint, (mergeLoop cfg s sel order).mid⟩])).1
        ((mergeLoop cfg s sel order).mid + 1)).1 := rfl

/-- the loop starts in a state satisfying both loop invariants -/
theorem mergeStart_spec (s : St) (h : RInv s) :
    MInv s.active s.abs (mergeStart s) ∧ MR (mergeStart s) ∧
      allEvs (mergeStart s).s.disk.data = allEvs s.disk.data := by
  have hi := h.inv
  have hK0 : Keeps s.active s.disk (rollDisk s.disk (s.active + 1)) := keeps_create _ _ _ (by omega) _ _
  have hlt : ∀ id ∈ AL.keys s.disk.data, id < s.active + 1 := fun id hid => by
    have := hi.ids id hid; omega
  obtain ⟨ra, re⟩ := roll_events h.asc hlt
  refine ⟨?_, ?_, ?_⟩
  · constructor
    · intro k loc hk
      have hl := hi.locs k loc hk
      exact hl.keeps (LocOk.fid_le hi hl) hK0
    · intro id hid
      simp only [mergeStart, rollDisk] at hid ⊢
      rcases mem_keys_set hid with e | e
      · omega
      · have := hi.ids id e; omega
    · intro id hid
      simp only [mergeStart, rollDisk] at hid ⊢
      rcases mem_keys_set hid with e | e
      · omega
      · have := hi.hids id e; omega
    · simp [mergeStart]
    · simp [mergeStart, rollDisk, dataOf, AL.get_set_same]
    · simp [mergeStart, rollDisk, AL.get_set_same]
    · funext k
      apply abs_keeps (b := s.active)
      · intro l hl; have := hi.locs k l hl; exact ⟨this, LocOk.fid_le hi this⟩
      · rfl
      · exact hK0
  · constructor
    · exact ra
    · intro k loc hk
      have : allEvs (mergeStart s).s.disk.data = allEvs s.disk.data := re
      rw [this]; exact h.wkd k loc hk
    · exact hintsExact_roll h.hx _
    · simp [mergeStart, rollDisk, AL.get_set_same]
  · exact re

/-- removing the selected files and creating the new active file -/
theorem mergeFinish_spec (sel : List Nat) (m : MergeSt) (sy : List Call) {A : Nat} {abs0 : Map}
    (h : MInv A abs0 m) (hr : MR m)
    (hunsel : ∀ k loc, AL.get k m.s.keydir = some loc → loc.fid ∉ sel) :
    Asc (newActive (sel.foldl unlinkOne (m.s, sy)).1 (m.mid + 1)).1.disk.data ∧
    (∀ k loc, AL.get k (newActive (sel.foldl unlinkOne (m.s, sy)).1 (m.mid + 1)).1.keydir = some loc →
      replay (allEvs (newActive (sel.foldl unlinkOne (m.s, sy)).1 (m.mid + 1)).1.disk.data) k = some loc) ∧
    HintsExact (newActive (sel.foldl unlinkOne (m.s, sy)).1 (m.mid + 1)).1.disk ∧
    AL.get (newActive (sel.foldl unlinkOne (m.s, sy)).1 (m.mid + 1)).1.active
      (newActive (sel.foldl unlinkOne (m.s, sy)).1 (m.mid + 1)).1.disk.hint = none ∧
    (newActive (sel.foldl unlinkOne (m.s, sy)).1 (m.mid + 1)).1.keydir = m.s.keydir ∧
    allEvs (newActive (sel.foldl unlinkOne (m.s, sy)).1 (m.mid + 1)).1.disk.data =
      (allEvs m.s.disk.data).filter (fun e => decide (e.loc.fid ∉ sel)) := by
  have hkd : (newActive (sel.foldl unlinkOne (m.s, sy)).1 (m.mid + 1)).1.keydir = m.s.keydir :=
    unlinkFold_keydir sel (m.s, sy)
  have hdisk : (newActive (sel.foldl unlinkOne (m.s, sy)).1 (m.mid + 1)).1.disk =
      { data := AL.set (m.mid + 1) [] (m.s.disk.data.filter (fun p => decide (p.1 ∉ sel))),
        hint := m.s.disk.hint.filter (fun p => decide (p.1 ∉ sel)),
        tails := m.s.disk.tails } := by
    simp only [newActive]
    rw [unlinkFold_disk]
  have hact : (newActive (sel.foldl unlinkOne (m.s, sy)).1 (m.mid + 1)).1.active = m.mid + 1 := rfl
  rw [hkd, hdisk, hact]
  simp only
  have hD : Asc (m.s.disk.data.filter (fun p => decide (p.1 ∉ sel))) := asc_filter _ hr.asc
  have hlt : ∀ id ∈ AL.keys (m.s.disk.data.filter (fun p => decide (p.1 ∉ sel))), id < m.mid + 1 := by
    intro id hid
    have := h.ids id (mem_keys_filter hid); omega
  have hev : allEvs (AL.set (m.mid + 1) [] (m.s.disk.data.filter (fun p => decide (p.1 ∉ sel)))) =
      (allEvs m.s.disk.data).filter (fun e => decide (e.loc.fid ∉ sel)) := by
    rw [allEvs_set_new hD hlt]
    exact allEvs_filter (fun f => decide (f ∉ sel)) m.s.disk.data
  refine ⟨(asc_set_new hD hlt).2, ?_, ?_, ?_, by first | rfl | trivial, hev⟩
  · intro k loc hk
    rw [hev]
    apply replay_filter_keep _ (hr.wkd k loc hk)
    simp only [decide_eq_true_eq]
    exact hunsel k loc hk
  · intro fid hs hg
    simp only at hg
    rw [get_filter (fun f => decide (f ∉ sel))] at hg
    by_cases hq : decide (fid ∉ sel) = true
    · simp only [hq, ↓reduceIte] at hg
      have hle := h.hids fid (AL.mem_keys_of_get hg)
      have hne : fid ≠ m.mid + 1 := by omega
      have : dataOf { data := AL.set (m.mid + 1) [] (m.s.disk.data.filter (fun p => decide (p.1 ∉ sel))),
                      hint := m.s.disk.hint.filter (fun p => decide (p.1 ∉ sel)),
                      tails := m.s.disk.tails } fid = dataOf m.s.disk fid := by
        simp only [dataOf, AL.get_set_other hne]
        rw [get_filter (fun f => decide (f ∉ sel))]
        simp only [hq, ↓reduceIte]
      rw [this]
      exact hr.hx fid hs hg
    · simp [hq] at hg
  · rw [get_filter (fun f => decide (f ∉ sel))]
    have : AL.get (m.mid + 1) m.s.disk.hint = none := by
      cases hg : AL.get (m.mid + 1) m.s.disk.hint with
      | none => rfl
      | some v => have := h.hids _ (AL.mem_keys_of_get hg); omega
    rw [this]; simp

/-- **a merge pass keeps the recovery invariant**; the keys of the index stay the same; and for
    a key absent from the index, the scan of the resulting directory decides exactly as the scan
    of the unselected files of the original directory -/
theorem mergeWith_rinv (cfg : Cfg) (s : St) (sel : List Nat) (order : List Key) (h : RInv s)
    (hsel : ∀ id, id ∈ sel → id ≤ s.active) (hcov : Covers order s) :
    RInv (mergeWith cfg s sel order).1 ∧
    (∀ k, (AL.get k (mergeWith cfg s sel order).1.keydir).isSome = (AL.get k s.keydir).isSome) ∧
    (∀ k, AL.get k s.keydir = none →
      replay (allEvs (mergeWith cfg s sel order).1.disk.data) k =
        replay ((allEvs s.disk.data).filter (fun e => decide (e.loc.fid ∉ sel))) k) := by
  obtain ⟨h0, r0, n0⟩ := mergeStart_spec s h
  have hF := mergeFold_spec cfg sel s.active s.abs hsel order _ h0
  have hG := mergeFold_mr cfg sel s.active s.abs hsel order _ h0 r0
  have f1 : MInv s.active s.abs (mergeLoop cfg s sel order) := hF.1
  have f2 : ∀ k', (AL.get k' (mergeLoop cfg s sel order).s.keydir).isSome = (AL.get k' s.keydir).isSome := hF.2.1
  have f3 : ∀ k', (k' ∈ order ∨ ∀ loc, AL.get k' (mergeStart s).s.keydir = some loc → loc.fid ∉ sel) →
      ∀ loc, AL.get k' (mergeLoop cfg s sel order).s.keydir = some loc → loc.fid ∉ sel := hF.2.2.1
  have g1 : MR (mergeLoop cfg s sel order) := hG.1
  have g2 : ∀ k', AL.get k' (mergeLoop cfg s sel order).s.keydir = none →
      AL.get k' (mergeStart s).s.keydir = none ∧
      replay ((allEvs (mergeLoop cfg s sel order).s.disk.data).filter (fun e => decide (e.loc.fid ∉ sel))) k' =
        replay ((allEvs (mergeStart s).s.disk.data).filter (fun e => decide (e.loc.fid ∉ sel))) k' := hG.2
  have hunsel : ∀ k loc, AL.get k (mergeLoop cfg s sel order).s.keydir = some loc → loc.fid ∉ sel := by
    intro k loc hk
    apply f3 k _ loc hk
    left
    apply hcov
    have := f2 k
    rw [hk] at this
    simp only [Option.isSome_some] at this
    cases hg : AL.get k s.keydir with
    | none => rw [hg] at this; cases this
    | some l => exact AL.mem_keys_of_get hg
  obtain ⟨a1, a2, a3, a4, a5, a6⟩ := mergeFinish_spec sel (mergeLoop cfg s sel order)
    ((mergeLoop cfg s sel order).calls ++
      [Call.fsync ⟨.data, (mergeLoop cfg s sel order).mid⟩, Call.fsync ⟨.hint, (mergeLoop cfg s sel order).mid⟩])
    f1 g1 hunsel
  have hinv := (mergeWith_inv_abs cfg s sel order h.inv hsel hcov).1
  rw [mergeWith_fst] at hinv ⊢
  refine ⟨⟨hinv, a1, a2, a3, a4⟩, ?_, ?_⟩
  · intro k; rw [a5]; exact f2 k
  · intro k hk
    have hk2 : AL.get k (mergeLoop cfg s sel order).s.keydir = none := by
      have := f2 k
      rw [hk] at this
      cases hg : AL.get k (mergeLoop cfg s sel order).s.keydir with
      | none => rfl
      | some l => rw [hg] at this; cases this
    rw [a6, (g2 k hk2).2, n0]

/-- a hazard-free merge leaves nothing absent resurrectable, and conversely -/
theorem mergeWith_full_iff (cfg : Cfg) (s : St) (sel : List Nat) (order : List Key) (h : RInv s)
    (hsel : ∀ id, id ∈ sel → id ≤ s.active) (hcov : Covers order s) :
    Full (mergeWith cfg s sel order).1 ↔ NoHazard s sel := by
  obtain ⟨_, b, c⟩ := mergeWith_rinv cfg s sel order h hsel hcov
  have hnone : ∀ k, AL.get k (mergeWith cfg s sel order).1.keydir = none ↔ AL.get k s.keydir = none := by
    intro k
    have := b k
    cases h1 : AL.get k (mergeWith cfg s sel order).1.keydir <;> cases h2 : AL.get k s.keydir <;>
      simp [h1, h2] at this ⊢
  constructor
  · intro hf k hk
    rw [← c k hk]; exact hf k ((hnone k).mpr hk)
  · intro hn k hk
    rw [c k ((hnone k).mp hk)]; exact hn k ((hnone k).mp hk)

end Store
