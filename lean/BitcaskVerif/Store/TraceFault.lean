/-
  The trace invariants of C14 also hold across failed writes (C20's fault model): the calls a
  failed `Writer::write` has issued keep the coupling between the store and the trace monitor.
-/
import BitcaskVerif.Store.FaultRestart

namespace Store.Tr
/-- the calls of a failed write that had an effect on the directory (a failing call itself has
    none, except the partial write of `appendLarge`) -/
def writeFCalls (cfg : Cfg) (s : St) (r : Rec) : Fault → List Call
  | .appendSmall => [Call.create ⟨.data, s.active + 1⟩, Call.append ⟨.data, s.active⟩ (.ofRec r)]
  | .appendLarge hdr => [Call.append ⟨.data, s.active⟩ (.raw (List.replicate hdr 0)), Call.create ⟨.data, s.active + 1⟩]
  | .fsync => [Call.append ⟨.data, s.active⟩ (.ofRec r)]
  | .create => [Call.append ⟨.data, s.active⟩ (.ofRec r)] ++
      (if cfg.syncAlways then [Call.fsync ⟨.data, s.active⟩] else [])

/-- appending to the previous active file right after the next one was created (the old writer is
    dropped after the new file exists) -/
theorem MonOk.create_then_append {a : Nat} {m : Mon} (h : MonOk a m) (p : Payload) :
    MonOk (a + 1) (m.calls [Call.create ⟨.data, a + 1⟩, Call.append ⟨.data, a⟩ p]) := by
  have h1 : MonOk (a + 1) (m.step (.call (.create ⟨.data, a + 1⟩))) := h.create_data (by omega)
  have hu : (⟨.data, a⟩ : FName) ∉ m.unlinked := fun hc => by have := h.unl _ hc; simp at this
  simp only [Mon.calls_cons, Mon.calls_nil]
  refine ⟨h1.bound, h1.own, h1.unl, h1.okF, ?_, h1.okT⟩
  simp [Mon.step, h.okO, h.own, hu]

theorem writeF_monOk (cfg : Cfg) (s : St) (r : Rec) (f : Fault) (m : Mon) (h : MonOk s.active m) :
    MonOk (writeF s r f).active (m.calls (writeFCalls cfg s r f)) := by
  cases f with
  | appendSmall => exact h.create_then_append _
  | appendLarge hdr =>
    simp only [writeFCalls, Mon.calls_cons, Mon.calls_nil]
    show MonOk (s.active + 1) _
    exact (h.append _).create_data (by omega)
  | fsync => exact h.append _
  | create =>
    simp only [writeFCalls, Mon.calls_append]
    have h1 : MonOk s.active (m.calls [Call.append ⟨.data, s.active⟩ (.ofRec r)]) := h.append _
    cases cfg.syncAlways
    · exact h1
    · exact h1.fsync _

theorem writeF_coup (cfg : Cfg) (s : St) (r : Rec) (f : Fault) (m : Mon) (h : Coup s m) :
    Coup (writeF s r f) (m.calls (writeFCalls cfg s r f)) :=
  ⟨writeF_idinv s r f h.inv, writeF_monOk cfg s r f m h.mon⟩

/-! ### runs with failed writes -/

/-- a trace operation, or a write of record `r` that fails with `f` -/
inductive XOp where
  | ok (op : TOp)
  | fail (r : Rec) (f : Fault)

def stepX (cfg : Cfg) (s : St) : XOp → St × List Call
  | .ok op => stepC cfg s op
  | .fail r f => (writeF s r f, writeFCalls cfg s r f)

def XOp.marker : XOp → List TEv
  | .ok op => op.marker
  | .fail _ _ => []

def runX (cfg : Cfg) : St → List XOp → St
  | s, [] => s
  | s, op :: ops => runX cfg (stepX cfg s op).1 ops

def evsOfX (cfg : Cfg) : St → List XOp → List TEv
  | _, [] => []
  | s, op :: ops => op.marker ++ ((stepX cfg s op).2.map TEv.call ++ evsOfX cfg (stepX cfg s op).1 ops)

def ValidX (cfg : Cfg) : St → List XOp → Prop
  | _, [] => True
  | s, op :: ops =>
    (match op with
     | .ok (.merge sel _) => ∀ id, id ∈ sel → id ≤ s.active
     | _ => True) ∧ ValidX cfg (stepX cfg s op).1 ops

theorem stepX_coup (cfg : Cfg) (s : St) (op : XOp) (m : Mon) (h : Coup s m)
    (hv : match op with
          | .ok (.merge sel _) => ∀ id, id ∈ sel → id ≤ s.active
          | _ => True) :
    Coup (stepX cfg s op).1 ((m.run op.marker).calls (stepX cfg s op).2) := by
  cases op with
  | fail r f => exact writeF_coup cfg s r f m h
  | ok o =>
    apply stepC_coup cfg s o m h
    cases o with
    | merge sel order => exact hv
    | put ts k v => trivial
    | del ts k => trivial
    | get k => trivial
    | reopen => trivial

theorem runX_coup (cfg : Cfg) (ops : List XOp) : ∀ (s : St) (m : Mon), Coup s m → ValidX cfg s ops →
    Coup (runX cfg s ops) (m.run (evsOfX cfg s ops)) := by
  induction ops with
  | nil => intro s m h _; exact h
  | cons op ops ih =>
    intro s m h hv
    have h1 := stepX_coup cfg s op m h hv.1
    have h2 := ih _ _ h1 hv.2
    simp only [runX, evsOfX, Mon.run_append]
    exact h2

end Store.Tr