/-
  Fault-aware merge pass (C20), part 7: the id invariant `IdInv` of the trace theory (C14:
  every id in the directory is at most the active id, hint files belong to existing data files
  below the active one, crash tails only below the active file) survives a failed merge pass.
  So every C14 theorem (`c14_monitor`, `c14_fresh_id`, `c14_create_once`, …) applies to every run
  that continues after the failure: the files created later have fresh ids.
-/
import BitcaskVerif.Store.MergeFaultSpec
import BitcaskVerif.Store.TraceMerge

namespace Store

variable {hintFirst : Bool}
open Store.Tr

/-- hint files belong to existing data files; crash tails only up to `mid` -/
structure DOk (mid : Nat) (d : Disk) : Prop where
  hsub : ∀ id, id ∈ AL.keys d.hint → id ∈ AL.keys d.data
  tl : ∀ id, id ∈ AL.keys d.tails → id ≤ mid

theorem DOk.mono {mid mid' : Nat} {d : Disk} (h : DOk mid d) (hm : mid ≤ mid') : DOk mid' d :=
  ⟨h.hsub, fun id hid => Nat.le_trans (h.tl id hid) hm⟩

/-- one more (or a longer) data file -/
theorem DOk.setData {mid : Nat} {d : Disk} (h : DOk mid d) (b : Nat) (rs : List Rec) :
    DOk mid { d with data := AL.set b rs d.data } :=
  ⟨fun id hid => mem_keys_set_of_mem _ (h.hsub id hid), h.tl⟩

/-- a hint file for an existing data file -/
theorem DOk.setHint {mid : Nat} {d : Disk} (h : DOk mid d) {b : Nat} (hb : b ∈ AL.keys d.data) (hs : List Hint) :
    DOk mid { d with hint := AL.set b hs d.hint } := by
  refine ⟨fun id hid => ?_, h.tl⟩
  rcases mem_keys_set hid with e | e
  · rw [e]; exact hb
  · exact h.hsub id e

theorem DOk.delHint {mid : Nat} {d : Disk} (h : DOk mid d) (b : Nat) :
    DOk mid { d with hint := AL.del b d.hint } :=
  ⟨fun id hid => h.hsub id (mem_keys_del hid).2, h.tl⟩

theorem DOk.moveDisk {m : MergeSt} (h : DOk m.mid m.s.disk) (k : Key) (loc : Loc) (r : Rec) :
    DOk m.mid (moveDisk m k loc r) := by
  have h1 := h.setData m.mid (dataOf m.s.disk m.mid ++ [r])
  exact h1.setHint (mem_keys_set_self _ _ _) _

theorem DOk.rollDisk {mid : Nat} {d : Disk} (h : DOk mid d) (b : Nat) : DOk mid (rollDisk d b) :=
  (h.setData b []).setHint (mem_keys_set_self _ _ _) _

theorem mergeStep_dok (cfg : Cfg) (sel : List Nat) (m : MergeSt) (k : Key) (h : DOk m.mid m.s.disk) :
    DOk (mergeStep cfg sel m k).mid (mergeStep cfg sel m k).s.disk := by
  apply mergeStep_ind (fun m' => DOk m'.mid m'.s.disk) cfg sel m k
  · exact h
  · exact h
  · intro loc r _ _ _; exact h.moveDisk k loc r
  · intro loc r _ _ _; exact ((h.moveDisk k loc r).rollDisk (m.mid + 1)).mono (Nat.le_succ _)

theorem failMove_dok (m : MergeSt) (k : Key) (loc : Loc) (r : Rec) (i torn : Nat) (h : DOk m.mid m.s.disk) :
    DOk (failMove hintFirst m k loc r i torn).mid (failMove hintFirst m k loc r i torn).s.disk := by
  rcases i with _ | _ | _ | _ | _ | i
  · refine ⟨h.hsub, fun id hid => ?_⟩
    rcases mem_keys_set hid with e | e
    · rw [e]; exact Nat.le_refl _
    · exact h.tl id e
  · cases hintFirst <;> exact h.setData _ _
  · exact h.moveDisk k loc r
  · exact h.moveDisk k loc r
  · exact (h.moveDisk k loc r).mono (Nat.le_succ _)
  · exact ((h.moveDisk k loc r).setData (m.mid + 1) []).mono (Nat.le_succ _)

theorem mergeStepF_dok (cfg : Cfg) (sel : List Nat) (j torn : Nat) (x : FM) (k : Key) (h : DOk x.m.mid x.m.s.disk) :
    DOk (mergeStepF hintFirst cfg sel j torn x k).m.mid (mergeStepF hintFirst cfg sel j torn x k).m.s.disk := by
  cases hf : x.failed with
  | true => rw [mergeStepF_of_failed cfg sel j torn hf k]; exact h
  | false =>
    by_cases hle : (mergeStep cfg sel x.m k).calls.length ≤ j
    · rw [mergeStepF_no_fault hf hle]
      exact mergeStep_dok cfg sel x.m k h
    · unfold mergeStepF
      simp only [hf, Bool.false_eq_true, ↓reduceIte, hle]
      split
      · exact h
      · split
        · exact h
        · exact failMove_dok x.m k _ _ _ torn h

theorem foldF_dok (cfg : Cfg) (sel : List Nat) (j torn : Nat) (order : List Key) : ∀ (x : FM),
    DOk x.m.mid x.m.s.disk →
      DOk (order.foldl (mergeStepF hintFirst cfg sel j torn) x).m.mid (order.foldl (mergeStepF hintFirst cfg sel j torn) x).m.s.disk := by
  induction order with
  | nil => intro x h; exact h
  | cons k ks ih => intro x h; exact ih _ (mergeStepF_dok cfg sel j torn x k h)

theorem startF_dok {s : St} (h : IdInv s) (j : Nat) : DOk (startF s j).m.mid (startF s j).m.s.disk := by
  have h0 : DOk (s.active + 1) s.disk :=
    ⟨h.hsub, fun id hid => by have := h.tails id hid; omega⟩
  rcases j with _ | _ | j
  · exact h0
  · exact h0.setData _ _
  · exact h0.rollDisk _

theorem syncF_dok (j : Nat) (x : FM) (h : DOk x.m.mid x.m.s.disk) : DOk (syncF j x).m.mid (syncF j x).m.s.disk := by
  unfold syncF
  split
  · exact h
  · split
    · exact h
    · split <;> exact h

theorem unlinkOne_dok (mid : Nat) (st : St × List Call) (id : Nat) (h : DOk mid st.1.disk) :
    DOk mid (unlinkOne st id).1.disk := by
  obtain ⟨s, c⟩ := st
  refine ⟨fun i hi => ?_, h.tl⟩
  simp only [unlinkOne] at hi ⊢
  obtain ⟨h1, h2⟩ := mem_keys_del hi
  exact mem_keys_del_of_mem h1 (h.hsub i h2)

theorem unlinkOneF_dok (mid j : Nat) (x : (St × List Call) × Bool) (id : Nat) (h : DOk mid x.1.1.disk) :
    DOk mid (unlinkOneF j x id).1.1.disk := by
  unfold unlinkOneF
  split
  · exact h
  · split
    · exact unlinkOne_dok mid x.1 id h
    · split
      · exact h.delHint id
      · exact h

theorem unlinkFoldF_dok (mid j : Nat) (l : List Nat) : ∀ (x : (St × List Call) × Bool), DOk mid x.1.1.disk →
    DOk mid (l.foldl (unlinkOneF j) x).1.1.disk := by
  induction l with
  | nil => intro x h; exact h
  | cons id ids ih => intro x h; exact ih _ (unlinkOneF_dok mid j x id h)

theorem mfZ_dok (cfg : Cfg) {s : St} (h : IdInv s) (sel : List Nat) (order : List Key) (j torn : Nat) :
    DOk (mfY hintFirst cfg s sel order j torn).m.mid (mfZ hintFirst cfg s sel order j torn).1.1.disk := by
  unfold mfZ
  apply unlinkFoldF_dok
  unfold mfY
  apply syncF_dok
  unfold mfX
  apply foldF_dok
  exact startF_dok h j

/-- the new active file above every id keeps the id invariant -/
theorem idinv_newActive {A : Nat} {abs0 : Map} {mid : Nat} {s : St} (h : FInv A abs0 mid s) (hd : DOk mid s.disk) :
    IdInv (newActive s (mid + 1)).1 := by
  simp only [newActive]
  constructor
  · intro id hid
    simp only at hid ⊢
    rcases mem_keys_set hid with e | e
    · omega
    · have := h.ids id e; omega
  · intro id hid
    simp only at hid ⊢
    exact mem_keys_set_of_mem _ (hd.hsub id hid)
  · simp [AL.get_set_same]
  · intro id hid
    simp only at hid ⊢
    have := hd.tl id hid; omega
  · intro id hid
    simp only at hid ⊢
    have := h.hids id hid; omega

/-- **the id invariant of the trace theory survives a failed merge pass** (after the pending
    move, if there is one) -/
theorem mergeF_idinv (cfg : Cfg) (s : St) (sel : List Nat) (order : List Key) (j torn : Nat) (h : Inv s)
    (hid : IdInv s) (hsel : ∀ id, id ∈ sel → id ≤ s.active) (hcov : Covers order s) :
    IdInv (mergeF hintFirst cfg s sel order j torn).p.move.1 := by
  obtain ⟨z1, _⟩ := mfZ_ok (hintFirst := hintFirst) cfg s sel order j torn h hsel hcov
  have hd := mfZ_dok (hintFirst := hintFirst) cfg hid sel order j torn
  rw [mergeF_eq]
  split
  · exact idinv_newActive z1 hd
  · split
    · exact idinv_newActive z1 hd
    · exact idinv_newActive z1 hd

end Store
