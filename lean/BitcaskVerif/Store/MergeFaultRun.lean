/-
  Fault-aware merge pass (C20), part 8: operation sequences on a store with a possibly pending
  move of the active file (`runP`) refine the abstract map (`runP_refines`); without a pending
  move they are the plain sequences of C01 (`runP_none`).
-/
import BitcaskVerif.Store.MergeFaultSpec
import BitcaskVerif.Store.FaultRun

namespace Store

variable {hintFirst : Bool}

/-- one operation on a store with a possibly pending move (timestamps fixed to 0 as in `step`) -/
def stepP (cfg : Cfg) (p : StP) : Op → StP × OpOut
  | .put k v => ((putP cfg p 0 k v).1, .done)
  | .del k => ((deleteP cfg p 0 k).1, .flag (deleteP cfg p 0 k).2.1)
  | .get k => (p, .read (getP p k))
  | .merge sel order => ((mergeWithP cfg p sel order).1, .done)

def runP (cfg : Cfg) : StP → List Op → StP × List OpOut
  | p, [] => (p, [])
  | p, op :: ops =>
    let (p1, o) := stepP cfg p op
    let (p2, os) := runP cfg p1 ops
    (p2, o :: os)

/-- every merge of the sequence selects existing files (ids up to the active id of that moment,
    after the pending move if there is one) and its iteration order covers the KeyDir -/
def ValidFromP (cfg : Cfg) : StP → List Op → Prop
  | _, [] => True
  | p, op :: ops =>
    (match op with
     | .merge sel order => (∀ id, id ∈ sel → id ≤ p.move.1.active) ∧ Covers order p.st
     | _ => True) ∧ ValidFromP cfg (stepP cfg p op).1 ops

theorem stepP_refines (cfg : Cfg) (p : StP) (op : Op) (h : InvP p)
    (hv : match op with
          | .merge sel order => (∀ id, id ∈ sel → id ≤ p.move.1.active) ∧ Covers order p.st
          | _ => True) :
    InvP (stepP cfg p op).1 ∧ (stepP cfg p op).2 = (p.abs.step op).2 ∧
      (stepP cfg p op).1.abs = (p.abs.step op).1 := by
  cases op with
  | put k v =>
    obtain ⟨a, b, _⟩ := putP_ok cfg h 0 k v
    exact ⟨a, rfl, b⟩
  | del k =>
    obtain ⟨a, b, c, _⟩ := deleteP_ok cfg h 0 k
    exact ⟨a, by simp [stepP, Map.step, c], b⟩
  | get k =>
    refine ⟨h, ?_, rfl⟩
    simp only [stepP, Map.step, getP_abs h k]
    cases p.abs k <;> rfl
  | merge sel order =>
    obtain ⟨a, b, _⟩ := mergeWithP_ok cfg h sel order hv.1 hv.2
    exact ⟨a, rfl, b⟩

/-- **every operation sequence on a store with a possibly pending move produces exactly the
    results of the abstract map**, keeps the invariant, and ends reading as the final map -/
theorem runP_refines (cfg : Cfg) (ops : List Op) : ∀ (p : StP), InvP p → ValidFromP cfg p ops →
    (runP cfg p ops).2 = (Map.run p.abs ops).2 ∧ InvP (runP cfg p ops).1 ∧
      (runP cfg p ops).1.abs = (Map.run p.abs ops).1 := by
  induction ops with
  | nil => intro p h _; exact ⟨rfl, h, rfl⟩
  | cons op ops ih =>
    intro p h hv
    obtain ⟨i1, i2, i3⟩ := stepP_refines cfg p op h hv.1
    obtain ⟨j1, j2, j3⟩ := ih (stepP cfg p op).1 i1 hv.2
    simp only [runP, Map.run]
    rw [i3] at j1 j3
    refine ⟨?_, j2, j3⟩
    rw [j1, i2]

/-- without a pending move the operations are the plain ones -/
theorem stepP_none (cfg : Cfg) (s : St) (op : Op) :
    stepP cfg { st := s, pending := none } op = ({ st := (step cfg s op).1, pending := none }, (step cfg s op).2) := by
  cases op <;> rfl

theorem runP_none (cfg : Cfg) (ops : List Op) : ∀ (s : St),
    runP cfg { st := s, pending := none } ops = ({ st := (run cfg s ops).1, pending := none }, (run cfg s ops).2) := by
  induction ops with
  | nil => intro s; rfl
  | cons op ops ih =>
    intro s
    simp only [runP, run]
    rw [stepP_none]
    simp only
    rw [ih]

/-! ### histories in which writes AND merge passes may fail -/

open Store.Tr

/-- a fault injected into one operation: a failing call of `Writer::write` (put / delete), or the
    index `j` of the failing call of a merge pass and the torn bytes of a failing append -/
inductive PFault where
  | write (f : Fault)
  | merge (j torn : Nat)

/-- one operation on a store with a possibly pending move, possibly with a failing call.  A fault
    that does not fit the operation (a write fault on a merge, …) is ignored. -/
def stepPF (hintFirst : Bool) (cfg : Cfg) (p : StP) (op : Op) (fl : Option PFault) : StP × FOut :=
  match op, fl with
  | .put k v, some (.write f) =>
    ({ st := (putF cfg p.move.1 0 k v (some f)).1, pending := none }, .error)
  | .del k, some (.write f) =>
    ({ st := (deleteF cfg p.move.1 0 k (some f)).1, pending := none }, .error)
  | .merge sel order, some (.merge j torn) =>
    ((mergeFP hintFirst cfg p sel order j torn).p, if (mergeFP hintFirst cfg p sel order j torn).err then .error else .done .done)
  | op, _ => ((stepP cfg p op).1, .done (stepP cfg p op).2)

/-- the specification: an operation with a (fitting) fault returns the error and has no effect -/
def Map.stepPF (m : Map) (op : Op) (fl : Option PFault) : Map × FOut :=
  match op, fl with
  | .put _ _, some (.write _) => (m, .error)
  | .del _, some (.write _) => (m, .error)
  | .merge _ _, some (.merge _ _) => (m, .error)
  | op, _ => ((m.step op).1, .done (m.step op).2)

def runPF (hintFirst : Bool) (cfg : Cfg) : StP → List (Op × Option PFault) → StP × List FOut
  | p, [] => (p, [])
  | p, (op, fl) :: ops =>
    ((runPF hintFirst cfg (stepPF hintFirst cfg p op fl).1 ops).1, (stepPF hintFirst cfg p op fl).2 :: (runPF hintFirst cfg (stepPF hintFirst cfg p op fl).1 ops).2)

def Map.runPF : Map → List (Op × Option PFault) → Map × List FOut
  | m, [] => (m, [])
  | m, (op, fl) :: ops =>
    ((Map.runPF (m.stepPF op fl).1 ops).1, (m.stepPF op fl).2 :: (Map.runPF (m.stepPF op fl).1 ops).2)

/-- every merge selects existing files and its order covers the index; an injected merge fault
    names one of the calls of the pass -/
def ValidPF (hintFirst : Bool) (cfg : Cfg) : StP → List (Op × Option PFault) → Prop
  | _, [] => True
  | p, (op, fl) :: ops =>
    (match op with
     | .merge sel order => (∀ id, id ∈ sel → id ≤ p.move.1.active) ∧ Covers order p.st ∧
         (match fl with
          | some (.merge j _) => j < (mergeWith cfg p.move.1 sel order).2.length
          | _ => True)
     | _ => True) ∧ ValidPF hintFirst cfg (stepPF hintFirst cfg p op fl).1 ops

theorem stepPF_refines (cfg : Cfg) (p : StP) (op : Op) (fl : Option PFault) (h : InvP p)
    (hv : match op with
          | .merge sel order => (∀ id, id ∈ sel → id ≤ p.move.1.active) ∧ Covers order p.st ∧
              (match fl with
               | some (.merge j _) => j < (mergeWith cfg p.move.1 sel order).2.length
               | _ => True)
          | _ => True) :
    InvP (stepPF hintFirst cfg p op fl).1 ∧ (stepPF hintFirst cfg p op fl).2 = (p.abs.stepPF op fl).2 ∧
      (stepPF hintFirst cfg p op fl).1.abs = (p.abs.stepPF op fl).1 := by
  have hok : ∀ op', (match op' with
          | .merge sel order => (∀ id, id ∈ sel → id ≤ p.move.1.active) ∧ Covers order p.st
          | _ => True) →
      InvP (stepP cfg p op').1 ∧ FOut.done (stepP cfg p op').2 = .done (p.abs.step op').2 ∧
        (stepP cfg p op').1.abs = (p.abs.step op').1 := by
    intro op' hv'
    obtain ⟨a, b, c⟩ := stepP_refines cfg p op' h hv'
    exact ⟨a, by rw [b], c⟩
  cases op with
  | put k v =>
    cases fl with
    | none => exact hok _ trivial
    | some f =>
      cases f with
      | write f =>
        refine ⟨InvP.of_inv (writeF_inv _ _ f h.moved), rfl, ?_⟩
        show (writeF p.move.1 _ f).abs = p.abs
        rw [writeF_abs _ _ f h.moved, h.move_abs]
      | merge j torn => exact hok _ trivial
  | del k =>
    cases fl with
    | none => exact hok _ trivial
    | some f =>
      cases f with
      | write f =>
        refine ⟨InvP.of_inv (writeF_inv _ _ f h.moved), rfl, ?_⟩
        show (writeF p.move.1 _ f).abs = p.abs
        rw [writeF_abs _ _ f h.moved, h.move_abs]
      | merge j torn => exact hok _ trivial
  | get k =>
    cases fl with
    | none => exact hok _ trivial
    | some f => cases f <;> exact hok _ trivial
  | merge sel order =>
    obtain ⟨h1, h2, h3⟩ := hv
    cases fl with
    | none => exact hok _ ⟨h1, h2⟩
    | some f =>
      cases f with
      | write f => exact hok _ ⟨h1, h2⟩
      | merge j torn =>
        obtain ⟨a, b⟩ := mergeFP_ok cfg h sel order j torn h1 h2
        have hcov' : Covers order p.move.1 := by
          unfold StP.move
          cases p.pending with
          | none => exact h2
          | some id => exact h2
        have he : (mergeFP hintFirst cfg p sel order j torn).err = true :=
          (mergeF_err_iff cfg p.move.1 sel order j torn h.moved h1 hcov').mpr h3
        refine ⟨a, ?_, b⟩
        simp only [stepPF, Map.stepPF, he, ↓reduceIte]

/-- **histories with failed writes and failed merge passes** refine the abstract map on which
    failed operations have no effect: same results (every failure reported), invariant kept,
    final reads = final map -/
theorem runPF_refines (cfg : Cfg) (ops : List (Op × Option PFault)) : ∀ (p : StP), InvP p → ValidPF hintFirst cfg p ops →
    (runPF hintFirst cfg p ops).2 = (Map.runPF p.abs ops).2 ∧ InvP (runPF hintFirst cfg p ops).1 ∧
      (runPF hintFirst cfg p ops).1.abs = (Map.runPF p.abs ops).1 := by
  induction ops with
  | nil => intro p h _; exact ⟨rfl, h, rfl⟩
  | cons x ops ih =>
    obtain ⟨op, fl⟩ := x
    intro p h hv
    obtain ⟨i1, i2, i3⟩ := stepPF_refines cfg p op fl h hv.1
    obtain ⟨j1, j2, j3⟩ := ih (stepPF hintFirst cfg p op fl).1 i1 hv.2
    simp only [runPF, Map.runPF]
    rw [i3] at j1 j3
    refine ⟨?_, j2, j3⟩
    rw [j1, i2]

end Store
