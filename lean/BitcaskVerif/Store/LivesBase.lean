/-
  Lives that continue after a crash inside a merge (C03 / C09), part 1: definitions.

  After a kill (or a power failure) inside a merge pass the directory may contain a *stale merge
  output*: a data file with a hint file that
    * does not list the last record(s) of the data file (kill between the data append and the
      hint append; after power loss also because the hint file lost more than the data file), or
    * lists records the data file does not hold (power loss: the data file lost more than the
      hint file; the scan stops at the first entry that does not fit, defect D5).
  The startup scan PREFERS the hint file: of such a file it sees exactly the entries it accepts
  (`accOf`), the records behind them are invisible ("junk").

  `Sim d1 d`: `d1` is the directory `d` with every stale output cut back to what the scan sees of
  it (accepted hint entries, and exactly the records they describe).  If `d1` has exact hint
  files, the scans of `d` and `d1` coincide (`Sim.rebuild`).

  `JunkOK d1 d kd`: what is known about the invisible records.  They are value records, and each
  of them is a copy of the record the index entry of its key addresses, as long as that entry
  lies before it (file id, then position).  This is what makes them harmless when they become
  visible (a later merge removes the hint file of the stale output and is killed before it
  removes the data file).

  `LJw s d1` / `LJ s`: the invariant of the store over any number of lives.
-/
import BitcaskVerif.Store.PowerImage

namespace Store

/-! ### records and positions -/

theorem recAt_le {rs : List Rec} {p : Nat} {r : Rec} (h : recAt rs p = some r) : p + r.len ≤ fileSize rs := by
  induction rs generalizing p with
  | nil => simp [recAt] at h
  | cons x xs ih =>
    simp only [recAt] at h
    by_cases h0 : p = 0
    · simp only [h0, ↓reduceIte, Option.some.injEq] at h
      subst h; subst h0; simp
    · simp only [h0, ↓reduceIte] at h
      by_cases h1 : p < x.len
      · simp [h1] at h
      · simp only [h1, ↓reduceIte] at h
        have := ih h
        simp only [fileSize_cons]; omega

theorem recAt_lt {rs : List Rec} {p : Nat} {r : Rec} (h : recAt rs p = some r) : p < fileSize rs := by
  have := recAt_le h; have := r.len_pos; omega

theorem recAt_append_right (a j : List Rec) (q : Nat) : recAt (a ++ j) (fileSize a + q) = recAt j q := by
  induction a with
  | nil => simp
  | cons x xs ih =>
    have hx := x.len_pos
    simp only [List.cons_append, recAt, fileSize_cons]
    have h0 : ¬ (x.len + fileSize xs + q = 0) := by omega
    have h1 : ¬ (x.len + fileSize xs + q < x.len) := by omega
    simp only [h0, h1, ↓reduceIte]
    have : x.len + fileSize xs + q - x.len = fileSize xs + q := by omega
    rw [this]; exact ih

/-- a record of `a ++ j` that starts at or after the end of `a` is a record of `j` -/
theorem recAt_append_ge {a j : List Rec} {p : Nat} {r : Rec} (h : recAt (a ++ j) p = some r)
    (hp : fileSize a ≤ p) : recAt j (p - fileSize a) = some r := by
  have : p = fileSize a + (p - fileSize a) := by omega
  rw [this, recAt_append_right] at h
  exact h

theorem St.ext' {a b : St} (h1 : a.disk = b.disk) (h2 : a.keydir = b.keydir) (h3 : a.stats = b.stats)
    (h4 : a.active = b.active) (h5 : a.written = b.written) (h6 : a.bad = b.bad) : a = b := by
  cases a; cases b; simp_all

/-! ### what the scan accepts of a hint file -/

/-- the length of data file `fid` as the scan sees it (`fs::metadata().len()`) -/
def dlen (d : Disk) (fid : Nat) : Nat := fileSize (dataOf d fid) + (AL.get fid d.tails).getD 0

/-- the entries the scan reads: up to the first one that does not fit inside `n` bytes -/
def accLen (n : Nat) (hs : List Hint) : List Hint := hs.takeWhile fun h => h.pos + h.len ≤ n

/-- the entries of hint file `fid` (contents `hs`) the scan of `d` accepts -/
def accOf (d : Disk) (fid : Nat) (hs : List Hint) : List Hint := accLen (dlen d fid) hs

theorem fileScan_acc {d : Disk} {fid : Nat} {hs : List Hint} (hg : AL.get fid d.hint = some hs) (ix : Idx) :
    fileScan d ix fid = (accOf d fid hs).foldl (hintStep fid) ix := by
  unfold fileScan
  rw [hg]
  rfl

theorem accLen_all {n : Nat} {hs : List Hint} (h : ∀ x ∈ hs, x.pos + x.len ≤ n) : accLen n hs = hs := by
  unfold accLen
  apply takeWhile_all
  intro x hx
  simp only [decide_eq_true_eq]
  exact h x hx

/-! ### the visible part of a directory -/

/-- file `fid` of `d1` is what the scan sees of file `fid` of `d` -/
structure FileSim (d1 d : Disk) (fid : Nat) : Prop where
  /-- the records of `d1` are a prefix of the records of `d` -/
  pre : dataOf d1 fid <+: dataOf d fid
  /-- a file without hint file is scanned record by record: nothing is invisible -/
  unh : AL.get fid d.hint = none → dataOf d fid = dataOf d1 fid
  /-- the hint file of `d1` consists of the entries the scan of `d` accepts -/
  acc : ∀ hs, AL.get fid d.hint = some hs → AL.get fid d1.hint = some (accOf d fid hs)

structure Sim (d1 d : Disk) : Prop where
  keys : AL.keys d.data = AL.keys d1.data
  hkeys : AL.keys d.hint = AL.keys d1.hint
  tl : d1.tails = d.tails
  file : ∀ fid, FileSim d1 d fid

theorem Sim.pre {d1 d : Disk} (h : Sim d1 d) (fid : Nat) : dataOf d1 fid <+: dataOf d fid := (h.file fid).pre

theorem Sim.hint_none {d1 d : Disk} (h : Sim d1 d) {fid : Nat} :
    AL.get fid d.hint = none ↔ AL.get fid d1.hint = none := by
  have := isSome_of_keys h.hkeys fid
  cases h1 : AL.get fid d.hint <;> cases h2 : AL.get fid d1.hint <;> simp_all

theorem Sim.data_isSome {d1 d : Disk} (h : Sim d1 d) (fid : Nat) :
    (AL.get fid d.data).isSome = (AL.get fid d1.data).isSome := isSome_of_keys h.keys fid

theorem Sim.keeps {d1 d : Disk} (h : Sim d1 d) (b : Nat) : Keeps b d1 d := keeps_of_prefix h.keys h.pre b

/-- a file whose hint entries all fit (in particular: an exact one) is its own visible part -/
theorem fileSim_refl {d : Disk} {fid : Nat}
    (hfit : ∀ hs, AL.get fid d.hint = some hs → ∀ x ∈ hs, x.pos + x.len ≤ dlen d fid) : FileSim d d fid := by
  refine ⟨List.prefix_refl _, fun _ => rfl, ?_⟩
  intro hs hg
  rw [hg]
  unfold accOf
  rw [accLen_all (hfit hs hg)]

theorem HintsExact.fit' {d : Disk} (h : HintsExact d) {fid : Nat} {hs : List Hint}
    (hg : AL.get fid d.hint = some hs) : ∀ x ∈ hs, x.pos + x.len ≤ dlen d fid := by
  intro x hx
  have := h.fit hg x hx
  unfold dlen; omega

theorem Sim.refl {d : Disk} (h : HintsExact d) : Sim d d :=
  ⟨rfl, rfl, rfl, fun _ => fileSim_refl (fun _ hg => h.fit' hg)⟩

/-- the scan of a file of `d` is the scan of its visible part -/
theorem Sim.fileScan {d1 d : Disk} (h : Sim d1 d) (hx : HintsExact d1) (ix : Idx) (fid : Nat) :
    fileScan d ix fid = fileScan d1 ix fid := by
  cases hg : AL.get fid d.hint with
  | none =>
    have hg1 := h.hint_none.mp hg
    unfold Store.fileScan
    rw [hg, hg1, (h.file fid).unh hg]
  | some hs =>
    have hg1 := (h.file fid).acc hs hg
    rw [fileScan_acc hg, fileScan_acc hg1]
    have := accLen_all (hx.fit' hg1)
    unfold accOf at this ⊢
    rw [this]

/-- **the startup scan sees only the visible part** -/
theorem Sim.rebuild {d1 d : Disk} (h : Sim d1 d) (hx : HintsExact d1) : rebuild d = rebuild d1 :=
  rebuild_congr (Tr.sortedIds_eq_of_keys h.keys) (fun fid _ ix => h.fileScan hx ix fid)

/-! ### the invisible records -/

/-- `loc` lies before byte `p` of file `fid` -/
def lexlt (loc : Loc) (fid p : Nat) : Prop := loc.fid < fid ∨ (loc.fid = fid ∧ loc.pos < p)

/-- every record of `d` beyond the visible part `d1` is a value record, and it is a copy of the
    record the index entry of its key addresses whenever that entry lies before it -/
def JunkOK (d1 d : Disk) (f : IdxF) : Prop :=
  ∀ fid p j, recAt (dataOf d fid) p = some j → fileSize (dataOf d1 fid) ≤ p →
    j.val.isSome ∧ ∀ loc, f j.key = some loc → lexlt loc fid p → recAt (dataOf d loc.fid) loc.pos = some j

theorem junkOK_refl (d : Disk) (f : IdxF) : JunkOK d d f := by
  intro fid p j h1 h2
  have := recAt_lt h1
  omega

/-- nothing absent from the index `f` is recovered by a scan of ALL records of `d` (visible or
    not) -/
def FullAll (d : Disk) (f : IdxF) : Prop := ∀ k, f k = none → replay (allEvs d.data) k = none

theorem full_iff_fullAll (s : St) : Full s ↔ FullAll s.disk (kdF s.keydir) := Iff.rfl

/-! ### the invariant over lives -/

/-- `d1` is the visible part of the directory of `s`; with it the store satisfies the recovery
    invariant of the crash-free theory; the invisible records are harmless -/
structure LJw (s : St) (d1 : Disk) : Prop where
  rinv : RInv { s with disk := d1 }
  full1 : Full { s with disk := d1 }
  sim : Sim d1 s.disk
  junk : JunkOK d1 s.disk (kdF s.keydir)
  /-- nothing absent is resurrectable even if every invisible record became visible -/
  fullA : Full s

/-- the invariant of the store over any number of lives -/
def LJ (s : St) : Prop := ∃ d1, LJw s d1

theorem LJw.inv {s : St} {d1 : Disk} (h : LJw s d1) : Inv s := by
  have hi := h.rinv.inv
  constructor
  · intro k loc hk
    have hl : LocOk d1 k loc := hi.locs k loc hk
    exact hl.keeps (Nat.le_refl _) (h.sim.keeps _)
  · intro id hid
    rw [h.sim.keys] at hid
    exact hi.ids id hid
  · intro id hid
    rw [h.sim.hkeys] at hid
    exact hi.hids id hid
  · rw [h.sim.data_isSome]; exact hi.act

theorem LJw.asc {s : St} {d1 : Disk} (h : LJw s d1) : Asc s.disk.data := by
  unfold Asc; rw [h.sim.keys]; exact h.rinv.asc

theorem LJ.inv {s : St} (h : LJ s) : Inv s := let ⟨_, w⟩ := h; w.inv

/-- every key reads the same through the visible part -/
theorem LJw.abs {s : St} {d1 : Disk} (h : LJw s d1) : ({ s with disk := d1 } : St).abs = s.abs := by
  funext k
  symm
  apply abs_keeps (b := s.active)
  · intro loc hl
    have := h.rinv.inv.locs k loc hl
    exact ⟨this, LocOk.fid_le h.rinv.inv this⟩
  · rfl
  · exact h.sim.keeps _

/-- a state of the crash-free theory is its own visible part -/
theorem LJw.of_rinv {s : St} (h : RInv s) (hf : Full s) : LJw s s.disk :=
  ⟨h, hf, Sim.refl h.hx, junkOK_refl _ _, hf⟩

theorem lj_fresh : LJ fresh := ⟨_, LJw.of_rinv fresh_rinv.1 fresh_rinv.2⟩

end Store
