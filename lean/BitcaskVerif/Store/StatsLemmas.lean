/-
  C19 helper lemmas, part 1: the counting form of "the counters are exact" (`FileAcc`), the two
  abstract index steps (a value record / a tombstone is appended, the key's previous entry is
  accounted), and their instances `put` and `delete`.
-/
import BitcaskVerif.Store.ALSum

namespace Store.Stats
open Store

/-! ### counters as a total function -/

/-- the counters of file `f` (`Default` when there is no entry, as `entry().or_default()`) -/
def statOf (stats : List (Nat × Stat)) (f : Nat) : Stat := (AL.get f stats).getD {}

theorem statOf_updStat (stats : List (Nat × Stat)) (g : Nat) (h : Stat → Stat) (f : Nat) :
    statOf (updStat stats g h) f = if f = g then h (statOf stats g) else statOf stats f := by
  unfold statOf updStat
  rw [AL.get_set]
  by_cases e : f = g
  · simp [e]
  · simp [e]

theorem get_updStat (stats : List (Nat × Stat)) (g : Nat) (h : Stat → Stat) (f : Nat) :
    AL.get f (updStat stats g h) = if f = g then some (h (statOf stats g)) else AL.get f stats := by
  unfold statOf updStat
  rw [AL.get_set]

/-- the counters after accounting an optional previous entry -/
def acct (stats : List (Nat × Stat)) (prev : Option Loc) : List (Nat × Stat) :=
  match prev with
  | none => stats
  | some p => updStat stats p.fid (·.overwrite p.len)

/-- would accounting `prev` underflow? -/
def underfl (stats : List (Nat × Stat)) (prev : Option Loc) : Bool :=
  match prev with
  | none => false
  | some p => overwriteUnderflows stats p.fid

theorem accountPrev_stats (s : St) (p : Option Loc) : (accountPrev s p).stats = acct s.stats p := by
  unfold accountPrev acct; cases p <;> rfl
theorem accountPrev_bad (s : St) (p : Option Loc) : (accountPrev s p).bad = (s.bad || underfl s.stats p) := by
  unfold accountPrev underfl; cases p <;> simp
theorem accountPrev_written (s : St) (p : Option Loc) : (accountPrev s p).written = s.written := by
  unfold accountPrev; cases p <;> rfl

theorem idx_account_stats (ix : Idx) (p : Option Loc) : (ix.account p).stats = acct ix.stats p := by
  unfold Idx.account acct; cases p <;> rfl
theorem idx_account_bad (ix : Idx) (p : Option Loc) : (ix.account p).bad = (ix.bad || underfl ix.stats p) := by
  unfold Idx.account underfl; cases p <;> simp
theorem idx_account_keydir (ix : Idx) (p : Option Loc) : (ix.account p).keydir = ix.keydir := by
  unfold Idx.account; cases p <;> rfl

theorem nodup_updStat {stats : List (Nat × Stat)} (h : (AL.keys stats).Nodup) (g : Nat) (f : Stat → Stat) :
    (AL.keys (updStat stats g f)).Nodup := nodup_set h

theorem nodup_acct {stats : List (Nat × Stat)} (h : (AL.keys stats).Nodup) (prev : Option Loc) :
    (AL.keys (acct stats prev)).Nodup := by
  cases prev with
  | none => exact h
  | some p => simp only [acct]; exact nodup_updStat h _ _

/-! ### the KeyDir's view of a file -/

/-- number of KeyDir entries that point into file `f` -/
def liveCnt (kd : List (Key × Loc)) (f : Nat) : Nat := wsum (fun l => if l.fid = f then 1 else 0) kd

/-- total length of the entries the KeyDir points to in file `f` -/
def liveBytes (kd : List (Key × Loc)) (f : Nat) : Nat := wsum (fun l => if l.fid = f then l.len else 0) kd

/-- **counting form of exact accounting for one file** whose records are `rs`:
    `live` = number of KeyDir entries in the file, `live + dead` = number of records,
    live bytes + `deadBytes` = file size, and an entry exists iff the file has a record -/
structure FileAcc (kd : List (Key × Loc)) (stats : List (Nat × Stat)) (f : Nat) (rs : List Rec) : Prop where
  live : (statOf stats f).live = liveCnt kd f
  tot : (statOf stats f).live + (statOf stats f).dead = rs.length
  bytes : liveBytes kd f + (statOf stats f).deadBytes = fileSize rs
  dom : AL.get f stats = none ↔ rs = []

theorem liveCnt_pos {kd : List (Key × Loc)} {k : Key} {p : Loc} (h : AL.get k kd = some p) :
    1 ≤ liveCnt kd p.fid := by
  have := wsum_ge_of_get (fun l : Loc => if l.fid = p.fid then 1 else 0) h
  simpa [liveCnt] using this

/-- accounting a previous entry never underflows when its file's `live` counter is at least the
    number of KeyDir entries in that file -/
theorem no_underfl {kd : List (Key × Loc)} {stats : List (Nat × Stat)} {k : Key}
    (h : ∀ p, AL.get k kd = some p → liveCnt kd p.fid ≤ (statOf stats p.fid).live) :
    underfl stats (AL.get k kd) = false := by
  cases hg : AL.get k kd with
  | none => rfl
  | some p =>
    have h1 := h p hg
    have h2 := liveCnt_pos hg
    simp only [underfl, overwriteUnderflows]
    simp only [statOf] at h1
    simp only [decide_eq_false_iff_not]
    omega

theorem statOf_acct (stats : List (Nat × Stat)) (prev : Option Loc) (f : Nat) :
    statOf (acct stats prev) f =
      match prev with
      | none => statOf stats f
      | some p => if f = p.fid then (statOf stats p.fid).overwrite p.len else statOf stats f := by
  cases prev with
  | none => rfl
  | some p => simp only [acct, statOf_updStat]

theorem get_acct_none (stats : List (Nat × Stat)) (prev : Option Loc) (f : Nat) :
    AL.get f (acct stats prev) = none ↔
      AL.get f stats = none ∧ (∀ p, prev = some p → f ≠ p.fid) := by
  cases prev with
  | none => simp [acct]
  | some p =>
    simp only [acct, get_updStat]
    by_cases e : f = p.fid
    · simp [e]
    · simp [e]

/-! ### the two abstract index steps, one file at a time -/

/-- KeyDir counts after `set` -/
theorem liveCnt_set (kd : List (Key × Loc)) (k : Key) (loc : Loc) (f : Nat) :
    liveCnt (AL.set k loc kd) f + ow (fun l => if l.fid = f then 1 else 0) (AL.get k kd) =
      liveCnt kd f + (if loc.fid = f then 1 else 0) := wsum_set _ k loc kd

theorem liveBytes_set (kd : List (Key × Loc)) (k : Key) (loc : Loc) (f : Nat) :
    liveBytes (AL.set k loc kd) f + ow (fun l => if l.fid = f then l.len else 0) (AL.get k kd) =
      liveBytes kd f + (if loc.fid = f then loc.len else 0) := wsum_set _ k loc kd

theorem liveCnt_del {kd : List (Key × Loc)} (hnd : (AL.keys kd).Nodup) (k : Key) (f : Nat) :
    liveCnt (AL.del k kd) f + ow (fun l => if l.fid = f then 1 else 0) (AL.get k kd) = liveCnt kd f :=
  wsum_del _ k hnd

theorem liveBytes_del {kd : List (Key × Loc)} (hnd : (AL.keys kd).Nodup) (k : Key) (f : Nat) :
    liveBytes (AL.del k kd) f + ow (fun l => if l.fid = f then l.len else 0) (AL.get k kd) = liveBytes kd f :=
  wsum_del _ k hnd

/-- **value step**: a value record `r` is appended to file `f0`, the key is pointed at it, the
    file's `live` is incremented and the key's previous entry is accounted. Exactness of every
    file `f` is preserved. (`put`, the data-file scan on a value, the hint-file scan.) -/
theorem FileAcc.value_step {kd : List (Key × Loc)} {stats : List (Nat × Stat)} {f : Nat} {rs : List Rec}
    (h : FileAcc kd stats f rs) (f0 : Nat) (r : Rec) (k : Key) (pos : Nat) (ts : Int) :
    FileAcc (AL.set k ⟨f0, pos, r.len, ts⟩ kd)
      (acct (updStat stats f0 (·.addLive)) (AL.get k kd)) f (if f = f0 then rs ++ [r] else rs) := by
  obtain ⟨h1, h2, h3, h4⟩ := h
  have c1 := liveCnt_set kd k ⟨f0, pos, r.len, ts⟩ f
  have c2 := liveBytes_set kd k ⟨f0, pos, r.len, ts⟩ f
  have hlen := r.len_pos
  cases hg : AL.get k kd with
  | none =>
    rw [hg] at c1 c2
    simp only [ow_none, Nat.add_zero] at c1 c2
    by_cases e : f = f0
    · subst e
      simp only [↓reduceIte] at c1 c2 ⊢
      constructor
      · simp only [statOf_acct, statOf_updStat, ↓reduceIte, Stat.addLive]; omega
      · simp only [statOf_acct, statOf_updStat, ↓reduceIte, Stat.addLive, List.length_append, List.length_singleton]; omega
      · simp only [statOf_acct, statOf_updStat, ↓reduceIte, Stat.addLive, fileSize_append, fileSize_cons, fileSize_nil]; omega
      · simp [get_acct_none, get_updStat]
    · have e' : ¬ f0 = f := fun x => e x.symm
      simp only [e, e', ↓reduceIte, Nat.add_zero] at c1 c2 ⊢
      constructor
      · simp only [statOf_acct, statOf_updStat, e, ↓reduceIte]; omega
      · simp only [statOf_acct, statOf_updStat, e, ↓reduceIte]; omega
      · simp only [statOf_acct, statOf_updStat, e, ↓reduceIte]; omega
      · simp [get_acct_none, get_updStat, e, h4]
  | some p =>
    rw [hg] at c1 c2
    simp only [ow_some] at c1 c2
    have hp := liveCnt_pos hg
    by_cases e : f = f0
    · subst e
      simp only [↓reduceIte] at c1 c2 ⊢
      by_cases ep : f = p.fid
      · have ep' : p.fid = f := ep.symm
        rw [ep'] at hp
        simp only [ep', ↓reduceIte] at c1 c2
        constructor
        · simp only [statOf_acct, statOf_updStat, ← ep, ↓reduceIte, Stat.addLive, Stat.overwrite]; omega
        · simp only [statOf_acct, statOf_updStat, ← ep, ↓reduceIte, Stat.addLive, Stat.overwrite, List.length_append, List.length_singleton]; omega
        · simp only [statOf_acct, statOf_updStat, ← ep, ↓reduceIte, Stat.addLive, Stat.overwrite, fileSize_append, fileSize_cons, fileSize_nil]; omega
        · simp [get_acct_none, get_updStat]
      · have ep' : ¬ p.fid = f := fun x => ep x.symm
        simp only [ep', ↓reduceIte, Nat.add_zero] at c1 c2
        constructor
        · simp only [statOf_acct, statOf_updStat, ep, ↓reduceIte, Stat.addLive]; omega
        · simp only [statOf_acct, statOf_updStat, ep, ↓reduceIte, Stat.addLive, List.length_append, List.length_singleton]; omega
        · simp only [statOf_acct, statOf_updStat, ep, ↓reduceIte, Stat.addLive, fileSize_append, fileSize_cons, fileSize_nil]; omega
        · simp [get_acct_none, get_updStat]
    · have e' : ¬ f0 = f := fun x => e x.symm
      simp only [e, e', ↓reduceIte, Nat.add_zero] at c1 c2 ⊢
      by_cases ep : f = p.fid
      · have ep' : p.fid = f := ep.symm
        rw [ep'] at hp
        simp only [ep', ↓reduceIte] at c1 c2
        have hne : rs ≠ [] := by
          intro hn
          have := h4.mpr hn
          simp only [statOf, this] at h1
          simp at h1; omega
        constructor
        · simp only [statOf_acct, statOf_updStat, ← ep, e, ↓reduceIte, Stat.overwrite]; omega
        · simp only [statOf_acct, statOf_updStat, ← ep, e, ↓reduceIte, Stat.overwrite]; omega
        · simp only [statOf_acct, statOf_updStat, ← ep, e, ↓reduceIte, Stat.overwrite]; omega
        · simp [get_acct_none, get_updStat, ← ep, hne]
      · have ep' : ¬ p.fid = f := fun x => ep x.symm
        simp only [ep', ↓reduceIte, Nat.add_zero] at c1 c2
        constructor
        · simp only [statOf_acct, statOf_updStat, ep, e, ↓reduceIte]; omega
        · simp only [statOf_acct, statOf_updStat, ep, e, ↓reduceIte]; omega
        · simp only [statOf_acct, statOf_updStat, ep, e, ↓reduceIte]; omega
        · simp [get_acct_none, get_updStat, ep, e, h4]

/-- **tombstone step**: a tombstone `r` is appended to file `f0`, the key is removed, the file's
    `dead`/`deadBytes` grow and the key's previous entry is accounted. (`delete`, the data-file
    scan on a tombstone.) -/
theorem FileAcc.tomb_step {kd : List (Key × Loc)} {stats : List (Nat × Stat)} {f : Nat} {rs : List Rec}
    (hnd : (AL.keys kd).Nodup)
    (h : FileAcc kd stats f rs) (f0 : Nat) (r : Rec) (k : Key) :
    FileAcc (AL.del k kd)
      (acct (updStat stats f0 (·.addDead r.len)) (AL.get k kd)) f (if f = f0 then rs ++ [r] else rs) := by
  obtain ⟨h1, h2, h3, h4⟩ := h
  have c1 := liveCnt_del hnd k f
  have c2 := liveBytes_del hnd k f
  have hlen := r.len_pos
  cases hg : AL.get k kd with
  | none =>
    rw [hg] at c1 c2
    simp only [ow_none, Nat.add_zero] at c1 c2
    by_cases e : f = f0
    · subst e
      simp only [↓reduceIte] at c1 c2 ⊢
      constructor
      · simp only [statOf_acct, statOf_updStat, ↓reduceIte, Stat.addDead]; omega
      · simp only [statOf_acct, statOf_updStat, ↓reduceIte, Stat.addDead, List.length_append, List.length_singleton]; omega
      · simp only [statOf_acct, statOf_updStat, ↓reduceIte, Stat.addDead, fileSize_append, fileSize_cons, fileSize_nil]; omega
      · simp [get_acct_none, get_updStat]
    · simp only [e, ↓reduceIte] at c1 c2 ⊢
      constructor
      · simp only [statOf_acct, statOf_updStat, e, ↓reduceIte]; omega
      · simp only [statOf_acct, statOf_updStat, e, ↓reduceIte]; omega
      · simp only [statOf_acct, statOf_updStat, e, ↓reduceIte]; omega
      · simp [get_acct_none, get_updStat, e, h4]
  | some p =>
    rw [hg] at c1 c2
    simp only [ow_some] at c1 c2
    have hp := liveCnt_pos hg
    by_cases e : f = f0
    · subst e
      simp only [↓reduceIte] at c1 c2 ⊢
      by_cases ep : f = p.fid
      · have ep' : p.fid = f := ep.symm
        rw [ep'] at hp
        simp only [ep', ↓reduceIte] at c1 c2
        constructor
        · simp only [statOf_acct, statOf_updStat, ← ep, ↓reduceIte, Stat.addDead, Stat.overwrite]; omega
        · simp only [statOf_acct, statOf_updStat, ← ep, ↓reduceIte, Stat.addDead, Stat.overwrite, List.length_append, List.length_singleton]; omega
        · simp only [statOf_acct, statOf_updStat, ← ep, ↓reduceIte, Stat.addDead, Stat.overwrite, fileSize_append, fileSize_cons, fileSize_nil]; omega
        · simp [get_acct_none, get_updStat]
      · have ep' : ¬ p.fid = f := fun x => ep x.symm
        simp only [ep', ↓reduceIte, Nat.add_zero] at c1 c2
        constructor
        · simp only [statOf_acct, statOf_updStat, ep, ↓reduceIte, Stat.addDead]; omega
        · simp only [statOf_acct, statOf_updStat, ep, ↓reduceIte, Stat.addDead, List.length_append, List.length_singleton]; omega
        · simp only [statOf_acct, statOf_updStat, ep, ↓reduceIte, Stat.addDead, fileSize_append, fileSize_cons, fileSize_nil]; omega
        · simp [get_acct_none, get_updStat]
    · simp only [e, ↓reduceIte] at c1 c2 ⊢
      by_cases ep : f = p.fid
      · have ep' : p.fid = f := ep.symm
        rw [ep'] at hp
        simp only [ep', ↓reduceIte] at c1 c2
        have hne : rs ≠ [] := by
          intro hn
          have := h4.mpr hn
          simp only [statOf, this] at h1
          simp at h1; omega
        constructor
        · simp only [statOf_acct, statOf_updStat, ← ep, e, ↓reduceIte, Stat.overwrite]; omega
        · simp only [statOf_acct, statOf_updStat, ← ep, e, ↓reduceIte, Stat.overwrite]; omega
        · simp only [statOf_acct, statOf_updStat, ← ep, e, ↓reduceIte, Stat.overwrite]; omega
        · simp [get_acct_none, get_updStat, ← ep, hne]
      · have ep' : ¬ p.fid = f := fun x => ep x.symm
        simp only [ep', ↓reduceIte, Nat.add_zero] at c1 c2
        constructor
        · simp only [statOf_acct, statOf_updStat, ep, e, ↓reduceIte]; omega
        · simp only [statOf_acct, statOf_updStat, ep, e, ↓reduceIte]; omega
        · simp only [statOf_acct, statOf_updStat, ep, e, ↓reduceIte]; omega
        · simp [get_acct_none, get_updStat, ep, e, h4]

/-- **move step** (merge): record `r` is appended to the output file `f0`, the key is pointed at
    the copy and the output's `live` is incremented; the source file's counters are left alone.
    Exactness is preserved for every file other than the source. -/
theorem FileAcc.move_step {kd : List (Key × Loc)} {stats : List (Nat × Stat)} {f : Nat} {rs : List Rec}
    (h : FileAcc kd stats f rs) (f0 : Nat) (r : Rec) (k : Key) (pos : Nat) (ts : Int)
    (hsrc : ∀ p, AL.get k kd = some p → p.fid ≠ f) :
    FileAcc (AL.set k ⟨f0, pos, r.len, ts⟩ kd)
      (updStat stats f0 (·.addLive)) f (if f = f0 then rs ++ [r] else rs) := by
  obtain ⟨h1, h2, h3, h4⟩ := h
  have c1 := liveCnt_set kd k ⟨f0, pos, r.len, ts⟩ f
  have c2 := liveBytes_set kd k ⟨f0, pos, r.len, ts⟩ f
  have hlen := r.len_pos
  have hz1 : ow (fun l : Loc => if l.fid = f then 1 else 0) (AL.get k kd) = 0 := by
    cases hg : AL.get k kd with
    | none => rfl
    | some p => simp [hsrc p hg]
  have hz2 : ow (fun l : Loc => if l.fid = f then l.len else 0) (AL.get k kd) = 0 := by
    cases hg : AL.get k kd with
    | none => rfl
    | some p => simp [hsrc p hg]
  rw [hz1] at c1; rw [hz2] at c2
  by_cases e : f = f0
  · subst e
    simp only [↓reduceIte, Nat.add_zero] at c1 c2 ⊢
    constructor
    · simp only [statOf_updStat, ↓reduceIte, Stat.addLive]; omega
    · simp only [statOf_updStat, ↓reduceIte, Stat.addLive, List.length_append, List.length_singleton]; omega
    · simp only [statOf_updStat, ↓reduceIte, Stat.addLive, fileSize_append, fileSize_cons, fileSize_nil]; omega
    · simp [get_updStat]
  · have e' : ¬ f0 = f := fun x => e x.symm
    simp only [e, e', ↓reduceIte, Nat.add_zero] at c1 c2 ⊢
    constructor
    · simp only [statOf_updStat, e, ↓reduceIte]; omega
    · simp only [statOf_updStat, e, ↓reduceIte]; omega
    · simp only [statOf_updStat, e, ↓reduceIte]; omega
    · simp [get_updStat, e, h4]

/-- in both steps the accounted previous entry finds a positive `live` counter -/
theorem FileAcc.no_underfl {kd : List (Key × Loc)} {stats : List (Nat × Stat)} {c : Nat → List Rec}
    (h : ∀ f, FileAcc kd stats f (c f)) (f0 : Nat) (g : Stat → Stat) (hg : ∀ st, st.live ≤ (g st).live) (k : Key) :
    underfl (updStat stats f0 g) (AL.get k kd) = false := by
  apply Stats.no_underfl
  intro p hp
  rw [statOf_updStat, ← (h p.fid).live]
  by_cases e : p.fid = f0
  · simp only [e, ↓reduceIte]; exact hg _
  · simp only [e, ↓reduceIte]; exact Nat.le_refl _

theorem FileAcc.of_get_eq {kd : List (Key × Loc)} {stats stats' : List (Nat × Stat)} {f : Nat} {rs : List Rec}
    (h : FileAcc kd stats f rs) (he : AL.get f stats' = AL.get f stats) : FileAcc kd stats' f rs := by
  obtain ⟨h1, h2, h3, h4⟩ := h
  have hs : statOf stats' f = statOf stats f := by simp only [statOf, he]
  exact ⟨by rw [hs]; exact h1, by rw [hs]; exact h2, by rw [hs]; exact h3, by rw [he]; exact h4⟩

/-- a file no KeyDir entry points to, with no records and no counters, is exact -/
theorem FileAcc.empty {kd : List (Key × Loc)} {stats : List (Nat × Stat)} {f : Nat}
    (hkd : ∀ k l, (k, l) ∈ kd → l.fid ≠ f) (hs : AL.get f stats = none) : FileAcc kd stats f [] := by
  have z1 : liveCnt kd f = 0 := wsum_zero (fun k l hm => by simp [hkd k l hm])
  have z2 : liveBytes kd f = 0 := wsum_zero (fun k l hm => by simp [hkd k l hm])
  constructor
  · simp [statOf, hs, z1]
  · simp [statOf, hs]
  · simp [statOf, hs, z2]
  · simp [hs]

end Store.Stats
