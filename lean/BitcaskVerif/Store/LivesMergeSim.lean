/-
  Lives after a crash inside a merge, part 6: a merge pass on the store and on its visible part.

  The merge loop reads records only through index entries, and those address visible records;
  it writes only to new files.  So the pass run on the real directory and the pass run on the
  visible part issue the same calls and reach the same index and counters (`LoopSim`,
  `mergeWith_withDisk`); their directories consist of the old files of either side followed by
  the SAME new files (`LoopSim.disk1`, `LoopSim.disk`).
-/
import BitcaskVerif.Store.LivesDapp

namespace Store

/-- two states of the merge loop that agree in everything but the directory -/
structure MS (m1 m : MergeSt) : Prop where
  kd : m1.s.keydir = m.s.keydir
  stats : m1.s.stats = m.s.stats
  active : m1.s.active = m.s.active
  written : m1.s.written = m.s.written
  bad : m1.s.bad = m.s.bad
  mid : m1.mid = m.mid
  mpos : m1.mpos = m.mpos
  calls : m1.calls = m.calls

/-- one iteration on both sides, provided the entry of the visited key addresses the same record -/
theorem mergeStep_sim (cfg : Cfg) (sel : List Nat) {m1 m : MergeSt} (h : MS m1 m) (k : Key)
    (hrec : ∀ loc, AL.get k m1.s.keydir = some loc → loc.fid ∈ sel →
      ∃ r, recAt (dataOf m1.s.disk loc.fid) loc.pos = some r ∧ recAt (dataOf m.s.disk loc.fid) loc.pos = some r) :
    MS (mergeStep cfg sel m1 k) (mergeStep cfg sel m k) := by
  cases hk : AL.get k m1.s.keydir with
  | none =>
    rw [mergeStep_skip_none cfg sel m1 k hk, mergeStep_skip_none cfg sel m k (by rw [← h.kd]; exact hk)]
    exact h
  | some loc =>
    have hk' : AL.get k m.s.keydir = some loc := by rw [← h.kd]; exact hk
    by_cases hsel : loc.fid ∈ sel
    · obtain ⟨r, h1, h2⟩ := hrec loc hk hsel
      rw [mergeStep_move cfg sel m1 k loc r hk hsel h1, mergeStep_move cfg sel m k loc r hk' hsel h2, h.mpos]
      by_cases hroll : m.mpos + loc.len > cfg.maxFile
      · simp only [hroll, ↓reduceIte]
        constructor <;>
          simp only [moveSt, newLocOf, moveCalls, h.kd, h.stats, h.active, h.written, h.bad, h.mid, h.mpos, h.calls]
      · simp only [hroll, ↓reduceIte]
        constructor <;>
          simp only [moveSt, newLocOf, moveCalls, h.kd, h.stats, h.active, h.written, h.bad, h.mid, h.mpos, h.calls]
    · rw [mergeStep_skip_unsel cfg sel m1 k loc hk hsel, mergeStep_skip_unsel cfg sel m k loc hk' hsel]
      exact h

/-- the calls of the copy phase touch only files above the active id and remove nothing -/
theorem mergeStep_out (cfg : Cfg) (sel : List Nat) {A : Nat} (m : MergeSt) (k : Key) (hgt : A < m.mid)
    (h : ∀ c ∈ m.calls, OutCall A c) : ∀ c ∈ (mergeStep cfg sel m k).calls, OutCall A c := by
  apply Tr.mergeStep_ind (fun m' => ∀ c ∈ m'.calls, OutCall A c) cfg sel m k h h
  · intro loc r _ _ _ c hc
    simp only [Tr.moveNoRoll, moveCalls, List.mem_append, List.mem_cons, List.not_mem_nil, or_false] at hc
    rcases hc with hc | rfl | rfl
    · exact h c hc
    · exact ⟨hgt, by intro f; simp⟩
    · exact ⟨hgt, by intro f; simp⟩
  · intro loc r _ _ _ c hc
    simp only [Tr.moveRoll, moveCalls, List.mem_append, List.mem_cons, List.not_mem_nil, or_false] at hc
    rcases hc with (hc | rfl | rfl) | rfl | rfl | rfl | rfl
    · exact h c hc
    · exact ⟨hgt, by intro f; simp⟩
    · exact ⟨hgt, by intro f; simp⟩
    · exact ⟨hgt, by intro f; simp⟩
    · exact ⟨hgt, by intro f; simp⟩
    · exact ⟨by simp only [callId]; omega, by intro f; simp⟩
    · exact ⟨by simp only [callId]; omega, by intro f; simp⟩

theorem LJw.below {s : St} {d1 : Disk} (h : LJw s d1) : Below s.active s.disk := ⟨h.inv.ids, h.inv.hids⟩
theorem LJw.below1 {s : St} {d1 : Disk} (h : LJw s d1) : Below s.active d1 := ⟨h.rinv.inv.ids, h.rinv.inv.hids⟩

/-- the merge loop on the visible part (`m1`) and on the real directory (`m`), started in `s` -/
structure LoopSim (s : St) (d1 : Disk) (m1 m : MergeSt) : Prop where
  ms : MS m1 m
  minv : MInv s.active ({ s with disk := d1 } : St).abs m1
  fr1 : applyCalls d1 m1.calls = m1.s.disk
  fr : applyCalls s.disk m.calls = m.s.disk
  out : ∀ c ∈ m1.calls, OutCall s.active c

/-- the directory of the loop on the visible part: old visible files, then the new files -/
theorem LoopSim.disk1 {s : St} {d1 : Disk} {m1 m : MergeSt} (w : LJw s d1) (h : LoopSim s d1 m1 m) :
    m1.s.disk = dapp d1 (newFiles s.disk.tails m1.calls) := by
  rw [← h.fr1, applyCalls_out w.below1 h.out, w.sim.tl]

/-- the directory of the loop on the real directory: old files, then the same new files -/
theorem LoopSim.disk {s : St} {d1 : Disk} {m1 m : MergeSt} (w : LJw s d1) (h : LoopSim s d1 m1 m) :
    m.s.disk = dapp s.disk (newFiles s.disk.tails m1.calls) := by
  rw [← h.fr, ← h.ms.calls, applyCalls_out w.below h.out]

theorem LoopSim.newOk {s : St} {d1 : Disk} {m1 m : MergeSt} (h : LoopSim s d1 m1 m) :
    NewOk s.active s.disk.tails (newFiles s.disk.tails m1.calls) := newOk_newFiles _ h.out

/-- a visible record of an old file is a record of the real file -/
theorem Sim.recAt {d1 d : Disk} (h : Sim d1 d) {fid p : Nat} {r : Rec} (hr : recAt (dataOf d1 fid) p = some r) :
    recAt (dataOf d fid) p = some r := by
  obtain ⟨t, e⟩ := h.pre fid
  rw [← e]; exact recAt_append_left hr t

theorem LoopSim.step (cfg : Cfg) {s : St} {d1 : Disk} (w : LJw s d1) {sel : List Nat}
    (hsel : ∀ id, id ∈ sel → id ≤ s.active) {m1 m : MergeSt} (h : LoopSim s d1 m1 m) (k : Key) :
    LoopSim s d1 (mergeStep cfg sel m1 k) (mergeStep cfg sel m k) := by
  refine ⟨?_, (mergeStep_spec cfg sel _ _ hsel m1 k h.minv).1, mergeStep_frame cfg sel d1 m1 k h.fr1,
    mergeStep_frame cfg sel s.disk m k h.fr, mergeStep_out cfg sel m1 k h.minv.midgt h.out⟩
  apply mergeStep_sim cfg sel h.ms k
  intro loc hk hs
  have hle : loc.fid ≤ s.active := hsel _ hs
  obtain ⟨r, h1, _⟩ := h.minv.locs k loc hk
  refine ⟨r, h1, ?_⟩
  rw [h.disk1 w, dataOf_dapp_le h.newOk hle] at h1
  rw [h.disk w, dataOf_dapp_le h.newOk hle]
  exact w.sim.recAt h1

theorem LoopSim.fold (cfg : Cfg) {s : St} {d1 : Disk} (w : LJw s d1) {sel : List Nat}
    (hsel : ∀ id, id ∈ sel → id ≤ s.active) (order : List Key) : ∀ {m1 m : MergeSt}, LoopSim s d1 m1 m →
    LoopSim s d1 (order.foldl (mergeStep cfg sel) m1) (order.foldl (mergeStep cfg sel) m) := by
  induction order with
  | nil => intro m1 m h; exact h
  | cons k ks ih => intro m1 m h; exact ih (h.step cfg w hsel k)

theorem LoopSim.start {s : St} {d1 : Disk} (w : LJw s d1) :
    LoopSim s d1 (mergeStart { s with disk := d1 }) (mergeStart s) := by
  refine ⟨⟨rfl, rfl, rfl, rfl, rfl, rfl, rfl, rfl⟩, (mergeStart_spec _ w.rinv).1, mergeStart_frame _, mergeStart_frame s, ?_⟩
  intro c hc
  simp only [mergeStart, List.mem_cons, List.not_mem_nil, or_false] at hc
  rcases hc with rfl | rfl
  · exact ⟨by simp only [callId]; omega, by intro f; simp⟩
  · exact ⟨by simp only [callId]; omega, by intro f; simp⟩

/-- **the copy phase on both sides** -/
theorem mergeLoop_sim (cfg : Cfg) {s : St} {d1 : Disk} (w : LJw s d1) {sel : List Nat}
    (hsel : ∀ id, id ∈ sel → id ≤ s.active) (order : List Key) :
    LoopSim s d1 (mergeLoop cfg { s with disk := d1 } sel order) (mergeLoop cfg s sel order) :=
  (LoopSim.start w).fold cfg w hsel order

/-! ### the removal phase on both sides -/

/-- two states of the removal phase that agree in everything but the contents of the files -/
structure US (st1 st : St × List Call) : Prop where
  kd : st1.1.keydir = st.1.keydir
  stats : st1.1.stats = st.1.stats
  active : st1.1.active = st.1.active
  written : st1.1.written = st.1.written
  bad : st1.1.bad = st.1.bad
  calls : st1.2 = st.2
  dsome : ∀ id, (AL.get id st1.1.disk.data).isSome = (AL.get id st.1.disk.data).isSome
  hsome : ∀ id, (AL.get id st1.1.disk.hint).isSome = (AL.get id st.1.disk.hint).isSome

theorem unlinkOne_sim {st1 st : St × List Call} (h : US st1 st) (id : Nat) : US (unlinkOne st1 id) (unlinkOne st id) := by
  obtain ⟨s1, c1⟩ := st1
  obtain ⟨s, c⟩ := st
  have hk := h.kd; have hs := h.stats; have ha := h.active; have hw := h.written; have hb := h.bad
  have hc := h.calls; have hd := h.dsome id; have hh := h.hsome id
  simp only at hk hs ha hw hb hc hd hh
  refine ⟨hk, ?_, ha, hw, hb, ?_, ?_, ?_⟩
  · simp only [unlinkOne, hs]
  · simp only [unlinkOne, hc, hd, hh]
  · intro i
    simp only [unlinkOne, AL.get_del]
    by_cases e : i = id
    · simp [e]
    · simp only [e, ↓reduceIte]; exact h.dsome i
  · intro i
    simp only [unlinkOne, AL.get_del]
    by_cases e : i = id
    · simp [e]
    · simp only [e, ↓reduceIte]; exact h.hsome i

theorem unlinkFold_sim (l : List Nat) : ∀ {st1 st : St × List Call}, US st1 st →
    US (l.foldl unlinkOne st1) (l.foldl unlinkOne st) := by
  induction l with
  | nil => intro st1 st h; exact h
  | cons id ids ih => intro st1 st h; exact ih (unlinkOne_sim h id)

theorem LoopSim.isSome {s : St} {d1 : Disk} {m1 m : MergeSt} (w : LJw s d1) (h : LoopSim s d1 m1 m) (id : Nat) :
    (AL.get id m1.s.disk.data).isSome = (AL.get id m.s.disk.data).isSome ∧
    (AL.get id m1.s.disk.hint).isSome = (AL.get id m.s.disk.hint).isSome := by
  rw [h.disk1 w, h.disk w]
  by_cases hle : id ≤ s.active
  · rw [get_data_dapp_le h.newOk hle, get_data_dapp_le h.newOk hle, get_hint_dapp_le h.newOk hle,
      get_hint_dapp_le h.newOk hle]
    exact ⟨(w.sim.data_isSome id).symm, (isSome_of_keys w.sim.hkeys id).symm⟩
  · have hgt : s.active < id := by omega
    rw [get_data_dapp_gt w.below1 hgt, get_data_dapp_gt w.below hgt, get_hint_dapp_gt w.below1 hgt,
      get_hint_dapp_gt w.below hgt]
    exact ⟨rfl, rfl⟩

/-- **a merge pass on the visible part**: same index, counters and calls as on the real
    directory -/
theorem mergeWith_withDisk (cfg : Cfg) {s : St} {d1 : Disk} (w : LJw s d1) {sel : List Nat}
    (hsel : ∀ id, id ∈ sel → id ≤ s.active) (order : List Key) :
    ({ (mergeWith cfg s sel order).1 with disk := (mergeWith cfg { s with disk := d1 } sel order).1.disk } : St) =
      (mergeWith cfg { s with disk := d1 } sel order).1 ∧
    (mergeWith cfg { s with disk := d1 } sel order).2 = (mergeWith cfg s sel order).2 := by
  have hl := mergeLoop_sim cfg w hsel order
  have h0 : US ((mergeLoop cfg { s with disk := d1 } sel order).s,
        (mergeLoop cfg { s with disk := d1 } sel order).calls ++
          [Call.fsync ⟨.data, (mergeLoop cfg { s with disk := d1 } sel order).mid⟩,
           Call.fsync ⟨.hint, (mergeLoop cfg { s with disk := d1 } sel order).mid⟩])
      ((mergeLoop cfg s sel order).s,
        (mergeLoop cfg s sel order).calls ++
          [Call.fsync ⟨.data, (mergeLoop cfg s sel order).mid⟩, Call.fsync ⟨.hint, (mergeLoop cfg s sel order).mid⟩]) :=
    ⟨hl.ms.kd, hl.ms.stats, hl.ms.active, hl.ms.written, hl.ms.bad, by simp only [hl.ms.calls, hl.ms.mid],
      fun id => (hl.isSome w id).1, fun id => (hl.isSome w id).2⟩
  have hu := unlinkFold_sim sel h0
  constructor
  · rw [mergeWith_fst, mergeWith_fst]
    apply St.ext'
    · rfl
    · exact hu.kd.symm
    · exact hu.stats.symm
    · show (mergeLoop cfg s sel order).mid + 1 = (mergeLoop cfg { s with disk := d1 } sel order).mid + 1
      rw [hl.ms.mid]
    · rfl
    · exact hu.bad.symm
  · rw [mergeWith_calls, mergeWith_calls, hu.calls, hl.ms.mid]

end Store
