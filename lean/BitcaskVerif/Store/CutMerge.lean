/-
  Crash cuts of the merge pass (C03), part 1: general lemmas about directories that are not
  "clean" (a data file with a record its hint file does not list yet), the loop invariant of the
  copy phase with everything a crash analysis needs, and the directories a cut inside one merge
  iteration can leave.
-/
import BitcaskVerif.Store.CutRecover
import BitcaskVerif.Store.Rescan

namespace Store

/-- the reopened store satisfies the store invariant (reads are sound) and reads as `m`.
    (Weaker than `Recovers`: after a kill between the data append and the hint append of a merge
    iteration the output's hint file lists one record less than its data file, so `HintsExact`
    does not hold in the reopened store.) -/
def RecoversW (d : Disk) (m : Map) : Prop := Inv (openDisk d).1 ∧ (openDisk d).1.abs = m

theorem Recovers.weak {d : Disk} {m : Map} (h : Recovers d m) : RecoversW d m := ⟨h.1.inv, h.2.2⟩

/-! ### the scan of directories that differ in invisible parts -/

theorem rebuild_congr {d d' : Disk} (hids : sortedIds d' = sortedIds d)
    (h : ∀ fid, fid ∈ sortedIds d → ∀ ix, fileScan d' ix fid = fileScan d ix fid) :
    rebuild d' = rebuild d := by
  rw [rebuild_eq, rebuild_eq, hids]
  unfold rebuildWith
  congr 1
  exact Tr.foldl_scanFile_congr (d := d) (d' := d') (sortedIds d) h _

/-- a hint file all of whose entries fit inside the data file is read completely -/
theorem fileScan_hinted {d : Disk} {fid : Nat} {hs : List Hint} (hg : AL.get fid d.hint = some hs)
    (hfit : ∀ h ∈ hs, h.pos + h.len ≤ fileSize (dataOf d fid) + (AL.get fid d.tails).getD 0) (ix : Idx) :
    fileScan d ix fid = hs.foldl (hintStep fid) ix := by
  unfold fileScan
  rw [hg]
  simp only [scanHints_eq]
  rw [takeWhile_all]
  intro h hh
  simp only [decide_eq_true_eq]
  exact hfit h hh

theorem HintsExact.fit {d : Disk} (h : HintsExact d) {fid : Nat} {hs : List Hint}
    (hg : AL.get fid d.hint = some hs) : ∀ x ∈ hs, x.pos + x.len ≤ fileSize (dataOf d fid) := by
  have he := h fid hs hg
  intro x hx
  have hm : hintEv fid x ∈ evData fid (dataOf d fid) 0 := by
    rw [← he]; exact List.mem_map.mpr ⟨x, hx, rfl⟩
  obtain ⟨r, q, _, h2, h3⟩ := mem_evData hm
  have hp : x.pos = 0 + q := by
    have := congrArg (fun e => e.loc.pos) h2; simpa [hintEv, mkEv] using this
  have hl : x.len = r.len := by
    have := congrArg (fun e => e.loc.len) h2; simpa [hintEv, mkEv] using this
  omega

/-- if the scan of `d'` is the scan of `d`, `d'` has the same files and hint files and keeps
    every record of `d`, then `d'` opens as `d` does -/
theorem recoversW_extend {d d' : Disk} {m : Map} (hr : rebuild d' = rebuild d) (hkeep : ∀ b, Keeps b d d')
    (hkeys : AL.keys d'.data = AL.keys d.data) (hh : ∀ id, id ∈ AL.keys d'.hint → id ∈ AL.keys d.hint)
    (h : RecoversW d m) : RecoversW d' m := by
  obtain ⟨hi, ha⟩ := h
  have hkd : (openDisk d').1.keydir = (openDisk d).1.keydir := by
    rw [openDisk_keydir, openDisk_keydir, hr]
  have hact : (openDisk d').1.active = (openDisk d).1.active := by
    rw [openDisk_active, openDisk_active, hr]
  have hK : ∀ b, Keeps b (openDisk d).1.disk (openDisk d').1.disk := by
    intro b fid p x _ h1 h2
    rw [openDisk_disk] at h1 h2
    rw [openDisk_disk, hr]
    by_cases e : fid = (rebuild d).2
    · subst e
      simp [dataOf, AL.get_set_same, recAt] at h1
    · simp only [dataOf, AL.get_set_other e] at h1 h2 ⊢
      exact hkeep fid fid p x (Nat.le_refl _) h1 h2
  refine ⟨⟨?_, ?_, ?_, ?_⟩, ?_⟩
  · intro k loc hk
    rw [hkd] at hk
    have hl := hi.locs k loc hk
    exact hl.keeps (Nat.le_refl _) (hK loc.fid)
  · intro id hid
    rw [hact]
    apply hi.ids
    rw [openDisk_disk] at hid ⊢
    rw [hr] at hid
    rcases mem_keys_set hid with e | e
    · rw [e]; exact Tr.mem_keys_set_self _ _ _
    · rw [hkeys] at e; exact Tr.mem_keys_set_of_mem _ e
  · intro id hid
    rw [hact]
    apply hi.hids
    rw [openDisk_disk] at hid ⊢
    simp only at hid ⊢
    exact hh id hid
  · rw [openDisk_disk, openDisk_active]; simp [AL.get_set_same]
  · rw [← ha]
    funext k
    apply abs_keeps (b := (openDisk d).1.active)
    · intro loc hl
      exact ⟨hi.locs k loc hl, LocOk.fid_le hi (hi.locs k loc hl)⟩
    · rw [hkd]
    · exact hK _

/-! ### the loop invariant of the copy phase -/

/-- everything the crash analysis needs to know about a state of the merge loop started in `s` -/
structure LI (s : St) (m : MergeSt) : Prop where
  minv : MInv s.active s.abs m
  mr : MR m
  /-- the index is exactly what a scan of the current directory recovers -/
  kd : kdF m.s.keydir = replay (allEvs m.s.disk.data)
  /-- the calls issued so far are the effect on the directory so far -/
  frame : applyCalls s.disk m.calls = m.s.disk
  dom : ∀ k, (AL.get k m.s.keydir).isSome = (AL.get k s.keydir).isSome
  /-- the merge has only added records of keys that are present -/
  evs : ∃ extra, allEvs m.s.disk.data = allEvs s.disk.data ++ extra ∧
    ∀ e ∈ extra, (AL.get e.key s.keydir).isSome = true

theorem LI.clean {s : St} {m : MergeSt} (h : LI s m) : Clean m.s.disk m.s.keydir m.mid := by
  refine ⟨h.mr.asc, h.mr.hx, ?_, h.minv.ids, h.minv.hids, h.minv.locs, h.kd⟩
  have := h.minv.midex
  cases hg : AL.get m.mid m.s.disk.data with
  | none => simp [hg] at this
  | some v => exact AL.mem_keys_of_get hg

theorem LI.absOf {s : St} {m : MergeSt} (h : LI s m) : absOf m.s.disk m.s.keydir = s.abs := by
  rw [← abs_eq_absOf]; exact h.minv.abs

theorem LI.recovers {s : St} {m : MergeSt} (h : LI s m) : Recovers m.s.disk s.abs := by
  have := h.clean.recovers
  rw [h.absOf] at this
  exact this

theorem mergeStart_li {s : St} (h : RInv s) (hf : Full s) : LI s (mergeStart s) := by
  obtain ⟨a, b, c⟩ := mergeStart_spec s h
  refine ⟨a, b, ?_, mergeStart_frame s, fun _ => rfl, ⟨[], by rw [c]; simp, by simp⟩⟩
  rw [c]
  exact h.kd_eq hf

theorem mergeStep_li (cfg : Cfg) (sel : List Nat) {s : St} (hsel : ∀ id, id ∈ sel → id ≤ s.active)
    {m : MergeSt} (h : LI s m) (k : Key) : LI s (mergeStep cfg sel m k) := by
  obtain ⟨s1, s2, _, _, _⟩ := mergeStep_spec cfg sel s.active s.abs hsel m k h.minv
  have hmr := mergeStep_mr cfg sel m k h.minv h.mr
  have hfr := mergeStep_frame cfg sel s.disk m k h.frame
  have hdom : ∀ k', (AL.get k' (mergeStep cfg sel m k).s.keydir).isSome = (AL.get k' s.keydir).isSome :=
    fun k' => by rw [s2, h.dom]
  rcases mergeStep_events cfg sel m k h.minv h.mr with e | ⟨loc, hk, hkd, hev, _, _, _⟩
  · rw [e]; exact h
  · refine ⟨s1, hmr, ?_, hfr, hdom, ?_⟩
    · rw [hkd, hev]
      funext k'
      unfold kdF
      rw [AL.get_set]
      by_cases hkk : k' = k
      · subst hkk
        have := replay_snoc_same (allEvs m.s.disk.data) ⟨k', newLocOf m loc, false⟩
        simp only [↓reduceIte]
        simpa using this.symm
      · simp only [hkk, ↓reduceIte]
        rw [replay_snoc_other _ _ (fun e => hkk e.symm)]
        exact congrFun h.kd k'
    · obtain ⟨extra, e1, e2⟩ := h.evs
      refine ⟨extra ++ [⟨k, newLocOf m loc, false⟩], by rw [hev, e1, List.append_assoc], ?_⟩
      intro e he
      rcases List.mem_append.mp he with he | he
      · exact e2 e he
      · simp only [List.mem_singleton] at he
        subst he
        simp only
        rw [← h.dom, hk]; rfl

theorem mergeFold_li (cfg : Cfg) (sel : List Nat) {s : St} (hsel : ∀ id, id ∈ sel → id ≤ s.active)
    (order : List Key) : ∀ {m : MergeSt}, LI s m → LI s (order.foldl (mergeStep cfg sel) m) := by
  induction order with
  | nil => intro m h; exact h
  | cons k ks ih => intro m h; exact ih (mergeStep_li cfg sel hsel h k)

theorem mergeLoop_li (cfg : Cfg) {s : St} (h : RInv s) (hf : Full s) (sel : List Nat)
    (hsel : ∀ id, id ∈ sel → id ≤ s.active) (order : List Key) : LI s (mergeLoop cfg s sel order) :=
  mergeFold_li cfg sel hsel order (mergeStart_li h hf)

/-! ### cuts inside one merge iteration -/

/-- a clean directory plus one more empty data file above every id opens to the same contents -/
theorem Clean.recovers_addData {d : Disk} {kd : List (Key × Loc)} {a : Nat} (h : Clean d kd a) {b : Nat}
    (hb : a < b) : Recovers { d with data := AL.set b [] d.data } (absOf d kd) := by
  have hr := (h.addData hb).recovers
  have : absOf { d with data := AL.set b [] d.data } kd = absOf d kd := by
    funext k
    show St.abs { disk := { d with data := AL.set b [] d.data }, keydir := kd } k =
      St.abs { disk := d, keydir := kd } k
    apply abs_keeps (b := a)
    · intro loc hl; exact ⟨h.locs k loc hl, h.fid_le (h.locs k loc hl)⟩
    · rfl
    · exact keeps_create _ _ _ hb _ _
  rw [this] at hr
  exact hr

/-- the directory after the data append of a merge iteration, before its hint append -/
def halfDisk (m : MergeSt) (r : Rec) : Disk :=
  { m.s.disk with data := AL.set m.mid (dataOf m.s.disk m.mid ++ [r]) m.s.disk.data }

/-- a copied record whose hint entry is missing is invisible to the scan (the source file still
    holds it) -/
theorem halfDisk_recovers {s : St} {m : MergeSt} (h : LI s m) (r : Rec) : RecoversW (halfDisk m r) s.abs := by
  refine recoversW_extend (d := m.s.disk) (d' := halfDisk m r) ?_ ?_ ?_ (fun _ hi => hi) h.recovers.weak
  · apply rebuild_congr
    · exact Tr.sortedIds_eq_of_keys (Tr.keys_set_old _ _ _ h.minv.midex)
    · intro fid _ ix
      by_cases e : fid = m.mid
      · subst e
        obtain ⟨hs, hg⟩ := Option.isSome_iff_exists.mp h.mr.hmid
        have hfit := h.mr.hx.fit hg
        have hg' : AL.get m.mid (halfDisk m r).hint = some hs := hg
        rw [fileScan_hinted hg' ?_ ix, fileScan_hinted hg ?_ ix]
        · intro x hx; have := hfit x hx; omega
        · intro x hx
          have := hfit x hx
          have e : dataOf (halfDisk m r) m.mid = dataOf m.s.disk m.mid ++ [r] := dataOf_set_same _ _ _
          rw [e, fileSize_append]
          omega
      · exact Tr.scanFile_congr (d := m.s.disk) (d' := halfDisk m r) rfl (dataOf_set_other _ e _) (fun _ => rfl) ix
  · intro b; exact keeps_append _ _ _ _ _ _
  · exact Tr.keys_set_old _ _ _ h.minv.midex

theorem cut_two_appends {f g : FName} {p q : Payload} {c : List Call}
    (h : Cut [Call.append f p, Call.append g q] c) :
    c = [] ∨ (∃ bs, c = [Call.append f (.raw bs)]) ∨ c = [Call.append f p] ∨
    (∃ bs, c = [Call.append f p, Call.append g (.raw bs)]) ∨ c = [Call.append f p, Call.append g q] := by
  rcases cut_cons h with rfl | ⟨y, ⟨f', p', bs, e, _, rfl⟩, rfl⟩ | ⟨c', rfl, h'⟩
  · exact .inl rfl
  · simp only [Call.append.injEq] at e
    obtain ⟨rfl, _⟩ := e
    exact .inr (.inl ⟨bs, rfl⟩)
  · rcases cut_cons h' with rfl | ⟨y, ⟨f', p', bs, e, _, rfl⟩, rfl⟩ | ⟨c'', rfl, h''⟩
    · exact .inr (.inr (.inl rfl))
    · simp only [Call.append.injEq] at e
      obtain ⟨rfl, _⟩ := e
      exact .inr (.inr (.inr (.inl ⟨bs, rfl⟩)))
    · rw [cut_nil h'']; exact .inr (.inr (.inr (.inr rfl)))

theorem prefix_cases4 {α : Type} {a b c d : α} {x post : List α} (h : [a, b, c, d] = x ++ post) :
    x = [] ∨ x = [a] ∨ x = [a, b] ∨ x = [a, b, c] ∨ x = [a, b, c, d] := by
  rcases x with _ | ⟨x1, _ | ⟨x2, _ | ⟨x3, _ | ⟨x4, _ | ⟨x5, x⟩⟩⟩⟩⟩ <;> simp_all

theorem prefix_cases2 {α : Type} {a b : α} {x post : List α} (h : [a, b] = x ++ post) :
    x = [] ∨ x = [a] ∨ x = [a, b] := by
  rcases x with _ | ⟨x1, _ | ⟨x2, _ | ⟨x3, x⟩⟩⟩ <;> simp_all

/-- every cut of the two appends of a merge iteration -/
theorem move_cuts {s : St} {m : MergeSt} (h : LI s m) (k : Key) (loc : Loc) (r : Rec)
    (hmove : LI s (Tr.moveNoRoll m k loc r)) {c : List Call}
    (hc : Cut [Call.append ⟨.data, m.mid⟩ (.ofRec r),
      Call.append ⟨.hint, m.mid⟩ (.ofHint { ts := loc.ts, len := loc.len, pos := m.mpos, key := k })] c) :
    RecoversW (applyCalls m.s.disk c) s.abs := by
  rcases cut_two_appends hc with rfl | ⟨bs, rfl⟩ | rfl | ⟨bs, rfl⟩ | rfl
  · exact h.recovers.weak
  · have := (h.clean.tails (AL.set m.mid ((AL.get m.mid m.s.disk.tails).getD 0 + bs.length) m.s.disk.tails)).recovers
    rw [absOf_tails, h.absOf] at this
    exact this.weak
  · exact halfDisk_recovers h r
  · exact halfDisk_recovers h r
  · exact hmove.recovers.weak

/-- **a kill inside one merge iteration** leaves a cut of the calls issued before the iteration,
    or a directory that opens to the contents before the merge -/
theorem mergeStep_cuts (cfg : Cfg) (sel : List Nat) {s : St} (hsel : ∀ id, id ∈ sel → id ≤ s.active)
    {m : MergeSt} (h : LI s m) (k : Key) {c : List Call} (hc : Cut (mergeStep cfg sel m k).calls c) :
    Cut m.calls c ∨ RecoversW (applyCalls s.disk c) s.abs := by
  cases hk : AL.get k m.s.keydir with
  | none => rw [mergeStep_skip_none cfg sel m k hk] at hc; exact .inl hc
  | some loc =>
    by_cases hs : loc.fid ∈ sel
    · obtain ⟨r, h1, _, _, _, _⟩ := h.minv.locs k loc hk
      have hNR : mergeStep { cfg with maxFile := m.mpos + loc.len } sel m k = Tr.moveNoRoll m k loc r := by
        rw [mergeStep_move _ sel m k loc r hk hs h1]
        simp [Tr.moveNoRoll]
      have hliNR : LI s (Tr.moveNoRoll m k loc r) := hNR ▸ mergeStep_li _ sel hsel h k
      have hli' := mergeStep_li cfg sel hsel h k
      rw [mergeStep_move cfg sel m k loc r hk hs h1] at hc hli'
      by_cases hroll : m.mpos + loc.len > cfg.maxFile
      · simp only [hroll, ↓reduceIte] at hc hli'
        unfold moveCalls at hc
        rw [List.append_assoc] at hc
        rcases cut_append hc with h2 | ⟨c', rfl, h2⟩
        · exact .inl h2
        · right
          rw [applyCalls_append, h.frame]
          rcases cut_append h2 with h3 | ⟨c'', rfl, h4⟩
          · exact move_cuts h k loc r hliNR h3
          · rw [applyCalls_append, move_frame]
            obtain ⟨post, e⟩ := cut_noappend (by
              intro x hx f p
              simp only [List.mem_cons, List.not_mem_nil, or_false] at hx
              rcases hx with rfl | rfl | rfl | rfl <;> simp) h4
            have hmd : Recovers (moveDisk m k loc r) s.abs := hliNR.recovers
            rcases prefix_cases4 e with rfl | rfl | rfl | rfl | rfl
            · exact hmd.weak
            · exact hmd.weak
            · exact hmd.weak
            · have := hliNR.clean.recovers_addData (b := m.mid + 1) (Nat.lt_succ_self _)
              rw [hliNR.absOf] at this
              exact this.weak
            · exact hli'.recovers.weak
      · simp only [hroll, ↓reduceIte] at hc
        unfold moveCalls at hc
        rcases cut_append hc with h2 | ⟨c', rfl, h2⟩
        · exact .inl h2
        · right
          rw [applyCalls_append, h.frame]
          exact move_cuts h k loc r hliNR h2
    · rw [mergeStep_skip_unsel cfg sel m k loc hk hs] at hc; exact .inl hc

/-- **a kill anywhere in the copy phase** -/
theorem mergeFold_cuts (cfg : Cfg) (sel : List Nat) {s : St} (hsel : ∀ id, id ∈ sel → id ≤ s.active)
    (order : List Key) : ∀ {m : MergeSt}, LI s m → ∀ {c : List Call},
      Cut (order.foldl (mergeStep cfg sel) m).calls c →
      Cut m.calls c ∨ RecoversW (applyCalls s.disk c) s.abs := by
  induction order with
  | nil => intro m _ c hc; exact .inl hc
  | cons k ks ih =>
    intro m h c hc
    rcases ih (mergeStep_li cfg sel hsel h k) hc with h1 | h1
    · exact mergeStep_cuts cfg sel hsel h k h1
    · exact .inr h1

/-- a kill while the first output pair is being created -/
theorem mergeStart_cuts {s : St} (h : RInv s) (hf : Full s) {c : List Call} (hc : Cut (mergeStart s).calls c) :
    RecoversW (applyCalls s.disk c) s.abs := by
  obtain ⟨post, e⟩ := cut_noappend (by
    intro x hx f p
    simp only [mergeStart, List.mem_cons, List.not_mem_nil, or_false] at hx
    rcases hx with rfl | rfl <;> simp) hc
  rcases prefix_cases2 e with rfl | rfl | rfl
  · exact (recovers_self h hf).weak
  · have := (clean_of_rinv h hf).recovers_addData (b := s.active + 1) (Nat.lt_succ_self _)
    rw [← abs_eq_absOf] at this
    exact this.weak
  · exact (mergeStart_li h hf).recovers.weak

/-- **copy phase of the merge**: every cut of the calls issued up to the end of the merge loop
    leaves a directory that opens to the contents before the merge -/
theorem mergeLoop_cuts (cfg : Cfg) {s : St} (h : RInv s) (hf : Full s) (sel : List Nat)
    (hsel : ∀ id, id ∈ sel → id ≤ s.active) (order : List Key) {c : List Call}
    (hc : Cut (mergeLoop cfg s sel order).calls c) : RecoversW (applyCalls s.disk c) s.abs := by
  rcases mergeFold_cuts cfg sel hsel order (mergeStart_li h hf) hc with h1 | h1
  · exact mergeStart_cuts h hf h1
  · exact h1

end Store
