/-
  Basic facts about the byte codec of `Store/Codec.lean`: little-endian integers round-trip,
  `takeN` on concatenations, and the one-entry decoders are stable under appending bytes.
  Core Lean only.
-/
import BitcaskVerif.Store.Codec
import BitcaskVerif.Store.Lemmas

namespace Store

/-! ### little-endian integers -/

/-- `k` little-endian base-256 digits of `n` -/
def leBytes : Nat → Nat → List UInt8
  | 0, _ => []
  | k+1, n => UInt8.ofNat (n % 256) :: leBytes k (n / 256)

theorem leBytes_length (k n : Nat) : (leBytes k n).length = k := by
  induction k generalizing n with
  | zero => rfl
  | succ k ih => simp [leBytes, ih]

theorem range_map_eq_leBytes (k n : Nat) :
    ((List.range k).map fun i => UInt8.ofNat ((n / 256 ^ i) % 256)) = leBytes k n := by
  induction k generalizing n with
  | zero => rfl
  | succ k ih =>
    rw [List.range_succ_eq_map, List.map_cons, List.map_map, leBytes, ← ih (n / 256)]
    simp only [Nat.pow_zero, Nat.div_one, List.cons.injEq, true_and]
    apply List.map_congr_left
    intro i _
    simp only [Function.comp, Nat.pow_succ, Nat.div_div_eq_div_mul]
    rw [Nat.mul_comm]

theorem u64le_eq_leBytes (n : Nat) : u64le n = leBytes 8 n := range_map_eq_leBytes 8 n

theorem leNat_leBytes (k n : Nat) : leNat (leBytes k n) = n % 256 ^ k := by
  induction k generalizing n with
  | zero => simp [leBytes, leNat, Nat.mod_one]
  | succ k ih =>
    simp only [leBytes, leNat, ih]
    have h1 : (UInt8.ofNat (n % 256)).toNat = n % 256 := by
      simp [UInt8.toNat_ofNat']
    rw [h1, Nat.pow_succ, Nat.mul_comm (256 ^ k) 256, Nat.mod_mul]

@[simp] theorem u64le_length (n : Nat) : (u64le n).length = 8 := by
  rw [u64le_eq_leBytes, leBytes_length]

@[simp] theorem i64le_length (z : Int) : (i64le z).length = 8 := by
  simp [i64le]

theorem leNat_u64le (n : Nat) (h : n < 18446744073709551616) : leNat (u64le n) = n := by
  rw [u64le_eq_leBytes, leNat_leBytes]
  exact Nat.mod_eq_of_lt (by simpa using h)

theorem toI64_leNat_i64le (z : Int) (h1 : -9223372036854775808 ≤ z) (h2 : z < 9223372036854775808) :
    toI64 (leNat (i64le z)) = z := by
  unfold i64le
  rw [leNat_u64le _ (by omega)]
  unfold toI64
  split <;> omega

/-! ### `takeN` -/

theorem takeN_append_left {n : Nat} {a : List UInt8} (h : a.length = n) (b : List UInt8) :
    takeN n (a ++ b) = some (a, b) := by
  subst h
  simp [takeN]

theorem takeN_eq_some {n : Nat} {bs a b : List UInt8} (h : takeN n bs = some (a, b)) :
    bs = a ++ b ∧ a.length = n := by
  unfold takeN at h
  split at h
  · simp only [Option.some.injEq, Prod.mk.injEq] at h
    obtain ⟨rfl, rfl⟩ := h
    simp [List.length_take]; omega
  · cases h

/-- appending bytes does not change a successful `takeN` -/
theorem takeN_append_of_some {n : Nat} {bs a b : List UInt8} (h : takeN n bs = some (a, b))
    (q : List UInt8) : takeN n (bs ++ q) = some (a, b ++ q) := by
  obtain ⟨rfl, hl⟩ := takeN_eq_some h
  rw [List.append_assoc]
  exact takeN_append_left hl _

end Store
