/-
  Executable model of the storage engine (`src/storage/bitcask.rs`, `bitcask/log.rs`):
  data and hint files as lists of records, the KeyDir, the per-file counters, the active id and
  the byte counter, with `put / delete / get / merge / rebuild / open` mirroring the Rust
  statement order, and every file-system effect emitted as a `Call`.

  Files are modelled at record granularity; their byte layout (bincode) is `Store/Codec.lean`.
  Positions and lengths are in bytes and computed from the record sizes, so the model's KeyDir
  and counters are directly comparable with the implementation's.

  Core Lean only (the driver links this file).
-/
import BitcaskVerif.Base.AL

namespace Store

abbrev Key := List UInt8
abbrev Val := List UInt8

/-- `DataFileEntry` -/
structure Rec where
  ts : Int
  key : Key
  val : Option Val
deriving DecidableEq, Repr

/-- serialized size of a data entry: i64 + (u64 + key) + option tag + (u64 + value) -/
def Rec.len (r : Rec) : Nat :=
  17 + r.key.length + (match r.val with | some v => 8 + v.length | none => 0)

/-- `HintFileEntry` -/
structure Hint where
  ts : Int
  len : Nat
  pos : Nat
  key : Key
deriving DecidableEq, Repr

def Hint.size (h : Hint) : Nat := 32 + h.key.length

/-- `KeyDirEntry` -/
structure Loc where
  fid : Nat
  pos : Nat
  len : Nat
  ts : Int
deriving DecidableEq, Repr

/-- `LogStatistics` -/
structure Stat where
  live : Nat := 0
  dead : Nat := 0
  deadBytes : Nat := 0
deriving DecidableEq, Repr

inductive Kind where | data | hint
deriving DecidableEq, Repr

structure FName where
  kind : Kind
  id : Nat
deriving DecidableEq, Repr

inductive Payload where
  | ofRec (r : Rec)
  | ofHint (h : Hint)
  /-- bytes that are not a whole entry (the cut-off tail a crash leaves behind) -/
  | raw (bs : List UInt8)
deriving DecidableEq, Repr

/-- one file-system effect -/
inductive Call where
  | create (f : FName)
  | append (f : FName) (p : Payload)
  | fsync (f : FName)
  | unlink (f : FName)
deriving DecidableEq, Repr

structure Cfg where
  maxFile : Nat := 2147483648
  syncAlways : Bool := false
  /-- merge thresholds; fragmentation as the rational `fragNum / fragDen` -/
  fragNum : Nat := 2
  fragDen : Nat := 5
  deadBytes : Nat := 134217728
  smallFile : Nat := 10485760
  /-- merge policy: `never`, or `always` (a `window` that contains the current hour behaves as
      `always`, one that does not as `never`; the clock is outside the model) -/
  policyAlways : Bool := false
  /-- merge triggers; fragmentation as the rational `trigFragNum / trigFragDen` -/
  trigFragNum : Nat := 3
  trigFragDen : Nat := 5
  trigDeadBytes : Nat := 536870912
deriving Repr

/-- the directory: data files and hint files -/
structure Disk where
  data : List (Nat × List Rec) := []
  hint : List (Nat × List Hint) := []
  /-- bytes of a data file after its last complete entry (left by a crash; invisible to every
      scan and read, but counted by `fs::metadata().len()`) -/
  tails : List (Nat × Nat) := []
deriving Repr

/-- in-memory state + directory -/
structure St where
  disk : Disk := {}
  keydir : List (Key × Loc) := []
  stats : List (Nat × Stat) := []
  active : Nat := 0
  written : Nat := 0
  /-- sticky: a counter underflowed or a KeyDir entry did not address a record (Rust would panic
      or read garbage); proved unreachable -/
  bad : Bool := false
deriving Repr

def fileSize (rs : List Rec) : Nat := (rs.map Rec.len).sum

def hintFileSize (hs : List Hint) : Nat := (hs.map Hint.size).sum

/-- the record that starts exactly at byte offset `p` -/
def recAt : List Rec → Nat → Option Rec
  | [], _ => none
  | r :: rs, p => if p = 0 then some r else if p < r.len then none else recAt rs (p - r.len)

/-! ### counters -/

def Stat.addLive (s : Stat) : Stat := { s with live := s.live + 1 }
def Stat.addDead (s : Stat) (n : Nat) : Stat := { s with dead := s.dead + 1, deadBytes := s.deadBytes + n }
def Stat.overwrite (s : Stat) (n : Nat) : Stat :=
  { live := s.live - 1, dead := s.dead + 1, deadBytes := s.deadBytes + n }

/-- `stats.entry(fid).or_default()` followed by `f` -/
def updStat (stats : List (Nat × Stat)) (fid : Nat) (f : Stat → Stat) : List (Nat × Stat) :=
  AL.set fid (f ((AL.get fid stats).getD {})) stats

/-- would `overwrite` underflow `live_keys`? -/
def overwriteUnderflows (stats : List (Nat × Stat)) (fid : Nat) : Bool :=
  ((AL.get fid stats).getD {}).live = 0

/-- account an overwritten / deleted previous entry -/
def accountPrev (s : St) (prev : Option Loc) : St :=
  match prev with
  | none => s
  | some p =>
    { s with bad := s.bad || overwriteUnderflows s.stats p.fid,
             stats := updStat s.stats p.fid (·.overwrite p.len) }

/-! ### writer -/

def dataOf (d : Disk) (fid : Nat) : List Rec := (AL.get fid d.data).getD []

/-- `new_active_datafile(fid)` -/
def newActive (s : St) (fid : Nat) : St × List Call :=
  ({ s with active := fid, written := 0,
            disk := { s.disk with data := AL.set fid [] s.disk.data } },
   [.create ⟨.data, fid⟩])

/-- `Writer::write`: append, [fsync], count bytes, count live/dead, roll over when the active
    file has grown beyond the limit. Returns the new KeyDir entry. -/
def write (cfg : Cfg) (s : St) (r : Rec) : St × Loc × List Call :=
  let recs := dataOf s.disk s.active
  let pos := fileSize recs
  let len := r.len
  let disk := { s.disk with data := AL.set s.active (recs ++ [r]) s.disk.data }
  let calls := [Call.append ⟨.data, s.active⟩ (.ofRec r)] ++
    (if cfg.syncAlways then [Call.fsync ⟨.data, s.active⟩] else [])
  let written := s.written + len
  let stats := updStat s.stats s.active
    (fun st => if r.val.isSome then st.addLive else st.addDead len)
  let loc : Loc := { fid := s.active, pos := pos, len := len, ts := r.ts }
  let s1 : St := { s with disk := disk, written := written, stats := stats }
  if written > cfg.maxFile then
    let (s2, c2) := newActive s1 (s.active + 1)
    (s2, loc, calls ++ c2)
  else (s1, loc, calls)

/-- `Writer::put` -/
def put (cfg : Cfg) (s : St) (ts : Int) (k : Key) (v : Val) : St × List Call :=
  let (s1, loc, calls) := write cfg s { ts := ts, key := k, val := some v }
  let prev := AL.get k s1.keydir
  let s2 := { s1 with keydir := AL.set k loc s1.keydir }
  (accountPrev s2 prev, calls)

/-- `Writer::delete`: returns whether the key was present -/
def delete (cfg : Cfg) (s : St) (ts : Int) (k : Key) : St × Bool × List Call :=
  let (s1, _, calls) := write cfg s { ts := ts, key := k, val := none }
  let prev := AL.get k s1.keydir
  let s2 := { s1 with keydir := AL.del k s1.keydir }
  (accountPrev s2 prev, prev.isSome, calls)

/-! ### reader -/

inductive GetRes where
  | value (v : Val)
  | absent
  | corrupt          -- the KeyDir entry does not address a value record with that key and length
deriving DecidableEq, Repr

/-- `Reader::get` -/
def get (s : St) (k : Key) : GetRes :=
  match AL.get k s.keydir with
  | none => .absent
  | some loc =>
    match recAt (dataOf s.disk loc.fid) loc.pos with
    | some r =>
      if r.len = loc.len ∧ (AL.get loc.fid s.disk.data).isSome then
        match r.val with
        | some v => .value v
        | none => .absent      -- would deserialize a tombstone: `value = None`
      else .corrupt
    | none => .corrupt

/-! ### merge -/

/-- `fragmentation() > threshold`, over the rationals -/
def fragGt (st : Stat) (num den : Nat) : Bool :=
  if st.dead = 0 then false else st.dead * den > num * (st.dead + st.live)

/-- `Context::fileids_to_merge`: ascending ids of the files the thresholds select -/
def selectFiles (cfg : Cfg) (s : St) : List Nat :=
  let ids := (s.stats.filter fun (fid, st) =>
    st.deadBytes > cfg.deadBytes || fragGt st cfg.fragNum cfg.fragDen ||
      fileSize (dataOf s.disk fid) + (AL.get fid s.disk.tails).getD 0 < cfg.smallFile).map (·.1)
  ids.mergeSort (· ≤ ·)

/-- `Context::can_merge`: does the background task start a merge now? -/
def canMerge (cfg : Cfg) (s : St) : Bool :=
  cfg.policyAlways &&
    s.stats.any fun (_, st) => st.deadBytes > cfg.trigDeadBytes || fragGt st cfg.trigFragNum cfg.trigFragDen

structure MergeSt where
  s : St
  mid : Nat            -- current merge output id
  mpos : Nat           -- bytes written to it
  calls : List Call

/-- one iteration of the merge loop for key `k` (skipped unless its entry is in a selected file) -/
def mergeStep (cfg : Cfg) (sel : List Nat) (m : MergeSt) (k : Key) : MergeSt :=
  match AL.get k m.s.keydir with
  | none => m
  | some loc =>
    if loc.fid ∈ sel then
      match recAt (dataOf m.s.disk loc.fid) loc.pos with
      | none => { m with s := { m.s with bad := true } }
      | some r =>
        let nbytes := loc.len
        let out := dataOf m.s.disk m.mid
        let newLoc : Loc := { fid := m.mid, pos := m.mpos, len := nbytes, ts := loc.ts }
        let h : Hint := { ts := loc.ts, len := nbytes, pos := m.mpos, key := k }
        let hs := (AL.get m.mid m.s.disk.hint).getD []
        let disk : Disk := { m.s.disk with data := AL.set m.mid (out ++ [r]) m.s.disk.data,
                                           hint := AL.set m.mid (hs ++ [h]) m.s.disk.hint }
        let s1 : St := { m.s with disk := disk, keydir := AL.set k newLoc m.s.keydir,
                                  stats := updStat m.s.stats m.mid (·.addLive),
                                  bad := m.s.bad || decide (r.len ≠ loc.len) }
        let calls := m.calls ++ [Call.append ⟨.data, m.mid⟩ (.ofRec r), Call.append ⟨.hint, m.mid⟩ (.ofHint h)]
        let mpos := m.mpos + nbytes
        if mpos > cfg.maxFile then
          let mid' := m.mid + 1
          { s := { s1 with disk := { s1.disk with data := AL.set mid' [] s1.disk.data, hint := AL.set mid' [] s1.disk.hint } },
            mid := mid', mpos := 0,
            calls := calls ++ [Call.fsync ⟨.data, m.mid⟩, Call.fsync ⟨.hint, m.mid⟩,
                               Call.create ⟨.data, mid'⟩, Call.create ⟨.hint, mid'⟩] }
        else { s := s1, mid := m.mid, mpos := mpos, calls := calls }
    else m

/-- remove one merged file: counters, hint file (if any), data file (if any) -/
def unlinkOne (m : St × List Call) (id : Nat) : St × List Call :=
  let (s, calls) := m
  let hadHint := (AL.get id s.disk.hint).isSome
  let hadData := (AL.get id s.disk.data).isSome
  ({ s with stats := AL.del id s.stats,
            disk := { s.disk with data := AL.del id s.disk.data, hint := AL.del id s.disk.hint } },
   calls ++ (if hadHint then [Call.unlink ⟨.hint, id⟩] else [])
         ++ (if hadData then [Call.unlink ⟨.data, id⟩] else []))

/-- `Writer::merge` with the selected files `sel` (ascending) and `order`, the sequence in which
    the KeyDir iterator yields its keys (any list covering the KeyDir; DashMap order is arbitrary) -/
def mergeWith (cfg : Cfg) (s : St) (sel : List Nat) (order : List Key) : St × List Call :=
  let mid0 := s.active + 1
  let s0 : St := { s with disk := { s.disk with data := AL.set mid0 [] s.disk.data, hint := AL.set mid0 [] s.disk.hint } }
  let m0 : MergeSt := { s := s0, mid := mid0, mpos := 0,
                        calls := [Call.create ⟨.data, mid0⟩, Call.create ⟨.hint, mid0⟩] }
  let m := order.foldl (mergeStep cfg sel) m0
  -- the outputs are forced to stable storage before the first input file is removed
  let synced := m.calls ++ [Call.fsync ⟨.data, m.mid⟩, Call.fsync ⟨.hint, m.mid⟩]
  let (s1, calls1) := sel.foldl unlinkOne (m.s, synced)
  let (s2, c2) := newActive s1 (m.mid + 1)
  (s2, calls1 ++ c2)

def merge (cfg : Cfg) (s : St) (order : List Key) : St × List Call :=
  mergeWith cfg s (selectFiles cfg s) order

/-! ### startup scan -/

structure Idx where
  keydir : List (Key × Loc) := []
  stats : List (Nat × Stat) := []
  bad : Bool := false

def Idx.account (ix : Idx) (prev : Option Loc) : Idx :=
  match prev with
  | none => ix
  | some p => { ix with bad := ix.bad || overwriteUnderflows ix.stats p.fid,
                        stats := updStat ix.stats p.fid (·.overwrite p.len) }

/-- `populate_keydir_with_hintfile`: entries are read until the first one that does not fit inside
    the data file (`dataLen` = its length in bytes) -/
def scanHints (fid : Nat) (ix : Idx) (hs : List Hint) (dataLen : Nat) : Idx :=
  (hs.takeWhile fun h => h.pos + h.len ≤ dataLen).foldl (fun ix h =>
    let loc : Loc := { fid := fid, pos := h.pos, len := h.len, ts := h.ts }
    let ix1 := { ix with stats := updStat ix.stats fid (·.addLive) }
    let prev := AL.get h.key ix1.keydir
    ({ ix1 with keydir := AL.set h.key loc ix1.keydir } : Idx).account prev) ix

/-- `populate_keydir_with_datafile`: returns the index and the running position -/
def scanData (fid : Nat) (ix : Idx) (rs : List Rec) : Idx :=
  (rs.foldl (fun (acc : Idx × Nat) r =>
    let (ix, pos) := acc
    let len := r.len
    match r.val with
    | none =>
      -- tombstone: count it dead and forget the key
      let ix1 := { ix with stats := updStat ix.stats fid (·.addDead len) }
      let prev := AL.get r.key ix1.keydir
      (({ ix1 with keydir := AL.del r.key ix1.keydir } : Idx).account prev, pos + len)
    | some _ =>
      let loc : Loc := { fid := fid, pos := pos, len := len, ts := r.ts }
      let ix1 := { ix with stats := updStat ix.stats fid (·.addLive) }
      let prev := AL.get r.key ix1.keydir
      (({ ix1 with keydir := AL.set r.key loc ix1.keydir } : Idx).account prev, pos + len)) (ix, 0)).1

/-- ascending ids of the data files (`utils::sorted_fileids`) -/
def sortedIds (d : Disk) : List Nat := ((AL.keys d.data).eraseDups).mergeSort (· ≤ ·)

/-- `rebuild_storage`: for every data file in ascending id order, read its hint file if there is
    one, its records otherwise -/
def rebuild (d : Disk) : Idx × Nat :=
  let ids := sortedIds d
  let ix := ids.foldl (fun ix fid =>
    match AL.get fid d.hint with
    | some hs => scanHints fid ix hs (fileSize (dataOf d fid) + (AL.get fid d.tails).getD 0)
    | none => scanData fid ix (dataOf d fid)) ({} : Idx)
  (ix, match ids.getLast? with | some m => m + 1 | none => 0)

/-- `Bitcask::open` on a directory -/
def openDisk (d : Disk) : St × List Call :=
  let (ix, act) := rebuild d
  ({ disk := { d with data := AL.set act [] d.data }, keydir := ix.keydir, stats := ix.stats,
     active := act, written := 0, bad := ix.bad },
   [.create ⟨.data, act⟩])

/-- drop the store and open its directory again -/
def reopen (s : St) : St × List Call := openDisk s.disk

end Store
