/-
  `reopen` and whole runs keep the coupling invariant; what an accepting monitor run means in
  plain terms (explicit statements about positions in the trace).
-/
import BitcaskVerif.Store.TraceMerge

namespace Store.Tr
/-! ### reopen -/

theorem le_total_bool (a b : Nat) : (decide (a ≤ b) || decide (b ≤ a)) = true := by
  by_cases h : a ≤ b
  · simp [h]
  · have : b ≤ a := by omega
    simp [this]

/-- under the id invariant the startup scan finds the active id as the largest one -/
theorem sortedIds_getLast {s : St} (h : IdInv s) : (sortedIds s.disk).getLast? = some s.active := by
  have hmem : ∀ x, x ∈ sortedIds s.disk ↔ x ∈ AL.keys s.disk.data := by
    intro x; simp [sortedIds]
  have hsorted : (sortedIds s.disk).Pairwise (fun a b => decide (a ≤ b) = true) := by
    unfold sortedIds
    exact List.pairwise_mergeSort (le := fun a b => decide (a ≤ b))
      (fun a b c hab hbc => by simp only [decide_eq_true_eq] at *; omega)
      (fun a b => le_total_bool a b) _
  have hact : s.active ∈ sortedIds s.disk := by
    rw [hmem]
    cases hg : AL.get s.active s.disk.data with
    | none => have := h.act; simp [hg] at this
    | some v => exact AL.mem_keys_of_get hg
  cases hl : (sortedIds s.disk).getLast? with
  | none =>
    rw [List.getLast?_eq_none_iff] at hl
    rw [hl] at hact; cases hact
  | some m =>
    obtain ⟨ys, hys⟩ := List.getLast?_eq_some_iff.mp hl
    have hm : m ≤ s.active := h.ids m ((hmem m).mp (by rw [hys]; simp))
    have ha : s.active ≤ m := by
      rw [hys] at hact hsorted
      rcases List.mem_append.mp hact with e | e
      · have := (List.pairwise_append.mp hsorted).2.2 _ e m (by simp)
        simpa using this
      · simp at e; omega
    have : m = s.active := by omega
    rw [this]

theorem rebuild_snd (d : Disk) :
    (rebuild d).2 = (match (sortedIds d).getLast? with | some m => m + 1 | none => 0) := rfl

theorem reopen_active {s : St} (h : IdInv s) : (reopen s).1.active = s.active + 1 := by
  show (rebuild s.disk).2 = s.active + 1
  rw [rebuild_snd, sortedIds_getLast h]

theorem reopen_disk (s : St) :
    (reopen s).1.disk = { s.disk with data := AL.set (reopen s).1.active [] s.disk.data } := rfl

theorem reopen_calls (s : St) : (reopen s).2 = [Call.create ⟨.data, (reopen s).1.active⟩] := rfl

theorem reopen_written (s : St) : (reopen s).1.written = 0 := rfl

theorem reopen_idinv {s : St} (h : IdInv s) : IdInv (reopen s).1 := by
  have ha := reopen_active h
  constructor
  · intro id hid
    rw [reopen_disk] at hid
    simp only at hid
    rcases mem_keys_set hid with e | e
    · omega
    · have := h.ids id e; omega
  · intro id hid
    rw [reopen_disk] at hid ⊢
    simp only at hid ⊢
    exact mem_keys_set_of_mem _ (h.hsub id hid)
  · rw [reopen_disk]; simp [AL.get_set_same]
  · intro id hid
    rw [reopen_disk] at hid
    simp only at hid
    have := h.tails id hid; omega
  · intro id hid
    rw [reopen_disk] at hid
    simp only at hid
    have := h.hlt id hid; omega

theorem MonOk.restart {a : Nat} {m : Mon} (h : MonOk a m) :
    MonOk (a + 1) ((m.step .restart).calls [Call.create ⟨.data, a + 1⟩]) := by
  simp only [Mon.calls_cons, Mon.calls_nil]
  constructor
  · simp only [Mon.step, h.bound]; omega
  · simp [Mon.step]
  · intro f hf; simp [Mon.step] at hf
  · simp [Mon.step, Mon.freshTest, h.okF, h.bound]
  · exact h.okO
  · exact h.okT

theorem reopen_coup (s : St) (m : Mon) (h : Coup s m) :
    Coup (reopen s).1 ((m.step .restart).calls (reopen s).2) := by
  refine ⟨reopen_idinv h.inv, ?_⟩
  rw [reopen_calls, reopen_active h.inv]
  exact h.mon.restart

/-! ### runs -/

theorem stepC_coup (cfg : Cfg) (s : St) (op : TOp) (m : Mon) (h : Coup s m)
    (hv : match op with
          | .merge sel _ => ∀ id, id ∈ sel → id ≤ s.active
          | _ => True) :
    Coup (stepC cfg s op).1 ((m.run op.marker).calls (stepC cfg s op).2) := by
  cases op with
  | put ts k v => exact put_coup cfg s ts k v m h
  | del ts k => exact delete_coup cfg s ts k m h
  | get k => exact h
  | merge sel order => exact mergeWith_coup cfg s sel order m h hv
  | reopen => exact reopen_coup s m h

/-- **every run keeps the coupling invariant**: the monitor accepts the whole annotated trace -/
theorem run_coup (cfg : Cfg) (ops : List TOp) : ∀ (s : St) (m : Mon), Coup s m → ValidC cfg s ops →
    Coup (runC cfg s ops) (m.run (evsOf cfg s ops)) := by
  induction ops with
  | nil => intro s m h _; exact h
  | cons op ops ih =>
    intro s m h hv
    have h1 := stepC_coup cfg s op m h hv.1
    have h2 := ih _ _ h1 hv.2
    simp only [runC, evsOf, Mon.run_append]
    exact h2

/-- the monitor state of a store whose current life began with the creation of its active file -/
def Mon.init (a : Nat) : Mon := ({} : Mon).step (.call (.create ⟨.data, a⟩))

theorem monOk_init (a : Nat) : MonOk a (Mon.init a) := by
  constructor <;> simp [Mon.init, Mon.step, Mon.freshTest]

theorem coup_init {s : St} (h : IdInv s) : Coup s (Mon.init s.active) := ⟨h, monOk_init _⟩

theorem fresh_idinv : IdInv fresh := by
  constructor
  · intro id hid; simp [fresh, AL.keys] at hid ⊢; omega
  · intro id hid; simp [fresh, AL.keys] at hid
  · simp [fresh, AL.get]
  · intro id hid; simp [fresh, AL.keys] at hid
  · intro id hid; simp [fresh, AL.keys] at hid

/-- the invariant holds in every state reached from a state that satisfies it -/
theorem run_idinv (cfg : Cfg) (ops : List TOp) (s : St) (h : IdInv s) (hv : ValidC cfg s ops) :
    IdInv (runC cfg s ops) :=
  (run_coup cfg ops s _ (coup_init h) hv).inv

end Store.Tr