/-
  C19 helper lemmas, part 2: the counting invariant `AccInv` of a store state and its
  preservation by `put` and `delete`.
-/
import BitcaskVerif.Store.StatsLemmas
import BitcaskVerif.Props.C01

namespace Store.Stats
open Store

/-- **the counting invariant**: distinct KeyDir keys, every file's counters are exact in the
    counting form, and the sticky failure flag is clear -/
structure AccInv (s : St) : Prop where
  kdNodup : (AL.keys s.keydir).Nodup
  files : ∀ f, FileAcc s.keydir s.stats f (dataOf s.disk f)
  notBad : s.bad = false
  statsNodup : (AL.keys s.stats).Nodup

/-! ### what `write` does to the fields the accounting looks at -/

theorem write_stats (cfg : Cfg) (s : St) (r : Rec) :
    (write cfg s r).1.stats =
      updStat s.stats s.active (fun st => if r.val.isSome then st.addLive else st.addDead r.len) := by
  by_cases hroll : s.written + r.len > cfg.maxFile
  · rw [write_roll cfg s r hroll]
  · rw [write_noroll cfg s r hroll]

theorem write_loc (cfg : Cfg) (s : St) (r : Rec) :
    (write cfg s r).2.1 = ⟨s.active, fileSize (dataOf s.disk s.active), r.len, r.ts⟩ := by
  by_cases hroll : s.written + r.len > cfg.maxFile
  · rw [write_roll cfg s r hroll]
  · rw [write_noroll cfg s r hroll]

theorem write_keydir (cfg : Cfg) (s : St) (r : Rec) : (write cfg s r).1.keydir = s.keydir := by
  by_cases hroll : s.written + r.len > cfg.maxFile
  · rw [write_roll cfg s r hroll]
  · rw [write_noroll cfg s r hroll]

theorem write_bad (cfg : Cfg) (s : St) (r : Rec) : (write cfg s r).1.bad = s.bad := by
  by_cases hroll : s.written + r.len > cfg.maxFile
  · rw [write_roll cfg s r hroll]
  · rw [write_noroll cfg s r hroll]

theorem dataOf_absent {d : Disk} {f : Nat} (h : f ∉ AL.keys d.data) : dataOf d f = [] := by
  simp [dataOf, get_none_of_not_mem h]

theorem write_dataOf (cfg : Cfg) (s : St) (r : Rec) (h : Inv s) (f : Nat) :
    dataOf (write cfg s r).1.disk f =
      if f = s.active then dataOf s.disk s.active ++ [r] else dataOf s.disk f := by
  have hnew : dataOf s.disk (s.active + 1) = [] :=
    dataOf_absent (fun hm => by have := h.ids _ hm; omega)
  by_cases hroll : s.written + r.len > cfg.maxFile
  · rw [write_roll cfg s r hroll]
    simp only
    by_cases e1 : f = s.active + 1
    · subst e1
      have : ¬ (s.active + 1 = s.active) := by omega
      simp only [this, ↓reduceIte, hnew]
      simp [dataOf, AL.get_set_same]
    · by_cases e2 : f = s.active
      · subst e2
        simp only [↓reduceIte]
        simp [dataOf, AL.get_set_other e1, AL.get_set_same]
      · simp only [e2, ↓reduceIte]
        simp [dataOf, AL.get_set_other e1, AL.get_set_other e2]
  · rw [write_noroll cfg s r hroll]
    simp only
    by_cases e2 : f = s.active
    · subst e2
      simp only [↓reduceIte]
      simp [dataOf, AL.get_set_same]
    · simp only [e2, ↓reduceIte]
      simp [dataOf, AL.get_set_other e2]

/-! ### `put` and `delete`, field by field -/

theorem put_keydir (cfg : Cfg) (s : St) (ts : Int) (k : Key) (v : Val) :
    (put cfg s ts k v).1.keydir =
      AL.set k ⟨s.active, fileSize (dataOf s.disk s.active), (⟨ts, k, some v⟩ : Rec).len, ts⟩ s.keydir := by
  unfold put
  simp only [accountPrev_keydir, write_loc, write_keydir]

theorem put_stats (cfg : Cfg) (s : St) (ts : Int) (k : Key) (v : Val) :
    (put cfg s ts k v).1.stats = acct (updStat s.stats s.active (·.addLive)) (AL.get k s.keydir) := by
  unfold put
  simp only [accountPrev_stats, write_stats, write_keydir, Option.isSome_some, ↓reduceIte]

theorem put_bad (cfg : Cfg) (s : St) (ts : Int) (k : Key) (v : Val) :
    (put cfg s ts k v).1.bad =
      (s.bad || underfl (updStat s.stats s.active (·.addLive)) (AL.get k s.keydir)) := by
  unfold put
  simp only [accountPrev_bad, write_stats, write_keydir, write_bad, Option.isSome_some, ↓reduceIte]

theorem put_disk (cfg : Cfg) (s : St) (ts : Int) (k : Key) (v : Val) :
    (put cfg s ts k v).1.disk = (write cfg s ⟨ts, k, some v⟩).1.disk := by
  unfold put
  simp only [accountPrev_disk]

theorem delete_keydir (cfg : Cfg) (s : St) (ts : Int) (k : Key) :
    (delete cfg s ts k).1.keydir = AL.del k s.keydir := by
  unfold delete
  simp only [accountPrev_keydir, write_keydir]

theorem delete_stats (cfg : Cfg) (s : St) (ts : Int) (k : Key) :
    (delete cfg s ts k).1.stats =
      acct (updStat s.stats s.active (·.addDead (⟨ts, k, none⟩ : Rec).len)) (AL.get k s.keydir) := by
  unfold delete
  simp only [accountPrev_stats, write_stats, write_keydir, Option.isSome_none, Bool.false_eq_true, ↓reduceIte]

theorem delete_bad (cfg : Cfg) (s : St) (ts : Int) (k : Key) :
    (delete cfg s ts k).1.bad =
      (s.bad || underfl (updStat s.stats s.active (·.addDead (⟨ts, k, none⟩ : Rec).len)) (AL.get k s.keydir)) := by
  unfold delete
  simp only [accountPrev_bad, write_stats, write_keydir, write_bad, Option.isSome_none, Bool.false_eq_true, ↓reduceIte]

theorem delete_disk (cfg : Cfg) (s : St) (ts : Int) (k : Key) :
    (delete cfg s ts k).1.disk = (write cfg s ⟨ts, k, none⟩).1.disk := by
  unfold delete
  simp only [accountPrev_disk]

/-- `put` keeps the counting invariant -/
theorem put_acc (cfg : Cfg) (s : St) (ts : Int) (k : Key) (v : Val) (hi : Inv s) (h : AccInv s) :
    AccInv (put cfg s ts k v).1 := by
  constructor
  · rw [put_keydir]; exact nodup_set h.kdNodup
  · intro f
    rw [put_keydir, put_stats, put_disk, write_dataOf cfg s _ hi f]
    have := (h.files f).value_step s.active ⟨ts, k, some v⟩ k (fileSize (dataOf s.disk s.active)) ts
    by_cases e : f = s.active
    · rw [e] at this ⊢; exact this
    · simp only [e, ↓reduceIte] at this ⊢; exact this
  · rw [put_bad, h.notBad, FileAcc.no_underfl h.files]
    · rfl
    · intro st; simp [Stat.addLive]
  · rw [put_stats]; exact nodup_acct (nodup_updStat h.statsNodup _ _) _

/-- `delete` keeps the counting invariant -/
theorem delete_acc (cfg : Cfg) (s : St) (ts : Int) (k : Key) (hi : Inv s) (h : AccInv s) :
    AccInv (delete cfg s ts k).1 := by
  constructor
  · rw [delete_keydir]; exact nodup_del h.kdNodup
  · intro f
    rw [delete_keydir, delete_stats, delete_disk, write_dataOf cfg s _ hi f]
    have := (h.files f).tomb_step h.kdNodup s.active ⟨ts, k, none⟩ k
    by_cases e : f = s.active
    · rw [e] at this ⊢; exact this
    · simp only [e, ↓reduceIte] at this ⊢; exact this
  · rw [delete_bad, h.notBad, FileAcc.no_underfl h.files]
    · rfl
    · intro st; simp [Stat.addDead]
  · rw [delete_stats]; exact nodup_acct (nodup_updStat h.statsNodup _ _) _

theorem fresh_acc : AccInv fresh := by
  constructor
  · simp [fresh, AL.keys]
  · intro f
    constructor
    · simp [fresh, statOf, liveCnt]
    · simp only [fresh, statOf, AL.get_nil, Option.getD_none, dataOf]
      by_cases e : f = 0
      · subst e; simp [AL.get]
      · have : ¬ (0 = f) := fun x => e x.symm
        simp [AL.get, this]
    · simp only [fresh, statOf, AL.get_nil, Option.getD_none, dataOf, liveBytes, wsum_nil]
      by_cases e : f = 0
      · subst e; simp [AL.get]
      · have : ¬ (0 = f) := fun x => e x.symm
        simp [AL.get, this]
    · simp only [fresh, AL.get_nil, dataOf, true_iff]
      by_cases e : f = 0
      · subst e; simp [AL.get]
      · have : ¬ (0 = f) := fun x => e x.symm
        simp [AL.get, this]
  · rfl
  · simp [fresh, AL.keys]

end Store.Stats
