/-
  Record-level view of the directory: every data file is the list of "events" its records
  generate for the startup scan (`set key ↦ loc` for a value record, `remove key` for a
  tombstone), a directory is the concatenation of its files' events in list order, and what a
  scan recovers for a key is decided by the last event of that key (`lastFor`).

  This file contains only list / association-list facts; the connection to `rebuild` is in
  `Store/Recovery.lean`.
-/
import BitcaskVerif.Store.MergeLemmas

namespace Store

/-- one record as met by the startup scan -/
structure Ev where
  key : Key
  loc : Loc
  tomb : Bool
deriving DecidableEq, Repr

/-- the index as a function -/
abbrev IdxF := Key → Option Loc

def applyEv (m : IdxF) (e : Ev) : IdxF :=
  fun k => if k = e.key then (if e.tomb then none else some e.loc) else m k

/-- the startup scan: later events override earlier ones, a tombstone removes -/
def replay (es : List Ev) : IdxF := es.foldl applyEv (fun _ => none)

def lastFor (k : Key) : List Ev → Option Ev
  | [] => none
  | e :: es => match lastFor k es with
    | some x => some x
    | none => if e.key = k then some e else none

def evVal (o : Option Ev) : Option Loc :=
  match o with
  | none => none
  | some e => if e.tomb then none else some e.loc

theorem foldl_applyEv (es : List Ev) (m : IdxF) (k : Key) :
    es.foldl applyEv m k = match lastFor k es with
      | some e => (if e.tomb then none else some e.loc)
      | none => m k := by
  induction es generalizing m with
  | nil => simp [lastFor]
  | cons e es ih =>
    simp only [List.foldl_cons, ih, lastFor]
    cases h : lastFor k es with
    | some x => simp
    | none =>
      simp only [applyEv]
      by_cases hk : e.key = k
      · simp [hk]
      · have : ¬ k = e.key := fun h => hk h.symm
        simp [hk, this]

theorem replay_eq (es : List Ev) (k : Key) : replay es k = evVal (lastFor k es) := by
  unfold replay evVal
  rw [foldl_applyEv]
  cases lastFor k es <;> simp

theorem lastFor_append (k : Key) (xs ys : List Ev) :
    lastFor k (xs ++ ys) = match lastFor k ys with | some r => some r | none => lastFor k xs := by
  induction xs with
  | nil => simp [lastFor]; cases lastFor k ys <;> rfl
  | cons x xs ih =>
    simp only [List.cons_append, lastFor, ih]
    cases lastFor k ys <;> simp

theorem lastFor_key {k : Key} {es : List Ev} {e : Ev} (h : lastFor k es = some e) : e.key = k ∧ e ∈ es := by
  induction es with
  | nil => simp [lastFor] at h
  | cons x xs ih =>
    simp only [lastFor] at h
    cases hx : lastFor k xs with
    | some y => simp [hx] at h; subst h; exact ⟨(ih hx).1, List.mem_cons_of_mem _ (ih hx).2⟩
    | none =>
      simp [hx] at h
      obtain ⟨hk, rfl⟩ := h
      exact ⟨hk, List.mem_cons_self⟩

theorem lastFor_none {k : Key} {es : List Ev} : lastFor k es = none ↔ ∀ e ∈ es, e.key ≠ k := by
  induction es with
  | nil => simp [lastFor]
  | cons x xs ih =>
    simp only [lastFor]
    cases hx : lastFor k xs with
    | some y =>
      simp
      have := lastFor_key hx
      exact fun _ => ⟨y, this.2, this.1⟩
    | none =>
      have hall := ih.mp hx
      by_cases hxk : x.key = k
      · simp [hxk]
      · simp [hxk]; exact hall

theorem lastFor_filter_keep (p : Ev → Bool) {k : Key} {es : List Ev} {e : Ev}
    (h : lastFor k es = some e) (hp : p e = true) : lastFor k (es.filter p) = some e := by
  induction es with
  | nil => simp [lastFor] at h
  | cons x xs ih =>
    simp only [lastFor] at h
    cases hx : lastFor k xs with
    | some y =>
      simp [hx] at h; subst h
      have := ih hx
      by_cases hpx : p x = true
      · simp [List.filter, hpx, lastFor, this]
      · simp [List.filter, hpx, this]
    | none =>
      simp [hx] at h
      obtain ⟨hk, rfl⟩ := h
      have hn : lastFor k (xs.filter p) = none := by
        rw [lastFor_none]; intro r hr
        exact (lastFor_none.mp hx) r (List.mem_filter.mp hr).1
      simp [List.filter, hp, lastFor, hn, hk]

/-! ### `replay` facts used by the store proofs -/

theorem replay_nil (k : Key) : replay [] k = none := rfl

/-- a key without events in the second part is decided by the first part -/
theorem replay_append_of_no_key {k : Key} (es1 es2 : List Ev) (h : ∀ e ∈ es2, e.key ≠ k) :
    replay (es1 ++ es2) k = replay es1 k := by
  rw [replay_eq, replay_eq, lastFor_append, lastFor_none.mpr h]

theorem replay_snoc_same (es : List Ev) (e : Ev) :
    replay (es ++ [e]) e.key = if e.tomb then none else some e.loc := by
  rw [replay_eq, lastFor_append]
  simp [lastFor, evVal]

theorem replay_snoc_other {k : Key} (es : List Ev) (e : Ev) (h : e.key ≠ k) :
    replay (es ++ [e]) k = replay es k :=
  replay_append_of_no_key es [e] (by intro x hx; simp at hx; subst hx; exact h)

/-- a recovered location comes from a value event of that key -/
theorem replay_some_mem {es : List Ev} {k : Key} {loc : Loc} (h : replay es k = some loc) :
    (⟨k, loc, false⟩ : Ev) ∈ es := by
  rw [replay_eq] at h
  cases hl : lastFor k es with
  | none => simp [hl, evVal] at h
  | some e =>
    obtain ⟨hk, hm⟩ := lastFor_key hl
    simp only [hl, evVal] at h
    cases ht : e.tomb with
    | true => simp [ht] at h
    | false =>
      simp only [ht, Bool.false_eq_true, ↓reduceIte, Option.some.injEq] at h
      have : e = ⟨k, loc, false⟩ := by
        cases e; simp_all
      rw [← this]; exact hm

/-- removing events keeps what a key recovers, provided the deciding event stays -/
theorem replay_filter_keep (p : Ev → Bool) {es : List Ev} {k : Key} {loc : Loc}
    (h : replay es k = some loc) (hp : p ⟨k, loc, false⟩ = true) :
    replay (es.filter p) k = some loc := by
  rw [replay_eq] at h
  cases hl : lastFor k es with
  | none => simp [hl, evVal] at h
  | some e =>
    obtain ⟨hk, _⟩ := lastFor_key hl
    simp only [hl, evVal] at h
    cases ht : e.tomb with
    | true => simp [ht] at h
    | false =>
      simp only [ht, Bool.false_eq_true, ↓reduceIte, Option.some.injEq] at h
      have he : e = ⟨k, loc, false⟩ := by
        cases e; simp_all
      rw [replay_eq, lastFor_filter_keep p hl (by rw [he]; exact hp)]
      simp [evVal, ht, h]

/-- a key all of whose events are tombstones recovers nothing -/
theorem replay_none_of_all_tomb {es : List Ev} {k : Key} (h : ∀ e ∈ es, e.key = k → e.tomb = true) :
    replay es k = none := by
  rw [replay_eq]
  cases hl : lastFor k es with
  | none => rfl
  | some e =>
    obtain ⟨hk, hm⟩ := lastFor_key hl
    simp [evVal, h e hm hk]

/-! ### events of data files, hint files and directories -/

def mkEv (fid pos : Nat) (r : Rec) : Ev := ⟨r.key, ⟨fid, pos, r.len, r.ts⟩, r.val.isNone⟩

/-- the events of the records `rs` of data file `fid`, the first of which starts at byte `p` -/
def evData (fid : Nat) : List Rec → Nat → List Ev
  | [], _ => []
  | r :: rs, p => mkEv fid p r :: evData fid rs (p + r.len)

def hintEv (fid : Nat) (h : Hint) : Ev := ⟨h.key, ⟨fid, h.pos, h.len, h.ts⟩, false⟩

def hintEvs (fid : Nat) (hs : List Hint) : List Ev := hs.map (hintEv fid)

/-- all events of a directory's data files, in list order -/
def allEvs : List (Nat × List Rec) → List Ev
  | [] => []
  | (fid, rs) :: rest => evData fid rs 0 ++ allEvs rest

theorem evData_append (fid : Nat) (xs ys : List Rec) (p : Nat) :
    evData fid (xs ++ ys) p = evData fid xs p ++ evData fid ys (p + fileSize xs) := by
  induction xs generalizing p with
  | nil => simp [evData]
  | cons x xs ih =>
    simp only [List.cons_append, evData, ih, fileSize_cons, Nat.add_assoc]

theorem evData_snoc (fid : Nat) (xs : List Rec) (r : Rec) :
    evData fid (xs ++ [r]) 0 = evData fid xs 0 ++ [mkEv fid (fileSize xs) r] := by
  rw [evData_append]; simp [evData]

theorem evData_fid {fid : Nat} {rs : List Rec} {p : Nat} {e : Ev} (h : e ∈ evData fid rs p) :
    e.loc.fid = fid := by
  induction rs generalizing p with
  | nil => simp [evData] at h
  | cons x xs ih =>
    simp only [evData, List.mem_cons] at h
    rcases h with h | h
    · subst h; rfl
    · exact ih h

/-- an event of a data file is the event of the record at its position -/
theorem mem_evData {fid : Nat} {rs : List Rec} {p : Nat} {e : Ev} (h : e ∈ evData fid rs p) :
    ∃ r q, recAt rs q = some r ∧ e = mkEv fid (p + q) r ∧ q + r.len ≤ fileSize rs := by
  induction rs generalizing p with
  | nil => simp [evData] at h
  | cons x xs ih =>
    simp only [evData, List.mem_cons] at h
    rcases h with h | h
    · exact ⟨x, 0, by simp [recAt], by simpa using h, by simp⟩
    · obtain ⟨r, q, h1, h2, h3⟩ := ih h
      refine ⟨r, x.len + q, ?_, ?_, ?_⟩
      · have hx := x.len_pos
        have h0 : ¬ (x.len + q = 0) := by omega
        have h1' : ¬ (x.len + q < x.len) := by omega
        simp only [recAt, h0, h1', ↓reduceIte]
        have : x.len + q - x.len = q := by omega
        rw [this]; exact h1
      · rw [h2, Nat.add_assoc]
      · simp only [fileSize_cons]; omega

theorem allEvs_append (l1 l2 : List (Nat × List Rec)) : allEvs (l1 ++ l2) = allEvs l1 ++ allEvs l2 := by
  induction l1 with
  | nil => rfl
  | cons x xs ih =>
    obtain ⟨f, rs⟩ := x
    simp only [List.cons_append, allEvs, ih, List.append_assoc]

theorem mem_allEvs {l : List (Nat × List Rec)} {e : Ev} (h : e ∈ allEvs l) :
    ∃ fid rs, (fid, rs) ∈ l ∧ e ∈ evData fid rs 0 := by
  induction l with
  | nil => simp [allEvs] at h
  | cons x xs ih =>
    obtain ⟨f, rs⟩ := x
    simp only [allEvs, List.mem_append] at h
    rcases h with h | h
    · exact ⟨f, rs, List.mem_cons_self, h⟩
    · obtain ⟨f', rs', h1, h2⟩ := ih h
      exact ⟨f', rs', List.mem_cons_of_mem _ h1, h2⟩

/-! ### association lists with strictly ascending keys -/

/-- the ids of the data files are listed in strictly ascending order -/
def Asc {β : Type} (l : List (Nat × β)) : Prop := (AL.keys l).Pairwise (· < ·)

theorem Asc.tail {β : Type} {x : Nat × β} {l : List (Nat × β)} (h : Asc (x :: l)) : Asc l := by
  unfold Asc AL.keys at *
  simp only [List.map_cons, List.pairwise_cons] at h
  exact h.2

theorem Asc.head_lt {β : Type} {x : Nat × β} {l : List (Nat × β)} (h : Asc (x :: l)) :
    ∀ id ∈ AL.keys l, x.1 < id := by
  unfold Asc AL.keys at *
  simp only [List.map_cons, List.pairwise_cons] at h
  exact h.1

theorem get_of_mem_asc {β : Type} {l : List (Nat × β)} (h : Asc l) {fid : Nat} {v : β}
    (hm : (fid, v) ∈ l) : AL.get fid l = some v := by
  induction l with
  | nil => simp at hm
  | cons x xs ih =>
    obtain ⟨f, w⟩ := x
    simp only [List.mem_cons, Prod.mk.injEq] at hm
    rcases hm with ⟨rfl, rfl⟩ | hm
    · simp [AL.get]
    · have hlt := h.head_lt fid (by simp only [AL.keys, List.mem_map]; exact ⟨_, hm, rfl⟩)
      simp only at hlt
      have : ¬ f = fid := by omega
      simp only [AL.get, this, ↓reduceIte]
      exact ih h.tail hm

theorem set_of_not_mem {β : Type} {k : Nat} {v : β} {l : List (Nat × β)} (h : k ∉ AL.keys l) :
    AL.set k v l = l ++ [(k, v)] := by
  induction l with
  | nil => rfl
  | cons x xs ih =>
    obtain ⟨f, w⟩ := x
    simp only [AL.keys, List.map_cons, List.mem_cons, not_or] at h
    have : ¬ f = k := fun e => h.1 e.symm
    simp only [AL.set, this, ↓reduceIte, List.cons_append, List.cons.injEq, true_and]
    exact ih h.2

theorem keys_set_of_mem {β : Type} {k : Nat} {v : β} {l : List (Nat × β)} (h : k ∈ AL.keys l) :
    AL.keys (AL.set k v l) = AL.keys l := by
  induction l with
  | nil => simp [AL.keys] at h
  | cons x xs ih =>
    obtain ⟨f, w⟩ := x
    by_cases hf : f = k
    · simp [AL.set, hf, AL.keys]
    · simp only [AL.keys, List.map_cons, List.mem_cons] at h
      have hk : k ∈ AL.keys xs := by
        rcases h with h | h
        · exact absurd h.symm hf
        · exact h
      have := ih hk
      simp only [AL.keys] at this
      simp [AL.set, hf, AL.keys, this]

theorem keys_append {β : Type} (l1 l2 : List (Nat × β)) : AL.keys (l1 ++ l2) = AL.keys l1 ++ AL.keys l2 := by
  simp [AL.keys]

/-- creating a file whose id is above all existing ones appends it -/
theorem asc_set_new {β : Type} {k : Nat} {v : β} {l : List (Nat × β)} (h : Asc l)
    (hk : ∀ id ∈ AL.keys l, id < k) : AL.set k v l = l ++ [(k, v)] ∧ Asc (AL.set k v l) := by
  have hn : k ∉ AL.keys l := fun hm => by have := hk k hm; omega
  rw [set_of_not_mem hn]
  refine ⟨rfl, ?_⟩
  unfold Asc at *
  rw [keys_append, List.pairwise_append]
  refine ⟨h, by simp [AL.keys], ?_⟩
  intro a ha b hb
  simp [AL.keys] at hb
  subst hb
  exact hk a ha

theorem asc_set_mem {β : Type} {k : Nat} {v : β} {l : List (Nat × β)} (h : Asc l)
    (hk : k ∈ AL.keys l) : Asc (AL.set k v l) := by
  unfold Asc; rw [keys_set_of_mem hk]; exact h

theorem del_eq_filter {β : Type} (k : Nat) (l : List (Nat × β)) :
    AL.del k l = l.filter (fun p => decide (p.1 ≠ k)) := by
  induction l with
  | nil => rfl
  | cons x xs ih =>
    obtain ⟨f, w⟩ := x
    by_cases hf : f = k
    · simp [AL.del, hf, ih]
    · simp [AL.del, hf, ih]

theorem asc_filter {β : Type} (p : Nat × β → Bool) {l : List (Nat × β)} (h : Asc l) : Asc (l.filter p) := by
  unfold Asc AL.keys at *
  induction l with
  | nil => simp
  | cons x xs ih =>
    simp only [List.map_cons, List.pairwise_cons] at h
    by_cases hp : p x = true
    · simp only [List.filter, hp, List.map_cons, List.pairwise_cons]
      refine ⟨?_, ih h.2⟩
      intro a ha
      apply h.1
      simp only [List.mem_map] at ha ⊢
      obtain ⟨y, hy, rfl⟩ := ha
      exact ⟨y, (List.mem_filter.mp hy).1, rfl⟩
    · simp only [List.filter, hp]
      exact ih h.2

/-- removing whole files removes exactly their events -/
theorem allEvs_filter (q : Nat → Bool) (l : List (Nat × List Rec)) :
    allEvs (l.filter (fun p => q p.1)) = (allEvs l).filter (fun e => q e.loc.fid) := by
  induction l with
  | nil => rfl
  | cons x xs ih =>
    obtain ⟨f, rs⟩ := x
    have hall : ∀ e ∈ evData f rs 0, q e.loc.fid = q f := by
      intro e he; rw [evData_fid he]
    by_cases hq : q f = true
    · simp only [List.filter, hq, allEvs, List.filter_append, ih]
      congr 1
      symm
      rw [List.filter_eq_self]
      intro e he; rw [hall e he, hq]
    · simp only [List.filter, hq, allEvs, List.filter_append, ih]
      have : (evData f rs 0).filter (fun e => q e.loc.fid) = [] := by
        rw [List.filter_eq_nil_iff]
        intro e he; rw [hall e he]; exact hq
      rw [this]; rfl

/-- appending a record to the file with the largest id appends its event -/
theorem allEvs_set_max {l : List (Nat × List Rec)} (h : Asc l) {a : Nat}
    (hmax : ∀ id ∈ AL.keys l, id ≤ a) (hex : (AL.get a l).isSome) (r : Rec) :
    allEvs (AL.set a ((AL.get a l).getD [] ++ [r]) l) =
      allEvs l ++ [mkEv a (fileSize ((AL.get a l).getD [])) r] := by
  induction l with
  | nil => simp [AL.get] at hex
  | cons x xs ih =>
    obtain ⟨f, rs⟩ := x
    by_cases hf : f = a
    · subst hf
      have hxs : xs = [] := by
        cases xs with
        | nil => rfl
        | cons y ys =>
          exfalso
          have h1 := h.head_lt y.1 (by simp [AL.keys])
          have h2 := hmax y.1 (by simp [AL.keys])
          simp only at h1; omega
      subst hxs
      simp [AL.set, AL.get, allEvs, evData_snoc]
    · have hex' : (AL.get a xs).isSome := by simpa [AL.get, hf] using hex
      have hmax' : ∀ id ∈ AL.keys xs, id ≤ a := fun id hid => hmax id (by
        simp only [AL.keys, List.map_cons, List.mem_cons] at hid ⊢; exact .inr hid)
      have := ih h.tail hmax' hex'
      simp only [AL.set, AL.get, hf, ↓reduceIte, allEvs, this, List.append_assoc]

theorem flatMap_congr_mem {α β : Type} {f g : α → List β} {l : List α} (h : ∀ a ∈ l, f a = g a) :
    l.flatMap f = l.flatMap g := by
  induction l with
  | nil => rfl
  | cons x xs ih =>
    simp only [List.flatMap_cons]
    rw [h x List.mem_cons_self, ih (fun a ha => h a (List.mem_cons_of_mem _ ha))]

/-- the events of the listed files, looked up by id, are the directory's events -/
theorem flatMap_keys_allEvs {l : List (Nat × List Rec)} (h : Asc l) :
    (AL.keys l).flatMap (fun fid => evData fid ((AL.get fid l).getD []) 0) = allEvs l := by
  induction l with
  | nil => rfl
  | cons x xs ih =>
    obtain ⟨f, rs⟩ := x
    simp only [AL.keys, List.map_cons, List.flatMap_cons, AL.get, ↓reduceIte, Option.getD_some, allEvs]
    congr 1
    rw [← ih h.tail]
    simp only [AL.keys]
    apply flatMap_congr_mem
    intro fid hfid
    have := h.head_lt fid hfid
    simp only at this
    have hne : ¬ f = fid := by omega
    simp only [hne, ↓reduceIte]

end Store
