/-
  Specifications the store model is compared against: the abstract key-value map, ground-truth
  accounting, store size. Core Lean only.
-/
import BitcaskVerif.Store.Model

namespace Store

/-! ### the abstract map -/

abbrev Map := Key → Option Val

def Map.empty : Map := fun _ => none
def Map.set (m : Map) (k : Key) (v : Val) : Map := fun k' => if k' = k then some v else m k'
def Map.del (m : Map) (k : Key) : Map := fun k' => if k' = k then none else m k'

/-- what every key reads through the index -/
def St.abs (s : St) : Map := fun k =>
  match get s k with
  | .value v => some v
  | _ => none

/-! ### ground truth of the per-file accounting (C19) -/

/-- is the record of file `fid` that starts at `pos` with length `len` the current value of some key? -/
def isLiveAt (kd : List (Key × Loc)) (fid pos len : Nat) : Bool :=
  kd.any fun (_, l) => l.fid = fid && l.pos = pos && l.len = len

/-- live count, dead count and dead bytes of one data file, recomputed from its records -/
def truthFile (kd : List (Key × Loc)) (fid : Nat) (rs : List Rec) : Stat :=
  (rs.foldl (fun (acc : Stat × Nat) r =>
    let (st, pos) := acc
    if isLiveAt kd fid pos r.len then (st.addLive, pos + r.len)
    else (st.addDead r.len, pos + r.len)) (({} : Stat), 0)).1

/-- ground truth for every non-empty data file -/
def truth (s : St) : List (Nat × Stat) :=
  (s.disk.data.filter fun (_, rs) => !rs.isEmpty).map fun (fid, rs) => (fid, truthFile s.keydir fid rs)

/-! ### sizes (C13) -/

def storeSize (d : Disk) : Nat := (d.data.map fun (_, rs) => fileSize rs).sum

/-- size of the entry holding a live pair -/
def pairSize (k : Key) (v : Val) : Nat := 25 + k.length + v.length

/-- total length of the entries the KeyDir points to -/
def liveSize (s : St) : Nat := (s.keydir.map fun (_, l) => l.len).sum

end Store
