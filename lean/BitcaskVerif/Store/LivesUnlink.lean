/-
  Lives after a crash inside a merge, part 8: a kill in the REMOVAL phase of a merge pass, and
  the whole pass, in a store that satisfies the lives invariant.

  New with respect to the crash-free theory (Store/CutUnlink.lean): the selected files may
  include a stale merge output.  `unlinkOne` removes the hint file first, the data file second; a
  kill in between leaves the data file WITHOUT hint file, so its records that the hint file did
  not list become visible to the next scan (`CJ.dropHintStale`).  They are harmless because
    * each of them is a copy of the record the index addresses for its key, unless a later file
      holds a record of that key (`JunkOK`), and
    * the hazard hypothesis `NoHazard s done` is about ALL records of the directory, so a deleted
      key is never resurrected by them (`FullAll`).
-/
import BitcaskVerif.Store.LivesLoop

namespace Store


theorem keys_filter {β : Type} (q : Nat → Bool) (l : List (Nat × β)) :
    AL.keys (l.filter (fun p => q p.1)) = (AL.keys l).filter q := by
  induction l with
  | nil => rfl
  | cons x xs ih =>
    by_cases h : q x.1 = true
    · simp only [List.filter, h, AL.keys, List.map_cons] at ih ⊢
      rw [ih]
    · simp only [List.filter, h, AL.keys, List.map_cons] at ih ⊢
      rw [ih]

theorem dataOf_unlinked_mem {d : Disk} {done : List Nat} {fid : Nat} (h : fid ∈ done) :
    dataOf (unlinkedDisk d done) fid = [] := by
  simp only [dataOf, unlinkedDisk]
  rw [get_filter (fun f => decide (f ∉ done))]
  simp [h]

theorem get_hint_unlinked {d : Disk} {done : List Nat} (fid : Nat) :
    AL.get fid (unlinkedDisk d done).hint = if fid ∈ done then none else AL.get fid d.hint := by
  simp only [unlinkedDisk]
  rw [get_filter (fun f => decide (f ∉ done))]
  by_cases h : fid ∈ done <;> simp [h]

theorem Sim.unlinked {d1 d : Disk} (h : Sim d1 d) (done : List Nat) :
    Sim (unlinkedDisk d1 done) (unlinkedDisk d done) := by
  refine ⟨?_, ?_, h.tl, ?_⟩
  · show AL.keys (d.data.filter _) = AL.keys (d1.data.filter _)
    rw [keys_filter (fun f => decide (f ∉ done)), keys_filter (fun f => decide (f ∉ done)), h.keys]
  · show AL.keys (d.hint.filter _) = AL.keys (d1.hint.filter _)
    rw [keys_filter (fun f => decide (f ∉ done)), keys_filter (fun f => decide (f ∉ done)), h.hkeys]
  · intro fid
    by_cases hd : fid ∈ done
    · refine ⟨?_, fun _ => ?_, ?_⟩
      · rw [dataOf_unlinked_mem hd, dataOf_unlinked_mem hd]; exact List.prefix_refl _
      · rw [dataOf_unlinked_mem hd, dataOf_unlinked_mem hd]
      · intro hs hg
        rw [get_hint_unlinked] at hg
        simp [hd] at hg
    · refine (h.file fid).congr (dataOf_unlinked hd) (dataOf_unlinked hd) ?_ ?_ rfl
      · rw [get_hint_unlinked]; simp [hd]
      · rw [get_hint_unlinked]; simp [hd]


theorem keys_del_congr {β γ : Type} {l : List (Nat × β)} {l' : List (Nat × γ)} (h : AL.keys l = AL.keys l')
    (id : Nat) : AL.keys (AL.del id l) = AL.keys (AL.del id l') := by
  rw [del_eq_filter, del_eq_filter, keys_filter (fun f => decide (f ≠ id)), keys_filter (fun f => decide (f ≠ id)), h]

theorem allEvs_set_mid {l : List (Nat × List Rec)} (h : Asc l) {id : Nat} {a : List Rec}
    (hg : AL.get id l = some a) (j : List Rec) :
    ∃ pre post, allEvs l = pre ++ evData id a 0 ++ post ∧
      allEvs (AL.set id (a ++ j) l) = pre ++ evData id a 0 ++ evData id j (fileSize a) ++ post ∧
      (∀ e ∈ pre, e.loc.fid < id) ∧ (∀ e ∈ post, id < e.loc.fid) := by
  induction l with
  | nil => simp [AL.get] at hg
  | cons x xs ih =>
    obtain ⟨f, rs⟩ := x
    by_cases hf : f = id
    · subst hf
      simp only [AL.get, ↓reduceIte, Option.some.injEq] at hg
      subst hg
      refine ⟨[], allEvs xs, by simp [allEvs], ?_, by simp, ?_⟩
      · simp only [AL.set, ↓reduceIte, allEvs, evData_append, Nat.zero_add, List.nil_append]
      · intro e he
        obtain ⟨f', rs', hm, he'⟩ := mem_allEvs he
        rw [evData_fid he']
        exact h.head_lt f' (by simp only [AL.keys, List.mem_map]; exact ⟨_, hm, rfl⟩)
    · simp only [AL.get, hf, ↓reduceIte] at hg
      obtain ⟨pre, post, e1, e2, e3, e4⟩ := ih h.tail hg
      have hlt : f < id := h.head_lt id (AL.mem_keys_of_get hg)
      refine ⟨evData f rs 0 ++ pre, post, ?_, ?_, ?_, e4⟩
      · simp only [allEvs, e1, List.append_assoc]
      · simp only [AL.set, hf, ↓reduceIte, allEvs, e2, List.append_assoc]
      · intro e he
        rcases List.mem_append.mp he with he | he
        · rw [evData_fid he]; exact hlt
        · exact e3 e he

theorem lastFor_insert (k : Key) (pa J post : List Ev) :
    (lastFor k (pa ++ J ++ post) = lastFor k (pa ++ post)) ∨
    (lastFor k post = none ∧ ∃ y, lastFor k J = some y ∧ lastFor k (pa ++ J ++ post) = some y ∧
      lastFor k (pa ++ post) = lastFor k pa) := by
  rw [lastFor_append, lastFor_append k pa post]
  cases hp : lastFor k post with
  | some x => left; rfl
  | none =>
    simp only
    rw [lastFor_append]
    cases hj : lastFor k J with
    | none => left; rfl
    | some y => right; exact ⟨trivial, y, rfl, rfl, trivial⟩

/-- removing the hint file of a file that is the same in both directories -/
theorem CJ.dropHintSame {dB DB : Disk} {kd : List (Key × Loc)} {a : Nat} {m : Map} (h : CJ dB DB kd a m) (id : Nat)
    (heq : dataOf DB id = dataOf dB id) :
    CJ { dB with hint := AL.del id dB.hint } { DB with hint := AL.del id DB.hint } kd a m := by
  refine ⟨h.clean.dropHint id, h.abs, ?_, h.junk, h.fullA⟩
  refine ⟨h.sim.keys, keys_del_congr h.sim.hkeys id, h.sim.tl, ?_⟩
  intro fid
  by_cases e : fid = id
  · subst e
    refine ⟨(h.sim.file fid).pre, fun _ => heq, ?_⟩
    intro hs hg
    simp only at hg
    rw [AL.get_del_same] at hg; cases hg
  · exact (h.sim.file fid).congr rfl rfl (AL.get_del_other e _) (AL.get_del_other e _) rfl

/-- **the hint file of a stale merge output is removed, its data file is not (yet)**: the
    records the hint file did not list become visible.  Each of them is a value record; it
    changes the index only if no later file holds a record of its key, and then it is a copy of
    the record the index addressed before. -/
theorem CJ.dropHintStale {dB DB : Disk} {kd : List (Key × Loc)} {a : Nat} {m : Map} (h : CJ dB DB kd a m) (id : Nat)
    (hne : dataOf DB id ≠ dataOf dB id) : RecW { DB with hint := AL.del id DB.hint } m := by
  obtain ⟨j, hj⟩ := h.sim.pre id
  -- the file exists
  have hgB : AL.get id dB.data = some (dataOf dB id) := by
    cases hg : AL.get id dB.data with
    | some v => simp [dataOf, hg]
    | none =>
      exfalso
      apply hne
      have : AL.get id DB.data = none := by
        have := h.sim.data_isSome id
        rw [hg] at this
        cases hg' : AL.get id DB.data with
        | none => rfl
        | some v => rw [hg'] at this; cases this
      simp [dataOf, hg, this]
  have hmemB : id ∈ AL.keys dB.data := AL.mem_keys_of_get hgB
  -- the new visible part: file `id` with all its records, without hint file
  have hd' : ∃ d' : Disk, d' = { data := AL.set id (dataOf DB id) dB.data, hint := AL.del id dB.hint, tails := dB.tails } :=
    ⟨_, rfl⟩
  obtain ⟨d', hd'⟩ := hd'
  have hdid : dataOf d' id = dataOf DB id := by rw [hd']; simp [dataOf, AL.get_set_same]
  have hdo : ∀ fid, fid ≠ id → dataOf d' fid = dataOf dB fid := by
    intro fid e; rw [hd']; exact dataOf_set_other' dB e _ _ _
  have hkeys : AL.keys d'.data = AL.keys dB.data := by
    rw [hd']; exact Tr.keys_set_old _ _ _ (by rw [hgB]; rfl)
  have hasc : Asc d'.data := by rw [hd']; exact asc_set_mem h.clean.asc hmemB
  have hx : HintsExact d' := by
    intro fid hs hg
    rw [hd'] at hg
    simp only at hg
    rw [AL.get_del] at hg
    by_cases e : fid = id
    · simp [e] at hg
    · simp only [e, ↓reduceIte] at hg
      rw [hdo fid e]
      exact h.clean.hx fid hs hg
  have hsim : Sim d' { DB with hint := AL.del id DB.hint } := by
    refine ⟨by rw [hkeys]; exact h.sim.keys, ?_, by rw [hd']; exact h.sim.tl, ?_⟩
    · rw [hd']; exact keys_del_congr h.sim.hkeys id
    · intro fid
      by_cases e : fid = id
      · subst e
        refine ⟨by rw [hdid]; exact List.prefix_refl _, fun _ => hdid.symm, ?_⟩
        intro hs hg
        simp only at hg
        rw [AL.get_del_same] at hg; cases hg
      · refine (h.sim.file fid).congr (hdo fid e) rfl ?_ (AL.get_del_other e _) rfl
        rw [hd']; exact AL.get_del_other e _
  have hwit : Wit d' { DB with hint := AL.del id DB.hint } a := by
    refine ⟨hasc, hx, by rw [hkeys]; exact h.clean.mem, by rw [hkeys]; exact h.clean.max, ?_, hsim⟩
    intro i hi
    rw [hd'] at hi
    exact h.clean.hmax i (mem_keys_del hi).2
  -- the invisible records of the new directory are those of the old one, outside file `id`
  have hjunk' : ∀ fid p j2, recAt (dataOf DB fid) p = some j2 → fileSize (dataOf d' fid) ≤ p →
      fid ≠ id ∧ fileSize (dataOf dB fid) ≤ p := by
    intro fid p j2 h1 h2
    by_cases e : fid = id
    · subst e
      rw [hdid] at h2
      have := recAt_lt h1; omega
    · rw [hdo fid e] at h2; exact ⟨e, h2⟩
  have hvals : JunkVals d' { DB with hint := AL.del id DB.hint } := by
    intro fid p j2 h1 h2
    exact (h.junk fid p j2 h1 (hjunk' fid p j2 h1 h2).2).1
  -- events
  obtain ⟨pre, post, e1, e2, e3, e4⟩ := allEvs_set_mid h.clean.asc hgB j
  rw [hj] at e2
  have hE' : allEvs d'.data = pre ++ evData id (dataOf dB id) 0 ++ evData id j (fileSize (dataOf dB id)) ++ post := by
    rw [hd']; exact e2
  have hkdE : ∀ k, AL.get k kd = replay (allEvs dB.data) k := fun k => congrFun h.clean.kd k
  have key : ∀ k, replay (allEvs d'.data) k = replay (allEvs dB.data) k ∨
      ∃ jr q loc, recAt j q = some jr ∧
        replay (allEvs d'.data) k = some ⟨id, fileSize (dataOf dB id) + q, jr.len, jr.ts⟩ ∧
        replay (allEvs dB.data) k = some loc ∧ (loc.fid < id ∨ (loc.fid = id ∧ loc.pos < fileSize (dataOf dB id))) ∧
        recAt (dataOf DB loc.fid) loc.pos = some jr := by
    intro k
    rw [hE', e1, replay_eq, replay_eq]
    rcases lastFor_insert k (pre ++ evData id (dataOf dB id) 0) (evData id j (fileSize (dataOf dB id))) post with
      hl | ⟨hp, y, hy, hl1, hl2⟩
    · left; rw [hl]
    · right
      obtain ⟨hyk, hym⟩ := lastFor_key hy
      obtain ⟨r, q, hr1, hr2, _⟩ := mem_evData hym
      have hrD : recAt (dataOf DB id) (fileSize (dataOf dB id) + q) = some r := by
        rw [← hj, recAt_append_right]; exact hr1
      obtain ⟨hv, hP⟩ := h.junk id _ r hrD (Nat.le_add_right _ _)
      have hyt : y.tomb = false := by
        rw [hr2]
        cases hv' : r.val with
        | none => simp [hv'] at hv
        | some v => simp [mkEv, hv']
      have hrk : r.key = k := by rw [← hyk, hr2]; rfl
      have hnone : r.val.isNone = false := by rw [hr2] at hyt; exact hyt
      have hnew : evVal (lastFor k (pre ++ evData id (dataOf dB id) 0 ++ evData id j (fileSize (dataOf dB id)) ++ post)) =
          some ⟨id, fileSize (dataOf dB id) + q, r.len, r.ts⟩ := by
        rw [hl1]
        simp only [evVal, hr2, mkEv, hnone, Bool.false_eq_true, ↓reduceIte]
      have hEk : replay (allEvs dB.data) k = evVal (lastFor k (pre ++ evData id (dataOf dB id) 0)) := by
        rw [e1, replay_eq, hl2]
      rw [hl2]
      cases hold : evVal (lastFor k (pre ++ evData id (dataOf dB id) 0)) with
      | none =>
        -- impossible: the key would be absent, but then no record of it may be recovered
        exfalso
        have hkn : kdF kd k = none := by
          unfold kdF; rw [hkdE, hEk, hold]
        have hall := h.fullA k hkn
        have hsub := valSub_of_sim hsim hasc hvals
        have := hsub.replay_none (k := k) hall
        rw [hE', replay_eq, hnew] at this
        cases this
      | some loc =>
        refine ⟨r, q, loc, hr1, hnew, rfl, ?_⟩
        have hmem : (⟨k, loc, false⟩ : Ev) ∈ pre ++ evData id (dataOf dB id) 0 :=
          replay_some_mem (by rw [replay_eq]; exact hold)
        have hlex : loc.fid < id ∨ (loc.fid = id ∧ loc.pos < fileSize (dataOf dB id)) := by
          rcases List.mem_append.mp hmem with hm | hm
          · exact .inl (e3 _ hm)
          · right
            obtain ⟨r', q', g1, g2, g3⟩ := mem_evData hm
            have hl : loc = ⟨id, 0 + q', r'.len, r'.ts⟩ := congrArg Ev.loc g2
            have := r'.len_pos
            rw [hl]; exact ⟨rfl, by simp only; omega⟩
        refine ⟨hlex, ?_⟩
        apply hP loc
        · unfold kdF; rw [hrk, hkdE, hEk, hold]
        · unfold lexlt
          rcases hlex with h1 | ⟨h1, h2⟩
          · exact .inl h1
          · exact .inr ⟨h1, by omega⟩
  -- the index recovered from the new visible part
  have hkd' : kdF (rebuild d').1.keydir = replay (allEvs d'.data) := rebuild_keydir hasc hx
  have hclean : Clean d' (rebuild d').1.keydir a :=
    ⟨hasc, hx, by rw [hkeys]; exact h.clean.mem, by rw [hkeys]; exact h.clean.max, hwit.hmax,
      fun k loc hk => locOk_of_replay' hasc (by rw [← hkd']; exact hk), hkd'⟩
  have hpre : ∀ fid, dataOf dB fid <+: dataOf d' fid := by
    intro fid
    by_cases e : fid = id
    · subst e; rw [hdid]; exact h.sim.pre fid
    · rw [hdo fid e]; exact List.prefix_refl _
  have hjid : ∀ q jr, recAt j q = some jr → recAt (dataOf DB id) (fileSize (dataOf dB id) + q) = some jr := by
    intro q jr hq; rw [← hj, recAt_append_right]; exact hq
  have habs : absOf d' (rebuild d').1.keydir = m := by
    rw [← h.abs]
    funext k
    show St.abs { disk := d', keydir := (rebuild d').1.keydir } k = St.abs { disk := dB, keydir := kd } k
    have hk' : AL.get k (rebuild d').1.keydir = replay (allEvs d'.data) k := congrFun hkd' k
    rcases key k with hl | ⟨jr, q, loc, g1, g2, g3, g4, g5⟩
    · apply abs_keeps (b := a)
      · intro loc hl'
        exact ⟨h.clean.locs k loc hl', h.clean.fid_le (h.clean.locs k loc hl')⟩
      · show AL.get k (rebuild d').1.keydir = AL.get k kd
        rw [hk', hl, hkdE]
      · exact keeps_of_prefix hkeys hpre a
    · have hkB : AL.get k kd = some loc := by rw [hkdE, g3]
      obtain ⟨x, x1, x2, x3, x4, x5⟩ := h.clean.locs k loc hkB
      have hxj : x = jr := by
        have := h.sim.recAt x1
        rw [g5] at this; exact (Option.some.inj this).symm
      subst hxj
      rw [abs_of_locOk (s := { disk := dB, keydir := kd }) hkB x1 x4 x5]
      refine abs_of_locOk (s := { disk := d', keydir := (rebuild d').1.keydir })
        (loc := ⟨id, fileSize (dataOf dB id) + q, x.len, x.ts⟩) (by rw [hk', g2]) ?_ rfl ?_
      · show recAt (dataOf d' id) _ = some x
        rw [hdid]; exact hjid q x g1
      · show (AL.get id d'.data).isSome
        rw [hd']; simp [AL.get_set_same]
  have hj' : JunkOK d' { DB with hint := AL.del id DB.hint } (replay (allEvs d'.data)) := by
    intro fid p j2 h1 h2
    obtain ⟨hfid, h2'⟩ := hjunk' fid p j2 h1 h2
    obtain ⟨v, P2⟩ := h.junk fid p j2 h1 h2'
    refine ⟨v, fun loc' hl' hlt' => ?_⟩
    show recAt (dataOf DB loc'.fid) loc'.pos = some j2
    rcases key j2.key with hl | ⟨jr, q, loc, g1, g2, g3, g4, g5⟩
    · apply P2 loc' _ hlt'
      unfold kdF; rw [hkdE, ← hl]; exact hl'
    · rw [g2] at hl'
      have hloc' := (Option.some.inj hl').symm
      subst hloc'
      have hlt2 : id < fid := by
        unfold lexlt at hlt'
        simp only at hlt'
        rcases hlt' with h3 | ⟨h3, _⟩
        · exact h3
        · exact absurd h3.symm hfid
      have hlex : lexlt loc fid p := by
        unfold lexlt
        rcases g4 with h3 | ⟨h3, _⟩ <;> left <;> omega
      have := P2 loc (by unfold kdF; rw [hkdE, g3]) hlex
      rw [g5] at this
      rw [← Option.some.inj this]
      exact hjid q jr g1
  have hf' : FullAll { DB with hint := AL.del id DB.hint } (replay (allEvs d'.data)) := by
    intro k hk
    rcases key k with hl | ⟨jr, q, loc, g1, g2, g3, g4, g5⟩
    · apply h.fullA k
      unfold kdF; rw [hkdE, ← hl]; exact hk
    · rw [g2] at hk; cases hk
  exact ⟨d', _, a, hclean, habs, hsim, by rw [hkd']; exact hj', by rw [hkd']; exact hf'⟩

end Store
