/-
  Fault-aware merge pass (C20), part 6: a restart after a failed pass.

  The directory a failed pass leaves is a crash cut of the fault-free pass (`cut_faultPrefix`,
  `mergeF_dir`) plus possibly the new, empty active file.  So the crash theory of the merge pass
  over any number of lives (`mergeWith_cut_recW`, Store/LivesMerge.lean) applies: the inputs that
  were not removed and the partial outputs are harmless — the outputs hold copies of records the
  index addressed, their hint files list a prefix of them — and the store opened on that
  directory satisfies the lives invariant `LJ` and reads as before the pass, under the hazard
  hypothesis of the fault-free restart theorem (D3).
-/
import BitcaskVerif.Store.MergeFaultDir
import BitcaskVerif.Store.LivesHistory

namespace Store

variable {hintFirst : Bool}

/-- **restart after a failed (or fault-free) merge pass**: opening the directory the pass left
    gives a store that satisfies the lives invariant and in which every key reads as before the
    pass.  Hypotheses: the lives invariant, a selection of existing files in ascending order, an
    iteration order covering the index, and `NoHazard s sel` — the D3 side condition of the
    fault-free restart theorem `c05_restart_partial`. -/
theorem mergeF_restart (cfg : Cfg) {s : St} (hl : LJ s) (sel : List Nat) (order : List Key) (j torn : Nat)
    (hsel : ∀ id, id ∈ sel → id ≤ s.active) (hcov : Covers order s)
    (hsorted : sel.Pairwise (· ≤ ·)) (hz : NoHazard s sel) :
    RecJ (mergeF hintFirst cfg s sel order j torn).p.st.disk s.abs := by
  obtain ⟨d1, w⟩ := hl
  by_cases hj : j < (mergeWith cfg s sel order).2.length
  · have hcut : RecW (applyCalls s.disk (faultPrefix (mergeWith cfg s sel order).2 j torn)) s.abs :=
      mergeWith_cut_recW cfg w sel order hsel hcov
        (fun _ hd => noHazard_prefix_of_sorted w.asc w.fullA hsorted hz hd) (cut_faultPrefix _ j torn)
    obtain ⟨b, hb, _, hcase⟩ := mergeF_dir cfg s sel order j torn w.inv hsel hcov hj
    rcases hcase with ⟨_, _, _, hd, _⟩ | ⟨_, _, _, hd, _⟩
    · rw [hd]
      obtain ⟨dB, kd, a, cj⟩ := hcut
      have hab : a < b := by
        apply hb.1
        rw [cj.sim.keys]
        exact cj.clean.mem
      exact (cj.addData hab).recW.recJ
    · rw [hd]
      exact hcut.recJ
  · obtain ⟨e, _, _⟩ := mergeF_no_fault cfg s sel order j torn (by omega)
    rw [e]
    obtain ⟨a, b⟩ := mergeWith_lj cfg w sel order hsel hcov hz
    have := (LJ.recovers ⟨_, a⟩)
    rw [b] at this
    exact this

end Store
