/-
  Power loss during a merge pass (C09), part 2: every image of the copy phase opens to the
  contents before the merge.

  `ImgOk s mid d`: every directory obtained from `d` by cutting back the data file and the hint
  file of output `mid` (independently; a partial record may remain) opens to `s.abs`.  It holds
  for the directory of every state of the merge loop and for the directories in between:
    * a record whose hint entry is missing is invisible (the source file still holds it);
    * a hint entry whose record is missing or incomplete does not fit inside the data file and is
      ignored by `scanHints` (on the pinned tree it was trusted: defect D5).
-/
import BitcaskVerif.Store.PowerMerge

namespace Store

/-! ### extensional helpers -/

theorem isSome_of_keys {β : Type} {l l' : List (Nat × β)} (hk : AL.keys l' = AL.keys l) (fid : Nat) :
    (AL.get fid l').isSome = (AL.get fid l).isSome := by
  cases h : AL.get fid l with
  | none =>
    have : fid ∉ AL.keys l' := by rw [hk]; exact AL.get_eq_none_iff.mp h
    rw [AL.get_eq_none_iff.mpr this]
  | some v =>
    have : fid ∈ AL.keys l' := by rw [hk]; exact AL.mem_keys_of_get h
    obtain ⟨w, hw⟩ := AL.get_of_mem_keys this
    rw [hw]; rfl

theorem keeps_of_prefix {d d' : Disk} (hk : AL.keys d'.data = AL.keys d.data)
    (hp : ∀ fid, dataOf d fid <+: dataOf d' fid) : ∀ b, Keeps b d d' := by
  intro b fid p x _ h1 h2
  obtain ⟨t, e⟩ := hp fid
  constructor
  · rw [← e]; exact recAt_append_left h1 t
  · rw [isSome_of_keys hk]; exact h2

theorem prefix_snoc {α : Type} {p l : List α} {a : α} (h : p <+: l ++ [a]) : p <+: l ∨ p = l ++ [a] := by
  by_cases hle : p.length ≤ l.length
  · exact .inl (List.prefix_of_prefix_length_le h (List.prefix_append l [a]) hle)
  · right
    apply h.eq_of_length
    have := h.length_le
    simp only [List.length_append, List.length_singleton] at this ⊢
    omega

theorem fileSize_prefix_getElem {P L : List Rec} (hp : P <+: L) {r : Rec} (hr : L[P.length]? = some r) :
    fileSize P + r.len ≤ fileSize L := by
  obtain ⟨t, rfl⟩ := hp
  rw [List.getElem?_append_right (Nat.le_refl _), Nat.sub_self] at hr
  cases t with
  | nil => simp at hr
  | cons x xs =>
    simp only [List.getElem?_cons_zero, Option.some.injEq] at hr
    subst hr
    simp only [fileSize_append, fileSize_cons]
    omega

theorem takeWhile_snoc_false {α : Type} (p : α → Bool) (l : List α) (x : α) (hx : p x = false) :
    (l ++ [x]).takeWhile p = l.takeWhile p := by
  induction l with
  | nil => simp [List.takeWhile, hx]
  | cons y ys ih =>
    simp only [List.cons_append, List.takeWhile]
    cases p y
    · rfl
    · simp only [ih]

theorem fileScan_takeWhile {d : Disk} {fid : Nat} {hs : List Hint} (hg : AL.get fid d.hint = some hs) (ix : Idx) :
    fileScan d ix fid =
      (hs.takeWhile fun h => h.pos + h.len ≤ fileSize (dataOf d fid) + tailOf d fid).foldl (hintStep fid) ix := by
  unfold fileScan
  rw [hg]
  rfl

/-- a clean directory opens in the same way whatever its tails are, and so does every directory
    with the same files and contents -/
theorem recoversW_sameFiles {d : Disk} {kd : List (Key × Loc)} {a : Nat} {m : Map} (hc : Clean d kd a)
    (hm : absOf d kd = m) {I : Disk} (h : SameFiles d I) : RecoversW I m := by
  have base : RecoversW d m := by
    have := hc.recovers
    rw [hm] at this
    exact this.weak
  refine recoversW_extend ?_ ?_ h.keys (fun id hid => by rw [← h.hkeys]; exact hid) base
  · apply rebuild_congr (Tr.sortedIds_eq_of_keys h.keys)
    intro fid _ ix
    cases hg : AL.get fid d.hint with
    | none =>
      have hg' : AL.get fid I.hint = none := by rw [h.hint, hg]
      unfold fileScan
      rw [hg, hg', h.data fid]
    | some hs =>
      have hg' : AL.get fid I.hint = some hs := by rw [h.hint, hg]
      have hfit := hc.hx.fit hg
      rw [fileScan_hinted hg' ?_ ix, fileScan_hinted hg ?_ ix]
      · intro x hx; have := hfit x hx; omega
      · intro x hx; have := hfit x hx; rw [h.data fid]; omega
  · exact keeps_of_prefix h.keys (fun fid => by rw [h.data fid]; exact List.prefix_refl _)

/-! ### images of the current merge output -/

/-- every image of `d` in which only output `mid` is cut back opens to the contents of `s` -/
def ImgOk (s : St) (mid : Nat) (d : Disk) : Prop := ∀ I, OutImage d mid I → RecoversW I s.abs

theorem ImgOk.tails {s : St} {mid : Nat} {d : Disk} (h : ImgOk s mid d) (T : List (Nat × Nat)) :
    ImgOk s mid { d with tails := T } :=
  fun I hI => h I ⟨hI.keys, hI.hkeys, hI.data, hI.hint, hI.dmid, hI.tail, hI.hmid⟩

/-- an output that is still empty cannot lose anything -/
theorem outImage_sameFiles_of_empty {d : Disk} {mid : Nat} {I : Disk} (h : OutImage d mid I)
    (hd : dataOf d mid = []) (hh : hintsOf d mid = []) : SameFiles d I := by
  refine ⟨h.keys, h.hkeys, ?_, ?_⟩
  · intro fid
    by_cases e : fid = mid
    · subst e
      have := h.dmid
      rw [hd] at this ⊢
      exact List.prefix_nil.mp this
    · exact h.data fid e
  · intro fid
    by_cases e : fid = mid
    · subst e
      have h1 := h.hmid
      rw [hh] at h1
      have h2 : hintsOf I fid = [] := List.prefix_nil.mp h1
      have h3 := isSome_of_keys h.hkeys fid
      cases hg : AL.get fid d.hint with
      | none =>
        rw [hg] at h3
        cases hg' : AL.get fid I.hint with
        | none => rfl
        | some y => rw [hg'] at h3; cases h3
      | some x =>
        rw [hg] at h3
        cases hg' : AL.get fid I.hint with
        | none => rw [hg'] at h3; cases h3
        | some y =>
          simp only [hintsOf, hg, hg', Option.getD_some] at hh h2
          rw [hh, h2]
    · exact h.hint fid e

theorem imgOk_of_clean_empty {s : St} {d : Disk} {kd : List (Key × Loc)} {a : Nat} (hc : Clean d kd a)
    (hm : absOf d kd = s.abs) {b : Nat} (hd : dataOf d b = []) (hh : hintsOf d b = []) : ImgOk s b d :=
  fun _ hI => recoversW_sameFiles hc hm (outImage_sameFiles_of_empty hI hd hh)

/-! ### one merge iteration -/

theorem dataOf_halfDisk_mid (m : MergeSt) (r : Rec) :
    dataOf (halfDisk m r) m.mid = dataOf m.s.disk m.mid ++ [r] := dataOf_set_same _ _ _

theorem dataOf_halfDisk_other (m : MergeSt) (r : Rec) {fid : Nat} (h : fid ≠ m.mid) :
    dataOf (halfDisk m r) fid = dataOf m.s.disk fid := dataOf_set_other _ h _

theorem keys_halfDisk {s : St} {m : MergeSt} (h : LI s m) (r : Rec) :
    AL.keys (halfDisk m r).data = AL.keys m.s.disk.data := Tr.keys_set_old _ _ _ h.minv.midex

/-- (a) after the data append: an image either lacks the new record (then it is an image of the
    directory before), or it has it without a hint entry (then the record is invisible) -/
theorem imgOk_half {s : St} {m : MergeSt} (h : LI s m) (himg : ImgOk s m.mid m.s.disk) (r : Rec) :
    ImgOk s m.mid (halfDisk m r) := by
  intro I hI
  have hdm := hI.dmid
  rw [dataOf_halfDisk_mid] at hdm
  rcases prefix_snoc hdm with hp | he
  · -- the new record is lost: `I` is an image of the old directory
    apply himg I
    refine ⟨by rw [hI.keys, keys_halfDisk h], hI.hkeys, ?_, hI.hint, hp, ?_, hI.hmid⟩
    · intro fid hf; rw [hI.data fid hf, dataOf_halfDisk_other m r hf]
    · intro r' hr'
      apply hI.tail r'
      rw [dataOf_halfDisk_mid]
      have hlt : (dataOf I m.mid).length < (dataOf m.s.disk m.mid).length := by
        cases Nat.lt_or_ge (dataOf I m.mid).length (dataOf m.s.disk m.mid).length with
        | inl h => exact h
        | inr h => rw [List.getElem?_eq_none h] at hr'; cases hr'
      rw [List.getElem?_append_left hlt]; exact hr'
  · -- the new record is there, without hint entry
    have hmI : (AL.get m.mid I.data).isSome := by
      rw [isSome_of_keys (hI.keys.trans (keys_halfDisk h r))]; exact h.minv.midex
    have hI0 : OutImage m.s.disk m.mid { I with data := AL.set m.mid (dataOf m.s.disk m.mid) I.data } := by
      refine ⟨?_, hI.hkeys, ?_, hI.hint, ?_, ?_, hI.hmid⟩
      · show AL.keys (AL.set m.mid _ I.data) = _
        rw [Tr.keys_set_old _ _ _ hmI, hI.keys, keys_halfDisk h]
      · intro fid hf
        rw [dataOf_set_other _ hf, hI.data fid hf, dataOf_halfDisk_other m r hf]
      · rw [dataOf_set_same]; exact List.prefix_refl _
      · intro r' hr'
        rw [dataOf_set_same, List.getElem?_eq_none (Nat.le_refl _)] at hr'
        cases hr'
    have h0 := himg _ hI0
    obtain ⟨hs, hg⟩ := Option.isSome_iff_exists.mp h.mr.hmid
    have hfit := h.mr.hx.fit hg
    refine recoversW_extend (d := { I with data := AL.set m.mid (dataOf m.s.disk m.mid) I.data }) (d' := I)
      ?_ ?_ ?_ (fun _ hi => hi) h0
    · apply rebuild_congr
      · apply Tr.sortedIds_eq_of_keys
        show AL.keys I.data = AL.keys (AL.set m.mid _ I.data)
        rw [Tr.keys_set_old _ _ _ hmI]
      · intro fid _ ix
        by_cases e : fid = m.mid
        · subst e
          have hsome := isSome_of_keys hI.hkeys m.mid
          have hgh : AL.get m.mid (halfDisk m r).hint = some hs := hg
          rw [hgh] at hsome
          obtain ⟨hsI, hgI⟩ := Option.isSome_iff_exists.mp hsome
          have hpre : hsI <+: hs := by
            have := hI.hmid
            simpa [hintsOf, hgI, hgh] using this
          have hgI0 : AL.get m.mid ({ I with data := AL.set m.mid (dataOf m.s.disk m.mid) I.data } : Disk).hint =
              some hsI := hgI
          rw [fileScan_hinted hgI ?_ ix, fileScan_hinted hgI0 ?_ ix]
          · intro x hx
            have := hfit x (hpre.subset hx)
            rw [dataOf_set_same]; omega
          · intro x hx
            have := hfit x (hpre.subset hx)
            rw [he, fileSize_append]; omega
        · exact Tr.scanFile_congr (d := { I with data := AL.set m.mid (dataOf m.s.disk m.mid) I.data }) (d' := I)
            rfl (dataOf_set_other _ e _).symm (fun _ => rfl) ix
    · apply keeps_of_prefix
      · show AL.keys I.data = AL.keys (AL.set m.mid _ I.data)
        rw [Tr.keys_set_old _ _ _ hmI]
      · intro fid
        by_cases e : fid = m.mid
        · subst e; rw [dataOf_set_same, he]; exact List.prefix_append _ _
        · rw [dataOf_set_other _ e]; exact List.prefix_refl _
    · show AL.keys I.data = AL.keys (AL.set m.mid _ I.data)
      rw [Tr.keys_set_old _ _ _ hmI]

theorem hintsOf_moveDisk_mid (m : MergeSt) (k : Key) (loc : Loc) (r : Rec) :
    hintsOf (moveDisk m k loc r) m.mid =
      hintsOf m.s.disk m.mid ++ [{ ts := loc.ts, len := loc.len, pos := m.mpos, key := k }] := by
  simp [hintsOf, moveDisk, AL.get_set_same]

theorem keys_hint_moveDisk {s : St} {m : MergeSt} (h : LI s m) (k : Key) (loc : Loc) (r : Rec) :
    AL.keys (moveDisk m k loc r).hint = AL.keys m.s.disk.hint := Tr.keys_set_old _ _ _ h.mr.hmid

/-- (b) after the hint append: an image either lacks the new hint entry (then it is an image of
    the directory before), or it has both the record and the entry (then nothing of this
    iteration is lost), or it has the entry but not the complete record — then the entry does
    not fit inside the data file and the scan ignores it -/
theorem imgOk_move {s : St} {m : MergeSt} (h : LI s m) (k : Key) (loc : Loc) (r : Rec) (hlen : r.len = loc.len)
    (hmove : LI s (Tr.moveNoRoll m k loc r)) (himg : ImgOk s m.mid (halfDisk m r)) :
    ImgOk s m.mid (moveDisk m k loc r) := by
  intro I hI
  have hdata : (moveDisk m k loc r).data = (halfDisk m r).data := rfl
  have hdof : ∀ fid, dataOf (moveDisk m k loc r) fid = dataOf (halfDisk m r) fid := fun _ => rfl
  have hhm := hI.hmid
  rw [hintsOf_moveDisk_mid] at hhm
  rcases prefix_snoc hhm with hp | he
  · -- the new hint entry is lost
    apply himg I
    refine ⟨by rw [hI.keys, hdata], by rw [hI.hkeys, keys_hint_moveDisk h]; rfl, ?_, ?_, ?_, ?_, hp⟩
    · intro fid hf; rw [hI.data fid hf, hdof]
    · intro fid hf
      rw [hI.hint fid hf]
      show AL.get fid (AL.set m.mid _ m.s.disk.hint) = AL.get fid m.s.disk.hint
      exact AL.get_set_other hf _ _
    · rw [← hdof]; exact hI.dmid
    · intro r' hr'; rw [← hdof] at hr'; exact hI.tail r' hr'
  · have hdm := hI.dmid
    rw [hdof, dataOf_halfDisk_mid] at hdm
    have hsomeH : (AL.get m.mid I.hint).isSome := by
      rw [isSome_of_keys (hI.hkeys.trans (keys_hint_moveDisk h k loc r))]; exact h.mr.hmid
    rcases prefix_snoc hdm with hpd | hed
    · -- the entry is there, the record is not (completely): the entry does not fit
      have hI0 : OutImage (halfDisk m r) m.mid { I with hint := AL.set m.mid (hintsOf m.s.disk m.mid) I.hint } := by
        refine ⟨by rw [← hdata]; exact hI.keys, ?_, ?_, ?_, ?_, ?_, ?_⟩
        · show AL.keys (AL.set m.mid _ I.hint) = _
          rw [Tr.keys_set_old _ _ _ hsomeH, hI.hkeys, keys_hint_moveDisk h]; rfl
        · intro fid hf; exact (hI.data fid hf).trans (hdof fid)
        · intro fid hf
          show AL.get fid (AL.set m.mid _ I.hint) = _
          rw [AL.get_set_other hf, hI.hint fid hf]
          exact AL.get_set_other hf _ _
        · rw [← hdof]; exact hI.dmid
        · intro r' hr'; rw [← hdof] at hr'; exact hI.tail r' hr'
        · show hintsOf { I with hint := AL.set m.mid (hintsOf m.s.disk m.mid) I.hint } m.mid <+: hintsOf m.s.disk m.mid
          simp only [hintsOf, AL.get_set_same, Option.getD_some]
          exact List.prefix_refl _
      have h0 := himg _ hI0
      obtain ⟨hsI, hgI⟩ := Option.isSome_iff_exists.mp hsomeH
      have hsIe : hsI = hintsOf m.s.disk m.mid ++ [{ ts := loc.ts, len := loc.len, pos := m.mpos, key := k }] := by
        simpa [hintsOf, hgI] using he
      -- the new entry reaches beyond the data file of the image
      have hnofit : ¬ (m.mpos + loc.len ≤ fileSize (dataOf I m.mid) + tailOf I m.mid) := by
        have hlt : (dataOf I m.mid).length < (dataOf m.s.disk m.mid ++ [r]).length := by
          have := hpd.length_le
          simp only [List.length_append, List.length_singleton]; omega
        obtain ⟨r', hr'⟩ : ∃ r', (dataOf m.s.disk m.mid ++ [r])[(dataOf I m.mid).length]? = some r' :=
          ⟨_, List.getElem?_eq_getElem hlt⟩
        have htail := hI.tail r' (by rw [hdof, dataOf_halfDisk_mid]; exact hr')
        have hsz := fileSize_prefix_getElem hdm hr'
        rw [fileSize_append, fileSize_cons, fileSize_nil] at hsz
        have := h.minv.pos
        omega
      refine recoversW_extend (d := { I with hint := AL.set m.mid (hintsOf m.s.disk m.mid) I.hint }) (d' := I)
        ?_ ?_ rfl ?_ h0
      · apply rebuild_congr (d := { I with hint := AL.set m.mid (hintsOf m.s.disk m.mid) I.hint }) (d' := I)
          (Tr.sortedIds_eq_of_keys rfl)
        intro fid _ ix
        by_cases e : fid = m.mid
        · subst e
          have hgI0 : AL.get m.mid ({ I with hint := AL.set m.mid (hintsOf m.s.disk m.mid) I.hint } : Disk).hint =
              some (hintsOf m.s.disk m.mid) := AL.get_set_same _ _ _
          rw [fileScan_takeWhile hgI ix, fileScan_takeWhile hgI0 ix, hsIe]
          show ((hintsOf m.s.disk m.mid ++ [_]).takeWhile
            fun (h : Hint) => decide (h.pos + h.len ≤ fileSize (dataOf I m.mid) + tailOf I m.mid)).foldl _ _ = _
          rw [takeWhile_snoc_false]
          · rfl
          · simpa using hnofit
        · exact Tr.scanFile_congr (d := { I with hint := AL.set m.mid (hintsOf m.s.disk m.mid) I.hint }) (d' := I)
            (AL.get_set_other e _ _).symm rfl (fun _ => rfl) ix
      · exact keeps_of_prefix rfl (fun _ => List.prefix_refl _)
      · intro id hid
        show id ∈ AL.keys (AL.set m.mid _ I.hint)
        rw [Tr.keys_set_old _ _ _ hsomeH]; exact hid
    · -- both the record and the entry are there: nothing of this iteration is lost
      apply recoversW_sameFiles hmove.clean hmove.absOf
      refine ⟨hI.keys, hI.hkeys, ?_, ?_⟩
      · intro fid
        by_cases e : fid = m.mid
        · subst e
          show dataOf I m.mid = dataOf (moveDisk m k loc r) m.mid
          rw [hed, hdof, dataOf_halfDisk_mid]
        · exact hI.data fid e
      · intro fid
        by_cases e : fid = m.mid
        · subst e
          obtain ⟨hsI, hgI⟩ := Option.isSome_iff_exists.mp hsomeH
          have hsIe : hsI = hintsOf m.s.disk m.mid ++ [{ ts := loc.ts, len := loc.len, pos := m.mpos, key := k }] := by
            simpa [hintsOf, hgI] using he
          rw [hgI, hsIe]
          show _ = AL.get m.mid (AL.set m.mid _ m.s.disk.hint)
          rw [AL.get_set_same]; rfl
        · exact hI.hint fid e

end Store
